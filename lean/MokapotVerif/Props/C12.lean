import MokapotVerif.Lemmas.FitLabels
import MokapotVerif.Lemmas.FitStart
import MokapotVerif.Lemmas.FitClasses
import MokapotVerif.Lemmas.FitPredict
import MokapotVerif.Lemmas.FitSearch
/-!
# C12 — Training feeds the estimator rows and labels of the same PSM, in any order

Property theorems only.  Conventions (see `Model/Fit.lean`): position `i` of
`rows`, `targets`, `start` is PSM `i`; `perm` is the draw of
`rng.permutation(arange n)` and is universally quantified (any permutation of
`0..n-1`, i.e. any seed); `shuffle` is the `Model(shuffle=…)` switch; `est` is an
arbitrary external estimator (`fit` may depend on its previous state, `score`
is `decision_function` or `predict_proba` on one row); the number of
iterations `k`, the number of PSMs and of features are unbounded.

(Continued in `Props/C12Scores.lean`: `_get_scores`, the scaler at prediction, re-fit invariance.)

Not expressible as a theorem and covered by the correspondence run only:
"a saved and re-loaded model predicts identically" (`pickle` is an external
library; `Model.save`/`load_model` contain no logic of their own besides the
Percolator-weights probe) and "beyond solver tolerance" (real solvers).
-/
namespace Mk.Fit
variable {α β ρ θ ν π : Type}

/-- `original_idx = argsort(shuffled_idx)` undoes `shuffled_idx`: `xs[σ][argsort σ] = xs`
for every permutation σ of `0..n-1`. -/
theorem C12_perm_inverse (xs : List β) (s : List Nat) (h : s.Perm (List.range xs.length)) :
    gather (gather xs s) (argsort s) = xs := by
  rw [gather_gather xs s _ (perm_range_lt h), gather_argsort s xs.length h, gather_range]

/-- **Alignment.**  For every permutation, with shuffling on or off, for every
estimator, label rule and iteration count, the training loop is *equal* to the
bookkeeping-free loop `specGo`, in which the pair handed to `fit` for PSM `i`
is (row `i`, label `i`) and the labels are the label rule applied to the scores
in PSM order.  `order` is only the sequence in which the pairs are presented. -/
theorem C12_fit_pairs_aligned (est : Est ρ α θ) (relabel : List α → List Int) (shuffle : Bool) (perm : List Nat)
    (k : Nat) (th0 : θ) (rows : List ρ) (start : List Int)
    (hp : perm.Perm (List.range rows.length)) (hst : start.length = rows.length)
    (hrel : ∀ sc : List α, sc.length = rows.length → (relabel sc).length = rows.length) :
    fitLoop est relabel shuffle perm k th0 rows start
      = specGo est relabel (if shuffle then perm else List.range rows.length) rows k th0 start :=
  fitLoop_eq_specGo est relabel shuffle perm k th0 rows start hp hst hrel

/-- the multiset form of the alignment statement: the `j`-th `fit` call receives a
permutation of `{(row i, label i = +1) | label i ≠ 0}` (`trainSet rows L`, all in
PSM order), where `L` is the start labels for `j = 0` and otherwise the label
rule applied to the PSM-ordered scores of the estimator state after `j` fits -/
theorem C12_fit_multiset (est : Est ρ α θ) (relabel : List α → List Int) (shuffle : Bool) (perm : List Nat)
    (k : Nat) (th0 : θ) (rows : List ρ) (start : List Int)
    (hp : perm.Perm (List.range rows.length)) (hst : start.length = rows.length)
    (hrel : ∀ sc : List α, sc.length = rows.length → (relabel sc).length = rows.length) (j : Nat)
    (hj : j < (fitLoop est relabel shuffle perm k th0 rows start).trace.length) :
    ∃ s, (fitLoop est relabel shuffle perm k th0 rows start).trace[j]? = some s ∧
      s.Perm (trainSet rows (if j = 0 then start else relabel (rows.map (est.score
        (thetaAfter est th0 (fitLoop est relabel shuffle perm k th0 rows start).trace j))))) := by
  rw [C12_fit_pairs_aligned est relabel shuffle perm k th0 rows start hp hst hrel] at hj ⊢
  refine ⟨_, specGo_trace_get _ _ _ _ _ _ _ j hj, ?_⟩
  apply filterMap_pairAt_perm rows _ _ rows.length _ rfl
  · split
    · exact hst
    · exact hrel _ (by simp)
  · cases shuffle
    · exact List.Perm.refl _
    · exact hp

/-- **Every iteration.**  With mokapot's label rule: the `j`-th `fit` call
(0-based) receives, in presentation order, exactly the pairs
(row of PSM `i`, class of PSM `i`) where for `j = 0` the classes come from the
start labels and for `j ≥ 1` from the declarative label of PSM `i` under the
scores that the estimator state after `j` fits gives to the rows in PSM order. -/
theorem C12_every_iteration_exact (est : Est ρ α θ) (le : α → α → Bool) (hle : TotalPre le) (thr : Rat)
    (shuffle : Bool) (perm : List Nat) (k : Nat) (th0 : θ) (rows : List ρ) (targets : List Bool)
    (start : List Int) (hp : perm.Perm (List.range rows.length)) (hst : start.length = rows.length)
    (ht : targets.length = rows.length) (j : Nat)
    (hj : j < (fitLoop est (tdcRelabel le thr targets) shuffle perm k th0 rows start).trace.length) :
    (fitLoop est (tdcRelabel le thr targets) shuffle perm k th0 rows start).trace[j]? =
      some ((if shuffle then perm else List.range rows.length).filterMap (pairAt rows
        (if j = 0 then start else
          let scores := rows.map (est.score (thetaAfter est th0
            (fitLoop est (tdcRelabel le thr targets) shuffle perm k th0 rows start).trace j))
          (scores.zip targets).map (labelSpec le thr (scores.zip targets))))) := by
  have hrel : ∀ sc : List α, sc.length = rows.length → (tdcRelabel le thr targets sc).length = rows.length := by
    intro sc hsc; rw [tdcRelabel_length, hsc, ht]; simp
  have heq := C12_fit_pairs_aligned est (tdcRelabel le thr targets) shuffle perm k th0 rows start hp hst hrel
  rw [heq] at hj ⊢
  rw [specGo_trace_get _ _ _ _ _ _ _ j hj]
  simp only [tdcRelabel_eq_spec le hle]

/-- **Positives are exactly the accepted targets, negatives exactly the decoys.**
Under the declarative labels of the scores `scores` (PSM order), PSM `i`
contributes the pair `(r, b)` iff `r` is its row and either it is a target
whose q-value (the defining formula `qSpec` of C01, `desc=True`) is at most
the training FDR and `b = true`, or it is a decoy and `b = false`. -/
theorem C12_positives_negatives_exact (le : α → α → Bool) (thr : Rat) (rows : List ρ) (scores : List α)
    (targets : List Bool) (i : Nat) (r : ρ) (b : Bool) :
    pairAt rows ((scores.zip targets).map (labelSpec le thr (scores.zip targets))) i = some (r, b) ↔
      ∃ s t, rows[i]? = some r ∧ scores[i]? = some s ∧ targets[i]? = some t ∧
        ((b = true ∧ t = true ∧ qSpec le (scores.zip targets) s ≤ thr) ∨ (b = false ∧ t = false)) := by
  unfold pairAt
  simp only [getElem?_zip', List.getElem?_map]
  cases hr : rows[i]? with
  | none => simp
  | some r' =>
    cases hs : scores[i]? with
    | none => simp
    | some s =>
      cases ht : targets[i]? with
      | none => simp
      | some t =>
        cases t <;> cases b <;> simp [pairOf, labelSpec]
        all_goals (intro h _; exact h)

/-- **Shuffle invariance.**  If the estimator's `fit` does not depend on the order
of its training examples, the final estimator state and `num_passed[-1]`
(and whether training aborted) are the same for any two permutations and any
two settings of the shuffle switch; the training sets of corresponding
iterations are permutations of each other. -/
theorem C12_fit_shuffle_invariant (est : Est ρ α θ) (hfit : PermInvariant est) (relabel : List α → List Int)
    (sh1 sh2 : Bool) (perm1 perm2 : List Nat) (k : Nat) (th0 : θ) (rows : List ρ) (start : List Int)
    (hp1 : perm1.Perm (List.range rows.length)) (hp2 : perm2.Perm (List.range rows.length))
    (hst : start.length = rows.length)
    (hrel : ∀ sc : List α, sc.length = rows.length → (relabel sc).length = rows.length) :
    (fitLoop est relabel sh1 perm1 k th0 rows start).final = (fitLoop est relabel sh2 perm2 k th0 rows start).final ∧
    List.Forall₂ List.Perm (fitLoop est relabel sh1 perm1 k th0 rows start).trace
      (fitLoop est relabel sh2 perm2 k th0 rows start).trace := by
  rw [C12_fit_pairs_aligned est relabel sh1 perm1 k th0 rows start hp1 hst hrel,
    C12_fit_pairs_aligned est relabel sh2 perm2 k th0 rows start hp2 hst hrel]
  apply specGo_order_invariant est hfit relabel
  have h1 : (if sh1 = true then perm1 else List.range rows.length).Perm (List.range rows.length) := by
    split; exact hp1; exact List.Perm.refl _
  have h2 : (if sh2 = true then perm2 else List.range rows.length).Perm (List.range rows.length) := by
    split; exact hp2; exact List.Perm.refl _
  exact h1.trans h2.symm

/-- **Row-order invariance.**  Present the same PSMs in another input order `p`
(rows, target flags and start labels permuted together): for an
order-insensitive `fit` the final estimator state is the same, whatever the two
shuffle settings and draws. -/
theorem C12_row_order_invariant (est : Est ρ α θ) (hfit : PermInvariant est) (le : α → α → Bool)
    (hle : TotalPre le) (thr : Rat) (sh1 sh2 : Bool) (perm1 perm2 p : List Nat) (k : Nat) (th0 : θ)
    (rows : List ρ) (targets : List Bool) (start : List Int)
    (hp1 : perm1.Perm (List.range rows.length)) (hp2 : perm2.Perm (List.range rows.length))
    (hp : p.Perm (List.range rows.length)) (hst : start.length = rows.length)
    (ht : targets.length = rows.length) :
    (fitLoop est (tdcRelabel le thr (gather targets p)) sh1 perm1 k th0 (gather rows p) (gather start p)).final
      = (fitLoop est (tdcRelabel le thr targets) sh2 perm2 k th0 rows start).final ∧
    List.Forall₂ List.Perm
      (fitLoop est (tdcRelabel le thr (gather targets p)) sh1 perm1 k th0 (gather rows p) (gather start p)).trace
      (fitLoop est (tdcRelabel le thr targets) sh2 perm2 k th0 rows start).trace := by
  have hlt := perm_range_lt hp
  have hplen : p.length = rows.length := by simpa using hp.length_eq
  have hgr : (gather rows p).length = rows.length := by rw [gather_length rows p hlt, hplen]
  have hgt : (gather targets p).length = rows.length := by
    rw [gather_length targets p (by rw [ht]; exact hlt), hplen]
  have hgs : (gather start p).length = rows.length := by
    rw [gather_length start p (by rw [hst]; exact hlt), hplen]
  have hrel : ∀ sc : List α, sc.length = rows.length → (tdcRelabel le thr targets sc).length = rows.length := by
    intro sc hsc; rw [tdcRelabel_length, hsc, ht]; simp
  have hrel' : ∀ sc : List α, sc.length = (gather rows p).length →
      (tdcRelabel le thr (gather targets p) sc).length = (gather rows p).length := by
    intro sc hsc; rw [tdcRelabel_length, hsc, hgt, hgr]; simp
  rw [C12_fit_pairs_aligned est _ sh1 perm1 k th0 (gather rows p) (gather start p) (by rw [hgr]; exact hp1)
      (by rw [hgs, hgr]) hrel',
    C12_fit_pairs_aligned est _ sh2 perm2 k th0 rows start hp2 hst hrel]
  apply specGo_row_perm est hfit (tdcRelabel le thr targets) (tdcRelabel le thr (gather targets p)) p rows.length hp
    rows rfl hrel
  · intro sc hsc
    exact tdcRelabel_equivariant le hle thr targets sc p rows.length hp ht hsc
  · split; exact hp2; exact List.Perm.refl _
  · rw [hgr]; split; exact hp1; exact List.Perm.refl _
  · exact hst

/-- **`Model.fit` as a whole** (checks, start labels, loop, final check): for an
order-insensitive estimator the outcome (`ok` / which error) and the learned
state do not depend on the shuffle switch nor on the permutation drawn. -/
theorem C12_fitModel_shuffle_invariant (est : Est ρ α θ) (hfit : PermInvariant est) (le : α → α → Bool)
    (thr : Rat) (cfg1 cfg2 : FitCfg) (hit : cfg1.maxIter = cfg2.maxIter) (hov : cfg1.override = cfg2.override)
    (hdir : cfg1.direction = cfg2.direction) (th0 : θ) (rows : List ρ) (cols : List (List α))
    (targets : List Bool) (hr : rows.length = targets.length) (hc : ∀ c ∈ cols, c.length = targets.length)
    (hp1 : cfg1.perm.Perm (List.range rows.length)) (hp2 : cfg2.perm.Perm (List.range rows.length)) :
    (fitModel est le thr cfg1 th0 rows cols targets).status = (fitModel est le thr cfg2 th0 rows cols targets).status ∧
    (fitModel est le thr cfg1 th0 rows cols targets).theta = (fitModel est le thr cfg2 th0 rows cols targets).theta ∧
    List.Forall₂ List.Perm (fitModel est le thr cfg1 th0 rows cols targets).trace
      (fitModel est le thr cfg2 th0 rows cols targets).trace := by
  unfold fitModel
  split
  · exact ⟨rfl, rfl, List.Forall₂.nil⟩
  split
  · exact ⟨rfl, rfl, List.Forall₂.nil⟩
  rw [← hdir]
  cases hst : startLabels le thr targets cols cfg1.direction with
  | none => exact ⟨rfl, rfl, List.Forall₂.nil⟩
  | some st =>
    simp only [Option.map_some, Option.getD_some, runFrom, ← hit, ← hov]
    split
    · exact ⟨rfl, rfl, List.Forall₂.nil⟩
    have hlen : st.labels.length = rows.length := by
      rw [hr]; exact startLabels_length le thr targets cols _ hc st hst
    have hrel : ∀ sc : List α, sc.length = rows.length → (tdcRelabel le thr targets sc).length = rows.length := by
      intro sc hsc; rw [tdcRelabel_length, hsc, hr]; simp
    obtain ⟨h1, h2⟩ := C12_fit_shuffle_invariant est hfit (tdcRelabel le thr targets) cfg1.shuffle cfg2.shuffle
      cfg1.perm cfg2.perm cfg1.maxIter th0 rows st.labels hp1 hp2 hlen hrel
    unfold afterLoop
    rw [← h1]
    cases (fitLoop est (tdcRelabel le thr targets) cfg1.shuffle cfg1.perm cfg1.maxIter th0 rows st.labels).final with
    | none => exact ⟨rfl, rfl, h2⟩
    | some res =>
      simp only [Option.map_some, Option.getD_some, finish]
      split
      · exact ⟨rfl, rfl, h2⟩
      · exact ⟨rfl, rfl, h2⟩

/-- **`Model.fit` as a whole, any input row order.**  Present the same PSMs in
another row order `p` (rows, feature columns and target flags permuted
together), with any shuffle switch / draw on either side: for an
order-insensitive estimator the outcome and the learned state are the same, and
corresponding `fit` calls receive the same multiset of (row, class) pairs. -/
theorem C12_fitModel_row_order_invariant (est : Est ρ α θ) (hfit : PermInvariant est) (le : α → α → Bool)
    (hle : TotalPre le) (thr : Rat) (cfg1 cfg2 : FitCfg) (hit : cfg1.maxIter = cfg2.maxIter)
    (hov : cfg1.override = cfg2.override) (hdir : cfg1.direction = cfg2.direction) (th0 : θ) (rows : List ρ)
    (cols : List (List α)) (targets : List Bool) (p : List Nat)
    (hr : rows.length = targets.length) (hc : ∀ c ∈ cols, c.length = targets.length)
    (hp : p.Perm (List.range rows.length))
    (hp1 : cfg1.perm.Perm (List.range rows.length)) (hp2 : cfg2.perm.Perm (List.range rows.length)) :
    let permuted := fitModel est le thr cfg1 th0 (gather rows p) (cols.map (fun c => gather c p)) (gather targets p)
    let original := fitModel est le thr cfg2 th0 rows cols targets
    permuted.status = original.status ∧ permuted.theta = original.theta ∧
      List.Forall₂ List.Perm permuted.trace original.trace := by
  intro permuted original
  have hpt : p.Perm (List.range targets.length) := by rw [← hr]; exact hp
  show (fitModel est le thr cfg1 th0 (gather rows p) (cols.map (fun c => gather c p)) (gather targets p)).status
      = (fitModel est le thr cfg2 th0 rows cols targets).status ∧
    (fitModel est le thr cfg1 th0 (gather rows p) (cols.map (fun c => gather c p)) (gather targets p)).theta
      = (fitModel est le thr cfg2 th0 rows cols targets).theta ∧
    List.Forall₂ List.Perm
      (fitModel est le thr cfg1 th0 (gather rows p) (cols.map (fun c => gather c p)) (gather targets p)).trace
      (fitModel est le thr cfg2 th0 rows cols targets).trace
  unfold fitModel
  rw [all_gather targets p hpt, all_gather targets p hpt]
  split
  · exact ⟨rfl, rfl, List.Forall₂.nil⟩
  split
  · exact ⟨rfl, rfl, List.Forall₂.nil⟩
  rw [startLabels_gather le hle thr targets cols hc p hpt, ← hdir]
  cases hst : startLabels le thr targets cols cfg1.direction with
  | none => exact ⟨rfl, rfl, List.Forall₂.nil⟩
  | some st =>
    simp only [Option.map_some, Option.getD_some, runFrom, ← hit, ← hov]
    split
    · exact ⟨rfl, rfl, List.Forall₂.nil⟩
    have hlen : st.labels.length = rows.length := by
      rw [hr]; exact startLabels_length le thr targets cols _ hc st hst
    obtain ⟨h1, h2⟩ := C12_row_order_invariant est hfit le hle thr cfg1.shuffle cfg2.shuffle cfg1.perm cfg2.perm p
      cfg1.maxIter th0 rows targets st.labels hp1 hp2 hp hlen hr.symm
    unfold afterLoop
    rw [h1]
    cases (fitLoop est (tdcRelabel le thr targets) cfg2.shuffle cfg2.perm cfg1.maxIter th0 rows st.labels).final with
    | none => exact ⟨rfl, rfl, h2⟩
    | some res =>
      simp only [Option.map_some, Option.getD_some, finish]
      rw [numPos_gather st.labels p (by rw [hlen]; exact hp)]
      split
      · exact ⟨rfl, rfl, h2⟩
      · exact ⟨rfl, rfl, h2⟩

/-- every training set handed to the estimator contains at least one positive and at
least one negative example, provided the dataset has a decoy and the start
labels accept a target and mark the decoys −1 (what `_get_starting_labels`
guarantees on success) — so the estimator is never asked to fit one class. -/
theorem C12_both_classes_present (est : Est ρ α θ) (le : α → α → Bool) (hle : TotalPre le) (thr : Rat)
    (shuffle : Bool) (perm : List Nat) (k : Nat) (th0 : θ) (rows : List ρ) (targets : List Bool)
    (start : List Int) (hp : perm.Perm (List.range rows.length)) (hst : start.length = rows.length)
    (ht : targets.length = rows.length) (hd : false ∈ targets) (hpos : 0 < numPos start)
    (hdec : ∀ i : Nat, targets[i]? = some false → start[i]? = some (-1)) :
    ∀ s ∈ (fitLoop est (tdcRelabel le thr targets) shuffle perm k th0 rows start).trace,
      (∃ r, (r, true) ∈ s) ∧ (∃ r, (r, false) ∈ s) := by
  have hrel : ∀ sc : List α, sc.length = rows.length → (tdcRelabel le thr targets sc).length = rows.length := by
    intro sc hsc; rw [tdcRelabel_length, hsc, ht]; simp
  rw [C12_fit_pairs_aligned est _ shuffle perm k th0 rows start hp hst hrel]
  apply specGo_both_classes est le hle thr targets _ rows rows.length rfl ht _ hd k th0 start hst hpos hdec
  cases shuffle
  · exact List.Perm.refl _
  · exact hp

/-- **Iterations.**  With no hypothesis at all: the loop calls `fit` exactly
`max_iter` times when it completes, and between 1 and `max_iter` times when an
iteration accepts no target (the `RuntimeError`). -/
theorem C12_iterations (est : Est ρ α θ) (relabel : List α → List Int) (shuffle : Bool) (perm : List Nat)
    (k : Nat) (th0 : θ) (rows : List ρ) (start : List Int) :
    ((fitLoop est relabel shuffle perm k th0 rows start).final.isSome →
        (fitLoop est relabel shuffle perm k th0 rows start).trace.length = k) ∧
    ((fitLoop est relabel shuffle perm k th0 rows start).final = none →
        1 ≤ (fitLoop est relabel shuffle perm k th0 rows start).trace.length ∧
        (fitLoop est relabel shuffle perm k th0 rows start).trace.length ≤ k) := by
  unfold fitLoop
  exact loopGo_trace_length est relabel _ _ _ k th0 _

/-- **Prediction by name.**  `Model.predict` returns the same scores for every
arrangement of the feature columns of the dataset (distinct column names). -/
theorem C12_predict_by_name [DecidableEq ν] (score : List β → α) (stored : List ν) (n : Nat)
    (cols cols' : List (ν × List β)) (h : cols'.Perm cols) (hnd : (cols.map (·.1)).Nodup) :
    predictByName score stored n cols' = predictByName score stored n cols := by
  unfold predictByName
  rw [selectByName_perm stored h hnd]

/-- what is selected: position `j` of the matrix handed to the estimator is the
column whose *name* is the `j`-th stored feature name -/
theorem C12_predict_by_name_spec [DecidableEq ν] (stored : List ν) (cols : List (ν × β)) (sel : List β)
    (h : selectByName stored cols = some sel) : List.Forall₂ (fun name v => (name, v) ∈ cols) stored sel :=
  selectByName_spec stored cols sel h

/-- with the columns in the training order, selection is the identity -/
theorem C12_predict_same_order [DecidableEq ν] (score : List β → α) (n : Nat) (cols : List (ν × List β))
    (hnd : (cols.map (·.1)).Nodup) :
    predictByName score (cols.map (·.1)) n cols = some ((rowsOf n (cols.map (·.2))).map score) := by
  unfold predictByName
  rw [selectByName_self cols hnd]
  rfl

/-- prediction is refused (`ValueError`) exactly when the set of feature names differs -/
theorem C12_predict_rejects_iff [DecidableEq ν] (score : List β → α) (stored : List ν) (n : Nat)
    (cols : List (ν × List β)) :
    predictByName score stored n cols = none ↔ ¬ ∀ x, x ∈ cols.map (·.1) ↔ x ∈ stored := by
  unfold predictByName
  rw [Option.map_eq_none_iff, selectByName_none_iff]

/-- **Re-fitting a trained model.**  The start labels of `Model.fit` on an already
trained model come from scores matched by stored feature *name*: the whole
outcome is the same for every arrangement of the (old-scaled) named feature
columns. -/
theorem C12_refit_start_by_name [DecidableEq ν] (est : Est (List β) α θ) (le : α → α → Bool) (thr : Rat)
    (cfg : FitCfg) (th : θ) (rows : List (List β)) (targets : List Bool) (stored : List ν)
    (named named' : List (ν × List β)) (h : named'.Perm named) (hnd : (named.map (·.1)).Nodup) :
    refitModel est le thr cfg th rows targets stored named' = refitModel est le thr cfg th rows targets stored named := by
  unfold refitModel
  rw [C12_predict_by_name (est.score th) stored targets.length named named' h hnd]

/-- after the start labels, a re-fit is the same aligned loop: the alignment and
invariance theorems above apply to it verbatim (`refitFrom` is `runFrom` on the
labels of the by-name scores) -/
theorem C12_refit_is_aligned_loop (est : Est ρ α θ) (le : α → α → Bool) (thr : Rat) (cfg : FitCfg) (th : θ)
    (rows : List ρ) (targets : List Bool) (scores : List α) (hit : cfg.maxIter ≠ 0)
    (hpos : numPos (tdcRelabel le thr targets scores) ≠ 0)
    (hp : cfg.perm.Perm (List.range rows.length)) (hs : scores.length = rows.length)
    (ht : targets.length = rows.length) :
    (refitFrom est le thr cfg th rows targets scores).trace
      = (specGo est (tdcRelabel le thr targets) (if cfg.shuffle then cfg.perm else List.range rows.length) rows
          cfg.maxIter th (tdcRelabel le thr targets scores)).trace := by
  have hrel : ∀ sc : List α, sc.length = rows.length → (tdcRelabel le thr targets sc).length = rows.length := by
    intro sc hsc; rw [tdcRelabel_length, hsc, ht]; simp
  unfold refitFrom trainedStart
  rw [if_neg hpos]
  simp only [Option.map_some, Option.getD_some, runFrom, if_neg hit]
  rw [C12_fit_pairs_aligned est _ cfg.shuffle cfg.perm cfg.maxIter th rows _ hp (hrel scores hs) hrel]
  unfold afterLoop
  cases (specGo est (tdcRelabel le thr targets) (if cfg.shuffle then cfg.perm else List.range rows.length) rows
      cfg.maxIter th (tdcRelabel le thr targets scores)).final with
  | none => rfl
  | some res =>
    simp only [Option.map_some, Option.getD_some, finish]
    split <;> rfl

/-! ## The hyper-parameter search (`_find_hyperparameters`) in front of the loop

`hs : HyperSearch ρ θ π` is an arbitrary search (`search` = GridSearchCV & co. as a black-box
function of the example list, `configure` = `set_params(**best_params_)`), `needsCv` the
`_needs_cv` flag.  `fitLoopCv` / `fitModelCv` are `fitLoop` / `fitModel` preceded by that step,
with the data flow of the code (shuffled features *and* shuffled start labels go to the search). -/

/-- **Search alignment.**  For every permutation, shuffle on or off, any search function: the
example list handed to the search is exactly the σ'-arrangement (σ' = the permutation actually
applied, the identity when shuffling is off) of the pairs (row of PSM `i`, start label of PSM `i`
is +1) over the PSMs with a non-zero start label — hence a permutation of the PSM-ordered
`trainSet rows start`; every example is the row of some PSM with the class of that same PSM. -/
theorem C12_search_pairs_aligned (hs : HyperSearch ρ θ π) (needsCv : Bool) (est : Est ρ α θ)
    (relabel : List α → List Int) (shuffle : Bool) (perm : List Nat) (k : Nat) (th0 : θ) (rows : List ρ)
    (start : List Int) (hp : perm.Perm (List.range rows.length)) (hst : start.length = rows.length) :
    ∀ ex ∈ (fitLoopCv hs needsCv est relabel shuffle perm k th0 rows start).searches,
      ex = (if shuffle then perm else List.range rows.length).filterMap (pairAt rows start) ∧
      ex.Perm (trainSet rows start) ∧
      ∀ p : ρ × Bool, p ∈ ex ↔
        ∃ (i : Nat) (l : Int), rows[i]? = some p.1 ∧ start[i]? = some l ∧ l ≠ 0 ∧ p.2 = (l == 1) := by
  intro ex hex
  rw [fitLoopCv_eq hs needsCv est relabel shuffle perm k th0 rows start hp hst] at hex
  have hperm := appliedOrder_perm shuffle perm rows.length hp
  have hex' : ex = cvSpec (appliedOrder shuffle perm rows.length) rows start := by
    simp only at hex
    split at hex
    · simpa using hex
    · simp at hex
  subst hex'
  refine ⟨rfl, filterMap_pairAt_perm rows start _ rows.length hperm rfl hst, ?_⟩
  intro p
  rw [mem_cvSpec]
  constructor
  · rintro ⟨i, _, hi⟩
    obtain ⟨l, h⟩ := (pairAt_eq_some_iff rows start i p).mp hi
    exact ⟨i, l, h⟩
  · rintro ⟨i, l, h⟩
    refine ⟨i, ?_, (pairAt_eq_some_iff rows start i p).mpr ⟨l, h⟩⟩
    have hi : i < rows.length := by
      by_contra hc
      rw [List.getElem?_eq_none (by omega)] at h
      exact absurd h.1 (by simp)
    exact hperm.mem_iff.mpr (List.mem_range.mpr hi)

/-- **The search runs iff `_needs_cv`, exactly once, before the first loop fit.**  The list of
search calls is `[examples]` when `needsCv` and empty otherwise; the loop that follows is the
loop of `C12_fit_pairs_aligned` started from the estimator state the search configured (so the
first loop `fit` receives the outcome of the search) resp. from the untouched estimator; and
`_needs_cv` is off afterwards (a later `fit` does not search again). -/
theorem C12_search_once (hs : HyperSearch ρ θ π) (needsCv : Bool) (est : Est ρ α θ)
    (relabel : List α → List Int) (shuffle : Bool) (perm : List Nat) (k : Nat) (th0 : θ) (rows : List ρ)
    (start : List Int) (hp : perm.Perm (List.range rows.length)) (hst : start.length = rows.length) :
    (fitLoopCv hs needsCv est relabel shuffle perm k th0 rows start).searches
      = (if needsCv then [cvSpec (if shuffle then perm else List.range rows.length) rows start] else []) ∧
    (fitLoopCv hs needsCv est relabel shuffle perm k th0 rows start).loop
      = fitLoop est relabel shuffle perm k
          (if needsCv then
            hs.configure (hs.search (cvSpec (if shuffle then perm else List.range rows.length) rows start)) th0
           else th0) rows start ∧
    (fitLoopCv hs needsCv est relabel shuffle perm k th0 rows start).needsCv = false := by
  rw [fitLoopCv_eq hs needsCv est relabel shuffle perm k th0 rows start hp hst]
  exact ⟨rfl, rfl, rfl⟩

/-- the number of search calls needs no hypothesis at all -/
theorem C12_search_count (hs : HyperSearch ρ θ π) (needsCv : Bool) (est : Est ρ α θ)
    (relabel : List α → List Int) (shuffle : Bool) (perm : List Nat) (k : Nat) (th0 : θ) (rows : List ρ)
    (start : List Int) :
    (fitLoopCv hs needsCv est relabel shuffle perm k th0 rows start).searches.length = (if needsCv then 1 else 0) := by
  show (findHyper hs needsCv th0 _ _).searches.length = _
  rw [findHyper_searches]
  split <;> rfl

/-- with `_needs_cv` off, `Model.fit` with the search step *is* the `fitModel` of the theorems above
(no search call, no hypothesis) -/
theorem C12_search_off (hs : HyperSearch ρ θ π) (est : Est ρ α θ) (le : α → α → Bool) (thr : Rat)
    (cfg : FitCfg) (th0 : θ) (rows : List ρ) (cols : List (List α)) (targets : List Bool) :
    fitModelCv hs false est le thr cfg th0 rows cols targets = ⟨[], false, fitModel est le thr cfg th0 rows cols targets⟩ := by
  unfold fitModelCv fitModel
  split
  · rfl
  split
  · rfl
  cases startLabels le thr targets cols cfg.direction with
  | none => rfl
  | some st => rfl

/-- in `Model.fit` as a whole the search is reached iff the start labels were found; then what
follows is `runFrom` (zero-iteration check, loop, final check) on the configured estimator -/
theorem C12_search_then_fit (hs : HyperSearch ρ θ π) (needsCv : Bool) (est : Est ρ α θ) (le : α → α → Bool)
    (thr : Rat) (cfg : FitCfg) (th0 : θ) (rows : List ρ) (targets : List Bool) (st : Start)
    (hp : cfg.perm.Perm (List.range rows.length)) (hst : st.labels.length = rows.length) :
    runFromCv hs needsCv est le thr cfg th0 rows targets st
      = ⟨if needsCv then [cvSpec (if cfg.shuffle then cfg.perm else List.range rows.length) rows st.labels] else [],
          false,
          runFrom est le thr cfg
            (cvTheta hs needsCv th0 (cvSpec (if cfg.shuffle then cfg.perm else List.range rows.length) rows st.labels))
            rows targets st⟩ := by
  unfold runFromCv runFrom
  rw [fitLoopCv_eq hs needsCv est _ cfg.shuffle cfg.perm cfg.maxIter th0 rows st.labels hp hst]
  rfl

/-- **The chosen hyper-parameters do not depend on the shuffle.**  If the search ignores the order
of its examples, it returns the same parameters for any two permutations and any two settings of
the shuffle switch. -/
theorem C12_search_shuffle_invariant (hs : HyperSearch ρ θ π) (hsearch : SearchPermInvariant hs)
    (needsCv : Bool) (est : Est ρ α θ) (relabel : List α → List Int) (sh1 sh2 : Bool) (perm1 perm2 : List Nat)
    (k : Nat) (th0 : θ) (rows : List ρ) (start : List Int)
    (hp1 : perm1.Perm (List.range rows.length)) (hp2 : perm2.Perm (List.range rows.length))
    (hst : start.length = rows.length) :
    (∀ ex1 ∈ (fitLoopCv hs needsCv est relabel sh1 perm1 k th0 rows start).searches,
      ∀ ex2 ∈ (fitLoopCv hs needsCv est relabel sh2 perm2 k th0 rows start).searches,
        ex1.Perm ex2 ∧ hs.search ex1 = hs.search ex2) ∧
    List.Forall₂ List.Perm (fitLoopCv hs needsCv est relabel sh1 perm1 k th0 rows start).searches
      (fitLoopCv hs needsCv est relabel sh2 perm2 k th0 rows start).searches := by
  have h1 := C12_search_pairs_aligned hs needsCv est relabel sh1 perm1 k th0 rows start hp1 hst
  have h2 := C12_search_pairs_aligned hs needsCv est relabel sh2 perm2 k th0 rows start hp2 hst
  constructor
  · intro ex1 hex1 ex2 hex2
    have hperm : ex1.Perm ex2 := (h1 ex1 hex1).2.1.trans (h2 ex2 hex2).2.1.symm
    exact ⟨hperm, hsearch _ _ hperm⟩
  · rw [(C12_search_once hs needsCv est relabel sh1 perm1 k th0 rows start hp1 hst).1,
      (C12_search_once hs needsCv est relabel sh2 perm2 k th0 rows start hp2 hst).1]
    split
    · refine List.Forall₂.cons ?_ List.Forall₂.nil
      apply List.Perm.filterMap
      exact (appliedOrder_perm sh1 perm1 rows.length hp1).trans (appliedOrder_perm sh2 perm2 rows.length hp2).symm
    · exact List.Forall₂.nil

/-- **Search + loop.**  Order-insensitive search and order-insensitive `fit`: the final estimator
state, `num_passed[-1]`, whether training aborted and the flag are the same for any two
permutations / shuffle settings; corresponding search and `fit` calls receive permutations of the
same examples. -/
theorem C12_fitLoopCv_shuffle_invariant (hs : HyperSearch ρ θ π) (hsearch : SearchPermInvariant hs)
    (needsCv : Bool) (est : Est ρ α θ) (hfit : PermInvariant est) (relabel : List α → List Int) (sh1 sh2 : Bool)
    (perm1 perm2 : List Nat) (k : Nat) (th0 : θ) (rows : List ρ) (start : List Int)
    (hp1 : perm1.Perm (List.range rows.length)) (hp2 : perm2.Perm (List.range rows.length))
    (hst : start.length = rows.length)
    (hrel : ∀ sc : List α, sc.length = rows.length → (relabel sc).length = rows.length) :
    (fitLoopCv hs needsCv est relabel sh1 perm1 k th0 rows start).loop.final
      = (fitLoopCv hs needsCv est relabel sh2 perm2 k th0 rows start).loop.final ∧
    List.Forall₂ List.Perm (fitLoopCv hs needsCv est relabel sh1 perm1 k th0 rows start).loop.trace
      (fitLoopCv hs needsCv est relabel sh2 perm2 k th0 rows start).loop.trace ∧
    List.Forall₂ List.Perm (fitLoopCv hs needsCv est relabel sh1 perm1 k th0 rows start).searches
      (fitLoopCv hs needsCv est relabel sh2 perm2 k th0 rows start).searches ∧
    (fitLoopCv hs needsCv est relabel sh1 perm1 k th0 rows start).needsCv
      = (fitLoopCv hs needsCv est relabel sh2 perm2 k th0 rows start).needsCv := by
  have hS := (C12_search_shuffle_invariant hs hsearch needsCv est relabel sh1 sh2 perm1 perm2 k th0 rows start
    hp1 hp2 hst).2
  refine ⟨?_, ?_, hS, ?_⟩
  all_goals
    rw [fitLoopCv_eq hs needsCv est relabel sh1 perm1 k th0 rows start hp1 hst,
      fitLoopCv_eq hs needsCv est relabel sh2 perm2 k th0 rows start hp2 hst]
  all_goals
    have hth : cvTheta hs needsCv th0 (cvSpec (appliedOrder sh1 perm1 rows.length) rows start)
        = cvTheta hs needsCv th0 (cvSpec (appliedOrder sh2 perm2 rows.length) rows start) := by
      unfold cvTheta
      split
      · rw [hsearch _ _ (cvSpec_perm
          ((appliedOrder_perm sh1 perm1 rows.length hp1).trans (appliedOrder_perm sh2 perm2 rows.length hp2).symm)
          rows start)]
      · rfl
    simp only [hth]
  · exact (C12_fit_shuffle_invariant est hfit relabel sh1 sh2 perm1 perm2 k _ rows start hp1 hp2 hst hrel).1
  · exact (C12_fit_shuffle_invariant est hfit relabel sh1 sh2 perm1 perm2 k _ rows start hp1 hp2 hst hrel).2

/-- **`Model.fit` as a whole, with the search step** (checks, start labels, shuffle, search, loop,
final check): for an order-insensitive search and an order-insensitive estimator the outcome
(`ok` / which error), the learned state, the `_needs_cv` flag and — as multisets — the examples
of every search and `fit` call do not depend on the shuffle switch nor on the permutation drawn.
Extends `C12_fitModel_shuffle_invariant`. -/
theorem C12_fitModelCv_shuffle_invariant (hs : HyperSearch ρ θ π) (hsearch : SearchPermInvariant hs)
    (needsCv : Bool) (est : Est ρ α θ) (hfit : PermInvariant est) (le : α → α → Bool)
    (thr : Rat) (cfg1 cfg2 : FitCfg) (hit : cfg1.maxIter = cfg2.maxIter) (hov : cfg1.override = cfg2.override)
    (hdir : cfg1.direction = cfg2.direction) (th0 : θ) (rows : List ρ) (cols : List (List α))
    (targets : List Bool) (hr : rows.length = targets.length) (hc : ∀ c ∈ cols, c.length = targets.length)
    (hp1 : cfg1.perm.Perm (List.range rows.length)) (hp2 : cfg2.perm.Perm (List.range rows.length)) :
    (fitModelCv hs needsCv est le thr cfg1 th0 rows cols targets).out.status
      = (fitModelCv hs needsCv est le thr cfg2 th0 rows cols targets).out.status ∧
    (fitModelCv hs needsCv est le thr cfg1 th0 rows cols targets).out.theta
      = (fitModelCv hs needsCv est le thr cfg2 th0 rows cols targets).out.theta ∧
    List.Forall₂ List.Perm (fitModelCv hs needsCv est le thr cfg1 th0 rows cols targets).out.trace
      (fitModelCv hs needsCv est le thr cfg2 th0 rows cols targets).out.trace ∧
    List.Forall₂ List.Perm (fitModelCv hs needsCv est le thr cfg1 th0 rows cols targets).searches
      (fitModelCv hs needsCv est le thr cfg2 th0 rows cols targets).searches ∧
    (fitModelCv hs needsCv est le thr cfg1 th0 rows cols targets).needsCv
      = (fitModelCv hs needsCv est le thr cfg2 th0 rows cols targets).needsCv := by
  unfold fitModelCv
  split
  · exact ⟨rfl, rfl, List.Forall₂.nil, List.Forall₂.nil, rfl⟩
  split
  · exact ⟨rfl, rfl, List.Forall₂.nil, List.Forall₂.nil, rfl⟩
  rw [← hdir]
  cases hst : startLabels le thr targets cols cfg1.direction with
  | none => exact ⟨rfl, rfl, List.Forall₂.nil, List.Forall₂.nil, rfl⟩
  | some st =>
    have hlen : st.labels.length = rows.length := by
      rw [hr]; exact startLabels_length le thr targets cols _ hc st hst
    have hrel : ∀ sc : List α, sc.length = rows.length → (tdcRelabel le thr targets sc).length = rows.length := by
      intro sc hsc; rw [tdcRelabel_length, hsc, hr]; simp
    obtain ⟨h1, h2, h3, h4⟩ := C12_fitLoopCv_shuffle_invariant hs hsearch needsCv est hfit (tdcRelabel le thr targets)
      cfg1.shuffle cfg2.shuffle cfg1.perm cfg2.perm cfg1.maxIter th0 rows st.labels hp1 hp2 hlen hrel
    simp only [Option.map_some, Option.getD_some, runFromCv, ← hit, ← hov]
    refine ⟨?_, ?_, ?_, h3, h4⟩
    all_goals
      split
      · first | rfl | exact List.Forall₂.nil
      unfold afterLoop
      rw [← h1]
      cases (fitLoopCv hs needsCv est (tdcRelabel le thr targets) cfg1.shuffle cfg1.perm cfg1.maxIter th0 rows
        st.labels).loop.final with
      | none => first | rfl | exact h2
      | some res =>
        simp only [Option.map_some, Option.getD_some, finish]
        split
        · first | rfl | exact h2
        · first | rfl | exact h2

/-! ## Non-vacuity: concrete inputs meeting every hypothesis used above -/

/-- scores on `Int`, higher is better -/
def leI (a b : Int) : Bool := decide (a ≤ b)

theorem leI_totalPre : TotalPre leI := by
  constructor
  · intro a b; simp [leI]; omega
  · intro a b c; simp [leI]; omega

/-- an estimator whose `fit` ignores the order of its examples (it counts the positives,
warm-started from the previous state) and scores a row by scaling it -/
def cntEst : Est Int Int Int := ⟨fun th s => th + s.countP (·.2), fun th r => th * r⟩

example : PermInvariant cntEst := by
  intro th a b h
  simp [cntEst, h.countP_eq]

/-- an order-*dependent* estimator (alignment theorems do not need `PermInvariant`) -/
def headEst : Est Int Int Int := ⟨fun _ s => (s.headD (0, false)).1, fun th r => th * r⟩

/-- a search that ignores the order of its examples (it counts the positives; `configure` adds the
count to the estimator state) -/
def cntSearch : HyperSearch Int Int Nat := ⟨fun ex => ex.countP (·.2), fun p th => th + p⟩

example : SearchPermInvariant cntSearch := by
  intro a b h
  simp [cntSearch, h.countP_eq]

/-- an order-*dependent* search (the alignment / once theorems do not need `SearchPermInvariant`) -/
def headSearch : HyperSearch Int Int Int := ⟨fun ex => (ex.headD (0, false)).1, fun p th => th + p⟩

example : ([2, 0, 3, 1] : List Nat).Perm (List.range 4) := by decide
example : ∀ sc : List Int, sc.length = 4 → (tdcRelabel leI (1/2) [true, true, false, true] sc).length = 4 := by
  intro sc h; rw [tdcRelabel_length, h]; rfl
example : (([("a", [1, 2]), ("b", [3, 4])] : List (String × List Int)).map (·.1)).Nodup := by decide
example : TotalPre leI := leI_totalPre

-- evaluation tests (compiler-evaluated: *tests*, not theorems)
-- four PSMs (T T D T), rows = their single feature; two iterations, the labels change after the first fit
#guard (fitLoop headEst (tdcRelabel leI (1/2) [true, true, false, true]) true [2, 0, 3, 1] 2 0
          [5, -1, 3, 4] [1, 0, -1, 1]).trace
    == [[(3, false), (5, true), (4, true)], [(3, false), (5, true), (4, true)]]
-- five PSMs (T T D T D): the accepted targets change after the first fit
#guard (fitLoop headEst (tdcRelabel leI (1/2) [true, true, false, true, false]) true [2, 0, 3, 1, 4] 3 0
          [-1, 5, 3, 4, -6] [1, 0, -1, 0, -1]).trace
    == [[(3, false), (-1, true), (-6, false)], [(3, false), (4, true), (5, true), (-6, false)],
        [(3, false), (4, true), (5, true), (-6, false)]]
#guard (fitLoop headEst (tdcRelabel leI (1/2) [true, true, false, true, false]) true [2, 0, 3, 1, 4] 3 0
          [-1, 5, 3, 4, -6] [1, 0, -1, 0, -1]).trace
    == (specGo headEst (tdcRelabel leI (1/2) [true, true, false, true, false]) [2, 0, 3, 1, 4]
          [-1, 5, 3, 4, -6] 3 0 [1, 0, -1, 0, -1]).trace
#guard (fitLoop cntEst (tdcRelabel leI (1/2) [true, true, false, true]) true [2, 0, 3, 1] 3 0
          [5, -1, 3, 4] [1, 0, -1, 1]).final
    == (fitLoop cntEst (tdcRelabel leI (1/2) [true, true, false, true]) false [0, 1, 2, 3] 3 0
          [5, -1, 3, 4] [1, 0, -1, 1]).final
-- the search step: shuffled rows with the labels of the same PSMs; PSM 1 (label 0) is left out
#guard (fitLoopCv headSearch true headEst (tdcRelabel leI (1/2) [true, true, false, true]) true [2, 0, 3, 1] 2 0
          [5, -1, 3, 4] [1, 0, -1, 1]).searches == [[(3, false), (5, true), (4, true)]]
#guard (fitLoopCv headSearch true headEst (tdcRelabel leI (1/2) [true, true, false, true]) false [2, 0, 3, 1] 2 0
          [5, -1, 3, 4] [1, 0, -1, 1]).searches == [[(5, true), (3, false), (4, true)]]
#guard (fitLoopCv headSearch false headEst (tdcRelabel leI (1/2) [true, true, false, true]) true [2, 0, 3, 1] 2 0
          [5, -1, 3, 4] [1, 0, -1, 1]).searches == []
-- the search sees what the first loop iteration sees
#guard (fitLoopCv headSearch true headEst (tdcRelabel leI (1/2) [true, true, false, true, false]) true
          [2, 0, 3, 1, 4] 3 0 [-1, 5, 3, 4, -6] [1, 0, -1, 0, -1]).searches
    == (fitLoopCv headSearch true headEst (tdcRelabel leI (1/2) [true, true, false, true, false]) true
          [2, 0, 3, 1, 4] 3 0 [-1, 5, 3, 4, -6] [1, 0, -1, 0, -1]).loop.trace.take 1
-- order-insensitive search + estimator: same final state with and without shuffling; the search changed it
#guard (fitLoopCv cntSearch true cntEst (tdcRelabel leI (1/2) [true, true, false, true]) true [2, 0, 3, 1] 3 0
          [5, -1, 3, 4] [1, 0, -1, 1]).loop.final
    == (fitLoopCv cntSearch true cntEst (tdcRelabel leI (1/2) [true, true, false, true]) false [0, 1, 2, 3] 3 0
          [5, -1, 3, 4] [1, 0, -1, 1]).loop.final
#guard (fitLoopCv cntSearch true cntEst (tdcRelabel leI (1/2) [true, true, false, true]) true [2, 0, 3, 1] 3 0
          [5, -1, 3, 4] [1, 0, -1, 1]).loop.final
    != (fitLoop cntEst (tdcRelabel leI (1/2) [true, true, false, true]) true [2, 0, 3, 1] 3 0
          [5, -1, 3, 4] [1, 0, -1, 1]).final
#guard (fitModelCv cntSearch true cntEst leI (1/2) ⟨true, [2, 0, 3, 1], 2, true, none⟩ 0 [5, -1, 3, 4]
          [[5, -1, 3, 4]] [true, true, false, true]).searches == [[(3, false), (5, true), (4, true)]]
#guard gather (gather [10, 11, 12, 13] [2, 0, 3, 1]) (argsort [2, 0, 3, 1]) == [10, 11, 12, 13]
#guard argsort [2, 0, 3, 1] == [1, 3, 0, 2]
#guard predictByName (fun r : List Int => r.sum) ["a", "b"] 2 [("b", [3, 4]), ("a", [1, 2])] == some [4, 6]
#guard selectByName ["a", "b"] [("b", [3, 4]), ("a", [1, 2])] == some [[1, 2], [3, 4]]
#guard (selectByName ["a", "b"] [("b", [3, 4]), ("c", [1, 2])]).isNone

end Mk.Fit
