import MokapotVerif.Props.C05Cross
import MokapotVerif.Lemmas.CrossKeys
import MokapotVerif.Generated.Constants
/-!
# C05 (second pass) — the chunk streams themselves, and the spectrum key of the streaming scan

`Model/Cross.lean` §4–§5.  Gap analysis: `GAPS-C05.md`, section "Second pass".

* §4: every zip of the pipeline presumes that the reader's `k`-th chunk has the size of the `k`-th
  slice of `create_chunks`, and `_predict` / `get_rows_from_dataframe` presume global row labels
  (the fourth anchor of the property: Parquet batches re-indexed with a running offset).  The
  theorems give the exact profile of a stream (first label and size of every chunk, `⌈n/c⌉`
  chunks), show that the profile together with the rows determines the stream, and derive the
  `_predict` / `parse_in_chunks` specifications for the stream that the reader model of C13 delivers.
* §5: pandas infers the dtype of a column per chunk of a text file (`int64` / `float64` / strings); the
  streaming scan of `assign_confidence` remembers a spectrum or a roll-up entity under `_entity_key`
  (numbers, and text that is a plain number, keyed by value), so the result files are those of the plain
  keys for every spelling and every chunk size.  The two earlier keys — `str()` of the values as typed
  per chunk (until commit 5233470) and numbers-as-floats with text left alone (until 0d68f96) — did so
  only for uniformly spelled columns: both found by this pass, repaired in /repo, kept as refuted variants
  (as is the intermediate key that read every text `float()` accepts as a number, afa88c6).
-/
namespace Mk
open Mk.Brew Mk.Cross

/-! ## the chunk streams -/

/-- the chunking functions of the three models C05 combines (`Mk.Brew.chunks` for `_predict` and
`parse_in_chunks`, `Mk.chunksOf` for `assign_confidence`, `Mk.Tabular.chunks` for the readers)
are one and the same function, for every chunk size (also `c = 0`) -/
theorem C05_chunkings_agree {β : Type} (c : Nat) (xs : List β) :
    Brew.chunks c xs = chunksOf c xs ∧ chunksOf c xs = Tabular.chunks c xs :=
  ⟨brewChunks_eq c xs, chunksOf_eq_tabular c xs⟩

/-- a chunked reader over `n` rows delivers `⌈n/c⌉` chunks; chunk `k` starts at row label `k·c`
(Parquet: local label plus running offset) and has `min c (n − k·c)` rows -/
theorem C05_chunk_spans_eq_spec (c : Nat) (hc : 0 < c) (n : Nat) : chunkSpans c n = chunkSpansSpec c n :=
  chunkSpans_eq c hc n

/-- number of per-chunk tasks (`_save_sorted_metadata_chunks`, `get_rows_from_dataframe`, prediction
rounds): `⌈n/c⌉` — a configured chunk size smaller than the file really splits the work -/
theorem C05_chunk_count (c : Nat) (hc : 0 < c) (n : Nat) : (chunkSpans c n).length = (n + c - 1) / c := by
  rw [chunkSpans_eq c hc]; simp [chunkSpansSpec]

/-- `create_chunks(array, c)` of any array with one entry per row (scores, routing vector, q-values,
PEPs, target flags) has exactly the size profile of the reader's stream -/
theorem C05_slices_match_stream {β : Type} (c : Nat) (xs : List β) :
    (chunksOf c xs).map List.length = (chunkSpans c xs.length).map (fun s => s.2) := by
  rw [chunkSpans_sizes, chunksOf_lengths]

/-- … hence two streams cut with the same `c` from equally long sources pair chunk `k` with a slice
of the same size: `zip` drops nothing and shifts nothing -/
theorem C05_zip_streams_aligned {α β : Type} (c : Nat) (xs : List α) (ys : List β) (h : xs.length = ys.length) :
    (chunksOf c xs).map List.length = (chunksOf c ys).map List.length := by
  rw [C05_slices_match_stream, C05_slices_match_stream, h]

/-- what the harness observes of the real readers — the rows (their concatenation) and the size of
every chunk — determines the stream: it is the model's -/
theorem C05_stream_determined_by_profile {β : Type} (c : Nat) (xs : List β) (bs : List (List β))
    (hc : 0 < c) (hf : bs.flatten = xs) (hl : bs.map List.length = (chunkSpans c xs.length).map (fun s => s.2)) :
    bs = chunksOf c xs := by
  apply eq_of_flatten_eq_of_lengths
  · rw [hf, chunksOf_flatten c hc]
  · rw [hl, C05_slices_match_stream]

/-- fourth anchor: the Parquet reader's batches, labelled `0 … len−1` each and shifted by the number
of rows delivered before, are the chunks of the rows labelled with their *global* row numbers —
the input the models of `_predict` and `parse_in_chunks` start from -/
theorem C05_reader_labels_global {β : Type} (c : Nat) (hc : 0 < c) (xs : List β) :
    Tabular.pqLabel 0 (chunksOf c xs) = chunksOf c (xs.zipIdx.map (fun x => (x.2, x.1))) ∧
    ((Tabular.pqLabel 0 (chunksOf c xs)).flatten.map (fun p => p.1)) = List.range xs.length := by
  refine ⟨pqLabel_chunksOf c xs, ?_⟩
  rw [Tabular.pqLabel_flatten, chunksOf_flatten c hc, Tabular.indexFrom_map_fst, List.range_eq_range']

/-- `_predict` fed by the reader (labels set by the reader, `fold` column = `k`-th slice of the
routing vector) returns the per-fold calibrated scores of the specification, for every prediction
chunk size, also when a chunk lacks a fold -/
theorem C05_predict_stream_eq_spec {ρ σ : Type} [Inhabited σ] (c : Nat) (hc : 0 < c) (nfolds : Nat)
    (rows : List ρ) (routing : List Nat) (hlen : routing.length = rows.length)
    (hr : ∀ f ∈ routing, f < nfolds)
    (score : Nat → ρ → σ) (target : ρ → Bool) (cal : List (σ × Bool) → σ → σ) :
    predictStream c nfolds rows routing score target cal = predictSpec rows routing score target cal := by
  rw [predictStream_eq c nfolds rows routing hlen, C02_predict_eq_spec c hc nfolds rows routing hlen hr]

theorem C05_predict_stream_chunk_invariant {ρ σ : Type} [Inhabited σ] (c₁ c₂ : Nat) (h₁ : 0 < c₁) (h₂ : 0 < c₂)
    (nfolds : Nat) (rows : List ρ) (routing : List Nat) (hlen : routing.length = rows.length)
    (hr : ∀ f ∈ routing, f < nfolds)
    (score : Nat → ρ → σ) (target : ρ → Bool) (cal : List (σ × Bool) → σ → σ) :
    predictStream c₁ nfolds rows routing score target cal = predictStream c₂ nfolds rows routing score target cal := by
  rw [C05_predict_stream_eq_spec c₁ h₁ nfolds rows routing hlen hr,
    C05_predict_stream_eq_spec c₂ h₂ nfolds rows routing hlen hr]

/-- the training rows cut out of the reader's chunks (`set(train) & set(chunk.index)` on the
reader's labels), gathered in any completion order and any enumeration order, re-indexed by the
training index, are `rows[train]` — for every training-read chunk size -/
theorem C05_materialise_stream_eq_spec {ρ : Type} (c : Nat) (hc : 0 < c) (rows : List ρ) (train : List Nat)
    (hnd : train.Nodup) (hlt : ∀ i ∈ train, i < rows.length) (ps pieces : List (List (Nat × ρ)))
    (hps : List.Forall₂ List.Perm (streamPieces c rows train) ps) (hp : pieces.Perm ps) :
    reindex pieces.flatten train = train.map (fun i => rows[i]?) := by
  rw [streamPieces_eq] at hps
  exact C02_materialise_chunks c hc rows train hnd hlt ps pieces hps hp

/-! ## the keys of the streaming scan -/

/-- `_entity_key` (numbers as floats, text that is a plain number as that number): whatever the
spelling of the cells, whatever dtype pandas gives the chunks and whatever the chunk size, the scan
sees every row of the key column `w` (spectrum key or a roll-up level) under its canonical value -/
theorem C05_keyed_rows_chunk_free (c : Nat) (hc : 0 < c) (w : KeyCol) (isText : Nat → Bool) (frac : List Bool)
    (md : List Row) (hfl : frac.length = md.length) :
    keyedRows canonKey c w isText frac md = md.map (mapKeyAt w (canonOf isText)) := by
  unfold keyedRows
  exact rekeyAt_canon w isText frac md _ hfl
    (by rw [chunkDtypes_length c hc, classesAt_length w isText frac md hfl])

/-- the result files of the chunked text path are those of canonical keys — for every spelling
(`500` / `500.0` / `500.5`, `17` / `17_b` mixed at will) and every chunk size -/
theorem C05_keyed_files_eq_spec (c : Nat) (hc : 0 < c) (dedup : Bool) (n : Nat)
    (pep : List Row → List Rat) (w : KeyCol) (isText : Nat → Bool) (frac : List Bool) (md : List Row)
    (sc : List Int) (hfl : frac.length = md.length) :
    keyedFiles c dedup n pep w isText frac md sc = keyedFilesSpec c dedup n pep w isText md sc := by
  unfold keyedFiles keyedFilesSpec
  rw [C05_keyed_rows_chunk_free c hc w isText frac md hfl]

/-- the files of canonical keys are the files of the plain keys: same rows (up to the renamed key
field), same order, same q-values and PEPs, same target/decoy split.  `pep` only looks at scores
and targets (C06), expressed as invariance under a change of the key field. -/
theorem C05_keyed_files_spec_is_plain (c : Nat) (hc : 0 < c) (dedup : Bool) (n : Nat)
    (pep : List Row → List Rat) (hpep : ∀ rows, (pep rows).length = rows.length)
    (w : KeyCol) (isText : Nat → Bool)
    (hpepinv : ∀ rows, pep (rows.map (mapKeyAt w (canonOf isText))) = pep rows)
    (md : List Row) (sc : List Int) (h : md.length = sc.length) :
    keyedFilesSpec c dedup n pep w isText md sc
      = (resultFiles c dedup n pep md sc).map (mapFile (mapKeyAt w (canonOf isText))) := by
  obtain ⟨gs, gk, hK⟩ := keyMap_at w (canonOf isText) (canonOf_injective isText)
  unfold keyedFilesSpec
  rw [C05_result_files_eq_spec c hc dedup n pep hpep _ sc (by simpa using h),
    C05_result_files_eq_spec c hc dedup n pep hpep md sc h,
    scoredRows_keyMap hK, confidenceLevels_keyMap hK]
  unfold resultFilesSpec
  simp only [← List.map_cons, List.map_map]
  apply List.map_congr_left
  intro rows _
  simp only [Function.comp]
  rw [writeWhole_map, levelQvalues_keyMap hK, hpepinv, List.map_map]
  congr 2
  apply List.map_congr_left
  intro r _
  exact hK.target r

/-- **any spelling of the cells of a key column, pairwise distinct scores: every result file is the
same for any two confidence chunk sizes** (and, by `C05_keyed_files_eq_spec`, the same as for the
Parquet file of the table, whose columns are typed by the schema) -/
theorem C05_number_spelling_chunk_invariant (c₁ c₂ : Nat) (h₁ : 0 < c₁) (h₂ : 0 < c₂) (n : Nat)
    (pep : List Row → List Rat) (hpep : ∀ rows, (pep rows).length = rows.length)
    (w : KeyCol) (isText : Nat → Bool) (frac : List Bool) (md : List Row) (sc : List Int)
    (h : md.length = sc.length) (hfl : frac.length = md.length) (hnd : sc.Nodup) :
    keyedFiles c₁ true n pep w isText frac md sc = keyedFiles c₂ true n pep w isText frac md sc := by
  rw [C05_keyed_files_eq_spec c₁ h₁ true n pep w isText frac md sc hfl,
    C05_keyed_files_eq_spec c₂ h₂ true n pep w isText frac md sc hfl]
  unfold keyedFilesSpec
  exact C05_result_files_chunk_invariant c₁ c₂ h₁ h₂ n pep hpep _ sc (by simpa using h)
    (hinj_of_nodup _ sc hnd)

/-- two key columns with mixed spellings at once (a numeric spectrum column and a level column):
the scan sees both under their canonical values, for every chunk size -/
theorem C05_two_key_columns_chunk_free (c : Nat) (hc : 0 < c) (w₁ w₂ : KeyCol) (isText₁ isText₂ : Nat → Bool)
    (frac₁ frac₂ : List Bool) (md : List Row) (h₁ : frac₁.length = md.length) (h₂ : frac₂.length = md.length) :
    keyedRows canonKey c w₂ isText₂ frac₂ (keyedRows canonKey c w₁ isText₁ frac₁ md)
      = (md.map (mapKeyAt w₁ (canonOf isText₁))).map (mapKeyAt w₂ (canonOf isText₂)) := by
  rw [C05_keyed_rows_chunk_free c hc w₁ isText₁ frac₁ md h₁,
    C05_keyed_rows_chunk_free c hc w₂ isText₂ frac₂ _ (by simpa using h₂)]

/-- a column whose cells all have one class (all integers, all with a fraction, all text) is typed
alike in every chunk for every chunk size … -/
theorem C05_chunk_dtypes_uniform (c : Nat) (hc : 0 < c) (cls : List Nat) (k : Nat) (h : ∀ x ∈ cls, x = k) :
    chunkDtypes c cls = cls := chunkDtypes_uniform c hc cls k h

/-- … so that on such a column *any* key function — in particular the two earlier ones, `strKey`
(until 5233470) and `numKey` (until 0d68f96) — sees one and the same table for every chunk size: why
their dependence on the chunk size stayed invisible on generated tables (it is refuted on mixed
columns: `Mutants/Cross.lean`, and the `#guard`s below) -/
theorem C05_old_keys_uniform_chunk_free (key : Nat → Nat → Nat → Nat) (c : Nat) (hc : 0 < c) (w : KeyCol)
    (isText : Nat → Bool) (frac : List Bool) (md : List Row) (hfl : frac.length = md.length) (k : Nat)
    (h : ∀ x ∈ classesAt w isText frac md, x = k) :
    keyedRows key c w isText frac md = md.map (mapKeyAt w (key k k)) := by
  unfold keyedRows
  rw [chunkDtypes_uniform c hc _ k h]
  exact rekeyAt_uniform w key _ md k h (classesAt_length w isText frac md hfl)

/-! ## the constants the property quantifies over (generated obligation) -/

/-- `Generated/Constants.lean` is rewritten from `mokapot/constants.py` on every run: the streaming
constants are exactly the six the harness varies, each read from the environment variable
`MOKAPOT_<name>` (the channel of the command line tool), with the documented defaults — a new or
renamed constant breaks this theorem and thereby shows up in the check -/
theorem C05_constants_inventory :
    Mk.Generated.chunkConstants =
      [("CONFIDENCE_CHUNK_SIZE", "MOKAPOT_CONFIDENCE_CHUNK_SIZE", 1000000),
       ("CHUNK_SIZE_READ_ALL_DATA", "MOKAPOT_CHUNK_SIZE_READ_ALL_DATA", 200000),
       ("CHUNK_SIZE_ROWS_PREDICTION", "MOKAPOT_CHUNK_SIZE_ROWS_PREDICTION", 700000),
       ("CHUNK_SIZE_COLUMNS_FOR_DROP_COLUMNS", "MOKAPOT_CHUNK_SIZE_COLUMNS_FOR_DROP_COLUMNS", 19),
       ("CHUNK_SIZE_ROWS_FOR_DROP_COLUMNS", "MOKAPOT_CHUNK_SIZE_ROWS_FOR_DROP_COLUMNS", 2000000),
       ("MERGE_SORT_CHUNK_SIZE", "MOKAPOT_MERGE_SORT_CHUNK_SIZE", 20000)] := by decide

/-! ## Non-vacuity and evaluation tests (compiler-evaluated, labelled as tests) -/

#guard chunkSpans 3 7 == [(0, 3), (3, 3), (6, 1)]
#guard chunkSpans 7 7 == [(0, 7)]
#guard chunkSpans 8 7 == [(0, 7)]
#guard chunkSpans 1 3 == [(0, 1), (1, 1), (2, 1)]
#guard chunkSpans 3 0 == []
#guard chunkSpans 3 7 == chunkSpansSpec 3 7
#guard Tabular.pqLabel 0 (chunksOf 2 ["a", "b", "c"]) == [[(0, "a"), (1, "b")], [(2, "c")]]

def c05sScore (m : Nat) (r : Nat) : Int := (10 * r + m : Nat)
def c05sCal (xs : List (Int × Bool)) (s : Int) : Int := s - (xs.map (·.1)).sum
-- a chunk without fold 1 (the first chunk of 2 rows), routing valid for 2 folds
#guard predictStream 2 2 [0, 1, 2, 3, 4] [0, 0, 1, 0, 1] c05sScore (fun _ => true) c05sCal
        == predictSpec [0, 1, 2, 3, 4] [0, 0, 1, 0, 1] c05sScore (fun _ => true) c05sCal
example : [0, 0, 1, 0, 1].length = [0, 1, 2, 3, 4].length ∧ ∀ f ∈ [0, 0, 1, 0, 1], f < 2 := by decide
#guard streamPieces 2 ["a", "b", "c"] [2, 0] == [[(0, "a")], [(2, "c")]]

#guard chunkDtypes 2 [0, 1, 0] == [1, 1, 0]
#guard chunkDtypes 3 [0, 1, 0] == [1, 1, 1]
#guard chunkDtypes 1 [0, 1, 0] == [0, 1, 0]
#guard chunkDtypes 2 [0, 2, 0, 0] == [2, 2, 0, 0]
#guard chunkDtypes 2 [0, 0, 0] == [0, 0, 0]

/-- the three-row table of the open finding (GAPS-C05.md, second pass): spectrum 1 has two PSMs
(rows 0 and 2, masses spelled `500`), row 1 of another spectrum has the mass `500.5` -/
def c05sMd : List Row := [⟨0, 1, [10], true, 0⟩, ⟨1, 2, [11], false, 0⟩, ⟨2, 1, [12], false, 0⟩]
def c05sSc : List Int := [3, 2, 1]
def c05sPep (rows : List Row) : List Rat := rows.map (fun _ => 0)
def c05sIds (fs : List (List (Row × Rat × Rat) × List (Row × Rat × Rat))) : List (List Nat × List Nat) :=
  fs.map (fun f => (f.1.map (·.1.id), f.2.map (·.1.id)))

def c05sNoText (_ : Nat) : Bool := false

/- the mixed spelling `[500, 500.5, 500]` of the spectrum column: with `_entity_key` no chunk size
keeps the losing PSM 2 of spectrum 1 … -/
#guard c05sIds (keyedFiles 2 true 1 c05sPep none c05sNoText [false, true, false] c05sMd c05sSc) == [([0], [1]), ([0], [1])]
#guard c05sIds (keyedFiles 3 true 1 c05sPep none c05sNoText [false, true, false] c05sMd c05sSc) == [([0], [1]), ([0], [1])]
#guard c05sIds (keyedFiles 1 true 1 c05sPep none c05sNoText [false, true, false] c05sMd c05sSc) == [([0], [1]), ([0], [1])]
#guard c05sIds (keyedFiles 2 true 1 c05sPep none c05sNoText [false, true, false] c05sMd c05sSc)
        == c05sIds (resultFiles 2 true 1 c05sPep c05sMd c05sSc)
/- … whereas the `str()` key did so for a chunk size of 2 (PSM 2's chunk is typed `int64`, the winner's
`float64`) and not for 1 and 3: the defect repaired by commit 5233470 (numbers as floats: `numKey`) -/
#guard c05sIds (oldKeyedFiles strKey 2 true 1 c05sPep none c05sNoText [false, true, false] c05sMd c05sSc)
        == [([0], [1, 2]), ([0], [1, 2])]
#guard c05sIds (oldKeyedFiles strKey 3 true 1 c05sPep none c05sNoText [false, true, false] c05sMd c05sSc)
        == [([0], [1]), ([0], [1])]
#guard c05sIds (oldKeyedFiles strKey 1 true 1 c05sPep none c05sNoText [false, true, false] c05sMd c05sSc)
        == [([0], [1]), ([0], [1])]
#guard c05sIds (oldKeyedFiles numKey 2 true 1 c05sPep none c05sNoText [false, true, false] c05sMd c05sSc)
        == [([0], [1]), ([0], [1])]
#guard c05sIds (oldKeyedFiles strKey 2 true 1 c05sPep none c05sNoText [true, true, true] c05sMd c05sSc)
        == [([0], [1]), ([0], [1])]

/-- the four-row table of the second finding: the level column `PeptideGroup` holds `17, 17_b, 17, 18`
(value ids 17, 99, 17, 18; 99 is the text that is not a number) -/
def c05sMdL : List Row :=
  [⟨0, 1, [10, 17], true, 0⟩, ⟨1, 2, [11, 99], false, 0⟩, ⟨2, 3, [12, 17], false, 0⟩, ⟨3, 4, [13, 18], false, 0⟩]
def c05sScL : List Int := [4, 3, 2, 1]
def c05sTextL (v : Nat) : Bool := v == 99
def c05sNoFrac : List Bool := [false, false, false, false]

/- chunks of 2: `{17, 17_b}` is read as strings, `{17, 18}` as integers.  `_entity_key` reports group
17 once for every chunk size; numbers-as-floats alone (5233470) and `str()` report it twice for a
chunk size of 2: the defect repaired by commit 0d68f96 -/
#guard c05sIds (keyedFiles 2 true 2 c05sPep (some 1) c05sTextL c05sNoFrac c05sMdL c05sScL)
        == [([0], [1, 2, 3]), ([0], [1, 2, 3]), ([0], [1, 3])]
#guard c05sIds (keyedFiles 2 true 2 c05sPep (some 1) c05sTextL c05sNoFrac c05sMdL c05sScL)
        == c05sIds (keyedFiles 3 true 2 c05sPep (some 1) c05sTextL c05sNoFrac c05sMdL c05sScL)
#guard c05sIds (keyedFiles 2 true 2 c05sPep (some 1) c05sTextL c05sNoFrac c05sMdL c05sScL)
        == c05sIds (resultFiles 2 true 2 c05sPep c05sMdL c05sScL)
#guard c05sIds (oldKeyedFiles numKey 2 true 2 c05sPep (some 1) c05sTextL c05sNoFrac c05sMdL c05sScL)
        == [([0], [1, 2, 3]), ([0], [1, 2, 3]), ([0], [1, 2, 3])]
#guard c05sIds (oldKeyedFiles strKey 2 true 2 c05sPep (some 1) c05sTextL c05sNoFrac c05sMdL c05sScL)
        == [([0], [1, 2, 3]), ([0], [1, 2, 3]), ([0], [1, 2, 3])]
#guard c05sIds (oldKeyedFiles numKey 3 true 2 c05sPep (some 1) c05sTextL c05sNoFrac c05sMdL c05sScL)
        == [([0], [1, 2, 3]), ([0], [1, 2, 3]), ([0], [1, 3])]

/-- the hypotheses of `C05_number_spelling_chunk_invariant` hold for both examples (mixed spellings) -/
example : c05sMd.length = c05sSc.length ∧ [false, true, false].length = c05sMd.length ∧ c05sSc.Nodup ∧
    c05sMdL.length = c05sScL.length ∧ c05sNoFrac.length = c05sMdL.length ∧ c05sScL.Nodup := by decide
example (w : KeyCol) (isText : Nat → Bool) : ∀ rows, c05sPep (rows.map (mapKeyAt w (canonOf isText))) = c05sPep rows := by
  intro rows; unfold c05sPep; rw [List.map_map]; rfl
/-- … and the class hypothesis of `C05_old_keys_uniform_chunk_free` for a uniformly spelled column -/
example : ∀ x ∈ classesAt none c05sNoText [true, true, true] c05sMd, x = 1 := by decide

end Mk
