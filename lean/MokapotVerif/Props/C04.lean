import MokapotVerif.Props.C01
import MokapotVerif.Props.C02
import MokapotVerif.Props.C03
/-!
# C04 — reported q-values control the FDR end to end (PARTIAL)

The statement of C04 is an expectation over a distribution of data sets after a learning
pipeline.  What is proved here are the *mechanisms* it names, for all inputs:

* T1 `C04_accepted_counts` — the conservative "+1" counting inequality of every accepted set;
* T2 `C04_heldout_noninterference` — the model that scores a fold is a function of the rows
  outside that fold only, for a learner of any capacity;
* T3 `C04_qvalues_after_competition` — q-values are computed on de-duplicated rows only;
* T5 `C04_competition_label_blind` — which PSMs survive the competition does not depend on the labels.

The expectation bound for the merged, calibrated folds is NOT a theorem here (DESIGN.md §5 C04).
-/
namespace Mk
variable {α : Type}

/-- the PSMs accepted at threshold `a`: those whose q-value (defining formula) is ≤ `a` -/
def acceptedAt (le : α → α → Bool) (xs : List (α × Bool)) (a : Rat) : List (α × Bool) :=
  xs.filter (fun x => decide (qSpec le xs x.1 ≤ a))

theorem minOver_le_iff (ys : List Rat) (a : Rat) (ha : a < 1) :
    minOver ys ≤ a ↔ ∃ y ∈ ys, y ≤ a := by
  induction ys with
  | nil => simp [minOver]; exact ha
  | cons y ys ih =>
    have : minOver (y :: ys) = min y (minOver ys) := rfl
    rw [this, min_le_iff, ih]
    constructor
    · rintro (h | ⟨z, hz, hza⟩)
      · exact ⟨y, by simp, h⟩
      · exact ⟨z, by simp [hz], hza⟩
    · rintro ⟨z, hz, hza⟩
      rcases List.mem_cons.mp hz with rfl | hz
      · exact Or.inl hza
      · exact Or.inr ⟨z, hz, hza⟩

/-- **T1 — the conservative counting inequality.**  For every score vector, labelling, total
preorder and threshold `a < 1`: if any target is accepted at `q ≤ a`, then
`(accepted decoys + 1) ≤ a · (accepted targets)`. -/
theorem C04_accepted_counts (le : α → α → Bool) (hle : TotalPre le) (xs : List (α × Bool)) (a : Rat)
    (ha : a < 1) (hne : acceptedAt le xs a ≠ []) :
    (((acceptedAt le xs a).countP (fun x => !x.2) + 1 : Nat) : Rat)
      ≤ a * (((acceptedAt le xs a).countP (fun x => x.2) : Nat) : Rat) := by
  -- a worst accepted element `w`
  obtain ⟨w, hwacc, hworst⟩ : ∃ w ∈ acceptedAt le xs a, ∀ x ∈ acceptedAt le xs a, le w.1 x.1 = true := by
    have : ∀ l : List (α × Bool), l ≠ [] → ∃ w ∈ l, ∀ x ∈ l, le w.1 x.1 = true := by
      intro l
      induction l with
      | nil => intro h; exact absurd rfl h
      | cons y ys ih =>
        intro _
        by_cases hys : ys = []
        · subst hys; exact ⟨y, by simp, by intro x hx; simp at hx; subst hx; exact hle.refl _⟩
        · obtain ⟨w, hw, hwall⟩ := ih hys
          rcases hle.total w.1 y.1 with h | h
          · refine ⟨w, by simp [hw], ?_⟩
            intro x hx
            rcases List.mem_cons.mp hx with rfl | hx
            · exact h
            · exact hwall x hx
          · refine ⟨y, by simp, ?_⟩
            intro x hx
            rcases List.mem_cons.mp hx with rfl | hx
            · exact hle.refl _
            · exact hle.trans _ _ _ h (hwall x hx)
    exact this _ hne
  have hwmem : w ∈ xs := (List.mem_filter.mp hwacc).1
  have hwq : qSpec le xs w.1 ≤ a := by simpa using (List.mem_filter.mp hwacc).2
  -- a threshold at or worse than `w` whose FDR is ≤ a
  unfold qSpec at hwq
  obtain ⟨v, hv, hva⟩ := (minOver_le_iff _ a ha).mp hwq
  obtain ⟨t, ht, rfl⟩ := List.mem_map.mp hv
  rw [List.mem_filter] at ht
  obtain ⟨htmem, htw⟩ := ht
  -- every element at or better than `t` is accepted
  have hacc_of : ∀ x ∈ xs, le t.1 x.1 = true → x ∈ acceptedAt le xs a := by
    intro x hx hle_tx
    refine List.mem_filter.mpr ⟨hx, ?_⟩
    simp only [decide_eq_true_eq]
    unfold qSpec
    apply (minOver_le_iff _ a ha).mpr
    exact ⟨_, List.mem_map.mpr ⟨t, List.mem_filter.mpr ⟨htmem, hle_tx⟩, rfl⟩, hva⟩
  -- hence the accepted set is exactly the elements at or better than `t`
  have hset : acceptedAt le xs a = xs.filter (fun x => le t.1 x.1) := by
    unfold acceptedAt
    apply List.filter_congr
    intro x hx
    by_cases hx1 : le t.1 x.1 = true
    · have := hacc_of x hx hx1
      have h2 := (List.mem_filter.mp this).2
      simp [hx1, h2]
    · have hx1' : le t.1 x.1 = false := by simpa using hx1
      rw [hx1']
      by_contra hcon
      have hxacc : x ∈ acceptedAt le xs a := List.mem_filter.mpr ⟨hx, by simpa using hcon⟩
      have hwx := hworst x hxacc
      have htacc := hacc_of t htmem (hle.refl _)
      have hwt := hworst t htacc
      have := hle.trans _ _ _ htw hwx
      simp [hx1'] at this
  have hT : (acceptedAt le xs a).countP (fun x => x.2) = cntT le xs t.1 := by
    rw [hset, List.countP_filter]; unfold cntT; congr 1; funext x; simp [Bool.and_comm]
  have hD : (acceptedAt le xs a).countP (fun x => !x.2) = cntD le xs t.1 := by
    rw [hset, List.countP_filter]; unfold cntD; congr 1; funext x; simp [Bool.and_comm]
  rw [hT, hD]
  unfold fdrRaw at hva
  split at hva
  · linarith
  · rename_i hT0
    have hpos : (0 : Rat) < ((cntT le xs t.1 : Nat) : Rat) := by
      exact_mod_cast Nat.pos_of_ne_zero hT0
    rw [div_le_iff₀ hpos] at hva
    exact hva

/-- **T2 — held-out non-interference, for a learner of any capacity.**  If two tables agree on
every row outside fold `f` (labels and features of the rows *inside* the fold may differ
arbitrarily), the rows materialised for training the model that scores fold `f` are identical,
hence so is that model, whatever function `learner` is. -/
theorem C04_heldout_noninterference {ρ σ : Type} (rows rows' : List ρ) (hlen : rows.length = rows'.length)
    (fold train sub : List Nat) (h : train.Perm (Brew.complement rows.length fold))
    (hsub : ∀ i ∈ sub, i ∈ train)
    (hsame : ∀ i, i ∉ fold → rows[i]? = rows'[i]?)
    (learner : List (Option ρ) → ρ → σ) :
    learner (sub.map (fun i => rows[i]?)) = learner (sub.map (fun i => rows'[i]?)) := by
  have : sub.map (fun i => rows[i]?) = sub.map (fun i => rows'[i]?) := by
    apply List.map_congr_left
    intro i hi
    exact hsame i (Brew.C02_train_subset_cap rows.length fold train sub h hsub i hi).1
  rw [this]

/-- **T3 — competition before estimation.**  The q-values of the PSM-level file are the C01
formula evaluated on rows among which every spectrum occurs exactly once (the winners of the
target-decoy competition), never on the raw PSM list. -/
theorem C04_qvalues_after_competition (merged : List Row) (hs : SortedRows merged) :
    ((psmLevel true merged).map Row.spec).Nodup ∧
    levelQvalues (psmLevel true merged) = (psmLevel true merged).map (fun r =>
      qSpec (leInt true) ((psmLevel true merged).map (fun r => (r.score, r.target))) r.score) :=
  ⟨(dedupFirst_levelSpec Row.spec merged hs).2.1, C03_qvalues_are_C01 _⟩


/-! ## T5 — the competition never looks at the labels

The expectation bound T4 (`C04Fdr.lean`) needs a ranking and a competition that are independent
of which of the exchangeable PSMs carry the decoy label.  In the model this is a theorem: every
step that decides which PSM survives (per-chunk de-duplication, PSM level, every roll-up level)
commutes with an arbitrary relabelling of the rows.  (The arrangement of tied rows is a parameter
of the model; that the real sort picks it from the scores alone is what the label-flip run of the
C04 harness checks on the real code.) -/

/-- give every row the label `f id` -/
def Row.relabel (f : Nat → Bool) (r : Row) : Row := { r with target := f r.id }

theorem dedupFirst_map_relabel (key : Row → Nat) (f : Nat → Bool)
    (hk : ∀ r, key (Row.relabel f r) = key r) :
    ∀ (seen : List Nat) (rows : List Row),
      dedupFirst key seen (rows.map (Row.relabel f)) = (dedupFirst key seen rows).map (Row.relabel f) := by
  intro seen rows
  induction rows generalizing seen with
  | nil => simp [dedupFirst]
  | cons r rest ih =>
    simp only [List.map_cons, dedupFirst, hk]
    split
    · exact ih seen
    · simp [ih]

/-- **T5 — label-blind competition.**  Relabelling the rows in any way changes neither which rows
survive the per-chunk de-duplication, nor the PSM level, nor any roll-up level — only the labels
the survivors carry. -/
theorem C04_competition_label_blind (f : Nat → Bool) (dedup : Bool) (rows : List Row) (l : Nat) :
    chunkFile dedup (rows.map (Row.relabel f)) = (chunkFile dedup rows).map (Row.relabel f) ∧
    psmLevel dedup (rows.map (Row.relabel f)) = (psmLevel dedup rows).map (Row.relabel f) ∧
    rollupLevel dedup (rows.map (Row.relabel f)) l = (rollupLevel dedup rows l).map (Row.relabel f) := by
  have hs : ∀ r, Row.spec (Row.relabel f r) = Row.spec r := fun _ => rfl
  have hkey : ∀ r, (fun r : Row => r.key l) (Row.relabel f r) = (fun r : Row => r.key l) r := fun _ => rfl
  have hpsm : psmLevel dedup (rows.map (Row.relabel f)) = (psmLevel dedup rows).map (Row.relabel f) := by
    unfold psmLevel; split
    · exact dedupFirst_map_relabel Row.spec f hs [] rows
    · rfl
  refine ⟨?_, hpsm, ?_⟩
  · unfold chunkFile; split
    · exact dedupFirst_map_relabel Row.spec f hs [] rows
    · rfl
  · unfold rollupLevel
    rw [hpsm]
    exact dedupFirst_map_relabel (fun r => r.key l) f hkey [] _

/-- the surviving PSM ids are the same under every labelling -/
theorem C04_survivors_independent_of_labels (f g : Nat → Bool) (dedup : Bool) (rows : List Row) (l : Nat) :
    (psmLevel dedup (rows.map (Row.relabel f))).map Row.id = (psmLevel dedup (rows.map (Row.relabel g))).map Row.id ∧
    (rollupLevel dedup (rows.map (Row.relabel f)) l).map Row.id
      = (rollupLevel dedup (rows.map (Row.relabel g)) l).map Row.id := by
  have hid : ∀ (h : Nat → Bool) (xs : List Row), (xs.map (Row.relabel h)).map Row.id = xs.map Row.id := by
    intro h xs; simp [Row.relabel, Function.comp_def]
  rw [(C04_competition_label_blind f dedup rows l).2.1, (C04_competition_label_blind g dedup rows l).2.1,
    (C04_competition_label_blind f dedup rows l).2.2, (C04_competition_label_blind g dedup rows l).2.2]
  simp [hid]

/-- refuted variant: a sort that breaks score ties in favour of targets before the
de-duplication is NOT label-blind — two tied PSMs of one spectrum, flip both labels, the other
PSM survives -/
def insTF (x : Row) : List Row → List Row
  | [] => [x]
  | y :: ys =>
    if decide (y.score < x.score) || (decide (x.score = y.score) && (x.target || !y.target)) then x :: y :: ys
    else y :: insTF x ys

def targetsFirstOnTies (rows : List Row) : List Row := rows.foldr insTF []

theorem C04_label_tiebreak_not_blind :
    ∃ (rows : List Row) (f : Nat → Bool),
      (dedupFirst Row.spec [] (targetsFirstOnTies (rows.map (Row.relabel f)))).map Row.id
        ≠ (dedupFirst Row.spec [] (targetsFirstOnTies rows)).map Row.id :=
  ⟨[⟨0, 7, [], true, 5⟩, ⟨1, 7, [], false, 5⟩], fun i => i == 1, by decide⟩

/-! non-vacuity of T1: 4 accepted targets, 1 accepted decoy at a = 1/2: (1+1) ≤ 1/2 · 4 -/
#guard (acceptedAt (leInt true) [(5, true), (4, true), (3, true), (2, false), (1, true)] (1/2)).length == 5

end Mk
