import MokapotVerif.Lemmas.DigestMulti
import MokapotVerif.Lemmas.DigestZero
/-!
# C17 (third extension) — any enzyme regex: `_cleavage_sites` + `_cleave` over an arbitrary list of match ends

Property theorems only.  `mokapot.digest` is `_cleave(sequence, [0] + ends + [len(sequence)], …)`, where
`ends = [m.end() for m in enzyme_regex.finditer(sequence)]` is the only thing that depends on the regex.
`digestM ends seq …` (`Model/DigestMulti.lean`) takes `ends` as a parameter, so the theorems below hold for
alternations (`[KR]|(?=D)`), variable-width patterns (`K+`, `[KR]{1,2}`), anchors (`K|$`), look-behind mixed
with consumption - every regex.  What is assumed of `re.finditer` shrinks to: *the match ends are weakly
increasing and none exceeds `len(sequence)`* (checked by the harness on every list it takes from `re`).

* `C17_digestM_mem_iff_segments`: no hypothesis at all - a peptide is returned iff it is derived from a
  contiguous segment `s, mid…, t` of the list of sites with at most `mc` entries in `mid`.
* `C17_digestM_mem_iff_spec`: for weakly increasing ends `≤ len(sequence)` the digest is exactly `DigestSpecM`
  - the declarative specification in terms of *positions*, missed cleavages counted with multiplicity.
* the three modelled pattern classes are instances (`C17_digest*_is_digestM`, `C17_matchEnds*_ok`), and for them
  `DigestSpecM` coincides with the earlier specifications (`C17_specM_eq_specP`, `C17_specM_eq_specZ`).
* `C17_digestM_interior_duplicate_witness`: an interior position listed twice costs a missed cleavage
  (defect D-2 of `gaps/GAPS-C17.md`, now inside the model).
* `C17_digestM_clip_only_from_parent`, `C17_digestM_clipped_shorter_than_max`, `C17_digest_clip_maxlen_witness`:
  the clipped form is derived from a *qualifying* N-terminal peptide only - a clipped form of exactly
  `max_length` residues is never produced from clipping (observation O-2 of the third pass).
* `C17_digestInt_*`: negative `missed_cleavages` / `max_length` give the empty set, a negative `min_length` acts
  like `0`.
-/
namespace Mk

/-! ## hypothesis-free: segments of the list of sites -/

/-- a peptide is returned iff it comes from a contiguous segment of the list of sites
`[0] + ends + [len(seq)]`: start entry `s`, at most `mc` entries `mid`, end entry `t`; the peptide
`seq[s:t]` must pass the length filter, and contributes itself, its clipped form when the segment starts
at the first list entry, and its semi forms.  **No assumption on `ends`.** -/
theorem C17_digestM_mem_iff_segments (ends : List Nat) (seq : List Char) (mc lo hi : Nat) (clip semi : Bool)
    (p : Pep) :
    p ∈ digestM ends seq mc lo hi clip semi ↔
      ∃ pre s mid t post, cleavageSitesM ends seq.length = pre ++ s :: (mid ++ t :: post) ∧ mid.length ≤ mc
        ∧ lo ≤ (slice seq s t).length ∧ (slice seq s t).length ≤ hi
        ∧ (p = slice seq s t
            ∨ (clip = true ∧ pre = [] ∧ (slice seq s t).head? = some 'M' ∧ lo ≤ (slice seq s t).length - 1
                ∧ p = (slice seq s t).drop 1)
            ∨ (semi = true ∧ ∃ k, 1 ≤ k ∧ k < (slice seq s t).length ∧ lo ≤ (slice seq s t).length - k
                ∧ (p = (slice seq s t).drop k ∨ p = (slice seq s t).take ((slice seq s t).length - k)))) := by
  unfold digestM
  rw [mem_cleave_split]
  constructor
  · rintro ⟨pre, s, mid, t, post, h, hm, hp⟩
    rw [mem_pepsOf] at hp
    obtain ⟨l1, l2, hp⟩ := hp
    refine ⟨pre, s, mid, t, post, h, hm, l1, l2, ?_⟩
    rcases hp with hp | ⟨c1, c2, c3, c4, c5⟩ | hp
    · exact Or.inl hp
    · exact Or.inr (Or.inl ⟨c1, List.eq_nil_of_length_eq_zero c2, c3, c4, c5⟩)
    · exact Or.inr (Or.inr hp)
  · rintro ⟨pre, s, mid, t, post, h, hm, l1, l2, hp⟩
    refine ⟨pre, s, mid, t, post, h, hm, ?_⟩
    rw [mem_pepsOf]
    refine ⟨l1, l2, ?_⟩
    rcases hp with hp | ⟨c1, c2, c3, c4, c5⟩ | hp
    · exact Or.inl hp
    · exact Or.inr (Or.inl ⟨c1, by rw [c2]; rfl, c3, c4, c5⟩)
    · exact Or.inr (Or.inr hp)

/-! ## the digest is exactly the specification with multiplicities -/

/-- **`mokapot.digest` for any enzyme regex**: given only that the match ends reported by `re.finditer` are
weakly increasing and `≤ len(sequence)`, the digest is exactly `DigestSpecM` - for all sequences, missed
cleavages, length bounds (`min_length = 0` included) and both flags. -/
theorem C17_digestM_mem_iff_spec (ends : List Nat) (seq : List Char) (hs : ends.Pairwise (· ≤ ·))
    (hle : ∀ e ∈ ends, e ≤ seq.length) (mc lo hi : Nat) (clip semi : Bool) (p : Pep) :
    p ∈ digestM ends seq mc lo hi clip semi ↔
      DigestSpecM (cleavageSitesM ends seq.length) seq mc lo hi clip semi p :=
  mem_cleave_multi (ends ++ [seq.length]) seq (sitesM_sorted ends seq.length hs hle)
    (sitesM_le ends seq.length hle) mc lo hi clip semi p

/-- the enumeration used by the driver op `digestspecm` is `DigestSpecM` -/
theorem C17_specListM_mem_iff_spec (ends : List Nat) (seq : List Char) (hle : ∀ e ∈ ends, e ≤ seq.length)
    (mc lo hi : Nat) (clip semi : Bool) (p : Pep) :
    p ∈ specListM ends seq mc lo hi clip semi ↔
      DigestSpecM (cleavageSitesM ends seq.length) seq mc lo hi clip semi p :=
  mem_specListMS _ seq (sitesM_le ends seq.length hle) mc lo hi clip semi p

/-- the driver op `endsok` decides the two hypotheses -/
theorem C17_endsOk_iff (ends : List Nat) (n : Nat) :
    endsOk ends n = true ↔ ends.Pairwise (· ≤ ·) ∧ ∀ e ∈ ends, e ≤ n := by
  unfold endsOk
  rw [Bool.and_eq_true, sortedLE_iff, List.all_eq_true]
  simp only [decide_eq_true_eq]
  exact And.comm

/-! ## every match non-empty: the property text, for any such regex -/

/-- the driver op `digestspecms` is offered only for lists that pass `endsStrict`, which decides the hypotheses
of `C17_digestM_nonempty_matches_spec` -/
theorem C17_endsStrict_iff (ends : List Nat) (n : Nat) :
    endsStrict ends n = true ↔ ends.Pairwise (· < ·) ∧ ∀ e ∈ ends, 0 < e ∧ e ≤ n := by
  unfold endsStrict
  rw [Bool.and_eq_true, List.all_eq_true, decide_eq_true_iff]
  simp only [Bool.and_eq_true, decide_eq_true_eq]
  exact And.comm

/-- **any enzyme regex all of whose matches consume at least one residue** (alternations of consuming branches,
`K+`, `[KR]{1,2}`, groups, …; the match ends are then strictly increasing and positive): the digest is exactly
the set the property text describes - substrings between two cleavage *positions* (sequence ends and match
ends) with at most `mc` positions strictly between, within the bounds, their clipped and semi forms - plus the
empty peptide when `min_length = 0` and a match ends at the end of the sequence. -/
theorem C17_digestM_nonempty_matches_spec (ends : List Nat) (seq : List Char) (hs : ends.Pairwise (· < ·))
    (hpos : ∀ e ∈ ends, 0 < e ∧ e ≤ seq.length) (mc lo hi : Nat) (clip semi : Bool) (p : Pep) :
    p ∈ digestM ends seq mc lo hi clip semi ↔ DigestSpecMS ends seq mc lo hi clip semi p :=
  mem_digestM_set ends seq hs hpos mc lo hi clip semi p

/-- the enumeration used by the driver op `digestspecms` is `DigestSpecMS` -/
theorem C17_specListMSet_mem_iff_spec (ends : List Nat) (seq : List Char) (mc lo hi : Nat) (clip semi : Bool)
    (p : Pep) :
    p ∈ specListMSet ends seq mc lo hi clip semi ↔ DigestSpecMS ends seq mc lo hi clip semi p :=
  mem_specListMSet ends seq mc lo hi clip semi p

/-- there the specification with multiplicities and the one over the set of positions coincide -/
theorem C17_specM_eq_set_spec (ends : List Nat) (seq : List Char) (hs : ends.Pairwise (· < ·))
    (hpos : ∀ e ∈ ends, 0 < e ∧ e ≤ seq.length) (mc lo hi : Nat) (clip semi : Bool) (p : Pep) :
    DigestSpecM (cleavageSitesM ends seq.length) seq mc lo hi clip semi p ↔
      DigestSpecMS ends seq mc lo hi clip semi p := by
  rw [← C17_digestM_mem_iff_spec ends seq (hs.imp (fun h => Nat.le_of_lt h)) (fun e he => (hpos e he).2),
    C17_digestM_nonempty_matches_spec ends seq hs hpos]

/-! ## substring, length bounds, monotonicity: no hypothesis on the match ends -/

theorem C17_digestM_substring (ends : List Nat) (seq : List Char) (mc lo hi : Nat) (clip semi : Bool) (p : Pep)
    (h : p ∈ digestM ends seq mc lo hi clip semi) : ∃ pre suf, seq = pre ++ p ++ suf := by
  obtain ⟨pre, suf, h⟩ := cleave_infix seq _ mc lo hi semi clip p h
  exact ⟨pre, suf, h.symm⟩

theorem C17_digestM_length_bounds (ends : List Nat) (seq : List Char) (mc lo hi : Nat) (clip semi : Bool)
    (p : Pep) (h : p ∈ digestM ends seq mc lo hi clip semi) : lo ≤ p.length ∧ p.length ≤ hi := by
  unfold digestM at h
  rw [mem_cleave] at h
  obtain ⟨i, d, s, t, -, -, -, -, hp⟩ := h
  rw [mem_pepsOf] at hp
  obtain ⟨h1, h2, hp | ⟨-, -, -, c4, hp⟩ | ⟨-, k, k1, k2, k3, hp | hp⟩⟩ := hp
  · subst hp; exact ⟨h1, h2⟩
  · subst hp; rw [List.length_drop]; omega
  · subst hp; rw [List.length_drop]; omega
  · subst hp; rw [List.length_take]; omega

theorem C17_digestM_mono (ends : List Nat) (seq : List Char) (mc mc' lo hi lo' hi' : Nat)
    (clip clip' semi semi' : Bool) (hmc : mc ≤ mc') (hlo : lo' ≤ lo) (hhi : hi ≤ hi')
    (hsemi : semi = true → semi' = true) (hclip : clip = true → clip' = true)
    (p : Pep) (hp : p ∈ digestM ends seq mc lo hi clip semi) :
    p ∈ digestM ends seq mc' lo' hi' clip' semi' :=
  cleave_mono seq _ mc mc' lo hi lo' hi' semi semi' clip clip' p hmc hlo hhi hsemi hclip hp

/-! ## the modelled pattern classes are instances -/

theorem C17_digest_is_digestM (e : Enzyme) (seq : List Char) (mc lo hi : Nat) (clip semi : Bool) :
    digest e seq mc lo hi clip semi = digestM (matchEnds e 0 seq) seq mc lo hi clip semi := rfl

theorem C17_digestP_is_digestM (e : EnzymeP) (seq : List Char) (mc lo hi : Nat) (clip semi : Bool) :
    digestP e seq mc lo hi clip semi = digestM (matchEndsP e 0 0 seq) seq mc lo hi clip semi := rfl

theorem C17_digestZ_is_digestM (e : EnzymeZ) (seq : List Char) (mc lo hi : Nat) (clip semi : Bool) :
    digestZ e seq mc lo hi clip semi = digestM (matchEndsZ e 0 none seq) seq mc lo hi clip semi := rfl

/-- the model of `finditer` for fixed-width patterns satisfies the two hypotheses -/
theorem C17_matchEndsP_ok (e : EnzymeP) (seq : List Char) : endsOk (matchEndsP e 0 0 seq) seq.length = true := by
  rw [C17_endsOk_iff]
  refine ⟨(matchEndsP_lt e seq).imp (fun h => Nat.le_of_lt h), ?_⟩
  intro x hx
  exact (isEndP_sound e seq x ((isEndP_iff e seq x).mpr hx)).2.1

/-- … and so does the model for zero-width rules -/
theorem C17_matchEndsZ_ok (e : EnzymeZ) (seq : List Char) :
    endsOk (matchEndsZ e 0 none seq) seq.length = true := by
  rw [C17_endsOk_iff, matchEndsZ_top]
  refine ⟨(List.Pairwise.filter _ List.pairwise_lt_range).imp (fun h => Nat.le_of_lt h), ?_⟩
  intro x hx
  rw [List.mem_filter, List.mem_range] at hx
  omega

/-- for a fixed-width pattern the specification with multiplicities is the specification over the *set* of
cleavage positions (`DigestSpecP`, Props/C17Ext.lean) -/
theorem C17_specM_eq_specP (e : EnzymeP) (seq : List Char) (mc lo hi : Nat) (clip semi : Bool) (p : Pep) :
    DigestSpecM (cleavageSitesM (matchEndsP e 0 0 seq) seq.length) seq mc lo hi clip semi p ↔
      DigestSpecP e seq mc lo hi clip semi p := by
  have hok := (C17_endsOk_iff _ _).mp (C17_matchEndsP_ok e seq)
  rw [← C17_digestM_mem_iff_spec _ seq hok.1 hok.2, ← C17_digestP_is_digestM, mem_digestP_iff_spec]

/-- for a zero-width rule it is `DigestSpecZ` (Props/C17Zero.lean): the restriction on the clipped form when
position 0 is listed twice is the `beforeM` clause -/
theorem C17_specM_eq_specZ (e : EnzymeZ) (seq : List Char) (mc lo hi : Nat) (clip semi : Bool) (p : Pep) :
    DigestSpecM (cleavageSitesM (matchEndsZ e 0 none seq) seq.length) seq mc lo hi clip semi p ↔
      DigestSpecZ e seq mc lo hi clip semi p := by
  have hok := (C17_endsOk_iff _ _).mp (C17_matchEndsZ_ok e seq)
  rw [← C17_digestM_mem_iff_spec _ seq hok.1 hok.2, ← C17_digestZ_is_digestM, mem_digestZ_iff_spec]

/-! ## an interior position listed twice (alternation of a consuming and a zero-width branch) -/

/-- `digest("AAKDAAKAA", "[KR]|(?=D)", missed_cleavages=1, min_length=1)`: `finditer` reports the ends
`[3, 3, 7]` (the `K` match ends where the empty `(?=D)` match lies).  `AAKDAAK` has one missed cleavage as
positions go, but two list entries lie between its ends: it is not returned, while with the ends `[3, 7]`
(the same cleavage positions, each listed once) it is. -/
theorem C17_digestM_interior_duplicate_witness :
    ∃ (seq : List Char) (p : Pep),
      p ∉ digestM [3, 3, 7] seq 1 1 50 false false ∧ p ∈ digestM [3, 7] seq 1 1 50 false false
        ∧ p ∈ digestM [3, 3, 7] seq 2 1 50 false false :=
  ⟨"AAKDAAKAA".toList, "AAKDAAK".toList, by decide, by decide, by decide⟩

/-! ## clipping: derived from a qualifying N-terminal peptide only -/

/-- whatever clipping adds is the tail of a returned peptide that starts with `M` -/
theorem C17_digestM_clip_only_from_parent (ends : List Nat) (seq : List Char) (mc lo hi : Nat) (semi : Bool)
    (p : Pep) (h : p ∈ digestM ends seq mc lo hi true semi) :
    p ∈ digestM ends seq mc lo hi false semi ∨ ('M' :: p) ∈ digestM ends seq mc lo hi false semi := by
  unfold digestM at h ⊢
  rw [mem_cleave] at h
  obtain ⟨i, d, s, t, hs, d1, d2, ht, hp⟩ := h
  rw [mem_pepsOf] at hp
  obtain ⟨l1, l2, hp⟩ := hp
  rcases hp with hp | ⟨-, -, c3, -, c5⟩ | hp
  · left
    rw [mem_cleave]
    exact ⟨i, d, s, t, hs, d1, d2, ht, (mem_pepsOf _ _ _ _ _ _ _).mpr ⟨l1, l2, Or.inl hp⟩⟩
  · right
    rw [mem_cleave]
    refine ⟨i, d, s, t, hs, d1, d2, ht, (mem_pepsOf _ _ _ _ _ _ _).mpr ⟨l1, l2, Or.inl ?_⟩⟩
    cases hpep : slice seq s t with
    | nil => rw [hpep] at c3; simp at c3
    | cons c r =>
      rw [hpep] at c3 c5
      simp only [List.head?_cons, Option.some.injEq] at c3
      simp only [List.drop_one, List.tail_cons] at c5
      rw [c3, c5]
  · left
    rw [mem_cleave]
    exact ⟨i, d, s, t, hs, d1, d2, ht, (mem_pepsOf _ _ _ _ _ _ _).mpr ⟨l1, l2, Or.inr (Or.inr hp)⟩⟩

/-- hence a peptide that only clipping contributes has at most `max_length − 1` residues: the N-terminal
peptide of `M` + `max_length` residues fails the length filter *before* the clip branch -/
theorem C17_digestM_clipped_shorter_than_max (ends : List Nat) (seq : List Char) (mc lo hi : Nat) (semi : Bool)
    (p : Pep) (h : p ∈ digestM ends seq mc lo hi true semi)
    (hn : p ∉ digestM ends seq mc lo hi false semi) : p.length + 1 ≤ hi := by
  rcases C17_digestM_clip_only_from_parent ends seq mc lo hi semi p h with h' | h'
  · exact absurd h' hn
  · have := (C17_digestM_length_bounds ends seq mc lo hi false semi _ h').2
    simpa using this

/-- `digest("MAAK", "K", min_length=1, max_length=3, clip_nterm_methionine=True)` is empty although `AAK` is
the (only) peptide of the protein without its initiator methionine and has exactly `max_length` residues -/
theorem C17_digest_clip_maxlen_witness :
    ∃ (e : Enzyme) (seq : List Char) (mc lo hi : Nat) (p : Pep),
      seq.head? = some 'M' ∧ p ∈ digest e seq.tail mc lo hi false false ∧ p.length = hi
        ∧ p ∉ digest e seq mc lo hi true false :=
  ⟨⟨['K'], []⟩, "MAAK".toList, 0, 1, 3, "AAK".toList, by decide, by decide, by decide, by decide⟩

/-! ## Python ints: negative limits -/

theorem C17_digestInt_nonneg (ends : List Nat) (seq : List Char) (mc lo hi : Nat) (clip semi : Bool) :
    digestInt ends seq (mc : Int) (lo : Int) (hi : Int) clip semi = digestM ends seq mc lo hi clip semi := by
  unfold digestInt
  rw [if_neg (by omega), if_neg (by omega)]
  simp

/-- a negative `missed_cleavages` or `max_length`: nothing is returned -/
theorem C17_digestInt_empty (ends : List Nat) (seq : List Char) (mc lo hi : Int) (clip semi : Bool)
    (h : mc < 0 ∨ hi < 0) : digestInt ends seq mc lo hi clip semi = [] := by
  unfold digestInt
  rcases h with h | h
  · rw [if_pos h]
  · by_cases h' : mc < 0
    · rw [if_pos h']
    · rw [if_neg h', if_pos h]

/-- a negative `min_length` acts like `min_length = 0` -/
theorem C17_digestInt_neg_min (ends : List Nat) (seq : List Char) (mc lo hi : Int) (clip semi : Bool)
    (h : lo < 0) : digestInt ends seq mc lo hi clip semi = digestInt ends seq mc 0 hi clip semi := by
  unfold digestInt
  have : lo.toNat = (0 : Int).toNat := by
    rw [Int.toNat_of_nonpos (by omega)]; rfl
  rw [this]

/-! ## non-vacuity and tests -/

-- trypsin + Asp-N as one alternation on `AAKDAAKAA`: ends `[3, 3, 7]` satisfy the hypotheses
example : endsOk [3, 3, 7] 9 = true := by decide
-- `K*` on `AKKA`: CPython reports the ends `[0, 3, 3, 4]` (empty matches at 0, after the run, at the end)
example : endsOk [0, 3, 3, 4] 4 = true := by decide
example : endsOk [3, 2] 4 = false := by decide
example : endsOk [5] 4 = false := by decide
-- `K+` on `AKKAKRA`: one match per run, ends `[3, 5]`; `[KR]{1,2}` on the same: `[3, 6]`
example : endsStrict [3, 5] 7 = true := by decide
example : endsStrict [3, 3, 7] 9 = false := by decide
example : endsStrict [0, 3] 4 = false := by decide
-- `EnzymaticM` with a repeated interior site: one missed cleavage as positions go, two entries between
example : ¬ EnzymaticM (cleavageSitesM [3, 3, 7] 9) 1 1 50 0 7 := by decide
example : EnzymaticM (cleavageSitesM [3, 3, 7] 9) 2 1 50 0 7 := by decide
example : EnzymaticM (cleavageSitesM [3, 3, 7] 9) 0 0 50 3 3 := by decide
-- the clip clause and its `beforeM` condition (site 0 listed twice)
example : DigestSpecM (cleavageSitesM [0, 2, 3, 4] 4) "MPAK".toList 1 1 4 true false ['P'] :=
  (C17_specListM_mem_iff_spec [0, 2, 3, 4] "MPAK".toList (by decide) 1 1 4 true false ['P']).mp (by decide)
example : ['P'] ∉ specListM [0, 2, 3, 4] "MPAK".toList 0 1 4 true false := by decide
-- hypothesis of `C17_digestM_clipped_shorter_than_max`
example : "AK".toList ∈ digestM [3] "MAK".toList 0 1 3 true false
    ∧ "AK".toList ∉ digestM [3] "MAK".toList 0 1 3 false false := by decide
-- hypotheses of the `digestInt` theorems
example : digestInt [3] "MAK".toList (-1) 1 3 true false = [] := by decide
example : (-2 : Int) < 0 := by decide

#guard cleavageSitesM [3, 3, 7] 9 == [0, 3, 3, 7, 9]
#guard (digestM [3, 5] "AKKAKRA".toList 1 0 7 true true).all
  (specListMSet [3, 5] "AKKAKRA".toList 1 0 7 true true).contains
#guard (specListMSet [3, 7] "MKKAKRK".toList 1 0 7 true true).all
  (digestM [3, 7] "MKKAKRK".toList 1 0 7 true true).contains
#guard !(digestM [3, 3, 7] "AAKDAAKAA".toList 1 1 50 false false).contains "AAKDAAK".toList
#guard (digestM [3, 3, 7] "AAKDAAKAA".toList 1 0 50 false false).contains []
#guard (specListM [3, 3, 7] "AAKDAAKAA".toList 1 0 50 false false).contains []
#guard (digestM [3, 3, 7] "AAKDAAKAA".toList 1 1 50 true true).all
  (specListM [3, 3, 7] "AAKDAAKAA".toList 1 1 50 true true).contains
#guard (specListM [3, 3, 7] "AAKDAAKAA".toList 1 1 50 true true).all
  (digestM [3, 3, 7] "AAKDAAKAA".toList 1 1 50 true true).contains
#guard (digestInt [3] "MAKAA".toList 1 (-3) 5 true true).length
  == (digestInt [3] "MAKAA".toList 1 0 5 true true).length
#guard digestInt [3] "MAKAA".toList 1 0 (-1) true true == []

end Mk
