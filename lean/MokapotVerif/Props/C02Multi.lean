import MokapotVerif.Props.C02
import MokapotVerif.Lemmas.BrewRun
/-!
# C02 — Cross-validation integrity over several collections, any `argsort` order, the fit
loop, and trained models given (property theorems; extension of `Props/C02.lean`)
-/
namespace Mk.Brew

/-- `np.argsort(spectra)` paired with the hashes: any arrangement of `(hash, row)` sorted by
hash (numpy's default sort is not stable) -/
def IsArgsort (hashes : List Nat) (sorted : List (Nat × Nat)) : Prop :=
  SortedByHash sorted ∧ sorted.Perm hashes.zipIdx

/-- `_split` for *any* order `argsort` gives to equal hashes and any in-fold shuffle: exactly
`folds` folds, a partition of the rows, equal hashes share a fold
(`C02_split_exec` is the instance "stable sort") -/
theorem C02_split_anysort (hashes : List Nat) (sorted : List (Nat × Nat)) (hs : IsArgsort hashes sorted)
    (folds : Nat) (hf : 1 ≤ folds) (fs fs' : List (List Nat))
    (h : splitWith sorted folds = some fs) (hsh : List.Forall₂ List.Perm fs fs') :
    fs'.length = folds ∧ fs'.flatten.Perm (List.range hashes.length) ∧
    ∀ i j, i < hashes.length → j < hashes.length → hashes[i]? = hashes[j]? →
      ∀ fold ∈ fs', (i ∈ fold ↔ j ∈ fold) := by
  obtain ⟨hsorted, hperm⟩ := hs
  have hsnd : (sorted.map (·.2)).Perm (List.range hashes.length) := by
    refine (hperm.map _).trans ?_
    rw [List.zipIdx_map_snd, List.range_eq_range']
  have hnd : (sorted.map (·.2)).Nodup := hsnd.nodup_iff.mpr List.nodup_range
  refine ⟨?_, ?_, ?_⟩
  · rw [← hsh.length_eq]
    exact C02_split_count _ folds hf fs h
  · refine (List.Perm.flatten_congr hsh).symm.trans ?_
    rw [C02_split_partition _ folds fs h]
    exact hsnd
  · intro i j hi hj hij fold' hfold'
    obtain ⟨fold, hfold, hpf⟩ := forall₂_mem_right hsh fold' hfold'
    rw [← hpf.mem_iff, ← hpf.mem_iff]
    rw [List.getElem?_eq_getElem hi, List.getElem?_eq_getElem hj] at hij
    have ha : (hashes[i], i) ∈ sorted := by
      rw [hperm.mem_iff, List.mem_zipIdx_iff_getElem?]
      simp [hi]
    have hb : (hashes[j], j) ∈ sorted := by
      rw [hperm.mem_iff, List.mem_zipIdx_iff_getElem?]
      simp [hj]
    exact C02_split_respects_key _ folds fs hsorted hnd h (hashes[i], i) (hashes[j], j) ha hb
      (Option.some.inj hij) fold hfold

/-- in terms of the spectrum-key columns: the hash is a function of the first two key columns
(dataset.py:653-661), so all PSMs of one spectrum — indeed all PSMs whose keys agree on the
first two columns — fall in the same fold -/
theorem C02_same_spectrum_same_fold {κ : Type} (hfun : List κ → Nat) (keys : List (List κ))
    (sorted : List (Nat × Nat)) (hs : IsArgsort (keys.map (spectrumHash hfun)) sorted)
    (folds : Nat) (hf : 1 ≤ folds) (fs fs' : List (List Nat))
    (h : splitWith sorted folds = some fs) (hsh : List.Forall₂ List.Perm fs fs')
    (i j : Nat) (hi : i < keys.length) (hj : j < keys.length)
    (hkey : keys[i].take 2 = keys[j].take 2) :
    ∀ fold ∈ fs', (i ∈ fold ↔ j ∈ fold) := by
  obtain ⟨_, _, hresp⟩ := C02_split_anysort _ sorted hs folds hf fs fs' h hsh
  apply hresp i j (by simpa using hi) (by simpa using hj)
  simp [hi, hj, spectrumHash, hkey]

/-- the 5 000 000-row inner loop of `make_train_sets` yields, for every `chunk_range`, the
rows of the file outside the held-out fold — the same list as the one-step complement -/
theorem C02_train_loop_eq_complement (cr ds : Nat) (fold : List Nat) (fuel : Nat) :
    complementLoop cr ds fold fuel 0 = complement ds fold := by
  rw [complementLoop_eq]
  unfold rangeDiff complement
  rw [List.range_eq_range']
  rfl

/-- `make_train_sets` for any number of files, any enumeration order of the sets and any draws
of `rng.choice`: one entry per fold and file; the training indices of fold `f` in file `k`
have no duplicates and lie in file `k` outside *that file's* held-out fold `f`; without
sub-sampling they are all of those rows, with sub-sampling exactly the file's share of the cap -/
theorem C02_make_train_sets (testIdx : List (List (List Nat))) (cap : Option Nat) (dataSize : List Nat)
    (enum : Nat → Nat → List Nat → List Nat) (draw : Nat → Nat → Nat → List Nat)
    (henum : ∀ f k l, (enum f k l).Perm l) (hdraw : DrawsValid cap dataSize.length draw)
    (folds : Nat) (hne : testIdx ≠ []) (hfolds : ∀ fs ∈ testIdx, fs.length = folds)
    (trains : List (List (List Nat)))
    (h : makeTrainSets testIdx cap dataSize enum draw = some trains) :
    trains.length = folds ∧ ∀ f, f < folds →
      (trains.getD f []).length = dataSize.length ∧ ∀ k, k < dataSize.length →
        ((trains.getD f []).getD k []).Nodup ∧
        (∀ i ∈ (trains.getD f []).getD k [], i < dataSize.getD k 0 ∧ i ∉ heldOut testIdx k f) ∧
        (capApplies cap (trainTotal testIdx dataSize f) = true →
          ((trains.getD f []).getD k []).length = (capsOf cap dataSize.length).getD k 0) ∧
        (capApplies cap (trainTotal testIdx dataSize f) = false →
          ((trains.getD f []).getD k []).Perm (complement (dataSize.getD k 0) (heldOut testIdx k f))) := by
  have hz := zipLen_const folds testIdx hne hfolds
  obtain ⟨hl, hrest⟩ := makeTrainSets_entry testIdx cap dataSize enum draw henum hdraw trains h
  rw [hz] at hl hrest
  refine ⟨hl, ?_⟩
  intro f hf
  obtain ⟨h1, h2⟩ := hrest f hf
  refine ⟨h1, ?_⟩
  intro k hk
  obtain ⟨a, b, c, d⟩ := h2 k hk
  refine ⟨a, ?_, c, d⟩
  intro i hi
  have := b i hi
  simp only [complement, List.mem_filter, List.mem_range] at this
  exact ⟨this.1, by simpa using this.2⟩

/-- with sub-sampling the training set of the fold has exactly `subset_max_train` rows -/
theorem C02_cap_total (testIdx : List (List (List Nat))) (c : Nat) (dataSize : List Nat)
    (enum : Nat → Nat → List Nat → List Nat) (draw : Nat → Nat → Nat → List Nat)
    (henum : ∀ f k l, (enum f k l).Perm l) (hdraw : DrawsValid (some c) dataSize.length draw)
    (folds : Nat) (hne : testIdx ≠ []) (hfolds : ∀ fs ∈ testIdx, fs.length = folds)
    (hK : 0 < dataSize.length) (trains : List (List (List Nat)))
    (h : makeTrainSets testIdx (some c) dataSize enum draw = some trains)
    (f : Nat) (hf : f < folds) (happ : c < trainTotal testIdx dataSize f) :
    ((trains.getD f []).map List.length).sum = c := by
  obtain ⟨_, hrest⟩ := C02_make_train_sets testIdx (some c) dataSize enum draw henum hdraw folds hne
    hfolds trains h
  obtain ⟨h1, h2⟩ := hrest f hf
  generalize trains.getD f [] = trF at h1 h2 ⊢
  have heq : trF.map List.length = perFileCaps c dataSize.length := by
    apply List.ext_getElem
    · rw [List.length_map, h1, perFileCaps_length]
    · intro k hk1 hk2
      rw [List.length_map] at hk1
      obtain ⟨_, _, hc, _⟩ := h2 k (by omega)
      have := hc (by simp [capApplies, happ])
      simp only [capsOf, Option.elim_some] at this
      rw [List.getD_eq_getElem?_getD, List.getD_eq_getElem?_getD, List.getElem?_eq_getElem hk1,
        List.getElem?_eq_getElem hk2] at this
      simpa using this
  rw [heq, perFileCaps_sum c _ hK]

/-- `make_train_sets` raises (the `ValueError` of `rng.choice`) exactly when the cap applies to
some fold in which some file has fewer training rows than its share of the cap -/
theorem C02_make_train_sets_ok_iff (testIdx : List (List (List Nat))) (cap : Option Nat)
    (dataSize : List Nat) (enum : Nat → Nat → List Nat → List Nat) (draw : Nat → Nat → Nat → List Nat)
    (henum : ∀ f k l, (enum f k l).Perm l) (hK : 0 < dataSize.length) :
    (makeTrainSets testIdx cap dataSize enum draw).isSome ↔
      ∀ f, f < zipLen testIdx → capApplies cap (trainTotal testIdx dataSize f) = true →
        ∀ k, k < dataSize.length → (capsOf cap dataSize.length).getD k 0 ≤
          (complement (dataSize.getD k 0) (heldOut testIdx k f)).length :=
  makeTrainSets_isSome testIdx cap dataSize enum draw henum hK

/-- several files, any read chunk size, any completion order of the reader tasks: the table
handed to the fit of fold `f` consists of exactly the rows `files[k][i]`, `i ∈ trains[f][k]`,
file after file -/
theorem C02_parse_multi {ρ : Type} (c : Nat) (hc : 0 < c)
    (sched : Nat → Nat → List (List (Nat × ρ)) → List (List (Nat × ρ)))
    (hs : ∀ f k, SchedValid (sched f k)) (files : List (List ρ)) (trains : List (List (List Nat)))
    (hlt : ∀ trF ∈ trains, ∀ (k : Nat) (rows : List ρ), files[k]? = some rows →
      ∀ i ∈ trF.getD k [], i < rows.length) :
    parseInChunks c sched files trains = trains.map (trainTable files) :=
  parseInChunks_eq c hc sched hs files trains hlt

/-- the fit loop: in whatever order the fitted models come back (`fitted` any permutation),
after `fitted.sort(key=fold)` the `f`-th model carries fold number `f + 1` and is the learner
applied to the `f`-th training table -/
theorem C02_models_by_fold {τ μ : Type} (learner : τ → μ) (tables : List τ) (fitted : List (Nat × μ))
    (hp : fitted.Perm (fitAll learner tables)) (f : Nat) (hf : f < tables.length) :
    (sortByFold fitted)[f]? = some (f + 1, learner tables[f]) := by
  rw [sortByFold_fitAll learner tables fitted hp, fitAll_getElem?, List.getElem?_eq_getElem hf]
  rfl

/-- a list of models is accepted exactly when it has `folds` entries, all trained; it is then
used sorted by the `fold` attribute -/
theorem C02_pretrained_ok_iff {μ : Type} (ms : List (Nat × μ × Bool)) (folds : Nat) (r : List (Nat × μ)) :
    pretrained ms folds = .ok r ↔
      ms.length = folds ∧ (∀ m ∈ ms, m.2.2 = true) ∧ r = sortByFold (ms.map (fun m => (m.1, m.2.1))) :=
  pretrained_ok_iff ms folds r

/-- otherwise: `ValueError` for a wrong number of models, else `RuntimeError` for an untrained one -/
theorem C02_pretrained_error_iff {μ : Type} (ms : List (Nat × μ × Bool)) (folds : Nat) (e : String) :
    pretrained ms folds = .error e ↔
      (ms.length ≠ folds ∧ e = "ValueError") ∨
      (ms.length = folds ∧ (∃ m ∈ ms, m.2.2 = false) ∧ e = "RuntimeError") :=
  pretrained_error_iff ms folds e

/-- the models returned by a training run, handed back in *any* order, are put back in fold order -/
theorem C02_pretrained_any_order {τ μ : Type} (learner : τ → μ) (tables : List τ)
    (ms : List (Nat × μ × Bool)) (htr : ∀ m ∈ ms, m.2.2 = true)
    (hp : (ms.map (fun m => (m.1, m.2.1))).Perm (fitAll learner tables)) :
    pretrained ms tables.length = .ok (fitAll learner tables) := by
  rw [pretrained_ok_iff]
  refine ⟨?_, htr, (sortByFold_fitAll learner tables _ hp).symm⟩
  have := hp.length_eq
  simpa [fitAll_length] using this

/-- `_predict` over the collections: every collection is scored with its own routing vector and
calibrated per fold with its own rows -/
theorem C02_predict_all_eq_spec {ρ σ : Type} [Inhabited σ] (c : Nat) (hc : 0 < c) (nfolds : Nat)
    (files : List (List ρ)) (routings : List (List Nat))
    (h : ∀ x ∈ files.zip routings, x.2.length = x.1.length ∧ ∀ f ∈ x.2, f < nfolds)
    (score : Nat → ρ → σ) (target : ρ → Bool) (cal : List (σ × Bool) → σ → σ) :
    predictAll c nfolds files routings score target cal =
      predictAllSpec files routings score target cal := by
  unfold predictAll predictAllSpec
  apply List.map_congr_left
  intro x hx
  obtain ⟨h1, h2⟩ := h x hx
  exact C02_predict_eq_spec c hc nfolds x.1 x.2 h1 h2 score target cal


/-- the held-out folds of all collections (`[_psms._split(folds, rng) for _psms in psms]`), for
any `argsort` order and any in-fold shuffle: one list of exactly `folds` folds per collection,
each a partition of that collection's rows with equal hashes together -/
theorem C02_split_all (folds : Nat) (hf : 1 ≤ folds) (hashes : List (List Nat))
    (sorteds : List (List (Nat × Nat))) (hsl : sorteds.length = hashes.length)
    (hdata : ∀ k, k < hashes.length → IsArgsort (hashes.getD k []) (sorteds.getD k []))
    (shuffle : Nat → List (List Nat) → List (List Nat))
    (hshuf : ∀ k fs, List.Forall₂ List.Perm fs (shuffle k fs))
    (testIdx : List (List (List Nat))) (h : splitAll sorteds folds shuffle = some testIdx) :
    testIdx.length = hashes.length ∧ ∀ k, k < hashes.length →
      (testIdx.getD k []).length = folds ∧
      (testIdx.getD k []).flatten.Perm (List.range (hashes.getD k []).length) ∧
      ∀ i j, i < (hashes.getD k []).length → j < (hashes.getD k []).length →
        (hashes.getD k [])[i]? = (hashes.getD k [])[j]? →
        ∀ f, (i ∈ heldOut testIdx k f ↔ j ∈ heldOut testIdx k f) := by
  obtain ⟨hl, hk⟩ := splitAll_some sorteds folds shuffle testIdx h
  refine ⟨by omega, ?_⟩
  intro k hkl
  obtain ⟨fs, hfs, heq⟩ := hk k (by omega)
  obtain ⟨h1, h2, h3⟩ := C02_split_anysort _ _ (hdata k hkl) folds hf fs (shuffle k fs) hfs (hshuf k fs)
  rw [heq]
  refine ⟨h1, h2, ?_⟩
  intro i j hi hj hij f
  unfold heldOut
  rw [heq]
  by_cases hfl : f < (shuffle k fs).length
  · have hm : (shuffle k fs).getD f [] ∈ shuffle k fs := by
      rw [List.getD_eq_getElem?_getD, List.getElem?_eq_getElem hfl]
      exact List.getElem_mem hfl
    exact h3 i j hi hj hij _ hm
  · rw [List.getD_eq_getElem?_getD, List.getElem?_eq_none (by omega)]
    simp

/-- the facts of `C02_brew_multi_heldout` for given intermediate values `testIdx`, `trains` of the run -/
theorem C02_brew_multi_facts {ρ σ μ : Type} [Inhabited σ] [Inhabited μ]
    (cRead cPred folds : Nat) (hcr : 0 < cRead) (hcp : 0 < cPred) (hf : 1 ≤ folds)
    (files : List (List ρ)) (hK : 0 < files.length)
    (hashes : List (List Nat)) (sorteds : List (List (Nat × Nat)))
    (hhl : hashes.length = files.length) (hsl : sorteds.length = files.length)
    (hlen : ∀ k, k < files.length → (hashes.getD k []).length = (files.getD k []).length)
    (hdata : ∀ k, k < files.length → IsArgsort (hashes.getD k []) (sorteds.getD k []))
    (shuffle : Nat → List (List Nat) → List (List Nat))
    (hshuf : ∀ k fs, List.Forall₂ List.Perm fs (shuffle k fs))
    (cap : Option Nat) (enum : Nat → Nat → List Nat → List Nat)
    (henum : ∀ f k l, (enum f k l).Perm l)
    (draw : Nat → Nat → Nat → List Nat) (hdraw : DrawsValid cap files.length draw)
    (sched : Nat → Nat → List (List (Nat × ρ)) → List (List (Nat × ρ)))
    (hsched : ∀ f k, SchedValid (sched f k))
    (ret : List (Nat × μ) → List (Nat × μ)) (hret : ∀ l, (ret l).Perm l)
    (learner : List (Option ρ) → μ) (apply : μ → ρ → σ) (target : ρ → Bool)
    (cal : List (σ × Bool) → σ → σ) (models : List (Nat × μ)) (scores : List (List σ))
    (testIdx : List (List (List Nat))) (trains : List (List (List Nat)))
    (hsplit : splitAll sorteds folds shuffle = some testIdx)
    (htrain : makeTrainSets testIdx cap (files.map List.length) enum draw = some trains)
    (hmodels : models = sortByFold (ret (fitAll learner (parseInChunks cRead sched files trains))))
    (hscores : scores = predictAll cPred models.length files (routeAll testIdx files)
      (modelScore apply models) target cal) :
      (testIdx.length = files.length ∧ trains.length = folds ∧
        ∀ k, k < files.length →
          (testIdx.getD k []).length = folds ∧
          (testIdx.getD k []).flatten.Perm (List.range (files.getD k []).length) ∧
          ∀ i j, i < (files.getD k []).length → j < (files.getD k []).length →
            (hashes.getD k [])[i]? = (hashes.getD k [])[j]? →
            ∀ f, (i ∈ heldOut testIdx k f ↔ j ∈ heldOut testIdx k f)) ∧
      (models = fitAll learner (trains.map (trainTable files)) ∧
        ∀ f, f < folds → models[f]? = some (f + 1, learner (trainTable files (trains.getD f [])))) ∧
      (∀ f, f < folds → ∀ k, k < files.length →
        ((trains.getD f []).getD k []).Nodup ∧
        (∀ i ∈ (trains.getD f []).getD k [],
          i < (files.getD k []).length ∧ i ∉ heldOut testIdx k f ∧
          ∀ p ∈ heldOut testIdx k f, (hashes.getD k [])[i]? ≠ (hashes.getD k [])[p]?) ∧
        (capApplies cap (trainTotal testIdx (files.map List.length) f) = true →
          ((trains.getD f []).getD k []).length = (capsOf cap files.length).getD k 0) ∧
        (capApplies cap (trainTotal testIdx (files.map List.length) f) = false →
          ((trains.getD f []).getD k []).Perm
            (complement (files.getD k []).length (heldOut testIdx k f)))) ∧
      (scores = predictAllSpec files (routeAll testIdx files) (modelScore apply models) target cal ∧
        ∀ k, k < files.length → ∀ p, p < (files.getD k []).length → ∀ f, f < folds →
          (((routeAll testIdx files).getD k [])[p]? = some f ↔ p ∈ heldOut testIdx k f)) := by
  -- (A) the folds
  obtain ⟨htl, hfolds⟩ := C02_split_all folds hf hashes sorteds (by omega)
    (fun k hk => hdata k (by omega)) shuffle hshuf testIdx hsplit
  rw [hhl] at htl
  have hA : ∀ k, k < files.length →
      (testIdx.getD k []).length = folds ∧
      (testIdx.getD k []).flatten.Perm (List.range (files.getD k []).length) ∧
      ∀ i j, i < (files.getD k []).length → j < (files.getD k []).length →
        (hashes.getD k [])[i]? = (hashes.getD k [])[j]? →
        ∀ f, (i ∈ heldOut testIdx k f ↔ j ∈ heldOut testIdx k f) := by
    intro k hk
    have := hfolds k (by omega)
    rw [hlen k hk] at this
    exact this
  -- the training sets
  have hne : testIdx ≠ [] := by
    intro h0
    rw [h0] at htl
    simp at htl
    omega
  have hall : ∀ fs ∈ testIdx, fs.length = folds := by
    intro fs hfs
    obtain ⟨k, hk, rfl⟩ := List.getElem_of_mem hfs
    have := (hA k (by omega)).1
    rw [List.getD_eq_getElem?_getD, List.getElem?_eq_getElem hk] at this
    exact this
  have hdraw' : DrawsValid cap (files.map List.length).length draw := by
    rw [List.length_map]; exact hdraw
  obtain ⟨htrl, htr⟩ := C02_make_train_sets testIdx cap (files.map List.length) enum draw henum hdraw'
    folds hne hall trains htrain
  simp only [List.length_map] at htr
  -- the tables
  have hlt : ∀ trF ∈ trains, ∀ (k : Nat) (rows : List ρ), files[k]? = some rows →
      ∀ i ∈ trF.getD k [], i < rows.length := by
    intro trF htrF k rows hrows i hi
    obtain ⟨f, hfl, rfl⟩ := List.getElem_of_mem htrF
    have hk : k < files.length := by
      by_contra hcon
      rw [List.getElem?_eq_none (by omega)] at hrows
      simp at hrows
    have hget : trains.getD f [] = trains[f] := by
      rw [List.getD_eq_getElem?_getD, List.getElem?_eq_getElem hfl]; rfl
    have := ((htr f (by omega)).2 k hk).2.1 i (by rw [hget]; exact hi)
    rw [sizes_getD files k hk] at this
    rw [List.getElem?_eq_getElem hk] at hrows
    have hrk : files.getD k [] = rows := by
      rw [List.getD_eq_getElem?_getD, List.getElem?_eq_getElem hk]
      exact Option.some.inj hrows
    rw [hrk] at this
    exact this.1
  have htables := C02_parse_multi cRead hcr sched hsched files trains hlt
  have hm : models = fitAll learner (trains.map (trainTable files)) := by
    rw [hmodels, htables]
    exact sortByFold_fitAll learner _ _ (hret _)
  have hml : models.length = folds := by
    rw [hm, fitAll_length, List.length_map, htrl]
  refine ⟨⟨htl, htrl, hA⟩, ⟨hm, ?_⟩, ?_, ?_, ?_⟩
  · intro f hfl
    rw [hm, fitAll_getElem?, List.getElem?_map, List.getElem?_eq_getElem (by omega)]
    simp only [Option.map_some]
    rw [List.getD_eq_getElem?_getD, List.getElem?_eq_getElem (by omega)]
    rfl
  · -- (C)
    intro f hfl k hk
    obtain ⟨hnd, hin, hcapT, hcapF⟩ := (htr f hfl).2 k hk
    rw [sizes_getD files k hk] at hin hcapF
    refine ⟨hnd, ?_, hcapT, hcapF⟩
    intro i hi
    obtain ⟨hilt, hinot⟩ := hin i hi
    refine ⟨hilt, hinot, ?_⟩
    intro p hp heq
    obtain ⟨_, hpart, hresp⟩ := hA k hk
    have hpfl : p ∈ (testIdx.getD k []).flatten := by
      unfold heldOut at hp
      by_cases hfl2 : f < (testIdx.getD k []).length
      · rw [List.getD_eq_getElem?_getD, List.getElem?_eq_getElem hfl2] at hp
        exact List.mem_flatten.mpr ⟨_, List.getElem_mem hfl2, hp⟩
      · rw [List.getD_eq_getElem?_getD, List.getElem?_eq_none (by omega)] at hp
        simp at hp
    have hplt : p < (files.getD k []).length := List.mem_range.mp (hpart.mem_iff.mp hpfl)
    exact hinot ((hresp i p hilt hplt heq f).mpr hp)
  · -- (D) scores
    rw [hscores, hml]
    apply C02_predict_all_eq_spec cPred hcp
    intro x hx
    obtain ⟨k, hk, -, hx2⟩ := mem_zip_routeAll testIdx files htl x hx
    obtain ⟨k', hk', hx1, hx2'⟩ := mem_zip_routeAll testIdx files htl x hx
    rw [hx2', hx1]
    refine ⟨route_length _ _, ?_⟩
    have := route_lt (testIdx.getD k' []) (files.getD k' []).length (by rw [(hA k' hk').1]; omega)
    rw [(hA k' hk').1] at this
    exact this
  · intro k hk p hp f hfl
    rw [routeAll_getD testIdx files htl k hk]
    obtain ⟨hfl2, hpart, _⟩ := hA k hk
    exact C02_route_eq (testIdx.getD k []) _ hpart p hp f (by omega)

/-- **End to end, any number of collections.**  For every `argsort` tie order, in-fold shuffle,
set enumeration order, `rng.choice` draw, read / prediction chunk size, completion order of the
reader tasks and order in which the fitted models come back, and for an arbitrary learner:
if `brew` returns `(models, scores)` then there are held-out folds `testIdx[k][f]` and training
index sets `trains[f][k]` such that
(A) every collection is partitioned into exactly `folds` folds, equal spectrum hashes together;
(B) `models[f]` has fold number `f + 1` and is the learner applied to the table made of the rows
    `files[k][i]`, `i ∈ trains[f][k]`, of all collections;
(C) `trains[f][k]` has no duplicates, lies inside collection `k`, is disjoint from the held-out
    fold `f` of collection `k`, contains no row with the spectrum hash of a held-out row, is the
    whole complement without sub-sampling and the collection's share of the cap with it;
(D) the returned score of row `p` of collection `k` is the (per collection and fold calibrated)
    output of `models[f]` for the one `f` with `p ∈ testIdx[k][f]`. -/
theorem C02_brew_multi_heldout {ρ σ μ : Type} [Inhabited σ] [Inhabited μ]
    (cRead cPred folds : Nat) (hcr : 0 < cRead) (hcp : 0 < cPred) (hf : 1 ≤ folds)
    (files : List (List ρ)) (hK : 0 < files.length)
    (hashes : List (List Nat)) (sorteds : List (List (Nat × Nat)))
    (hhl : hashes.length = files.length) (hsl : sorteds.length = files.length)
    (hlen : ∀ k, k < files.length → (hashes.getD k []).length = (files.getD k []).length)
    (hdata : ∀ k, k < files.length → IsArgsort (hashes.getD k []) (sorteds.getD k []))
    (shuffle : Nat → List (List Nat) → List (List Nat))
    (hshuf : ∀ k fs, List.Forall₂ List.Perm fs (shuffle k fs))
    (cap : Option Nat) (enum : Nat → Nat → List Nat → List Nat)
    (henum : ∀ f k l, (enum f k l).Perm l)
    (draw : Nat → Nat → Nat → List Nat) (hdraw : DrawsValid cap files.length draw)
    (sched : Nat → Nat → List (List (Nat × ρ)) → List (List (Nat × ρ)))
    (hsched : ∀ f k, SchedValid (sched f k))
    (ret : List (Nat × μ) → List (Nat × μ)) (hret : ∀ l, (ret l).Perm l)
    (learner : List (Option ρ) → μ) (apply : μ → ρ → σ) (target : ρ → Bool)
    (cal : List (σ × Bool) → σ → σ) (models : List (Nat × μ)) (scores : List (List σ))
    (hrun : brewRun cRead cPred folds files sorteds shuffle cap enum draw sched ret learner apply
      target cal = some (models, scores)) :
    ∃ (testIdx : List (List (List Nat))) (trains : List (List (List Nat))),
      (testIdx.length = files.length ∧ trains.length = folds ∧
        ∀ k, k < files.length →
          (testIdx.getD k []).length = folds ∧
          (testIdx.getD k []).flatten.Perm (List.range (files.getD k []).length) ∧
          ∀ i j, i < (files.getD k []).length → j < (files.getD k []).length →
            (hashes.getD k [])[i]? = (hashes.getD k [])[j]? →
            ∀ f, (i ∈ heldOut testIdx k f ↔ j ∈ heldOut testIdx k f)) ∧
      (models = fitAll learner (trains.map (trainTable files)) ∧
        ∀ f, f < folds → models[f]? = some (f + 1, learner (trainTable files (trains.getD f [])))) ∧
      (∀ f, f < folds → ∀ k, k < files.length →
        ((trains.getD f []).getD k []).Nodup ∧
        (∀ i ∈ (trains.getD f []).getD k [],
          i < (files.getD k []).length ∧ i ∉ heldOut testIdx k f ∧
          ∀ p ∈ heldOut testIdx k f, (hashes.getD k [])[i]? ≠ (hashes.getD k [])[p]?) ∧
        (capApplies cap (trainTotal testIdx (files.map List.length) f) = true →
          ((trains.getD f []).getD k []).length = (capsOf cap files.length).getD k 0) ∧
        (capApplies cap (trainTotal testIdx (files.map List.length) f) = false →
          ((trains.getD f []).getD k []).Perm
            (complement (files.getD k []).length (heldOut testIdx k f)))) ∧
      (scores = predictAllSpec files (routeAll testIdx files) (modelScore apply models) target cal ∧
        ∀ k, k < files.length → ∀ p, p < (files.getD k []).length → ∀ f, f < folds →
          (((routeAll testIdx files).getD k [])[p]? = some f ↔ p ∈ heldOut testIdx k f)) := by
  obtain ⟨testIdx, trains, hsplit, htrain, hmodels, hscores⟩ :=
    brewRun_some cRead cPred folds files sorteds shuffle cap enum draw sched ret learner apply target
      cal models scores hrun
  exact ⟨testIdx, trains, C02_brew_multi_facts cRead cPred folds hcr hcp hf files hK hashes sorteds hhl hsl
    hlen hdata shuffle hshuf cap enum henum draw hdraw sched hsched ret hret learner apply target cal
    models scores testIdx trains hsplit htrain hmodels hscores⟩


/-- **Re-scoring with the trained models** (`brew(psms, model=[…])`).  The models returned by a
run, handed back in any order, with any other seed (in-fold shuffle) and any prediction chunk
size, on the same collections: `brew` returns the same models in fold order and the same
scores — so every PSM is again scored by the model of its fold, the one that was trained
without its spectrum.  (`sorteds` is the same in both runs: `np.argsort` is a function of the
hash vector.) -/
theorem C02_rescoring_same_scores {ρ σ μ : Type} [Inhabited σ] [Inhabited μ]
    (cRead cPred folds : Nat) (hcr : 0 < cRead) (hcp : 0 < cPred) (hf : 1 ≤ folds)
    (files : List (List ρ)) (hK : 0 < files.length)
    (hashes : List (List Nat)) (sorteds : List (List (Nat × Nat)))
    (hhl : hashes.length = files.length) (hsl : sorteds.length = files.length)
    (hlen : ∀ k, k < files.length → (hashes.getD k []).length = (files.getD k []).length)
    (hdata : ∀ k, k < files.length → IsArgsort (hashes.getD k []) (sorteds.getD k []))
    (shuffle : Nat → List (List Nat) → List (List Nat))
    (hshuf : ∀ k fs, List.Forall₂ List.Perm fs (shuffle k fs))
    (cap : Option Nat) (enum : Nat → Nat → List Nat → List Nat)
    (henum : ∀ f k l, (enum f k l).Perm l)
    (draw : Nat → Nat → Nat → List Nat) (hdraw : DrawsValid cap files.length draw)
    (sched : Nat → Nat → List (List (Nat × ρ)) → List (List (Nat × ρ)))
    (hsched : ∀ f k, SchedValid (sched f k))
    (ret : List (Nat × μ) → List (Nat × μ)) (hret : ∀ l, (ret l).Perm l)
    (learner : List (Option ρ) → μ) (apply : μ → ρ → σ) (target : ρ → Bool)
    (cal : List (σ × Bool) → σ → σ) (models : List (Nat × μ)) (scores : List (List σ))
    (hrun : brewRun cRead cPred folds files sorteds shuffle cap enum draw sched ret learner apply
      target cal = some (models, scores))
    (cPred' : Nat) (hcp' : 0 < cPred') (shuffle' : Nat → List (List Nat) → List (List Nat))
    (hshuf' : ∀ k fs, List.Forall₂ List.Perm fs (shuffle' k fs))
    (given : List (Nat × μ × Bool)) (htr : ∀ m ∈ given, m.2.2 = true)
    (hgiven : (given.map (fun m => (m.1, m.2.1))).Perm models) :
    brewGiven cPred' folds files sorteds shuffle' given apply target cal = .ok (models, scores) := by
  obtain ⟨testIdx, trains, hsplit, htrain, hmodels, hscores⟩ :=
    brewRun_some cRead cPred folds files sorteds shuffle cap enum draw sched ret learner apply target
      cal models scores hrun
  obtain ⟨⟨htl, htrl, hA⟩, ⟨hm, _⟩, _, ⟨hsc, _⟩⟩ :=
    C02_brew_multi_facts cRead cPred folds hcr hcp hf files hK hashes sorteds hhl hsl
      hlen hdata shuffle hshuf cap enum henum draw hdraw sched hsched ret hret learner apply target cal
      models scores testIdx trains hsplit htrain hmodels hscores
  obtain ⟨testIdx', hsplit', htl', hperm⟩ :=
    splitAll_other_shuffle sorteds folds shuffle shuffle' hshuf hshuf' testIdx hsplit
  have hml : models.length = folds := by
    rw [hm, fitAll_length, List.length_map, htrl]
  -- the folds of the second run
  obtain ⟨_, hfolds'⟩ := C02_split_all folds hf hashes sorteds (by omega)
    (fun k hk => hdata k (by omega)) shuffle' hshuf' testIdx' hsplit'
  -- the given models are put back in fold order
  have hpre : pretrained given folds = .ok models := by
    have := C02_pretrained_any_order learner (trains.map (trainTable files)) given htr (by rw [← hm]; exact hgiven)
    rw [List.length_map, htrl, ← hm] at this
    exact this
  have hroute : routeAll testIdx' files = routeAll testIdx files := by
    apply routeAll_congr testIdx' testIdx files (by omega) htl
    intro k hk
    exact (route_congr _ _ _ (hA k hk).2.1 (hperm k (by omega))).symm
  unfold brewGiven
  rw [hsplit', hpre]
  simp only [optExcept, Option.elim_some, Except.bind, Except.map]
  rw [hroute, hml, hsc]
  congr 2
  apply C02_predict_all_eq_spec cPred' hcp'
  intro x hx
  obtain ⟨k', hk', hx1, hx2'⟩ := mem_zip_routeAll testIdx files htl x hx
  rw [hx2', hx1]
  refine ⟨route_length _ _, ?_⟩
  have := route_lt (testIdx.getD k' []) (files.getD k' []).length (by rw [(hA k' hk').1]; omega)
  rw [(hA k' hk').1] at this
  exact this


/-! ## Non-vacuity: every hypothesis is met by concrete, deliberately "unnatural" instances
(`Mk.Brew.Ex`: unstable argsort, reversed shuffles / enumerations / completion orders,
last-first draws) on which the model run succeeds -/

section NonVacuity
open Mk.Brew.Ex

/-- `argsort` with the ties in the non-stable order is an argsort -/
example : IsArgsort [7, 5, 7, 5] [(5, 3), (5, 1), (7, 0), (7, 2)] :=
  ⟨by unfold SortedByHash; decide, by decide⟩

example : ∀ fold ∈ [[1, 3], [2, 0]], (1 ∈ fold ↔ 3 ∈ fold) :=
  (C02_split_anysort [7, 5, 7, 5] [(5, 3), (5, 1), (7, 0), (7, 2)]
    ⟨by unfold SortedByHash; decide, by decide⟩ 2 (by decide) [[3, 1], [0, 2]] [[1, 3], [2, 0]] (by decide)
    (.cons (by decide) (.cons (by decide) .nil))).2.2 1 3 (by decide) (by decide) (by decide)

/-- spectrum keys of three columns; rows 0 and 2 are the same spectrum, row 3 differs from row 1
in the third column only (same first two columns ⇒ same hash ⇒ same fold) -/
example : ∀ fold ∈ [[1, 3], [2, 0]], (1 ∈ fold ↔ 3 ∈ fold) :=
  C02_same_spectrum_same_fold (fun k => k.sum) [[3, 4, 0], [1, 4, 0], [3, 4, 0], [1, 4, 9]]
    [(5, 3), (5, 1), (7, 0), (7, 2)] ⟨by unfold SortedByHash; decide, by decide⟩ 2 (by decide)
    [[3, 1], [0, 2]] [[1, 3], [2, 0]] (by decide) (.cons (by decide) (.cons (by decide) .nil))
    1 3 (by decide) (by decide) (by decide)

/-- two files with different fold assignments, cap 4 (shares 2 + 2): every fold sub-sampled -/
example : ([[[0, 2], [3, 5]], [[1, 3], [2, 4]]] : List (List (List Nat))).length = 2 :=
  (C02_make_train_sets [[[1, 3], [2, 0]], [[2, 4, 1], [5, 3, 0]]] (some 4) [4, 6] enum (draw (some 4) 2)
    enum_valid (draw_valid (some 4) 2) 2 (by decide) (by decide) _ (by decide)).1

example : ((([[[0, 2], [3, 5]], [[1, 3], [2, 4]]] : List (List (List Nat))).getD 1 []).map List.length) = [2, 2]
    ∧ ((([[[0, 2], [3, 5]], [[1, 3], [2, 4]]] : List (List (List Nat))).getD 1 []).map List.length).sum = 4 :=
  ⟨by decide, C02_cap_total [[[1, 3], [2, 0]], [[2, 4, 1], [5, 3, 0]]] 4 [4, 6] enum (draw (some 4) 2)
    enum_valid (draw_valid (some 4) 2) 2 (by decide) (by decide) (by decide) _ (by decide) 1 (by decide)
    (by decide)⟩

/-- the `ValueError` side of `C02_make_train_sets_ok_iff`: file 0 has one training row in fold 1,
its share of the cap is 2 -/
example : (makeTrainSets [[[0], [1, 2, 3]], [[4, 5, 6, 7], [0, 1, 2, 3]]] (some 4) [4, 8] enum
    (draw (some 4) 2)).isSome = false := by decide

/-- all hypotheses of the end-to-end theorem hold together on that run -/
example : ∃ (testIdx trains : List (List (List Nat))), testIdx.length = 2 ∧ trains.length = 2 :=
  have h := C02_brew_multi_heldout 2 3 2 (by decide) (by decide) (by decide) files (by decide) hashes sorteds
    (by decide) (by decide) (by decide)
    (by intro k hk
        have : k = 0 ∨ k = 1 := by simp [files] at hk; omega
        rcases this with rfl | rfl
        · exact ⟨by unfold SortedByHash; decide, by decide⟩
        · exact ⟨by unfold SortedByHash; decide, by decide⟩)
    shuffle shuffle_valid none enum enum_valid (draw none 2) (draw_valid none 2) sched sched_valid
    List.reverse List.reverse_perm learner apply (fun r => r % 2 == 0) cal _ _ ex_run
  let ⟨t, tr, ⟨h1, h2, _⟩, _⟩ := h
  ⟨t, tr, h1, h2⟩

/-- … and the same models handed back in the other order, another shuffle, prediction chunks of
one row: same models, same scores -/
example : brewGiven 1 2 files sorteds (fun _ fs => fs) [(2, 1653, true), (1, 1556, true)] apply
      (fun r => r % 2 == 0) cal
    = .ok ([(1, 1556), (2, 1653)],
        [[1653102, 1556112, 1653122, 1556132], [1653203, 1556213, 1556223, 1653233, 1556243, 1653253]]) :=
  C02_rescoring_same_scores 2 3 2 (by decide) (by decide) (by decide) files (by decide) hashes sorteds
    (by decide) (by decide) (by decide)
    (by intro k hk
        have : k = 0 ∨ k = 1 := by simp [files] at hk; omega
        rcases this with rfl | rfl
        · exact ⟨by unfold SortedByHash; decide, by decide⟩
        · exact ⟨by unfold SortedByHash; decide, by decide⟩)
    shuffle shuffle_valid none enum enum_valid (draw none 2) (draw_valid none 2) sched sched_valid
    List.reverse List.reverse_perm learner apply (fun r => r % 2 == 0) cal _ _ ex_run
    1 (by decide) (fun _ fs => fs)
    (by intro k fs
        induction fs with
        | nil => exact List.Forall₂.nil
        | cons x rest ih => exact List.Forall₂.cons (List.Perm.refl x) ih)
    [(2, 1653, true), (1, 1556, true)] (by decide) (by decide)

example : pretrained [(2, "b", true), (1, "a", false)] 2 = .error "RuntimeError" := by decide
example : pretrained [(2, "b", true), (1, "a", false)] 3 = .error "ValueError" := by decide

end NonVacuity

/-! ## Evaluation tests of the model -/

#guard trainFile 6 [3, 1, 4] == [0, 2, 5]
#guard complementLoop 2 7 [3, 1, 4] 7 0 == [0, 2, 5, 6]
#guard complementLoop 2 7 [3, 1, 4] 1 0 == [0, 2, 5, 6]
#guard zipLen [[1, 2, 3], [4, 5], [6, 7, 8]] == 2
#guard zipLen ([] : List (List Nat)) == 0
#guard capsOf (some 10) 3 == [3, 3, 4]
#guard capsOf none 3 == []
#guard choice [10, 20, 30, 40] 2 [3, 1] == some [40, 20]
#guard choice [10, 20] 3 [0, 1, 2] == none
#guard makeTrainSets [[[0, 1], [2, 3]], [[3, 4, 5], [0, 1, 2]]] (some 4) [4, 6] (fun _ _ l => l)
    (fun _ _ _ => [1, 0]) == some [[[3, 2], [1, 0]], [[1, 0], [4, 3]]]
#guard makeTrainSets [[[0, 1], [2, 3]], [[3, 4, 5], [0, 1, 2]]] (some 5) [4, 6] (fun _ _ l => l)
    (fun _ _ _ => [1, 0]) == some [[[2, 3], [0, 1, 2]], [[0, 1], [3, 4, 5]]]
#guard trainTable [[10, 11, 12, 13], [20, 21, 22]] [[3, 1], [2]] == [some 13, some 11, some 22]
#guard parseInChunks 2 (fun _ _ ps => (ps.map List.reverse).reverse) [[10, 11, 12, 13], [20, 21, 22]]
    [[[3, 1], [2]], [[0, 2], [1, 0]]] == [[some 13, some 11, some 22], [some 10, some 12, some 21, some 20]]
#guard sortByFold [(2, "b"), (3, "c"), (1, "a")] == [(1, "a"), (2, "b"), (3, "c")]
#guard fitAll String.length ["aaa", "b"] == [(1, 3), (2, 1)]
#guard (pretrained [(2, "b", true), (3, "c", true), (1, "a", true)] 3).toOption
    == some [(1, "a"), (2, "b"), (3, "c")]
#guard routeAll [[[1, 3], [2, 0]], [[2, 4, 1], [5, 3, 0]]] [[10, 11, 12, 13], [20, 21, 22, 23, 24, 25]]
    == [[1, 0, 1, 0], [1, 0, 0, 1, 0, 1]]
#guard spectrumHash (fun k => k.sum) [3, 4, 100] == 7

#print axioms C02_split_anysort
#print axioms C02_same_spectrum_same_fold
#print axioms C02_train_loop_eq_complement
#print axioms C02_make_train_sets
#print axioms C02_cap_total
#print axioms C02_make_train_sets_ok_iff
#print axioms C02_parse_multi
#print axioms C02_models_by_fold
#print axioms C02_pretrained_ok_iff
#print axioms C02_pretrained_error_iff
#print axioms C02_pretrained_any_order
#print axioms C02_predict_all_eq_spec
#print axioms C02_split_all
#print axioms C02_brew_multi_facts
#print axioms C02_brew_multi_heldout
#print axioms C02_rescoring_same_scores

end Mk.Brew
