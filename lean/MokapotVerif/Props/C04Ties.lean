import MokapotVerif.Lemmas.TdcTiesLink
import MokapotVerif.Props.C04Ext
/-!
# C04 (third extension) — the FDR bound for TIED scores

The end-to-end theorems of `Props/C04Ext.lean` (`C04_psm_level_fdr_fixed_scores`, …) assume
pairwise distinct scores.  The quantifier of C04 names "learners from linear SVM to fully grown
trees": a fully grown tree answers 0 or 1, a small forest a handful of values — almost every
score is tied.  `tdc` (qvalues.py:128, 170-189) gives a tie group one q-value, read at the
group's last row, so the accepted set always ends at a tie-group boundary.  Here:

* `C04_tdc_fdr_fixed_ranking_ties` — `E[FDP] ≤ a` for a fixed ranking when the accepted prefix
  may only end at positions fixed in advance (any label-independent set of possible cuts);
* `C04_accepted_is_prefix_ties` — the q-value column of a level file in non-increasing score
  order accepts exactly the closed form `tiedAccepted` (longest prefix ending at a tie-group
  boundary with `(D + 1) ≤ a · T`), ANY ties;
* `C04_accepted_set_closed_under_ties` — a tie group is accepted or rejected as a whole;
* `C04_psm_level_fdr_tied_scores`, `C04_rollup_level_fdr_tied_scores` — the composed statements
  of `C04Ext` without the distinct-scores hypothesis: the stream is in non-increasing score order
  with ties arranged independently of the labels (as `assign_confidence` does: by file position).

What is NOT covered: an arrangement of tied rows that depends on the labels (the stand-alone
roll-up tool lists decoys first on ties — conservative, `C04_rollup_tool_ties_favour_decoys`);
`Mutants/TdcTies.lean` shows that "targets first on ties" with a cut inside the tie group breaks
the bound.
-/
namespace Mk.TdcX
open Mk Mk.Tdc Finset

/-- **`E[FDP] ≤ a` with tied scores, fixed ranking.**  `ks` is a ranking (best first) of true
targets and nulls, `cuts` says after which positions the accepted prefix may end (the tie-group
boundaries; any list fixed before the labels are drawn).  The accepted prefix is the longest
`p` with a possible cut after `p` items and `(D + 1) ≤ a · T`.  Summed over the `2^m` equally
likely labelings of the `m` nulls, its false discovery proportion is at most `a · 2^m`. -/
theorem C04_tdc_fdr_fixed_ranking_ties (ks : List Kind) (cuts : List Bool)
    (hc : cuts.length = ks.length) (a : Rat) (ha : 0 < a) :
    (∑ ω : Fin (nulls ks) → Bool, FDPB a cuts (lab ks (List.ofFn ω))) ≤ a * 2 ^ nulls ks :=
  sum_FDPB_le ks cuts hc a ha

/-- optional stopping restricted to a fixed set of possible cuts (Stage 4 with ties) -/
theorem C04_optional_stopping_ties (a : Rat) (rs : List Kind) (bs : List Bool) (v d : Nat)
    (h : v + d = nulls rs) :
    ((W rs v d).map (stopB a valM bs)).sum
      ≤ (((v + d).choose v : Nat) : Rat) * (((v : Nat) : Rat) / ((d + 1 : Nat) : Rat)) := by
  rw [choose_mul_eq_Bnd]; exact sum_stopB_le_Bnd a rs bs v d h

/-- **Link lemma for tied scores.**  For a level file in non-increasing score order (any ties)
and `a < 1`, the rows whose reported q-value (`levelQvalues`, the model of `tdc`) is `≤ a` are
exactly the closed form: the first `tiedStop` rows. -/
theorem C04_accepted_is_prefix_ties (a : Rat) (ha : a < 1) (level : List Row)
    (h : level.Pairwise (fun x y => y.score ≤ x.score)) :
    acceptedRows a level = tiedAccepted a level :=
  acceptedRows_eq_tiedAccepted a ha level h

/-- … and so is the false discovery proportion read off the q-value column -/
theorem C04_level_fdp_is_tied_fdp (incorrect : Nat → Bool) (a : Rat) (ha : a < 1) (level : List Row)
    (h : level.Pairwise (fun x y => y.score ≤ x.score)) :
    levelFDP incorrect a level = tiedFDP incorrect a level := by
  unfold levelFDP tiedFDP
  rw [C04_accepted_is_prefix_ties a ha level h]

/-- **A tie group is accepted or rejected as a whole**: rows with equal scores lie on the same
side of the accepted prefix. -/
theorem C04_accepted_set_closed_under_ties (a : Rat) (ha : a < 1) (xs : List (Int × Bool))
    (hs : xs.Pairwise (fun x y => y.1 ≤ x.1)) (i j : Nat) (hi : i < xs.length) (hj : j < xs.length)
    (htie : xs[i].1 = xs[j].1) :
    i < tiedStop a xs ↔ j < tiedStop a xs := by
  rw [← qSpec_le_iff_lt_tiedStop xs hs a ha i hi, ← qSpec_le_iff_lt_tiedStop xs hs a ha j hj, htie]

/-- the accepted prefix ends where a cut is possible and passes the "+1" test (T1 at the stop) -/
theorem C04_tied_stop_counts (a : Rat) (xs : List (Int × Bool)) (h : tiedStop a xs ≠ 0) :
    ((cntDecoys xs (tiedStop a xs) + 1 : Nat) : Rat) ≤ a * ((cntTargets xs (tiedStop a xs) : Nat) : Rat) := by
  have hc : cutOk a (tieCuts (xs.map (·.1))) xs (tiedStop a xs) = true := lastTrue_spec _ _ h
  exact ((cutOk_iff a _ xs _).mp hc).2.2

/-- **PSM level, tied scores**: competition per spectrum, q-values, threshold `a` — `E[FDP] ≤ a`.
`merged` is the best-first stream of all PSM rows, ANY ties, arranged independently of the labels
(relabelling keeps the arrangement: `merged.map (Row.relabel …)`). -/
theorem C04_psm_level_fdr_tied_scores (merged : List Row)
    (hs : merged.Pairwise (fun a b => b.score ≤ a.score)) (hid : (merged.map Row.id).Nodup)
    (incorrect : Nat → Bool) (a : Rat) (ha0 : 0 < a) (ha1 : a < 1) :
    (∑ ω : Fin (nulls (levelKinds incorrect (psmLevel true merged))) → Bool,
        levelFDP incorrect a (psmLevel true
          (merged.map (Row.relabel (coinLabels incorrect (psmLevel true merged) (List.ofFn ω))))))
      ≤ a * 2 ^ nulls (levelKinds incorrect (psmLevel true merged)) :=
  level_bound_of_blind_ties (psmLevel true)
    (fun f rows => (C04_competition_label_blind f true rows 0).2.1)
    (fun rows => by unfold psmLevel; simp only [if_true]; exact dedupFirst_sublist _ _ _)
    merged hs hid incorrect a ha0 ha1

/-- **Every roll-up level, tied scores** (peptides, modified peptides, …). -/
theorem C04_rollup_level_fdr_tied_scores (l : Nat) (merged : List Row)
    (hs : merged.Pairwise (fun a b => b.score ≤ a.score)) (hid : (merged.map Row.id).Nodup)
    (incorrect : Nat → Bool) (a : Rat) (ha0 : 0 < a) (ha1 : a < 1) :
    (∑ ω : Fin (nulls (levelKinds incorrect (rollupLevel true merged l))) → Bool,
        levelFDP incorrect a (rollupLevel true
          (merged.map (Row.relabel (coinLabels incorrect (rollupLevel true merged l) (List.ofFn ω)))) l))
      ≤ a * 2 ^ nulls (levelKinds incorrect (rollupLevel true merged l)) :=
  level_bound_of_blind_ties (fun rows => rollupLevel true rows l)
    (fun f rows => (C04_competition_label_blind f true rows l).2.2)
    (fun rows => by
      unfold rollupLevel psmLevel
      simp only [if_true]
      exact (dedupFirst_sublist _ _ _).trans (dedupFirst_sublist _ _ _))
    merged hs hid incorrect a ha0 ha1

/-- **Without competition** (`deduplication=False`, confidence.py: every PSM is kept), tied scores. -/
theorem C04_nodedup_level_fdr_tied_scores (merged : List Row)
    (hs : merged.Pairwise (fun a b => b.score ≤ a.score)) (hid : (merged.map Row.id).Nodup)
    (incorrect : Nat → Bool) (a : Rat) (ha0 : 0 < a) (ha1 : a < 1) :
    (∑ ω : Fin (nulls (levelKinds incorrect (psmLevel false merged))) → Bool,
        levelFDP incorrect a (psmLevel false
          (merged.map (Row.relabel (coinLabels incorrect (psmLevel false merged) (List.ofFn ω))))))
      ≤ a * 2 ^ nulls (levelKinds incorrect (psmLevel false merged)) :=
  level_bound_of_blind_ties (psmLevel false)
    (fun f rows => by unfold psmLevel; simp)
    (fun rows => by unfold psmLevel; simp)
    merged hs hid incorrect a ha0 ha1

/-! ## Non-vacuity and evaluation tests -/

/-- a tree-like score column: three spectra (1, 2, 3), scores 1 / 0 only; PSMs 1, 3, 4 incorrect -/
def exTied : List Row :=
  [⟨0, 1, [10], true, 1⟩, ⟨1, 2, [11], true, 1⟩, ⟨2, 1, [12], true, 1⟩, ⟨3, 3, [13], true, 0⟩,
   ⟨4, 4, [14], true, 0⟩, ⟨5, 2, [15], true, 0⟩]
def exTiedIncorrect (i : Nat) : Bool := i == 1 || i == 3 || i == 4

example : exTied.Pairwise (fun a b => b.score ≤ a.score) := by decide
example : ¬ exTied.Pairwise (fun a b => b.score < a.score) := by decide
example : (exTied.map Row.id).Nodup := by decide
example : (tieCuts [1, 1, 1, 0, 0]).length = [Kind.null, .null, .trueTarget, .null, .null].length := by decide
-- the competition keeps PSMs 0, 1, 3, 4 (first PSM of every spectrum); three of them are incorrect
#guard (psmLevel true exTied).map Row.id == [0, 1, 3, 4]
#guard nulls (levelKinds exTiedIncorrect (psmLevel true exTied)) == 3
-- cuts are possible after rows 1 and 3 of the level only
#guard tieCuts [1, 1, 0, 0] == [false, true, false, true]
#guard tieCuts [] == [] && tieCuts [7] == [true]
-- coins (target, decoy, target): the closed form and the q-value column agree, at several thresholds
#guard [(1/3 : Rat), 1/2, 2/3, 9/10].all fun a =>
  let lv := psmLevel true (exTied.map (Row.relabel (coinLabels exTiedIncorrect (psmLevel true exTied) [true, false, true])))
  acceptedRows a lv == tiedAccepted a lv && levelFDP exTiedIncorrect a lv == tiedFDP exTiedIncorrect a lv
-- at a = 1/2 the first tie group (two targets) is accepted: (0 + 1) ≤ 1/2 · 2; one of the two is incorrect
#guard (tiedAccepted (1/2) (psmLevel true (exTied.map (Row.relabel
    (coinLabels exTiedIncorrect (psmLevel true exTied) [true, false, true]))))).map Row.id == [0, 1]
#guard tiedFDP exTiedIncorrect (1/2) (psmLevel true (exTied.map (Row.relabel
    (coinLabels exTiedIncorrect (psmLevel true exTied) [true, false, true])))) == 1/2
-- TEST: the expectation bound on this stream by brute force over the 8 outcomes
#guard decide (((allBools 3).map (fun ω => levelFDP exTiedIncorrect (1/2) (psmLevel true (exTied.map (Row.relabel
    (coinLabels exTiedIncorrect (psmLevel true exTied) ω)))))).sum ≤ (1/2) * 2 ^ 3)
-- TEST (brute force, not a proof): the bound for every ranking of ≤ 5 items and every set of cuts
#guard (List.range 6).all fun n => (allKinds n).all fun ks => (allBools n).all fun cuts =>
  [(1/2 : Rat), 1/3].all fun a =>
    decide (((allBools (nulls ks)).map (fun ω => FDPB a cuts (lab ks ω))).sum ≤ a * 2 ^ nulls ks)

end Mk.TdcX
