import MokapotVerif.Lemmas.PepxmlFeat
/-!
# C20 — PepXML parsing turns every search hit into one faithful PSM

Property theorems only.  The document is the abstract PepXML tree of
`Model/Pepxml.lean` (any number of files, runs, spectrum queries, search
results, hits, child elements in any document order); `fileRows` /
`readPepxml` model the code (nested generators, running-offset insertion,
stateful label update, insertion-ordered dicts), the right-hand sides are the
declarative specification (`hitContexts`, `specInsert`, `allAccs`,
`specScore`, …).
-/
namespace Mk
open Pepxml

/-! ## every hit becomes exactly one PSM, in document order -/

/-- the rows of a file are the PSMs of its hits (each with its own run and
spectrum), in document order: one row per hit, none lost, none invented -/
theorem C20_rows_are_hits_in_order (pfx : Str) (runs : List Run) :
    fileRows pfx runs = (hitContexts runs).map (psmOf pfx) :=
  fileRows_eq pfx runs

/-- as many PSMs as search hits -/
theorem C20_one_psm_per_hit_count (pfx : Str) (runs : List Run) :
    (fileRows pfx runs).length = hitsOfRuns runs :=
  length_fileRows pfx runs

/-- pick any hit by its path (run, spectrum, search result, position): the row
whose index is the number of hits before it in document order is the PSM of
exactly that hit with exactly that run and spectrum -/
theorem C20_one_psm_per_hit (pfx : Str) (R₁ R₂ : List Run) (run : Run) (S₁ S₂ : List Spectrum)
    (sp : Spectrum) (Q₁ Q₂ : List (List Hit)) (H₁ H₂ : List Hit) (hit : Hit)
    (hs : run.spectra = S₁ ++ sp :: S₂) (hq : sp.results = Q₁ ++ (H₁ ++ hit :: H₂) :: Q₂) :
    (fileRows pfx (R₁ ++ run :: R₂))[hitsOfRuns R₁ + ((S₁.map hitsOfSpectrum).sum
        + ((Q₁.map List.length).sum + H₁.length))]?
      = some (psmOf pfx (run, sp, hit)) :=
  fileRows_at pfx R₁ R₂ run S₁ S₂ sp Q₁ Q₂ H₁ H₂ hit hs hq

/-! ## spectrum and run fields -/

/-- the PSM carries its spectrum's scan, charge, retention time and precursor
mass, the hit's calculated mass and the run's data-file name, whatever child
elements the hit has -/
theorem C20_psm_carries_spectrum_fields (pfx : Str) (c : Run × Spectrum × Hit) :
    (psmOf pfx c).scan = c.2.1.scan ∧ (psmOf pfx c).charge = c.2.1.charge ∧
    (psmOf pfx c).retTime = c.2.1.retTime ∧ (psmOf pfx c).expMass = c.2.1.expMass ∧
    (psmOf pfx c).calcMass = c.2.2.calcMass ∧ (psmOf pfx c).msDataFile = dataFile c.1 := by
  have := foldl_childStep_fixed pfx c.2.2.children (initPsm pfx (specInfo (dataFile c.1) c.2.1) c.2.2)
  simp only [] at this
  obtain ⟨h1, h2, h3, h4, h5, h6⟩ := this
  simp only [psmOf, parsePsm, finishPsm]
  exact ⟨h2, h3, h4, h5, h6, h1⟩

/-- the data-file name is the base name completed by the raw-data extension:
it ends with the extension, and is the base name itself exactly when that
already ends with it -/
theorem C20_data_file_name (r : Run) :
    r.rawData <:+ dataFile r ∧
    (r.rawData <:+ r.baseName → dataFile r = r.baseName) ∧
    (¬ r.rawData <:+ r.baseName → dataFile r = r.baseName ++ r.rawData) := by
  unfold dataFile
  by_cases h : r.rawData <:+ r.baseName
  · have hb : r.rawData.isSuffixOf r.baseName = true := List.isSuffixOf_iff_suffix.mpr h
    simp [hb, h]
  · have hb : r.rawData.isSuffixOf r.baseName = false := by
      rw [Bool.eq_false_iff]; exact fun e => h (List.isSuffixOf_iff_suffix.mp e)
    simp [hb, h]

/-! ## modifications -/

/-- **running offset = positional spec.**  For ascending positions inside the
peptide (position 0 = before the first residue), the loop that inserts
`[mass]` at `offset + position` into the growing string yields: the position-0
groups, then each residue directly followed by the groups of all modifications
listed at its position, in listed order. -/
theorem C20_insert_mods_spec (pep : Str) (ms : List Mod) (h : modsOk pep ms) :
    insertMods pep ms = specInsert pep ms :=
  insertMods_eq_spec pep ms h

/-- removing the bracket groups gives back the original peptide -/
theorem C20_insert_mods_strip (pep : Str) (ms : List Mod) (h : modsOk pep ms)
    (hm : ∀ m ∈ ms, ']' ∉ m.mass) (hp : ∀ c ∈ pep, c ≠ '[' ∧ c ≠ ']') :
    stripBrackets (insertMods pep ms) = pep := by
  rw [insertMods_eq_spec pep ms h]
  exact strip_specInsert pep ms hm hp

/-- the peptide of a PSM depends only on the hit's `modification_info`
elements (wherever they stand among the other children) -/
theorem C20_peptide_of_psm (pfx : Str) (c : Run × Spectrum × Hit) :
    (psmOf pfx c).peptide = (modLists c.2.2).foldl insertMods c.2.2.peptide := by
  simp [psmOf, parsePsm, finishPsm, foldl_childStep_peptide, initPsm, modLists]

/-- a hit with one `modification_info` (ascending in-range positions) gets the
peptide with every modification directly after its residue -/
theorem C20_peptide_modified (pfx : Str) (c : Run × Spectrum × Hit) (ms : List Mod)
    (h1 : modLists c.2.2 = [ms]) (hok : modsOk c.2.2.peptide ms) :
    (psmOf pfx c).peptide = specInsert c.2.2.peptide ms := by
  rw [C20_peptide_of_psm, h1]
  simpa using insertMods_eq_spec _ ms hok

/-- a hit without `modification_info` keeps its peptide -/
theorem C20_peptide_unmodified (pfx : Str) (c : Run × Spectrum × Hit) (h0 : modLists c.2.2 = []) :
    (psmOf pfx c).peptide = c.2.2.peptide := by
  rw [C20_peptide_of_psm, h0]; rfl

/-! ## proteins and label -/

/-- all primary and alternative accessions, primary first, tab-joined -/
theorem C20_proteins_all_listed (pfx : Str) (c : Run × Spectrum × Hit) :
    (psmOf pfx c).proteins = List.intercalate ['\t'] (allAccs c.2.2) := by
  simp [psmOf, parsePsm, finishPsm, foldl_childStep_proteins, initPsm, allAccs]

/-- an accession is the protein attribute up to (not including) its first blank -/
theorem C20_accession_is_text_before_blank (attr : Str) :
    ∃ rest, attr = accession attr ++ rest ∧ ' ' ∉ accession attr ∧ (rest = [] ∨ rest.head? = some ' ') :=
  accession_spec attr

/-- **decoy iff every protein is a decoy.**  The stateful update (start from the
primary protein, look at an alternative only while the label is still
"decoy") labels the PSM a decoy exactly when every one of its accessions
starts with the decoy prefix, wherever the alternatives stand among the
children. -/
theorem C20_label_decoy_iff_all_prefixed (pfx : Str) (c : Run × Spectrum × Hit) :
    (psmOf pfx c).label = false ↔ ∀ a ∈ allAccs c.2.2, pfx <+: a := by
  have hl : (psmOf pfx c).label = (!(isDecoyAcc pfx (accession c.2.2.protein)) ||
      ((c.2.2.children.filterMap childAlt).map accession).any (fun a => !isDecoyAcc pfx a)) := by
    simp [psmOf, parsePsm, finishPsm, foldl_childStep_label, initPsm]
  rw [hl]
  simp only [allAccs, List.mem_cons, forall_eq_or_imp, Bool.or_eq_false_iff, Bool.not_eq_false',
    List.any_eq_false, Bool.not_eq_true', Bool.not_eq_false, isDecoyAcc, List.isPrefixOf_iff_prefix]

/-- the model's label equals the spec's label -/
theorem C20_label_eq_spec (pfx : Str) (c : Run × Spectrum × Hit) :
    (psmOf pfx c).label = specLabel pfx c.2.2 := by
  have h := C20_label_decoy_iff_all_prefixed pfx c
  unfold specLabel
  cases hl : (psmOf pfx c).label
  · have hp := h.mp hl
    have hall : (allAccs c.2.2).all (isDecoyAcc pfx) = true :=
      List.all_eq_true.mpr (fun a ha => List.isPrefixOf_iff_prefix.mpr (hp a ha))
    simp [hall]
  · have hall : (allAccs c.2.2).all (isDecoyAcc pfx) = false := by
      rw [Bool.eq_false_iff]
      intro hall
      have : (psmOf pfx c).label = false :=
        h.mpr (fun a ha => List.isPrefixOf_iff_prefix.mp ((List.all_eq_true.mp hall) a ha))
      rw [hl] at this
      cases this
    simp [hall]

/-! ## search scores -/

/-- under every key the PSM stores the value of the *last* search score of that
name; keys without a score keep the optional attribute (if any) -/
theorem C20_scores_become_features (pfx : Str) (c : Run × Spectrum × Hit) (name : String) :
    (psmOf pfx c).feats.lookup name
      = ((specScore c.2.2 name).map Cell.text).or ((initFeats c.2.2).lookup name) := by
  rw [psmOf, parsePsm_feats, lookup_foldl_scoreStep]
  rfl

/-- the feature keys of a PSM are exactly its present optional attributes and its score names -/
theorem C20_score_keys (pfx : Str) (c : Run × Spectrum × Hit) (k : String) :
    k ∈ rowKeys (psmOf pfx c) ↔ k ∈ (initFeats c.2.2).map (·.1) ∨ k ∈ (scoresOf c.2.2).map (·.1) :=
  mem_rowKeys_parsePsm pfx _ c.2.2 k

/-! ## several files; rejection -/

/-- success of `read_pepxml`, characterised: given at least one file, every file a
PepXML document with a hit, and no Percolator score name — the result is a
table whose rows are the PSMs of all hits of all files, concatenated in file
order; and there are as many rows as hits -/
theorem C20_files_concatenated (pfx : Str) (runss : List (List Run)) (hne : runss ≠ [])
    (h : ∀ runs ∈ runss, hitsOfRuns runs ≠ 0) (hp : ¬ hasPercolatorScore runss) :
    ∃ t, readPepxml pfx (runss.map File.doc) = .ok t ∧
      t.rows = (runss.flatMap hitContexts).map (psmOf pfx) ∧
      t.rows.length = (runss.map hitsOfRuns).sum := by
  have h' : ∀ runs ∈ runss, fileRows pfx runs ≠ [] := by
    intro runs hr he
    have := length_fileRows pfx runs
    rw [he] at this
    exact h runs hr this.symm
  have hany : illegalCols.any (fun c =>
      (concatFrames (runss.map (fun runs => frameOf (fileRows pfx runs)))).cols.contains c) = false := by
    rw [Bool.eq_false_iff]
    exact fun e => hp ((any_illegal_iff pfx runss).mp e)
  refine ⟨_, by rw [readPepxml_docs pfx runss hne h', hany]; rfl, ?_, ?_⟩
  · show (concatFrames _).rows = _
    rw [concat_rows]
    simp only [List.flatMap_def, List.map_flatten, List.map_map]
    congr 2
    funext runs
    simp [fileRows_eq]
  · show (concatFrames _).rows.length = _
    rw [concat_rows, List.length_flatMap]
    congr 1
    apply List.map_congr_left
    intro runs _
    exact length_fileRows pfx runs

/-- **Percolator output is rejected**: for well-formed files, `read_pepxml` raises the
Percolator error exactly when some search score of some hit is named
`Percolator q-Value`, `Percolator PEP` or `Percolator SVMScore` -/
theorem C20_percolator_rejected (pfx : Str) (runss : List (List Run)) (hne : runss ≠ [])
    (h : ∀ runs ∈ runss, hitsOfRuns runs ≠ 0) :
    readPepxml pfx (runss.map File.doc) = .error .percolator ↔ hasPercolatorScore runss := by
  have h' : ∀ runs ∈ runss, fileRows pfx runs ≠ [] := by
    intro runs hr he
    have := length_fileRows pfx runs
    rw [he] at this
    exact h runs hr this.symm
  rw [readPepxml_docs pfx runss hne h', ← any_illegal_iff pfx runss]
  split <;> simp_all

/-- **non-PepXML input is rejected**: if any file is not well-formed XML, no table is
returned, whatever the other files contain -/
theorem C20_malformed_rejected (pfx : Str) (files : List File) (hbad : File.malformed ∈ files) :
    ∃ e, readPepxml pfx files = .error e ∧ (e = .notXml ∨ e = .noPsms) := by
  rcases files_shape pfx files with ⟨runss, rfl, _⟩ | ⟨good, rest, rfl, h⟩ | ⟨good, runs, rest, rfl, h, he⟩
  · simp at hbad
  · exact ⟨.notXml, by simp [readPepxml, parseFiles_malformed pfx good rest h, Except.bind], Or.inl rfl⟩
  · exact ⟨.noPsms, by simp [readPepxml, parseFiles_noPsms pfx good runs rest h he, Except.bind], Or.inr rfl⟩

/-- the first unusable file decides the error: a malformed stream after good
files gives the "not a PepXML file or is malformed" error -/
theorem C20_malformed_rejected_first (pfx : Str) (good : List (List Run)) (rest : List File)
    (h : ∀ runs ∈ good, hitsOfRuns runs ≠ 0) :
    readPepxml pfx (good.map File.doc ++ File.malformed :: rest) = .error .notXml := by
  have h' : ∀ runs ∈ good, fileRows pfx runs ≠ [] := by
    intro runs hr he
    have := length_fileRows pfx runs
    rw [he] at this
    exact h runs hr this.symm
  simp [readPepxml, parseFiles_malformed pfx good rest h', Except.bind]

/-- complete characterisation of success: a table is returned iff there is at least
one file, every file is a PepXML document with at least one hit, and no
Percolator score name occurs -/
theorem C20_read_ok_iff (pfx : Str) (files : List File) :
    (∃ t, readPepxml pfx files = .ok t) ↔
      ∃ runss : List (List Run), files = runss.map File.doc ∧ runss ≠ [] ∧
        (∀ runs ∈ runss, hitsOfRuns runs ≠ 0) ∧ ¬ hasPercolatorScore runss := by
  constructor
  · rintro ⟨t, ht⟩
    rcases files_shape pfx files with ⟨runss, rfl, h⟩ | ⟨good, rest, rfl, h⟩ | ⟨good, runs, rest, rfl, h, he⟩
    · have hne : runss ≠ [] := by
        rintro rfl
        simp [readPepxml, parseFiles, Except.bind, checkFrames] at ht
      have h0 : ∀ runs ∈ runss, hitsOfRuns runs ≠ 0 := by
        intro runs hr h0
        have := length_fileRows pfx runs
        rw [h0] at this
        exact h runs hr (List.length_eq_zero_iff.mp this)
      refine ⟨runss, rfl, hne, h0, ?_⟩
      intro hperc
      rw [(C20_percolator_rejected pfx runss hne h0).mpr hperc] at ht
      cases ht
    · simp [readPepxml, parseFiles_malformed pfx good rest h, Except.bind] at ht
    · simp [readPepxml, parseFiles_noPsms pfx good runs rest h he, Except.bind] at ht
  · rintro ⟨runss, rfl, hne, h0, hp⟩
    obtain ⟨t, ht, _⟩ := C20_files_concatenated pfx runss hne h0 hp
    exact ⟨t, ht⟩

/-! ## scores as numeric feature columns of the returned table -/

/-- every search score of every hit is a numeric feature column of the returned table:
the column has one cell per PSM; at the PSM's row the cell is present and is the
score's last value rendered in one of the three column-wide modes of
`_log_features` (plain value, `log10` with zero fill, `log10(root) + exponent`) -/
theorem C20_score_columns (pfx : Str) (runss : List (List Run)) (t : Table)
    (hne : runss ≠ []) (h : ∀ runs ∈ runss, hitsOfRuns runs ≠ 0)
    (ht : readPepxml pfx (runss.map File.doc) = .ok t)
    (i : Nat) (c : Run × Spectrum × Hit) (hc : (runss.flatMap hitContexts)[i]? = some c)
    (n : String) (hn : n ∈ (scoresOf c.2.2).map (·.1)) (hnm : n ≠ "num_matched_peptides") :
    ∃ col v f, (n, col) ∈ t.feats ∧ col.length = t.rows.length ∧ specScore c.2.2 n = some v ∧
      (f = plainCell ∨ f = sciCell ∨ ∃ m, f = logCell m) ∧ col[i]? = some (f (some v)) ∧
      f (some v) ≠ FV.missing := by
  have h' : ∀ runs ∈ runss, fileRows pfx runs ≠ [] := by
    intro runs hr he
    have := length_fileRows pfx runs
    rw [he] at this
    exact h runs hr this.symm
  have hperc : ¬ hasPercolatorScore runss := by
    intro hp
    rw [(C20_percolator_rejected pfx runss hne h).mpr hp] at ht
    cases ht
  obtain ⟨t', ht', hrows, _⟩ := C20_files_concatenated pfx runss hne h hperc
  have htt : t = t' := by rw [ht] at ht'; exact Except.ok.inj ht'
  have hany : illegalCols.any (fun c =>
      (concatFrames (runss.map (fun runs => frameOf (fileRows pfx runs)))).cols.contains c) = false := by
    rw [Bool.eq_false_iff]
    exact fun e => hperc ((any_illegal_iff pfx runss).mp e)
  have hdef : t = postProcess (concatFrames (runss.map (fun runs => frameOf (fileRows pfx runs)))) := by
    have := ht
    rw [readPepxml_docs pfx runss hne h', hany] at this
    exact (Except.ok.inj this).symm
  have hrows' : t.rows = (runss.flatMap hitContexts).map (psmOf pfx) := htt ▸ hrows
  -- the column exists
  have hcmem : c ∈ runss.flatMap hitContexts := List.mem_of_getElem? hc
  obtain ⟨runs, hruns, hcr⟩ := List.mem_flatMap.mp hcmem
  have hcol : n ∈ (concatFrames (runss.map (fun runs => frameOf (fileRows pfx runs)))).cols := by
    rw [mem_concat_cols]
    refine ⟨runs, hruns, psmOf pfx c, ?_, ?_⟩
    · rw [fileRows_eq]; exact List.mem_map_of_mem hcr
    · exact (C20_score_keys pfx c n).mpr (Or.inr hn)
  obtain ⟨f, hf, hfe⟩ := logFeature_uniform (rawColumn t.rows n)
  obtain ⟨v, hv, hcell⟩ := psm_score_cell pfx (specInfo (dataFile c.1) c.2.1) c.2.2 n hn
  have hfeat : (n, logFeature (rawColumn t.rows n)) ∈ t.feats := by
    subst hdef
    simp only [postProcess, List.mem_append, List.mem_map]
    left
    exact ⟨n, hcol, by simp [featCol, hnm]⟩
  refine ⟨_, v, f, hfeat, ?_, hv, hf, ?_, ?_⟩
  · simp [length_logFeature, rawColumn]
  · rw [hfe, List.getElem?_map]
    have : (rawColumn t.rows n)[i]? = some (some v) := by
      simp only [rawColumn, hrows', List.getElem?_map, hc, Option.map_some]
      exact congrArg some hcell
    rw [this]; rfl
  · rcases hf with rfl | rfl | ⟨m, rfl⟩
    · simp [plainCell]
    · simp [sciCell]
    · simp only [logCell, Option.map_some, Option.getD_some]
      split <;> simp

/-- the feature columns of the returned table, in order: the union of the PSMs' keys
(first appearance), `mass_diff`, `abs_mz_diff`, one column per distinct charge in
ascending order; every column has one cell per PSM -/
theorem C20_table_columns (fr : Frame) :
    (postProcess fr).feats.map (·.1)
        = fr.cols ++ (["mass_diff", "abs_mz_diff"]
          ++ (chargeLevels (fr.rows.map (·.charge))).map (fun z => "charge_" ++ toString z)) ∧
    ∀ kc ∈ (postProcess fr).feats, kc.2.length = fr.rows.length :=
  ⟨postProcess_names fr, postProcess_lengths fr⟩

/-- column names of a frame are exactly the keys of its rows, each once -/
theorem C20_columns_are_keys (rows : List Row) (k : String) :
    (k ∈ (frameOf rows).cols ↔ ∃ r ∈ rows, k ∈ rowKeys r) ∧ (frameOf rows).cols.Nodup := by
  constructor
  · simp [frameOf, mem_unionKeys, List.mem_flatMap]
  · exact nodup_unionKeys _

/-! ## `_log_features` -/

/-- one cell per PSM; a cell is missing exactly where the PSM lacks the feature -/
theorem C20_feature_column_shape (col : Col) :
    (logFeature col).length = col.length ∧
    ∀ i : Nat, (logFeature col)[i]? = some FV.missing ↔ col[i]? = some none :=
  ⟨length_logFeature col, logFeature_missing col⟩

/-- the whole column is rendered in one mode -/
theorem C20_feature_column_uniform (col : Col) :
    ∃ f : Option Num → FV, (f = plainCell ∨ f = sciCell ∨ ∃ m, f = logCell m) ∧ logFeature col = col.map f :=
  logFeature_uniform col

/-- `log10` is only ever taken of positive numbers (no NaN / -inf is manufactured) -/
theorem C20_feature_log_args_positive (col : Col) : ∀ fv ∈ logFeature col, fv.argPos :=
  logFeature_argPos col

/-- columns with a negative value, and columns without exponent literals whose
values span less than four orders of magnitude, keep their numeric values -/
theorem C20_feature_untouched (col : Col) :
    ((∃ n, some n ∈ col ∧ n.val < 0) → logFeature col = col.map plainCell) ∧
    (hasE col = false →
      maxRat (presentVals col) / minRat ((presentVals col).filter (fun v => v != 0)) < 10000 →
      logFeature col = col.map plainCell) :=
  ⟨fun ⟨n, hn, hneg⟩ => logFeature_plain_of_neg col n hn hneg, logFeature_plain_of_narrow col⟩

/-! ## mass-difference columns -/

/-- `mass_diff` and `abs_mz_diff` are feature columns of the returned table holding, for
every PSM, `exp_mass − calc_mass` resp. `|exp_mass − calc_mass| / |charge|` (the proton
mass cancels), rendered column-wide in one of the three modes of `_log_features` -/
theorem C20_mass_diff_columns (fr : Frame) :
    ∃ f g : Option Num → FV,
      (f = plainCell ∨ f = sciCell ∨ ∃ m, f = logCell m) ∧ (g = plainCell ∨ g = sciCell ∨ ∃ m, g = logCell m) ∧
      ("mass_diff", fr.rows.map (fun r => f (some (reprNum (r.expMass - r.calcMass))))) ∈ (postProcess fr).feats ∧
      ("abs_mz_diff", fr.rows.map (fun r => g (some (reprNum (ratAbs ((r.expMass - r.calcMass) / r.charge))))))
        ∈ (postProcess fr).feats ∧
      ∀ v : Rat, (reprNum v).val = v := by
  obtain ⟨f, hf, hfe⟩ := logFeature_uniform (fr.rows.map (fun r => some (reprNum (massDiff r))))
  obtain ⟨g, hg, hge⟩ := logFeature_uniform (fr.rows.map (fun r => some (reprNum (absMzDiff r))))
  obtain ⟨h1, h2⟩ := postProcess_mass_cols fr
  refine ⟨f, g, hf, hg, ?_, ?_, reprNum_val⟩
  · rw [hfe, List.map_map] at h1
    exact h1
  · rw [hge, List.map_map] at h2
    have : (fun r : Row => g (some (reprNum (ratAbs ((r.expMass - r.calcMass) / r.charge)))))
        = (g ∘ fun r => some (reprNum (absMzDiff r))) := by
      funext r
      simp [absMzDiff_eq]
    rw [this]
    exact h2

/-! ## charge one-hot columns -/

/-- the charge columns are the distinct charges in strictly ascending order, and for
every PSM exactly one of them is hot: the one of its own charge -/
theorem C20_charge_onehot (rows : List Row) :
    (chargeLevels (rows.map (·.charge))).Pairwise (· < ·) ∧
    (∀ z, z ∈ chargeLevels (rows.map (·.charge)) ↔ ∃ r ∈ rows, r.charge = z) ∧
    ∀ r ∈ rows, (chargeLevels (rows.map (·.charge))).filter (fun z => decide (r.charge = z)) = [r.charge] := by
  refine ⟨sorted_chargeLevels _, ?_, ?_⟩
  · intro z; rw [mem_chargeLevels]; simp
  · intro r hr
    exact filter_eq_of_sorted _ _ (sorted_chargeLevels _)
      ((mem_chargeLevels _ _).mpr (List.mem_map_of_mem hr))

/-! ## non-vacuity and evaluation tests -/

end Mk

namespace Mk.Pepxml

section Examples

def exMods : List Mod := [⟨1, "10.5".toList⟩, ⟨3, "7".toList⟩, ⟨8, "99.25".toList⟩]

example : modsOk "PEPTIDEK".toList exMods := by
  refine ⟨?_, ?_⟩
  · simp [exMods]
  · intro m hm
    simp [exMods] at hm
    rcases hm with rfl | rfl | rfl <;> simp

#guard String.ofList (insertMods "PEPTIDEK".toList exMods) == "P[10.5]EP[7]TIDEK[99.25]"
#guard String.ofList (specInsert "PEPTIDEK".toList exMods) == "P[10.5]EP[7]TIDEK[99.25]"
#guard String.ofList (stripBrackets (insertMods "PEPTIDEK".toList exMods)) == "PEPTIDEK"
-- two modifications on one residue, N-terminal position 0
#guard String.ofList (insertMods "ACD".toList [⟨0, "1".toList⟩, ⟨3, "22".toList⟩, ⟨3, "333".toList⟩])
  == "[1]ACD[22][333]"
-- descending positions are outside the hypothesis: the code's result differs from the spec
#guard String.ofList (insertMods "ACD".toList [⟨3, "1".toList⟩, ⟨1, "22".toList⟩]) == "ACD[[22]1]"
#guard String.ofList (specInsert "ACD".toList [⟨3, "1".toList⟩, ⟨1, "22".toList⟩]) == "A[22]CD[1]"

def exHit : Hit :=
  { calcMass := 989, peptide := "QATARSK".toList, protein := "rev_sp|Q9 Placenta-specific".toList,
    missed := some 1, ntt := some 2, nmatched := none,
    children := [.score "hyperscore" ⟨14, none⟩, .alt "sp|P1 x".toList,
                 .mods [⟨7, "357.2579".toList⟩], .score "expect" ⟨7/4, some 0⟩,
                 .alt "rev_sp|P2".toList, .score "hyperscore" ⟨3, none⟩] }

def exHit2 : Hit := { exHit with children := [.alt "rev_B".toList, .score "expect" ⟨2, some (-5)⟩] }

def exRun : Run :=
  { baseName := "UM_F_50cm".toList, rawData := ".mzXML".toList,
    spectra := [{ scan := 8, charge := 2, retTime := 123, expMass := 990, results := [[exHit, exHit2], []] },
                { scan := 9, charge := 3, retTime := 124, expMass := 822, results := [[], [exHit2]] }] }

#guard (fileRows "rev_".toList [exRun, exRun]).length == 6
#guard hitsOfRuns [exRun, exRun] == 6
#guard (fileRows "rev_".toList [exRun]).map (fun r => String.ofList r.peptide)
  == ["QATARSK[357.2579]", "QATARSK", "QATARSK"]
#guard (fileRows "rev_".toList [exRun]).map (fun r => String.ofList r.proteins)
  == ["rev_sp|Q9\tsp|P1\trev_sp|P2", "rev_sp|Q9\trev_B", "rev_sp|Q9\trev_B"]
#guard (fileRows "rev_".toList [exRun]).map (·.label) == [true, false, false]
#guard (fileRows "rev_".toList [exRun]).map (fun r => (r.scan, r.charge)) == [(8, 2), (8, 2), (9, 3)]
#guard (fileRows "rev_".toList [exRun]).map (fun r => String.ofList r.msDataFile)
  == ["UM_F_50cm.mzXML", "UM_F_50cm.mzXML", "UM_F_50cm.mzXML"]
#guard (fileRows "rev_".toList [exRun]).map rowKeys
  == [["missed_cleavages", "ntt", "hyperscore", "expect"], ["missed_cleavages", "ntt", "expect"],
      ["missed_cleavages", "ntt", "expect"]]

-- hypotheses of the table-level theorems are satisfiable (explicit character lists keep `simp` cheap)
def pxHit : Hit :=
  { calcMass := 1, peptide := ['A', 'C'], protein := ['d', '_', 'P'], missed := none, ntt := some 2,
    nmatched := none, children := [.score "xcorr" ⟨2, none⟩, .alt ['T'], .score "expect" ⟨1, some (-3)⟩] }
def pxRun : Run :=
  { baseName := ['r'], rawData := ['.', 'x'],
    spectra := [{ scan := 1, charge := 2, retTime := 1, expMass := 2, results := [[pxHit], []] }] }

example : hitsOfRuns [pxRun] ≠ 0 := by
  simp [hitsOfRuns, hitsOfRun, hitsOfSpectrum, pxRun]

example : ¬ hasPercolatorScore [[pxRun]] := by
  rintro ⟨k, hk, runs, hr, c, hc, hkc⟩
  simp only [List.mem_singleton] at hr
  subst hr
  simp only [illegalCols, List.mem_cons, List.not_mem_nil, or_false] at hk
  simp only [hitContexts, pxRun, List.flatMap_cons, List.flatMap_nil, List.flatten_cons,
    List.flatten_nil, List.map_cons, List.map_nil, List.append_nil,
    List.mem_cons, List.not_mem_nil, or_false] at hc
  subst hc
  rcases hk with rfl | rfl | rfl <;>
    simp [scoresOf, childScore, List.filterMap_cons, pxHit] at hkc

example : modsOk pxHit.peptide [⟨0, ['1']⟩, ⟨2, ['5']⟩, ⟨2, ['7']⟩] := by
  refine ⟨by simp, ?_⟩
  intro m hm
  simp at hm
  rcases hm with rfl | rfl | rfl <;> simp [pxHit]

def outcome (r : Except Err Table) : String :=
  match r with
  | .ok t => "ok " ++ toString t.rows.length
  | .error .notXml => "notxml"
  | .error .noPsms => "nopsms"
  | .error .noFiles => "nofiles"
  | .error .percolator => "percolator"

def exPercHit : Hit := { exHit with children := [.score "Percolator PEP" ⟨1/2, none⟩] }
def exPercRun : Run :=
  { baseName := "x".toList, rawData := ".raw".toList,
    spectra := [{ scan := 1, charge := 2, retTime := 1, expMass := 2, results := [[exHit, exPercHit]] }] }

#guard outcome (readPepxml "rev_".toList [.doc [exRun], .malformed]) == "notxml"
#guard outcome (readPepxml "rev_".toList [.doc [exRun], .doc []]) == "nopsms"
#guard outcome (readPepxml "rev_".toList []) == "nofiles"
#guard outcome (readPepxml "rev_".toList [.doc [exRun], .doc [exRun, exRun]]) == "ok 9"
#guard outcome (readPepxml "rev_".toList [.doc [exRun], .doc [exPercRun]]) == "percolator"

end Examples

end Mk.Pepxml
