import MokapotVerif.Lemmas.Determ
import MokapotVerif.Props.C15
/-!
# C08 — dictionaries filled while a set is enumerated: what the hash seed can and cannot reach

Model: `Model/Determ.lean` §2 (`read_fasta`, fasta.py:98-101: `for pep in peps: peptides[pep].add(prot)`;
`_group_proteins`, fasta.py:553-560).  The enumeration `ks` of the set is a parameter (any duplicate-free
list); two interpreter sessions with different `PYTHONHASHSEED` are two permutations `ks`, `ks'`.
These theorems are what the accounting rule of `Props/C08.lean` appeals to for the entries of kind
`order-taint` / `map-order`: a container built in such a loop may be *looked up*, tested for membership,
counted or *sorted* — and must not be enumerated raw.
-/
namespace Mk.Determ
variable {κ α : Type} [DecidableEq κ]

/-- **loop_content_spec**: the dictionary after the loop, key by key, stated without the enumeration order. -/
theorem C08_loop_content_spec (f : κ → Option α → α) (d : List (κ × α)) (ks : List κ) (hnd : ks.Nodup) (k : κ) :
    dGet (keyedLoop f d ks) k = if k ∈ ks then some (f k (dGet d k)) else dGet d k :=
  dGet_keyedLoop f ks hnd d k

/-- **lookups_enumeration_independent**: every lookup (`d[k]`, `d.get(k)`, `.map(d.get)`) gives the same
value under any two enumerations of the set. -/
theorem C08_lookups_enumeration_independent (f : κ → Option α → α) (d : List (κ × α)) (ks ks' : List κ)
    (hperm : ks.Perm ks') (hnd : ks.Nodup) (k : κ) :
    dGet (keyedLoop f d ks) k = dGet (keyedLoop f d ks') k := by
  rw [dGet_keyedLoop f ks hnd, dGet_keyedLoop f ks' (hperm.nodup_iff.mp hnd)]
  simp [hperm.mem_iff]

/-- **key_order_follows_enumeration**: the KEY ORDER of the dictionary is the old keys followed by the new
ones in the order the set was enumerated — this is how the hash seed gets into `Proteins.peptide_map`. -/
theorem C08_key_order_follows_enumeration (f : κ → Option α → α) (d : List (κ × α)) (ks : List κ) (hnd : ks.Nodup) :
    dKeys (keyedLoop f d ks) = dKeys d ++ ks.filter (fun k => decide (k ∉ dKeys d)) :=
  dKeys_keyedLoop f ks hnd d

/-- **keys_same_set**: under two enumerations the key lists are permutations of each other (same keys,
same multiplicity), so `len`, `set(..)`, `in`, `.isin(..)` cannot tell them apart. -/
theorem C08_keys_same_set (f : κ → Option α → α) (d : List (κ × α)) (ks ks' : List κ)
    (hperm : ks.Perm ks') (hnd : ks.Nodup) :
    (dKeys (keyedLoop f d ks)).Perm (dKeys (keyedLoop f d ks')) ∧
    (dKeys (keyedLoop f d ks)).length = (dKeys (keyedLoop f d ks')).length ∧
    ∀ k, k ∈ dKeys (keyedLoop f d ks) ↔ k ∈ dKeys (keyedLoop f d ks') := by
  have hp : (dKeys (keyedLoop f d ks)).Perm (dKeys (keyedLoop f d ks')) := by
    rw [dKeys_keyedLoop f ks hnd, dKeys_keyedLoop f ks' (hperm.nodup_iff.mp hnd)]
    exact List.Perm.append_left _ (hperm.filter _)
  exact ⟨hp, hp.length_eq, fun k => hp.mem_iff⟩

/-- **sorted_keys_enumeration_independent**: `sorted(d.keys())` is the same LIST under any two enumerations
(for any total, transitive, antisymmetric order) — what `group_without_decoys` hands to the seeded
shuffle since the repair of D25. -/
theorem C08_sorted_keys_enumeration_independent (le : κ → κ → Bool)
    (htot : ∀ a b, le a b = true ∨ le b a = true) (htr : ∀ a b c, le a b = true → le b c = true → le a c = true)
    (hanti : ∀ a b, le a b = true → le b a = true → a = b)
    (f : κ → Option α → α) (d : List (κ × α)) (ks ks' : List κ) (hperm : ks.Perm ks') (hnd : ks.Nodup) :
    (dKeys (keyedLoop f d ks)).mergeSort le = (dKeys (keyedLoop f d ks')).mergeSort le := by
  apply List.Perm.eq_of_pairwise (le := fun a b => le a b = true)
  · intro a b _ _ h1 h2; exact hanti a b h1 h2
  · exact List.pairwise_mergeSort (fun a b c => htr a b c) (fun a b => by simpa using htot a b) _
  · exact List.pairwise_mergeSort (fun a b c => htr a b c) (fun a b => by simpa using htot a b) _
  · exact ((List.mergeSort_perm _ _).trans (C08_keys_same_set f d ks ks' hperm hnd).1).trans
      (List.mergeSort_perm _ _).symm

/-- **fasta_key_order_cannot_reach_shuffle** (the D25 chain, closed): two `Proteins` objects whose unique-
peptide maps were filled under two enumerations of the same peptide set offer the SAME target list to the
seeded shuffle of `match_decoy` (C15's `pairingTargets` = `sorted(peptide_map.keys())`), hence the same
seed draws the same pairing. -/
theorem C08_fasta_key_order_cannot_reach_shuffle (P P' : Picked.Proteins)
    (f : List Char → Option (List Char) → List Char) (d : List (List Char × List Char))
    (ks ks' : List (List Char)) (hperm : ks.Perm ks') (hnd : ks.Nodup)
    (hP : P.peptideMap = keyedLoop f d ks) (hP' : P'.peptideMap = keyedLoop f d ks') :
    Picked.pairingTargets P = Picked.pairingTargets P' := by
  have h := (C08_keys_same_set f d ks ks' hperm hnd).1
  unfold dKeys at h
  rw [← hP, ← hP'] at h
  exact (Picked.C15_pairing_independent_of_key_order P P' h).1

/-! ## non-vacuity and tests -/

/-- body of `for pep in peps: peptides[pep].add(prot)` for the protein `7` (sets of proteins as lists) -/
def exAdd (_ : Nat) (old : Option (List Nat)) : List Nat := old.getD [] ++ [7]

example : keyedLoop exAdd [(2, [5])] [1, 2, 3] = [(2, [5, 7]), (1, [7]), (3, [7])] := by decide
example : keyedLoop exAdd [(2, [5])] [3, 2, 1] = [(2, [5, 7]), (3, [7]), (1, [7])] := by decide
example : [1, 2, 3].Perm [3, 2, 1] ∧ [1, 2, 3].Nodup := by decide

#guard (dKeys (keyedLoop exAdd [(2, [5])] [1, 2, 3])).mergeSort (fun a b => decide (a ≤ b))
      == (dKeys (keyedLoop exAdd [(2, [5])] [3, 2, 1])).mergeSort (fun a b => decide (a ≤ b))

end Mk.Determ
