import MokapotVerif.Lemmas.PepxmlAttrs
import MokapotVerif.Props.C20
/-!
# C20 (second pass) — optional attributes present / absent at table level, the `num_matched_peptides`
column, repeated hits and files

Property theorems only.  `Props/C20.lean` states the optional attributes per PSM
(`C20_scores_become_features`, through `initFeats`); here they are stated for the *returned table*, from the
declarative `attrOf` / `specCell` (`Model/Pepxml.lean`, last section): which columns exist, what each cell
holds, and where a cell is missing.  `C20_num_matched_log_untouched` derives from the model of
`_log_features` what `featCol` assumed for the `log10(num_matched_peptides)` column.
-/
namespace Mk
open Pepxml

/-! ## the dict-made cells of a PSM -/

/-- **every dict-made cell**: under any key the PSM of a hit holds the hit's last search score of that
name, else its optional attribute of that name, else nothing -/
theorem C20_cell_of_psm (pfx : Str) (c : Run × Spectrum × Hit) (k : String) :
    (psmOf pfx c).feats.lookup k = specCell c.2.2 k :=
  psm_cell pfx c k

/-- **optional attributes present / absent, per PSM**: for a key that is not one of the hit's score
names, the PSM holds the attribute's integer if the hit has the attribute and nothing otherwise -/
theorem C20_attribute_of_psm (pfx : Str) (c : Run × Spectrum × Hit) (k : String)
    (hk : k ∉ (scoresOf c.2.2).map (·.1)) :
    (psmOf pfx c).feats.lookup k = (attrOf c.2.2 k).map Cell.int := by
  rw [psm_cell, specCell, specScore_none _ _ hk]
  rfl

/-- `attrOf` is exactly the three optional attributes -/
theorem C20_attrOf_keys (h : Hit) :
    attrOf h "missed_cleavages" = h.missed ∧ attrOf h "ntt" = h.ntt ∧
    attrOf h "num_matched_peptides" = h.nmatched.map Int.ofNat ∧
    ∀ k, k ≠ "missed_cleavages" → k ≠ "ntt" → k ≠ "num_matched_peptides" → attrOf h k = none := by
  refine ⟨by simp [attrOf], by simp [attrOf], by simp [attrOf], ?_⟩
  intro k h1 h2 h3
  simp [attrOf, h1, h2, h3]

/-! ## the returned table -/

/-- a returned table is the post-processing of the concatenated per-file frames, and its rows are the PSMs
of all hits of all files in document order -/
theorem C20_read_ok_table (pfx : Str) (runss : List (List Run)) (t : Table)
    (hne : runss ≠ []) (h : ∀ runs ∈ runss, hitsOfRuns runs ≠ 0)
    (ht : readPepxml pfx (runss.map File.doc) = .ok t) :
    t = postProcess (concatFrames (runss.map (fun runs => frameOf (fileRows pfx runs)))) ∧
    t.rows = (runss.flatMap hitContexts).map (psmOf pfx) := by
  have h' : ∀ runs ∈ runss, fileRows pfx runs ≠ [] := by
    intro runs hr he
    have := length_fileRows pfx runs
    rw [he] at this
    exact h runs hr this.symm
  have hperc : ¬ hasPercolatorScore runss := by
    intro hp
    rw [(C20_percolator_rejected pfx runss hne h).mpr hp] at ht
    cases ht
  obtain ⟨t', ht', hrows, _⟩ := C20_files_concatenated pfx runss hne h hperc
  have htt : t = t' := by rw [ht] at ht'; exact Except.ok.inj ht'
  have hany : illegalCols.any (fun c =>
      (concatFrames (runss.map (fun runs => frameOf (fileRows pfx runs)))).cols.contains c) = false := by
    rw [Bool.eq_false_iff]
    exact fun e => hperc ((any_illegal_iff pfx runss).mp e)
  refine ⟨?_, htt ▸ hrows⟩
  have := ht
  rw [readPepxml_docs pfx runss hne h', hany] at this
  exact (Except.ok.inj this).symm

/-- **which dict-made columns exist**: a key is a column of the concatenated frame iff some hit of some
file has a cell under it (a search score of that name, or — for the three attribute keys — the attribute) -/
theorem C20_dict_column_exists_iff (pfx : Str) (runss : List (List Run)) (k : String) :
    k ∈ (concatFrames (runss.map (fun runs => frameOf (fileRows pfx runs)))).cols
      ↔ ∃ c ∈ runss.flatMap hitContexts, (specCell c.2.2 k).isSome := by
  rw [mem_concat_cols]
  constructor
  · rintro ⟨runs, hr, row, hrow, hk⟩
    rw [fileRows_eq, List.mem_map] at hrow
    obtain ⟨c, hc, rfl⟩ := hrow
    refine ⟨c, List.mem_flatMap.mpr ⟨runs, hr, hc⟩, ?_⟩
    rw [specCell_isSome_iff]
    exact (mem_rowKeys_parsePsm pfx _ c.2.2 k).mp hk
  · rintro ⟨c, hc, hs⟩
    obtain ⟨runs, hr, hcr⟩ := List.mem_flatMap.mp hc
    refine ⟨runs, hr, psmOf pfx c, ?_, ?_⟩
    · rw [fileRows_eq]; exact List.mem_map_of_mem hcr
    · exact (mem_rowKeys_parsePsm pfx _ c.2.2 k).mpr ((specCell_isSome_iff c.2.2 k).mp hs)

/-- **every dict-made column of the returned table, cell by cell**: if some hit has a cell under `k`, the
table has the column `k`; it is `_log_features` applied to the column of specified cells (one per hit, in
document order over all files, absent cells missing) — for `num_matched_peptides` the `log10` of them -/
theorem C20_dict_columns (pfx : Str) (runss : List (List Run)) (t : Table)
    (hne : runss ≠ []) (h : ∀ runs ∈ runss, hitsOfRuns runs ≠ 0)
    (ht : readPepxml pfx (runss.map File.doc) = .ok t) (k : String)
    (hex : ∃ c ∈ runss.flatMap hitContexts, (specCell c.2.2 k).isSome) :
    (k ≠ "num_matched_peptides" →
      (k, logFeature ((runss.flatMap hitContexts).map (fun c => (specCell c.2.2 k).map cellNum))) ∈ t.feats) ∧
    (k = "num_matched_peptides" →
      (k, (runss.flatMap hitContexts).map (fun c => nmCell ((specCell c.2.2 k).map cellNum))) ∈ t.feats) := by
  obtain ⟨hdef, hrows⟩ := C20_read_ok_table pfx runss t hne h ht
  have hcol := (C20_dict_column_exists_iff pfx runss k).mpr hex
  have hraw : rawColumn t.rows k = (runss.flatMap hitContexts).map (fun c => (specCell c.2.2 k).map cellNum) := by
    rw [rawColumn, hrows, List.map_map]
    apply List.map_congr_left
    intro c _
    simp only [Function.comp_apply, psm_cell]
  have hmem : featCol t.rows k ∈ t.feats := by
    have hr : t.rows = (concatFrames (runss.map (fun runs => frameOf (fileRows pfx runs)))).rows := by
      rw [hdef]; rfl
    rw [hr, hdef]
    simp only [postProcess, List.mem_append, List.mem_map]
    exact Or.inl ⟨k, hcol, rfl⟩
  constructor
  · intro hk
    have : featCol t.rows k = (k, logFeature (rawColumn t.rows k)) := by simp [featCol, hk]
    rw [this, hraw] at hmem
    exact hmem
  · intro hk
    have : featCol t.rows k = (k, (rawColumn t.rows k).map nmCell) := by simp [featCol, hk]
    rw [this, hraw, List.map_map] at hmem
    exact hmem

/-- **no attribute column is invented**: if no hit has the attribute (nor a score of that name), the
returned table has no column of that name -/
theorem C20_no_invented_attribute_column (pfx : Str) (runss : List (List Run)) (t : Table)
    (hne : runss ≠ []) (h : ∀ runs ∈ runss, hitsOfRuns runs ≠ 0)
    (ht : readPepxml pfx (runss.map File.doc) = .ok t) (k : String)
    (hk : k = "missed_cleavages" ∨ k = "ntt" ∨ k = "num_matched_peptides")
    (hno : ∀ c ∈ runss.flatMap hitContexts, specCell c.2.2 k = none) :
    k ∉ t.feats.map (·.1) := by
  obtain ⟨hdef, _⟩ := C20_read_ok_table pfx runss t hne h ht
  rw [hdef, (C20_table_columns _).1]
  simp only [List.mem_append, List.mem_map, List.mem_cons, List.not_mem_nil, or_false, not_or]
  refine ⟨?_, ?_, ?_⟩
  · intro hc
    obtain ⟨c, hcm, hs⟩ := (C20_dict_column_exists_iff pfx runss k).mp hc
    rw [hno c hcm] at hs
    cases hs
  · rcases hk with rfl | rfl | rfl <;> decide
  · rintro ⟨z, _, hz⟩
    have key : ("charge_" ++ toString z).toList = k.toList := by rw [hz]
    rcases hk with rfl | rfl | rfl <;> simp [String.toList_append] at key

/-- **optional attributes present / absent, in the returned table**: for an attribute key none of whose
namesakes is a search score, with all values below 10000 (missed cleavages, tolerable termini), the table
has — as soon as one hit has the attribute — the column holding, for the PSM of every hit, the attribute's
integer if the hit has it and a missing cell if it has not -/
theorem C20_optional_attribute_column (pfx : Str) (runss : List (List Run)) (t : Table)
    (hne : runss ≠ []) (h : ∀ runs ∈ runss, hitsOfRuns runs ≠ 0)
    (ht : readPepxml pfx (runss.map File.doc) = .ok t) (k : String) (hk : k ≠ "num_matched_peptides")
    (hns : ∀ c ∈ runss.flatMap hitContexts, k ∉ (scoresOf c.2.2).map (·.1))
    (hex : ∃ c ∈ runss.flatMap hitContexts, (attrOf c.2.2 k).isSome)
    (hsmall : ∀ c ∈ runss.flatMap hitContexts, ∀ i, attrOf c.2.2 k = some i → i < 10000) :
    (k, (runss.flatMap hitContexts).map (fun c => attrCell (attrOf c.2.2 k))) ∈ t.feats := by
  have hcell : ∀ c ∈ runss.flatMap hitContexts, specCell c.2.2 k = (attrOf c.2.2 k).map Cell.int := by
    intro c hc
    rw [specCell, specScore_none _ _ (hns c hc)]
    rfl
  have hex' : ∃ c ∈ runss.flatMap hitContexts, (specCell c.2.2 k).isSome := by
    obtain ⟨c, hc, hs⟩ := hex
    refine ⟨c, hc, ?_⟩
    rw [hcell c hc]
    simpa using hs
  have hm := (C20_dict_columns pfx runss t hne h ht k hex').1 hk
  have hcolumn : (runss.flatMap hitContexts).map (fun c => (specCell c.2.2 k).map cellNum)
      = ((runss.flatMap hitContexts).map (fun c => attrOf c.2.2 k)).map (fun v => v.map intNum) := by
    rw [List.map_map]
    apply List.map_congr_left
    intro c hc
    simp only [Function.comp_apply, hcell c hc, Option.map_map]
    cases attrOf c.2.2 k <;> rfl
  rw [hcolumn, logFeature_int_column, List.map_map] at hm
  · exact hm
  · intro i hi
    obtain ⟨c, hc, hci⟩ := List.mem_map.mp hi
    exact hsmall c hc i hci

/-- a cell of such a column is missing exactly where the hit lacks the attribute -/
theorem C20_attribute_cell_missing_iff (v : Option Int) : attrCell v = FV.missing ↔ v = none := by
  cases v <;> simp [attrCell]

/-- **`num_matched_peptides`**: if no search score bears that name and some hit has the attribute, the
table has the column holding `log10` of the count for the PSM of every hit that has it and a missing cell
for the others -/
theorem C20_num_matched_column (pfx : Str) (runss : List (List Run)) (t : Table)
    (hne : runss ≠ []) (h : ∀ runs ∈ runss, hitsOfRuns runs ≠ 0)
    (ht : readPepxml pfx (runss.map File.doc) = .ok t)
    (hns : ∀ c ∈ runss.flatMap hitContexts, "num_matched_peptides" ∉ (scoresOf c.2.2).map (·.1))
    (hex : ∃ c ∈ runss.flatMap hitContexts, c.2.2.nmatched.isSome) :
    ("num_matched_peptides", (runss.flatMap hitContexts).map (fun c => nmSpecCell c.2.2.nmatched)) ∈ t.feats := by
  have hcell : ∀ c ∈ runss.flatMap hitContexts,
      specCell c.2.2 "num_matched_peptides" = (c.2.2.nmatched.map Int.ofNat).map Cell.int := by
    intro c hc
    rw [specCell, specScore_none _ _ (hns c hc), (C20_attrOf_keys c.2.2).2.2.1]
    rfl
  have hex' : ∃ c ∈ runss.flatMap hitContexts, (specCell c.2.2 "num_matched_peptides").isSome := by
    obtain ⟨c, hc, hs⟩ := hex
    refine ⟨c, hc, ?_⟩
    rw [hcell c hc]
    simpa using hs
  have hm := (C20_dict_columns pfx runss t hne h ht _ hex').2 rfl
  have hcolumn : (runss.flatMap hitContexts).map
        (fun c => nmCell ((specCell c.2.2 "num_matched_peptides").map cellNum))
      = (runss.flatMap hitContexts).map (fun c => nmSpecCell c.2.2.nmatched) := by
    apply List.map_congr_left
    intro c hc
    rw [hcell c hc]
    cases c.2.2.nmatched with
    | none => rfl
    | some n => simp [nmCell, nmSpecCell, cellNum, Num.val, pow10_zero]
  rw [hcolumn] at hm
  exact hm

/-- **`_log_features` leaves the `log10(num_matched_peptides)` column as it is** (what `featCol` assumes,
derived from the model of `_log_features`): for any `lg` whose values on the column's counts are `0` (one
candidate) or lie in `[0.3, 20]` — true of `log10` on 2 … 10^20 — the column that line 128 hands to
`_log_features` comes back with every present cell holding `lg n` itself and the missing cells missing -/
theorem C20_num_matched_log_untouched (lg : Nat → Rat) (col : List (Option Nat))
    (h : ∀ n, some n ∈ col → lg n = 0 ∨ (3 / 10 ≤ lg n ∧ lg n ≤ 20)) :
    logFeature (nmLogColumn lg col)
      = col.map (fun c => (c.map (fun n => FV.plain (lg n))).getD FV.missing) := by
  rw [nmLogColumn_plain lg col h, nmLogColumn, List.map_map]
  apply List.map_congr_left
  intro c _
  cases c with
  | none => rfl
  | some n => simp [plainCell, reprNum_val]

/-! ## repeated hits, repeated files -/

/-- **the same files given twice** (or two files with the same content): every PSM appears twice, nothing is
merged — the rows are the rows of the single reading, twice in a row -/
theorem C20_files_repeated (pfx : Str) (runss : List (List Run)) (hne : runss ≠ [])
    (h : ∀ runs ∈ runss, hitsOfRuns runs ≠ 0) (hp : ¬ hasPercolatorScore runss) :
    ∃ t t2, readPepxml pfx (runss.map File.doc) = .ok t ∧
      readPepxml pfx ((runss ++ runss).map File.doc) = .ok t2 ∧ t2.rows = t.rows ++ t.rows := by
  obtain ⟨t, ht, hrows, _⟩ := C20_files_concatenated pfx runss hne h hp
  have hne2 : runss ++ runss ≠ [] := by simp [hne]
  have h2 : ∀ runs ∈ runss ++ runss, hitsOfRuns runs ≠ 0 := by
    intro runs hr
    rcases List.mem_append.mp hr with hr | hr <;> exact h runs hr
  have hp2 : ¬ hasPercolatorScore (runss ++ runss) := by
    rintro ⟨k, hk, runs, hr, hx⟩
    rcases List.mem_append.mp hr with hr | hr <;> exact hp ⟨k, hk, runs, hr, hx⟩
  obtain ⟨t2, ht2, hrows2, _⟩ := C20_files_concatenated pfx (runss ++ runss) hne2 h2 hp2
  refine ⟨t, t2, ht, ht2, ?_⟩
  rw [hrows2, hrows, List.flatMap_append, List.map_append]

/-- **identical hits are both kept**: a search hit listed twice in a search result gives two consecutive,
equal PSMs (no de-duplication) -/
theorem C20_duplicate_hit_kept (pfx : Str) (R₁ R₂ : List Run) (run : Run) (S₁ S₂ : List Spectrum)
    (sp : Spectrum) (Q₁ Q₂ : List (List Hit)) (H₁ H₂ : List Hit) (hit : Hit)
    (hs : run.spectra = S₁ ++ sp :: S₂) (hq : sp.results = Q₁ ++ (H₁ ++ hit :: hit :: H₂) :: Q₂) :
    (fileRows pfx (R₁ ++ run :: R₂))[hitsOfRuns R₁ + ((S₁.map hitsOfSpectrum).sum
        + ((Q₁.map List.length).sum + H₁.length))]? = some (psmOf pfx (run, sp, hit)) ∧
    (fileRows pfx (R₁ ++ run :: R₂))[hitsOfRuns R₁ + ((S₁.map hitsOfSpectrum).sum
        + ((Q₁.map List.length).sum + H₁.length)) + 1]? = some (psmOf pfx (run, sp, hit)) := by
  constructor
  · exact C20_one_psm_per_hit pfx R₁ R₂ run S₁ S₂ sp Q₁ Q₂ H₁ (hit :: H₂) hit hs hq
  · have hq' : sp.results = Q₁ ++ ((H₁ ++ [hit]) ++ hit :: H₂) :: Q₂ := by simp [hq]
    have := C20_one_psm_per_hit pfx R₁ R₂ run S₁ S₂ sp Q₁ Q₂ (H₁ ++ [hit]) H₂ hit hs hq'
    simp only [List.length_append, List.length_cons, List.length_nil] at this
    have hidx : hitsOfRuns R₁ + ((S₁.map hitsOfSpectrum).sum + ((Q₁.map List.length).sum + (H₁.length + (0 + 1))))
        = hitsOfRuns R₁ + ((S₁.map hitsOfSpectrum).sum + ((Q₁.map List.length).sum + H₁.length)) + 1 := by omega
    rw [hidx] at this
    exact this

end Mk

/-! ## non-vacuity and evaluation tests -/

namespace Mk.Pepxml

section ExamplesAttrs

-- `pxRun` (Props/C20.lean) has one hit with `ntt = 2`, no `missed_cleavages`, scores `xcorr`, `expect`
def pxHit2 : Hit := { pxHit with missed := some 1, ntt := none, nmatched := some 100, children := [] }
def pxRun2 : Run :=
  { baseName := ['r'], rawData := ['.', 'x'],
    spectra := [{ scan := 1, charge := 2, retTime := 1, expMass := 2, results := [[pxHit, pxHit2, pxHit2]] }] }

-- hypotheses of `C20_optional_attribute_column` / `C20_num_matched_column` hold for `[[pxRun2]]`
example : [[pxRun2]] ≠ [] ∧ ∀ runs ∈ [[pxRun2]], hitsOfRuns runs ≠ 0 := by decide
example : ∃ t, readPepxml ['d', '_'] ([[pxRun2]].map File.doc) = .ok t := ⟨_, rfl⟩
example : (∀ c ∈ [[pxRun2]].flatMap hitContexts, "ntt" ∉ (scoresOf c.2.2).map (·.1)) ∧
    (∃ c ∈ [[pxRun2]].flatMap hitContexts, (attrOf c.2.2 "ntt").isSome) ∧
    (∃ c ∈ [[pxRun2]].flatMap hitContexts, (attrOf c.2.2 "ntt").isNone) ∧
    (∀ c ∈ [[pxRun2]].flatMap hitContexts, ∀ i, attrOf c.2.2 "ntt" = some i → i < 10000) := by decide
example : (∀ c ∈ [[pxRun2]].flatMap hitContexts, "num_matched_peptides" ∉ (scoresOf c.2.2).map (·.1)) ∧
    (∃ c ∈ [[pxRun2]].flatMap hitContexts, c.2.2.nmatched.isSome) := by decide
-- hypothesis of `C20_no_invented_attribute_column`: no hit of `pxRun` has `missed_cleavages`
example : ∀ c ∈ [[pxRun]].flatMap hitContexts, (specCell c.2.2 "missed_cleavages").isNone := by decide
-- hypothesis of `C20_num_matched_log_untouched`
example : ∀ n, some n ∈ [some 1, none, some 7] →
    (fun n : Nat => if n = 1 then (0 : Rat) else 1) n = 0 ∨
      (3 / 10 ≤ (fun n : Nat => if n = 1 then (0 : Rat) else 1) n ∧
        (fun n : Nat => if n = 1 then (0 : Rat) else 1) n ≤ 20) := by
  intro n hn
  simp only [List.mem_cons, Option.some.injEq, reduceCtorEq, List.not_mem_nil, or_false, false_or] at hn
  rcases hn with rfl | rfl <;> norm_num
-- hypothesis of `C20_duplicate_hit_kept`: `pxRun2` lists `pxHit2` twice
example : (pxRun2.spectra.map (·.results)) = [[] ++ ([pxHit] ++ pxHit2 :: pxHit2 :: []) :: []] := rfl

def fvTag : FV → String
  | .missing => "nan"
  | .plain _ => "p"
  | .log _ => "l"
  | .logFill _ => "f"
  | .sci _ _ => "e"

def tableCol (r : Except Err Table) (k : String) : List String :=
  match r with
  | .ok t => ((t.feats.lookup k).getD []).map fvTag
  | .error _ => ["error"]

#guard tableCol (readPepxml ['d', '_'] [.doc [pxRun2]]) "ntt" == ["p", "nan", "nan"]
#guard tableCol (readPepxml ['d', '_'] [.doc [pxRun2]]) "missed_cleavages" == ["nan", "p", "p"]
#guard tableCol (readPepxml ['d', '_'] [.doc [pxRun2]]) "num_matched_peptides" == ["nan", "l", "l"]
#guard tableCol (readPepxml ['d', '_'] [.doc [pxRun]]) "missed_cleavages" == []
#guard (fileRows ['d', '_'] [pxRun2]).length == 3
#guard ((specCell pxHit "ntt").isSome, (specCell pxHit "missed_cleavages").isSome, (specCell pxHit "xcorr").isSome)
  == (true, false, true)

end ExamplesAttrs

end Mk.Pepxml
