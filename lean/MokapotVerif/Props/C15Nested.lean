import MokapotVerif.Lemmas.PickedNested
import MokapotVerif.Props.C15
/-!
# C15, third pass — annotations that hold brackets, terminal separators, and "every notation competes"

* `C15_every_notation_competes` lifts the notation clause to the whole entry point: *every* row whose
  peptide is a notation of a residue sequence owned by a protein group is a candidate — whatever other
  rows carry the same sequence — and the entry of its pair scores at least as well.
* The current `strip_peptides` does **not** ignore an annotation that itself holds a bracket, nor the
  ProForma terminal separator: `C15_nested_annotation_not_ignored`, `C15_terminal_separator_not_ignored`
  (witnesses on the model of the code as it is; the harness shows the same on the real code — FINDING-C15.md).
* The repaired expression (model `stripColN`, driven against Python's `re`) meets the specification on the
  whole nested notation, unbounded: `C15_strip_nested_spec`, `C15_strip_nested_ignores_mods_and_flanks`, and
  changes nothing on the flat notation of the first pass: `C15_nested_fix_agrees_on_flat`.
-/
namespace Mk.Picked
variable {α : Type}

/-! ## 1. every notation of a mapped peptide competes for its pair's entry -/

/-- **every_notation_competes**: for every table, database, pairing and seed — a row whose peptide is *any*
well-formed notation (modifications, markers, flanks) of a residue sequence that the lookup maps to a group `g`
is among the candidate rows, with that group and that stripped sequence, no matter how many other rows of the
table are notations of the same sequence or where they stand; hence the result holds an entry for the pair of
`g`, and that entry scores at least as well as this row. -/
theorem C15_every_notation_competes (le : α → α → Bool) (hle : TotalPre le) (P : Proteins)
    (dm : List (List Char × List Char)) (rows : List (Row α)) (R sorted : List (Entry α))
    (hR : candidates P dm rows = .ok R) (hperm : sorted.Perm R) (hs : KeySorted le P sorted)
    (j : Nat) (r : Row α) (hj : rows[j]? = some r)
    (fl : Option (List Char × List Char)) (toks : List Tok) (hp : r.peptide = renderPeptide fl toks)
    (hwf : ∀ t ∈ toks, t.wf) (hfl : flanksOk fl) (hres : ∃ c, Tok.res c ∈ toks)
    (g : List Char) (hg : groupOf P (decoyMap P dm) (toks.flatMap Tok.residues) = some g) :
    (⟨g, r.peptide, toks.flatMap Tok.residues, r.score, r.target⟩ : Entry α) ∈ R ∧
    ∃ e ∈ pickedOf P sorted, e.key P = pairKey P g ∧ le r.score e.score = true := by
  have hcol : (rows.map (fun r => r.peptide))[j]? = some (renderPeptide fl toks) := by
    rw [List.getElem?_map, hj, Option.map_some, hp]
  have hst := C15_strip_spec _ j fl toks hcol hwf hfl hres
  have hmem : (⟨g, r.peptide, toks.flatMap Tok.residues, r.score, r.target⟩ : Entry α) ∈ R :=
    (C15_retained_iff P dm rows R hR _).mpr ⟨j, r, hj, hst, rfl, rfl, rfl, hg⟩
  refine ⟨hmem, ?_⟩
  obtain ⟨_, hcov⟩ := C15_one_entry_per_pair P dm rows R sorted hR hperm
  obtain ⟨e, he, hk⟩ := List.mem_map.mp ((hcov (pairKey P g)).mpr ⟨_, hmem, rfl⟩)
  refine ⟨e, he, hk, ?_⟩
  exact (C15_entry_is_best_peptide le hle P dm rows R sorted hR hperm hs e he).2 _ hmem hk.symm

/-! ## 2. the code as it is: annotations holding a bracket, terminal separators -/

/-- `M[O (M)]K` (a well-formed nested annotation of the residues `MK`) is **not** stripped to `MK` by the
expression of the code as it is: the annotation ends at the first closing bracket of either kind. -/
theorem C15_nested_annotation_not_ignored :
    ∃ toks : List NTok, (∀ t ∈ toks, t.ok = true) ∧ (∃ c, NTok.res c ∈ toks) ∧
      stripCol [renderPeptideN none [] false toks false []] ≠ [toks.flatMap NTok.residues] :=
  ⟨[.res 'M', .mod '[' [.ch 'O', .ch ' ', .grp ['M']], .res 'K'], by decide, ⟨'M', List.mem_cons_self⟩, by decide⟩

/-- the same for a round annotation holding a round group (`T(P (T))K`) -/
theorem C15_nested_round_annotation_not_ignored :
    ∃ toks : List NTok, (∀ t ∈ toks, t.ok = true) ∧ (∃ c, NTok.res c ∈ toks) ∧
      stripCol [renderPeptideN none [] false toks false []] ≠ [toks.flatMap NTok.residues] :=
  ⟨[.res 'T', .mod '(' [.ch 'P', .ch ' ', .grp ['T']], .res 'K'], by decide, ⟨'T', List.mem_cons_self⟩, by decide⟩

/-- `[+4]-PK` (ProForma N-terminal modification): the separator stays in the stripped sequence -/
theorem C15_terminal_separator_not_ignored :
    ∃ (nterm toks : List NTok), (∀ t ∈ toks, t.ok = true) ∧ (∀ t ∈ nterm, t.ok = true ∧ t.isMod = true) ∧
      (∃ c, NTok.res c ∈ toks) ∧
      stripCol [renderPeptideN none nterm true toks false []] ≠ [toks.flatMap NTok.residues] :=
  ⟨[.mod '[' [.ch '+', .ch '4']], [.res 'P', .res 'K'], by decide, by decide, ⟨'P', List.mem_cons_self⟩, by decide⟩

/-! ## 3. the repaired expression -/

/-- **strip_nested_spec**: in any column, a peptide written as `flank.CORE.flank` or plain `CORE`, where `CORE` is
`SEQ` optionally preceded by N-terminal modifications and `-` and followed by `-` and C-terminal modifications, with
annotations anywhere in `SEQ` that may hold one level of brackets of their own kind (and anything else: brackets of
the other kind, dots, blanks), is stripped by the repaired `strip_peptides` to exactly the upper-case residues. -/
theorem C15_strip_nested_spec (col : List (List Char)) (i : Nat)
    (fl : Option (List Char × List Char)) (nterm : List NTok) (dl : Bool) (toks : List NTok) (dr : Bool)
    (cterm : List NTok)
    (hcol : col[i]? = some (renderPeptideN fl nterm dl toks dr cterm))
    (hok : ∀ t ∈ toks, t.ok = true) (hn : ∀ t ∈ nterm, t.ok = true ∧ t.isMod = true)
    (hc : ∀ t ∈ cterm, t.ok = true ∧ t.isMod = true) (hfl : flanksOk fl) (hres : ∃ c, NTok.res c ∈ toks) :
    (stripColN col)[i]? = some (toks.flatMap NTok.residues) :=
  stripN_wellformed col i fl nterm dl toks dr cterm hcol hok hn hc hfl hres

/-- two peptides of one table that differ only in (possibly nested) modifications, terminal modifications and
separators, lower-case markers and flanking residues get the same stripped sequence under the repaired code. -/
theorem C15_strip_nested_ignores_mods_and_flanks (col : List (List Char)) (i j : Nat)
    (fl fl' : Option (List Char × List Char)) (nterm nterm' : List NTok) (dl dl' : Bool) (toks toks' : List NTok)
    (dr dr' : Bool) (cterm cterm' : List NTok)
    (hi : col[i]? = some (renderPeptideN fl nterm dl toks dr cterm))
    (hj : col[j]? = some (renderPeptideN fl' nterm' dl' toks' dr' cterm'))
    (hok : ∀ t ∈ toks, t.ok = true) (hok' : ∀ t ∈ toks', t.ok = true)
    (hn : ∀ t ∈ nterm, t.ok = true ∧ t.isMod = true) (hn' : ∀ t ∈ nterm', t.ok = true ∧ t.isMod = true)
    (hc : ∀ t ∈ cterm, t.ok = true ∧ t.isMod = true) (hc' : ∀ t ∈ cterm', t.ok = true ∧ t.isMod = true)
    (hfl : flanksOk fl) (hfl' : flanksOk fl')
    (hres : ∃ c, NTok.res c ∈ toks) (hres' : ∃ c, NTok.res c ∈ toks')
    (hsame : toks.flatMap NTok.residues = toks'.flatMap NTok.residues) :
    (stripColN col)[i]? = (stripColN col)[j]? := by
  rw [C15_strip_nested_spec col i fl nterm dl toks dr cterm hi hok hn hc hfl hres,
    C15_strip_nested_spec col j fl' nterm' dl' toks' dr' cterm' hj hok' hn' hc' hfl' hres', hsame]

/-- **nested_fix_agrees_on_flat**: on every flat notation of the first pass whose annotations are closed by the
bracket of their own kind and do not repeat their opening bracket, the repaired `strip_peptides` returns what the
current one returns (the residues): the repair changes nothing for the notations that work today. -/
theorem C15_nested_fix_agrees_on_flat (col : List (List Char)) (i : Nat)
    (fl : Option (List Char × List Char)) (toks : List Tok)
    (hcol : col[i]? = some (renderPeptide fl toks))
    (hwf : ∀ t ∈ toks, t.wf) (hflat : ∀ t ∈ toks, t.flat) (hfl : flanksOk fl) (hres : ∃ c, Tok.res c ∈ toks) :
    (stripColN col)[i]? = (stripCol col)[i]? ∧ (stripCol col)[i]? = some (toks.flatMap Tok.residues) := by
  have h2 := C15_strip_spec col i fl toks hcol hwf hfl hres
  refine ⟨?_, h2⟩
  rw [h2]
  have hr : renderPeptideN fl [] false (toks.map Tok.toN) false [] = renderPeptide fl toks := by
    have : (toks.map Tok.toN).flatMap NTok.render = toks.flatMap Tok.render := toN_render_list toks hflat
    cases fl with
    | none => simp [renderPeptideN, renderCore, renderPeptide, dashIf, this]
    | some lr => obtain ⟨l, r⟩ := lr; simp [renderPeptideN, renderCore, renderPeptide, dashIf, this]
  have h := C15_strip_nested_spec col i fl [] false (toks.map Tok.toN) false [] (by rw [hr]; exact hcol)
    (toN_ok_list toks hwf hflat) (by simp) (by simp) hfl
    (by obtain ⟨c, hc⟩ := hres; exact ⟨c, List.mem_map.mpr ⟨_, hc, rfl⟩⟩)
  rw [h, toN_residues_list]

/-! ## non-vacuity -/

/-- a concrete nested peptide: `K.[Acetyl]-PEPTM[Oxidation (M)]IDET(Phospho (STY))K-[Amidated].-` -/
def exNTerm : List NTok := [.mod '[' ("Acetyl".toList.map .ch)]
def exCTerm : List NTok := [.mod '[' ("Amidated".toList.map .ch)]
def exNToks : List NTok :=
  [.res 'P', .res 'E', .res 'P', .res 'T', .res 'M',
   .mod '[' ("Oxidation (M)".toList.map .ch),   -- round brackets inside a square annotation are plain text
   .res 'I', .res 'D', .res 'E', .res 'T',
   .mod '(' ("Phospho ".toList.map .ch ++ [.grp "STY".toList]), .res 'K']

example : (∀ t ∈ exNToks, t.ok = true) ∧ (∀ t ∈ exNTerm, t.ok = true ∧ t.isMod = true) ∧
    (∀ t ∈ exCTerm, t.ok = true ∧ t.isMod = true) ∧ flanksOk (some ("K".toList, "-".toList)) ∧
    (∃ c, NTok.res c ∈ exNToks) := by
  refine ⟨by decide, by decide, by decide, ?_, ⟨'P', by simp [exNToks]⟩⟩
  constructor <;> (intro c hc; simp at hc; subst hc; decide)

#guard String.ofList (renderPeptideN (some ("K".toList, "-".toList)) exNTerm true exNToks true exCTerm)
  == "K.[Acetyl]-PEPTM[Oxidation (M)]IDET(Phospho (STY))K-[Amidated].-"
#guard (stripColN [renderPeptideN (some ("K".toList, "-".toList)) exNTerm true exNToks true exCTerm]).map String.ofList
  == ["PEPTMIDETK"]
-- the code as it is on the three notations of FINDING-C15.md, and the repaired one
#guard (stripCol ["PEPTM[Oxidation (M)]IDEK".toList, "PEPT(Phospho (STY))IDEK".toList, "[+42.011]-PEPTIDEK".toList]).map String.ofList
  == ["PEPTM]IDEK", "PEPT)IDEK", "-PEPTIDEK"]
#guard (stripColN ["PEPTM[Oxidation (M)]IDEK".toList, "PEPT(Phospho (STY))IDEK".toList, "[+42.011]-PEPTIDEK".toList,
    "PEPTIDEK-[Amidated]".toList, "K.[Acetyl]-PEPTIDEK.A".toList, "-.PEPTIDEK.-".toList, "A[B[C]D]EK".toList, "A[B[C[D]]EK".toList]).map String.ofList
  == ["PEPTMIDEK", "PEPTIDEK", "PEPTIDEK", "PEPTIDEK", "PEPTIDEK", "PEPTIDEK", "AEK", "A[BEK"]

/-- the hypotheses of `C15_nested_fix_agrees_on_flat` (flat, own closer) hold for the first pass's example apart from
nothing: `K.n[+42.01]PEPmT(ph.os)K.-` -/
example : ∀ t ∈ exToks, t.flat := by
  intro t ht
  simp only [exToks, List.mem_cons, List.not_mem_nil, or_false] at ht
  rcases ht with rfl | rfl | rfl | rfl | rfl | rfl | rfl | rfl | rfl <;> simp [Tok.flat, closerOf]

/-- hypotheses of `C15_every_notation_competes` on `exRows`: row 5 (`-.AnA(ox)K.-`, a second notation of `AAK`) -/
example : exRows[5]? = some ⟨true, "-.AnA(ox)K.-".toList, 4⟩ ∧
    "-.AnA(ox)K.-".toList = renderPeptide (some ("-".toList, "-".toList))
      [.res 'A', .low 'n', .res 'A', .mod '(' "ox".toList ')', .res 'K'] ∧
    groupOf exP (decoyMap exP []) "AAK".toList = some "P1".toList := ⟨rfl, by decide, by decide⟩

end Mk.Picked
