import MokapotVerif.Lemmas.FitStore
import MokapotVerif.Props.C12Full
/-!
# C12, third audit pass — "a saved and re-loaded model predicts identically", over a file store

Property theorems only.  `Model/FitStore.lean` models what mokapot does around `pickle`:
`Model.save` / `save_model` replace the named file by the dump of the object's current state,
`load_model` reads the named file as it is *now* (csv probe → weights branch or `pickle.load`).
`pickle` is a parameter; the two assumptions about it are explicit hypotheses

* `hrt  : ∀ m, pk.load (pk.dump m) = some m`  (the round trip of `pickle` itself — trusted), and
* `hbin : ∀ m, pk.probe (pk.dump m) = .keyError ∨ … = .unicodeError`  (a pickle is not a
  tab-separated table with two data rows; protocol ≥ 2 starts with the byte 0x80, no UTF-8),

both exhibited below by `idPickle`.  Unbounded in the number of files, operations and models; paths
are any type with decidable equality.
-/
namespace Mk.Fit
variable {π β μ : Type}

/-- **One round trip.**  `load_model(p)` right after `save_model(m, p)` returns the state that was
saved, whatever `p` held before and whatever else is in the directory. -/
theorem C12_store_save_then_load [DecidableEq π] (pk : Pickle β μ) (hrt : ∀ m, pk.load (pk.dump m) = some m)
    (hbin : ∀ m, pk.probe (pk.dump m) = .keyError ∨ pk.probe (pk.dump m) = .unicodeError)
    (fs : Store π β) (m : μ) (p : π) :
    loadModel pk (saveModel pk fs m p) p = .ok m := by
  unfold loadModel saveModel
  rw [lookup_write, if_pos rfl]
  simpa using loadBody_dump pk hrt hbin m

/-- **Saving under another name changes nothing here.**  No hypothesis on `pickle`. -/
theorem C12_store_other_path_untouched [DecidableEq π] (pk : Pickle β μ) (fs : Store π β) (m : μ) (p q : π)
    (h : p ≠ q) : loadModel pk (saveModel pk fs m q) p = loadModel pk fs p := by
  unfold loadModel saveModel
  rw [lookup_write, if_neg h]

/-- **The branch table of `load_model` is exact.**  File contents load as the model `m` iff the csv
probe ended in `KeyError` or `UnicodeDecodeError` *and* `pickle.load` returns `m`; every other probe
outcome is an error (two readable rows: the weights branch; anything else propagates). -/
theorem C12_store_dispatch_exact (pk : Pickle β μ) (b : β) (m : μ) :
    loadBody pk b = .ok m ↔ (pk.probe b = .keyError ∨ pk.probe b = .unicodeError) ∧ pk.load b = some m := by
  unfold loadBody
  rw [loadDispatch_ok_iff, unpickle_ok_iff]

/-- **Last write wins, for every session.**  Starting from an empty directory, every `load_model(p)`
of any sequence of saves, foreign writes and loads answers from what the *last* write to `p` before
it wrote (`missing` if there was none) — earlier loads of the same or other paths, and the number
of times `p` was loaded before, play no role.  No hypothesis on `pickle`. -/
theorem C12_store_run_last_write_wins [DecidableEq π] (pk : Pickle β μ) (ops : List (StoreOp π β μ)) :
    storeRun pk ([] : Store π β) ops = storeSpecFrom pk [] ops := by
  apply storeRun_eq_spec
  intro p
  simp [lastWritten, List.lookup]

/-- **A re-loaded model is the model saved last** (the clause, for sessions).  Take any session
`pre`, then `save_model(m, p)`, then any operations `mid` that do not write to `p` (loads of `p`
itself, saves of other models elsewhere, …), then `load_model(p)`: that load returns `m` — also when
`p` was saved and loaded before with other models in `pre`. -/
theorem C12_store_load_returns_last_saved [DecidableEq π] (pk : Pickle β μ)
    (hrt : ∀ m, pk.load (pk.dump m) = some m)
    (hbin : ∀ m, pk.probe (pk.dump m) = .keyError ∨ pk.probe (pk.dump m) = .unicodeError)
    (fs : Store π β) (pre mid : List (StoreOp π β μ)) (m : μ) (p : π)
    (hmid : ∀ op ∈ mid, op.writes ≠ some p) :
    (storeRun pk fs (pre ++ .save m p :: (mid ++ [.load p]))).getLast? = some (.ok m) := by
  rw [storeRun_append]
  simp only [storeRun]
  rw [storeRun_append]
  simp only [storeRun, loadModel]
  rw [storeAfter_lookup_of_no_write pk _ p mid hmid, saveModel, lookup_write, if_pos rfl]
  simp [loadBody_dump pk hrt hbin m]

/-- **`load_model` has no effect on later loads.**  Deleting every load from a session leaves the
files, hence the answer of a final load, unchanged. -/
theorem C12_store_loads_have_no_effect [DecidableEq π] (pk : Pickle β μ) (fs : Store π β)
    (ops : List (StoreOp π β μ)) (p : π) :
    (storeRun pk fs (ops ++ [.load p])).getLast?
      = (storeRun pk fs (ops.filter (fun op => op.writes.isSome) ++ [.load p])).getLast? := by
  rw [storeRun_append, storeRun_append, storeAfter_filter_writes]
  simp [storeRun]

/-- **The re-loaded model predicts identically**, on every dataset in every presentation (and refuses
identically: untrained, other feature names, missing column). -/
theorem C12_store_reloaded_predicts_identically {α ν σ θ : Type} [DecidableEq π] [DecidableEq ν]
    (pk : Pickle β (Option (Trained ν σ θ))) (hrt : ∀ m, pk.load (pk.dump m) = some m)
    (hbin : ∀ m, pk.probe (pk.dump m) = .keyError ∨ pk.probe (pk.dump m) = .unicodeError)
    (sc : Scaler α σ) (score : θ → List α → α) (fs : Store π β) (m : Option (Trained ν σ θ)) (p : π)
    (n : Nat) (frame : List (ν × List α)) (used : List ν) (fc : Option (List ν)) :
    predictLoaded sc score (loadModel pk (saveModel pk fs m p) p) n frame used fc
      = .ok (predictFull sc score m n frame used fc) := by
  rw [C12_store_save_then_load pk hrt hbin]
  rfl

/-- **Fit → save → … → load → predict.**  The object a successful `Model.fit` left behind is saved to
`p` somewhere in a session; after any operations that do not write to `p`, the model loaded from `p`
gives every PSM of *any* presentation of the training table the score the trained estimator gives
to the row it was trained on (`C12_full_train_predict_consistent` through the file). -/
theorem C12_store_fit_save_load_predict {α ν σ θ : Type} [DecidableEq π] [DecidableEq ν]
    (pk : Pickle β (Option (Trained ν σ θ))) (hrt : ∀ m, pk.load (pk.dump m) = some m)
    (hbin : ∀ m, pk.probe (pk.dump m) = .keyError ∨ pk.probe (pk.dump m) = .unicodeError)
    (sc : Scaler α σ) (est : Est (List α) α θ) (le : α → α → Bool) (thr : Rat) (cfg : FullCfg ν) (th0 : θ)
    (frame : List (ν × List α)) (used : List ν) (fc : Option (List ν)) (targets : List Bool) (o : FullOut ν σ θ α)
    (h : fitFull sc est le thr cfg th0 frame used fc targets = some o) (t : Trained ν σ θ) (ht : o.model = some t)
    (fs : Store π β) (pre mid : List (StoreOp π β (Option (Trained ν σ θ)))) (p : π)
    (hmid : ∀ op ∈ mid, op.writes ≠ some p)
    (frame2 : List (ν × List α)) (used2 : List ν) (fc2 : Option (List ν))
    (hset : ∀ x, x ∈ featureNames (frame2.map (·.1)) used2 fc2 ↔ x ∈ t.features)
    (hsame : ∀ nm ∈ t.features, lookupCol frame2 nm = lookupCol frame nm) :
    ((storeRun pk fs (pre ++ .save o.model p :: (mid ++ [.load p]))).getLast?).map
        (fun r => predictLoaded sc est.score r targets.length frame2 used2 fc2)
      = some (.ok (some (.ok (trainingScores sc est.score t targets.length
          (t.features.filterMap (lookupCol frame)))))) := by
  rw [C12_store_load_returns_last_saved pk hrt hbin fs pre mid o.model p hmid, ht]
  simp only [Option.map_some, predictLoaded]
  rw [← C12_full_train_predict_consistent sc est le thr cfg th0 frame used fc targets o h t ht frame2 used2 fc2
    hset hsame]
  rfl

/-! ## Non-vacuity: the hypotheses are satisfiable, the statements are not about empty sessions -/

/-- a `pickle` that stores the state itself; foreign contents: `none` = a weights table (two rows),
so the probe reads it -/
def idPickle : Pickle (Option Nat) Nat :=
  ⟨some, id, fun b => if b.isSome then .unicodeError else .row⟩

example : ∀ m, idPickle.load (idPickle.dump m) = some m := fun _ => rfl
example : ∀ m, idPickle.probe (idPickle.dump m) = .keyError ∨ idPickle.probe (idPickle.dump m) = .unicodeError :=
  fun _ => Or.inr rfl
/-- a `mid` as in `C12_store_load_returns_last_saved`: a load of `p` itself and a save elsewhere -/
example : ∀ op ∈ ([.load 0, .save 9 1] : List (StoreOp Nat (Option Nat) Nat)), op.writes ≠ some 0 := by decide

-- labelled tests (not general claims): path 0 saved, loaded, overwritten, loaded again; a weights file; a missing file
#guard (storeRun idPickle ([] : Store Nat (Option Nat))
    [.save 7 0, .load 0, .save 8 0, .load 0, .load 0, .put none 1, .load 1, .load 2]).map Except.toOption
  = [some 7, some 8, some 8, none, none]
#guard (storeSpecFrom idPickle ([] : List (StoreOp Nat (Option Nat) Nat))
    [.save 7 0, .load 0, .save 8 0, .load 0, .load 0, .put none 1, .load 1, .load 2]).map Except.toOption
  = [some 7, some 8, some 8, none, none]

end Mk.Fit
