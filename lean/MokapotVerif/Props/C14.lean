import MokapotVerif.Lemmas.MergePrefix
/-!
# C14 — k-way merge returns every row once, globally sorted by score

Property theorems only.  Rows are elements of an arbitrary type `α`; `le a b` reads
"the score of `a` is at most the score of `b`" and is only assumed to be a total
preorder (`TotalPre`), so distinct rows may tie in any pattern.  `inputs` is the list of
the row sequences of the input files / readers: any number of them, of any lengths.

* `kmerge` is `mokapot.utils.merge_sort` (row-dict merge, descending only),
  `kmergeFiles … c` the same with `MERGE_SORT_CHUNK_SIZE = c` made explicit;
* `kmergeChecked le desc` is `MergedTabularDataReader(…, descending=desc).get_row_iterator()`
  (result: rows yielded, and whether `ValueError` was then raised),
  `kmergeCheckedFiles … c` the same with `reader_chunk_size = c`;
* `none` = the code raises before yielding anything (no input at all, or an input without rows).

`NonIncr le xs`: `xs` is non-increasing; `SortedAs le desc xs`: sorted as declared
(non-increasing if `desc`, non-decreasing otherwise).
-/
namespace Mk.Merge
variable {α κ : Type}

/-! ## `mokapot.utils.merge_sort` -/

/-- boundary: the merge raises exactly when there is no input or some input has no row -/
theorem C14_kmerge_raises_iff (le : α → α → Bool) (inputs : List (List α)) :
    kmerge le inputs = none ↔ inputs = [] ∨ [] ∈ inputs :=
  kmerge_none_iff le inputs

/-- every input row exactly once, unmodified: the output is a permutation of the
concatenated inputs — for *any* inputs (sorted or not) and any comparison whatsoever -/
theorem C14_kmerge_perm (le : α → α → Bool) (inputs : List (List α)) (out : List α)
    (h : kmerge le inputs = some out) : out.Perm inputs.flatten := by
  rw [kmerge_some h, ← openAll_rows]
  exact mergeLoop_perm le _ _ (Nat.le_refl _)

/-- non-increasing inputs give a globally non-increasing output -/
theorem C14_kmerge_sorted (le : α → α → Bool) (hle : TotalPre le) (inputs : List (List α))
    (out : List α) (hs : ∀ xs ∈ inputs, NonIncr le xs) (h : kmerge le inputs = some out) :
    NonIncr le out := by
  have hall := (openAll_sorted_iff (NonIncr le) (by simp [NonIncr]) inputs).mpr hs
  have := checkedLoop_sorted le hle (srcTotal (inputs.flatMap openSrc)) (inputs.flatMap openSrc)
  rw [checkedLoop_eq_mergeLoop le hle _ _ hall] at this
  rw [kmerge_some h]; exact this

/-- the model's output passes the executable spec the harness applies to the real output -/
theorem C14_kmerge_meets_spec [BEq α] [LawfulBEq α] (le : α → α → Bool) (hle : TotalPre le)
    (inputs : List (List α)) (out : List α) (h : kmerge le inputs = some out) :
    specMerge le inputs out = "ok" :=
  (specMerge_ok_iff hle inputs out).mpr
    ⟨C14_kmerge_perm le inputs out h, fun hs => C14_kmerge_sorted le hle inputs out hs h⟩

/-- independence of the reader chunk size: reading every file in chunks of `c ≥ 1` rows
changes nothing -/
theorem C14_kmerge_chunk_invariant (le : α → α → Bool) (c : Nat) (hc : 0 < c)
    (files : List (List α)) : kmergeFiles le c files = kmerge le files := by
  unfold kmergeFiles
  congr 1
  conv => rhs; rw [← List.map_id files]
  exact List.map_congr_left (fun xs _ => kmRowIter_eq c hc xs)

/-- one input (sorted or not, a single row included) is returned as it is -/
theorem C14_kmerge_single (le : α → α → Bool) (xs : List α) (h : xs ≠ []) :
    kmerge le [xs] = some xs := by
  cases xs with
  | nil => exact absurd rfl h
  | cons x r =>
    simp only [kmerge, List.isEmpty_cons, List.any_cons, List.any_nil, Bool.or_false,
      Bool.false_eq_true, if_false, List.flatMap_cons, List.flatMap_nil, openSrc, List.append_nil]
    rw [mergeLoop_single le r x _ (by simp [srcTotal, srcRows])]

/-- independence of the number of inputs: however the same rows are distributed over
sorted inputs (1 file, 8 files, …), the merged *score sequence* is the same.
`key` is the score, `lek` its (antisymmetric) order. -/
theorem C14_kmerge_any_k (key : α → κ) (lek : κ → κ → Bool) (hk : TotalPre lek)
    (hanti : ∀ a b, lek a b = true → lek b a = true → a = b)
    (ins₁ ins₂ : List (List α)) (out₁ out₂ : List α)
    (hs₁ : ∀ xs ∈ ins₁, NonIncr (fun a b => lek (key a) (key b)) xs)
    (hs₂ : ∀ xs ∈ ins₂, NonIncr (fun a b => lek (key a) (key b)) xs)
    (hrows : ins₁.flatten.Perm ins₂.flatten)
    (h₁ : kmerge (fun a b => lek (key a) (key b)) ins₁ = some out₁)
    (h₂ : kmerge (fun a b => lek (key a) (key b)) ins₂ = some out₂) :
    out₁.map key = out₂.map key := by
  have hle : TotalPre (fun a b : α => lek (key a) (key b)) :=
    ⟨fun a b => hk.total _ _, fun a b c => hk.trans _ _ _⟩
  have p : (out₁.map key).Perm (out₂.map key) :=
    ((C14_kmerge_perm _ ins₁ out₁ h₁).trans (hrows.trans (C14_kmerge_perm _ ins₂ out₂ h₂).symm)).map key
  have s₁ := C14_kmerge_sorted _ hle ins₁ out₁ hs₁ h₁
  have s₂ := C14_kmerge_sorted _ hle ins₂ out₂ hs₂ h₂
  refine List.Perm.eq_of_pairwise (le := fun a b => lek b a = true) ?_ ?_ ?_ p
  · intro a b _ _ h1 h2; exact hanti a b h2 h1
  · exact List.pairwise_map.mpr s₁
  · exact List.pairwise_map.mpr s₂

/-! ## `mokapot.streaming.MergedTabularDataReader` / `merge_readers` -/

/-- boundary: raises before the first row exactly when there is no reader or an empty one -/
theorem C14_checked_raises_iff (le : α → α → Bool) (desc : Bool) (inputs : List (List α)) :
    kmergeChecked le desc inputs = none ↔ inputs = [] ∨ [] ∈ inputs :=
  kmergeChecked_none_iff le desc inputs

/-- ascending mode is descending mode on the reversed order -/
theorem C14_checked_asc_eq_desc_dual (le : α → α → Bool) (inputs : List (List α)) :
    kmergeChecked le false inputs = kmergeChecked (fun a b => le b a) true inputs :=
  kmergeChecked_dual le inputs

/-- the streaming merger rejects unsorted input: it ends in `ValueError` if and only if some
input is not sorted as declared (both directions, both modes) -/
theorem C14_checked_error_iff_unsorted (le : α → α → Bool) (hle : TotalPre le) (desc : Bool)
    (inputs : List (List α)) (out : List α) (err : Bool)
    (h : kmergeChecked le desc inputs = some (out, err)) :
    err = true ↔ ¬ ∀ xs ∈ inputs, SortedAs le desc xs := by
  rw [← (checked_facts le hle desc inputs out err h).1]; simp

/-- whatever it yields — up to the end or up to the `ValueError` — is sorted as declared:
it never silently produces an unsorted result -/
theorem C14_checked_output_sorted (le : α → α → Bool) (hle : TotalPre le) (desc : Bool)
    (inputs : List (List α)) (out : List α) (err : Bool)
    (h : kmergeChecked le desc inputs = some (out, err)) : SortedAs le desc out :=
  (checked_facts le hle desc inputs out err h).2.1

/-- without error every input row is yielded exactly once -/
theorem C14_checked_perm (le : α → α → Bool) (hle : TotalPre le) (desc : Bool)
    (inputs : List (List α)) (out : List α)
    (h : kmergeChecked le desc inputs = some (out, false)) : out.Perm inputs.flatten :=
  (checked_facts le hle desc inputs out false h).2.2.2 rfl

/-- sorted inputs are accepted and merged completely -/
theorem C14_checked_sorted_inputs_ok (le : α → α → Bool) (hle : TotalPre le) (desc : Bool)
    (inputs : List (List α)) (hne : inputs ≠ []) (hrow : [] ∉ inputs)
    (hs : ∀ xs ∈ inputs, SortedAs le desc xs) :
    ∃ out, kmergeChecked le desc inputs = some (out, false) ∧ out.Perm inputs.flatten ∧
      SortedAs le desc out := by
  cases hr : kmergeChecked le desc inputs with
  | none =>
    rcases (kmergeChecked_none_iff le desc inputs).mp hr with h | h
    · exact absurd h hne
    · exact absurd h hrow
  | some r =>
    obtain ⟨out, err⟩ := r
    have f := checked_facts le hle desc inputs out err hr
    have he : err = false := f.1.mpr hs
    subst he
    exact ⟨out, rfl, f.2.2.2 rfl, f.2.1⟩

/-- with an error, the rows yielded so far are distinct input rows (none invented,
none duplicated) -/
theorem C14_checked_partial_rows (le : α → α → Bool) (hle : TotalPre le) (desc : Bool)
    (inputs : List (List α)) (out : List α) (err : Bool)
    (h : kmergeChecked le desc inputs = some (out, err)) : out.Subperm inputs.flatten :=
  (checked_facts le hle desc inputs out err h).2.2.1

/-- "the rows emitted so far are a sorted prefix": whatever the merger has yielded when it
raises (or finishes) is a prefix of the complete merge of the inputs cut at their first order
violation (`sortedPrefix`); `kmerge` on the reversed order is the ascending merge -/
theorem C14_checked_yields_prefix (le : α → α → Bool) (desc : Bool) (inputs : List (List α))
    (out : List α) (err : Bool) (h : kmergeChecked le desc inputs = some (out, err)) :
    ∃ full, kmerge (if desc then le else fun a b => le b a) (inputs.map (sortedPrefix le desc))
        = some full ∧ out <+: full := by
  cases desc
  · rw [kmergeChecked_dual] at h
    have := kmergeChecked_prefix_desc (fun a b => le b a) inputs out err h
    have hf : sortedPrefix le false = sortedPrefix (fun a b => le b a) true :=
      funext (sortedPrefix_asc le)
    simpa [hf] using this
  · simpa using kmergeChecked_prefix_desc le inputs out err h

/-- on non-increasing inputs the two implementations agree row by row (tie order included) -/
theorem C14_checked_eq_kmerge (le : α → α → Bool) (hle : TotalPre le) (inputs : List (List α))
    (hs : ∀ xs ∈ inputs, NonIncr le xs) :
    kmergeChecked le true inputs = (kmerge le inputs).map (fun out => (out, false)) := by
  have hall := (openAll_sorted_iff (NonIncr le) (by simp [NonIncr]) inputs).mpr hs
  unfold kmergeChecked kmerge
  split
  · rfl
  · rw [checkedLoop_eq_mergeLoop le hle _ _ hall]; rfl

/-- independence of `reader_chunk_size` -/
theorem C14_checked_chunk_invariant (le : α → α → Bool) (desc : Bool) (c : Nat) (hc : 0 < c)
    (files : List (List α)) : kmergeCheckedFiles le desc c files = kmergeChecked le desc files := by
  unfold kmergeCheckedFiles
  congr 1
  conv => rhs; rw [← List.map_id files]
  exact List.map_congr_left (fun xs _ => kmRowIter_eq c hc xs)

/-- the model's result passes the executable spec the harness applies to the real output -/
theorem C14_checked_meets_spec [BEq α] [LawfulBEq α] (le : α → α → Bool) (hle : TotalPre le)
    (desc : Bool) (inputs : List (List α)) (out : List α) (err : Bool)
    (h : kmergeChecked le desc inputs = some (out, err)) :
    specChecked le desc inputs out err = "ok" := by
  have f := checked_facts le hle desc inputs out err h
  exact (specChecked_ok_iff hle desc inputs out err).mpr ⟨f.1, f.2.1, f.2.2.2, fun _ => f.2.2.1⟩

/-- `get_chunked_data_iterator(chunk_size = c)` / `merge_readers`: the frames, concatenated,
are the yielded rows; no frame is empty or longer than `c` -/
theorem C14_rechunk (c : Nat) (hc : 0 < c) (out : List α) :
    (kmRechunk c out).flatten = out ∧ ∀ ch ∈ kmRechunk c out, ch ≠ [] ∧ ch.length ≤ c :=
  ⟨kmChunks_flatten c hc out, kmChunksFuel_bounds c hc _ out⟩

/-! ## the executable spec checkers mean what they should -/

theorem C14_spec_merge_iff [BEq α] [LawfulBEq α] (le : α → α → Bool) (hle : TotalPre le)
    (inputs : List (List α)) (out : List α) :
    specMerge le inputs out = "ok" ↔
      out.Perm inputs.flatten ∧ ((∀ xs ∈ inputs, NonIncr le xs) → NonIncr le out) :=
  specMerge_ok_iff hle inputs out

theorem C14_spec_checked_iff [BEq α] [LawfulBEq α] (le : α → α → Bool) (hle : TotalPre le)
    (desc : Bool) (inputs : List (List α)) (out : List α) (err : Bool) :
    specChecked le desc inputs out err = "ok" ↔
      ((err = false ↔ ∀ xs ∈ inputs, SortedAs le desc xs) ∧ SortedAs le desc out ∧
        (err = false → out.Perm inputs.flatten) ∧ (err = true → out.Subperm inputs.flatten)) :=
  specChecked_ok_iff hle desc inputs out err

/-! ## Non-vacuity and evaluation tests -/

/-- rows `(score, id)` ordered by score only: a total preorder with genuine ties -/
def c14LeScore (a b : Int × Nat) : Bool := decide (a.1 ≤ b.1)

theorem c14LeScore_totalPre : TotalPre c14LeScore := by
  constructor
  · intro a b; simp [c14LeScore]; omega
  · intro a b c; simp [c14LeScore]; omega

/-- the hypotheses of the theorems are met by a concrete tie-rich instance -/
example : TotalPre c14LeScore ∧ (∀ xs ∈ [[((5 : Int), 0), (3, 1), (3, 2)], [(4, 3)], [(5, 4), (5, 5), (1, 6)]],
    NonIncr c14LeScore xs) := by
  refine ⟨c14LeScore_totalPre, ?_⟩
  intro xs hxs
  simp only [List.mem_cons, List.not_mem_nil, or_false] at hxs
  rcases hxs with rfl | rfl | rfl <;> simp [NonIncr, c14LeScore]

example : (fun a b : Int => decide (a ≤ b)) 1 2 = true ∧
    (∀ a b : Int, decide (a ≤ b) = true → decide (b ≤ a) = true → a = b) :=
  ⟨by decide, fun a b h1 h2 => by simp at h1 h2; omega⟩

-- evaluation tests (compiler-evaluated: *tests*, not theorems); expected values are the
-- outputs of the real functions on the same inputs
#guard kmerge c14LeScore [[(5, 0), (3, 1), (3, 2)], [(4, 3)], [(5, 4), (5, 5), (1, 6)]]
    == some [(5, 0), (5, 4), (5, 5), (4, 3), (3, 1), (3, 2), (1, 6)]
#guard kmergeFiles c14LeScore 2 [[(5, 0), (3, 1), (3, 2)], [(4, 3)], [(5, 4), (5, 5), (1, 6)]]
    == some [(5, 0), (5, 4), (5, 5), (4, 3), (3, 1), (3, 2), (1, 6)]
#guard kmerge c14LeScore [[(5, 0), (1, 1)], [(5, 2), (9, 3)]] == some [(5, 0), (5, 2), (9, 3), (1, 1)]
#guard kmerge c14LeScore [[(1, 0)], []] == none
#guard kmergeChecked c14LeScore true [[(5, 0), (3, 1), (7, 2)], [(4, 3)]]
    == some ([(5, 0), (4, 3), (3, 1)], true)
#guard kmergeChecked c14LeScore false [[(1, 0), (3, 1), (7, 2)], [(4, 3)]]
    == some ([(1, 0), (3, 1), (4, 3), (7, 2)], false)
#guard kmergeCheckedFiles c14LeScore false 2 [[(1, 0), (3, 1), (2, 2)], [(1, 3)]]
    == some ([(1, 0), (1, 3), (3, 1)], true)
#guard sortedPrefix c14LeScore true [(5, 0), (3, 1), (7, 2), (1, 3)] == [(5, 0), (3, 1)]
#guard sortedPrefix c14LeScore false [(1, 0), (1, 1), (0, 2)] == [(1, 0), (1, 1)]
#guard kmRechunk 3 [1, 2, 3, 4, 5, 6, 7] == [[1, 2, 3], [4, 5, 6], [7]]
#guard specChecked c14LeScore true [[(5, 0), (3, 1), (7, 2)], [(4, 3)]] [(5, 0), (4, 3), (3, 1)] true == "ok"
#guard specChecked c14LeScore true [[(5, 0), (3, 1), (7, 2)], [(4, 3)]] [(5, 0), (4, 3), (3, 1), (7, 2)] false
    == "fail-error-iff-unsorted"
#guard specMerge c14LeScore [[(5, 0), (3, 1)], [(4, 3)]] [(5, 0), (3, 1), (4, 3)] == "fail-sorted"
#guard specMerge c14LeScore [[(5, 0), (3, 1)], [(4, 3)]] [(5, 0), (4, 3)] == "fail-perm"

end Mk.Merge
