import MokapotVerif.Lemmas.MergePrefix
import MokapotVerif.Lemmas.MergeStable
import MokapotVerif.Lemmas.MergeMap
import MokapotVerif.Lemmas.MergeFrames
/-!
# C14 — k-way merge returns every row once, globally sorted by score

Property theorems only.  Rows are elements of an arbitrary type `α`; `le a b` reads
"the score of `a` is at most the score of `b`" and is only assumed to be a total
preorder (`TotalPre`), so distinct rows may tie in any pattern.  `inputs` is the list of
the row sequences of the input files / readers: any number of them, of any lengths.

* `kmerge` is `mokapot.utils.merge_sort` (row-dict merge, descending only),
  `kmergeFiles … c` the same with `MERGE_SORT_CHUNK_SIZE = c` made explicit;
* `kmergeChecked le desc` is `MergedTabularDataReader(…, descending=desc).get_row_iterator()`
  (result: rows yielded, and whether `ValueError` was then raised),
  `kmergeCheckedFiles … c` the same with `reader_chunk_size = c`;
* `none` = the code raises before yielding anything (no input at all, or an input without rows).
* `stableSortDesc le xs` / `stableSortAs le desc xs`: the declarative tie rule — the stable sort of the
  inputs written one after the other (rows of equal score in (input index, position) order);
* `kmergeCheckedCols leβ hasKey proj desc c` is `get_row_iterator(columns=…)` (rows projected by `proj`
  before they are merged; `hasKey = false`: the priority column was not selected);
* `kmDeliverFrames c r` / `kmDeliverRead r`: what `get_chunked_data_iterator(c)` (`merge_readers`: `c = 1`)
  and `read()` hand to their consumer when the row iterator ended as `r = (rows, raised?)`.

`NonIncr le xs`: `xs` is non-increasing; `SortedAs le desc xs`: sorted as declared
(non-increasing if `desc`, non-decreasing otherwise).
-/
namespace Mk.Merge
variable {α β κ : Type}

/-! ## `mokapot.utils.merge_sort` -/

/-- boundary: the merge raises exactly when there is no input or some input has no row -/
theorem C14_kmerge_raises_iff (le : α → α → Bool) (inputs : List (List α)) :
    kmerge le inputs = none ↔ inputs = [] ∨ [] ∈ inputs :=
  kmerge_none_iff le inputs

/-- every input row exactly once, unmodified: the output is a permutation of the
concatenated inputs — for *any* inputs (sorted or not) and any comparison whatsoever -/
theorem C14_kmerge_perm (le : α → α → Bool) (inputs : List (List α)) (out : List α)
    (h : kmerge le inputs = some out) : out.Perm inputs.flatten := by
  rw [kmerge_some h, ← openAll_rows]
  exact mergeLoop_perm le _ _ (Nat.le_refl _)

/-- non-increasing inputs give a globally non-increasing output -/
theorem C14_kmerge_sorted (le : α → α → Bool) (hle : TotalPre le) (inputs : List (List α))
    (out : List α) (hs : ∀ xs ∈ inputs, NonIncr le xs) (h : kmerge le inputs = some out) :
    NonIncr le out := by
  have hall := (openAll_sorted_iff (NonIncr le) (by simp [NonIncr]) inputs).mpr hs
  have := checkedLoop_sorted le hle (srcTotal (inputs.flatMap openSrc)) (inputs.flatMap openSrc)
  rw [checkedLoop_eq_mergeLoop le hle _ _ hall] at this
  rw [kmerge_some h]; exact this

/-- the model's output passes the executable spec the harness applies to the real output -/
theorem C14_kmerge_meets_spec [BEq α] [LawfulBEq α] (le : α → α → Bool) (hle : TotalPre le)
    (inputs : List (List α)) (out : List α) (h : kmerge le inputs = some out) :
    specMerge le inputs out = "ok" :=
  (specMerge_ok_iff hle inputs out).mpr
    ⟨C14_kmerge_perm le inputs out h, fun hs => C14_kmerge_sorted le hle inputs out hs h⟩

/-- independence of the reader chunk size: reading every file in chunks of `c ≥ 1` rows
changes nothing -/
theorem C14_kmerge_chunk_invariant (le : α → α → Bool) (c : Nat) (hc : 0 < c)
    (files : List (List α)) : kmergeFiles le c files = kmerge le files := by
  unfold kmergeFiles
  congr 1
  conv => rhs; rw [← List.map_id files]
  exact List.map_congr_left (fun xs _ => kmRowIter_eq c hc xs)

/-- one input (sorted or not, a single row included) is returned as it is -/
theorem C14_kmerge_single (le : α → α → Bool) (xs : List α) (h : xs ≠ []) :
    kmerge le [xs] = some xs := by
  cases xs with
  | nil => exact absurd rfl h
  | cons x r =>
    simp only [kmerge, List.isEmpty_cons, List.any_cons, List.any_nil, Bool.or_false,
      Bool.false_eq_true, if_false, List.flatMap_cons, List.flatMap_nil, openSrc, List.append_nil]
    rw [mergeLoop_single le r x _ (by simp [srcTotal, srcRows])]

/-- independence of the number of inputs: however the same rows are distributed over
sorted inputs (1 file, 8 files, …), the merged *score sequence* is the same.
`key` is the score, `lek` its (antisymmetric) order. -/
theorem C14_kmerge_any_k (key : α → κ) (lek : κ → κ → Bool) (hk : TotalPre lek)
    (hanti : ∀ a b, lek a b = true → lek b a = true → a = b)
    (ins₁ ins₂ : List (List α)) (out₁ out₂ : List α)
    (hs₁ : ∀ xs ∈ ins₁, NonIncr (fun a b => lek (key a) (key b)) xs)
    (hs₂ : ∀ xs ∈ ins₂, NonIncr (fun a b => lek (key a) (key b)) xs)
    (hrows : ins₁.flatten.Perm ins₂.flatten)
    (h₁ : kmerge (fun a b => lek (key a) (key b)) ins₁ = some out₁)
    (h₂ : kmerge (fun a b => lek (key a) (key b)) ins₂ = some out₂) :
    out₁.map key = out₂.map key := by
  have hle : TotalPre (fun a b : α => lek (key a) (key b)) :=
    ⟨fun a b => hk.total _ _, fun a b c => hk.trans _ _ _⟩
  have p : (out₁.map key).Perm (out₂.map key) :=
    ((C14_kmerge_perm _ ins₁ out₁ h₁).trans (hrows.trans (C14_kmerge_perm _ ins₂ out₂ h₂).symm)).map key
  have s₁ := C14_kmerge_sorted _ hle ins₁ out₁ hs₁ h₁
  have s₂ := C14_kmerge_sorted _ hle ins₂ out₂ hs₂ h₂
  refine List.Perm.eq_of_pairwise (le := fun a b => lek b a = true) ?_ ?_ ?_ p
  · intro a b _ _ h1 h2; exact hanti a b h2 h1
  · exact List.pairwise_map.mpr s₁
  · exact List.pairwise_map.mpr s₂

/-! ## `mokapot.streaming.MergedTabularDataReader` / `merge_readers` -/

/-- boundary: raises before the first row exactly when there is no reader or an empty one -/
theorem C14_checked_raises_iff (le : α → α → Bool) (desc : Bool) (inputs : List (List α)) :
    kmergeChecked le desc inputs = none ↔ inputs = [] ∨ [] ∈ inputs :=
  kmergeChecked_none_iff le desc inputs

/-- ascending mode is descending mode on the reversed order -/
theorem C14_checked_asc_eq_desc_dual (le : α → α → Bool) (inputs : List (List α)) :
    kmergeChecked le false inputs = kmergeChecked (fun a b => le b a) true inputs :=
  kmergeChecked_dual le inputs

/-- the streaming merger rejects unsorted input: it ends in `ValueError` if and only if some
input is not sorted as declared (both directions, both modes) -/
theorem C14_checked_error_iff_unsorted (le : α → α → Bool) (hle : TotalPre le) (desc : Bool)
    (inputs : List (List α)) (out : List α) (err : Bool)
    (h : kmergeChecked le desc inputs = some (out, err)) :
    err = true ↔ ¬ ∀ xs ∈ inputs, SortedAs le desc xs := by
  rw [← (checked_facts le hle desc inputs out err h).1]; simp

/-- whatever it yields — up to the end or up to the `ValueError` — is sorted as declared:
it never silently produces an unsorted result -/
theorem C14_checked_output_sorted (le : α → α → Bool) (hle : TotalPre le) (desc : Bool)
    (inputs : List (List α)) (out : List α) (err : Bool)
    (h : kmergeChecked le desc inputs = some (out, err)) : SortedAs le desc out :=
  (checked_facts le hle desc inputs out err h).2.1

/-- without error every input row is yielded exactly once -/
theorem C14_checked_perm (le : α → α → Bool) (hle : TotalPre le) (desc : Bool)
    (inputs : List (List α)) (out : List α)
    (h : kmergeChecked le desc inputs = some (out, false)) : out.Perm inputs.flatten :=
  (checked_facts le hle desc inputs out false h).2.2.2 rfl

/-- sorted inputs are accepted and merged completely -/
theorem C14_checked_sorted_inputs_ok (le : α → α → Bool) (hle : TotalPre le) (desc : Bool)
    (inputs : List (List α)) (hne : inputs ≠ []) (hrow : [] ∉ inputs)
    (hs : ∀ xs ∈ inputs, SortedAs le desc xs) :
    ∃ out, kmergeChecked le desc inputs = some (out, false) ∧ out.Perm inputs.flatten ∧
      SortedAs le desc out := by
  cases hr : kmergeChecked le desc inputs with
  | none =>
    rcases (kmergeChecked_none_iff le desc inputs).mp hr with h | h
    · exact absurd h hne
    · exact absurd h hrow
  | some r =>
    obtain ⟨out, err⟩ := r
    have f := checked_facts le hle desc inputs out err hr
    have he : err = false := f.1.mpr hs
    subst he
    exact ⟨out, rfl, f.2.2.2 rfl, f.2.1⟩

/-- with an error, the rows yielded so far are distinct input rows (none invented,
none duplicated) -/
theorem C14_checked_partial_rows (le : α → α → Bool) (hle : TotalPre le) (desc : Bool)
    (inputs : List (List α)) (out : List α) (err : Bool)
    (h : kmergeChecked le desc inputs = some (out, err)) : out.Subperm inputs.flatten :=
  (checked_facts le hle desc inputs out err h).2.2.1

/-- "the rows emitted so far are a sorted prefix": whatever the merger has yielded when it
raises (or finishes) is a prefix of the complete merge of the inputs cut at their first order
violation (`sortedPrefix`); `kmerge` on the reversed order is the ascending merge -/
theorem C14_checked_yields_prefix (le : α → α → Bool) (desc : Bool) (inputs : List (List α))
    (out : List α) (err : Bool) (h : kmergeChecked le desc inputs = some (out, err)) :
    ∃ full, kmerge (if desc then le else fun a b => le b a) (inputs.map (sortedPrefix le desc))
        = some full ∧ out <+: full := by
  cases desc
  · rw [kmergeChecked_dual] at h
    have := kmergeChecked_prefix_desc (fun a b => le b a) inputs out err h
    have hf : sortedPrefix le false = sortedPrefix (fun a b => le b a) true :=
      funext (sortedPrefix_asc le)
    simpa [hf] using this
  · simpa using kmergeChecked_prefix_desc le inputs out err h

/-- on non-increasing inputs the two implementations agree row by row (tie order included) -/
theorem C14_checked_eq_kmerge (le : α → α → Bool) (hle : TotalPre le) (inputs : List (List α))
    (hs : ∀ xs ∈ inputs, NonIncr le xs) :
    kmergeChecked le true inputs = (kmerge le inputs).map (fun out => (out, false)) := by
  have hall := (openAll_sorted_iff (NonIncr le) (by simp [NonIncr]) inputs).mpr hs
  unfold kmergeChecked kmerge
  split
  · rfl
  · rw [checkedLoop_eq_mergeLoop le hle _ _ hall]; rfl

/-- independence of `reader_chunk_size` -/
theorem C14_checked_chunk_invariant (le : α → α → Bool) (desc : Bool) (c : Nat) (hc : 0 < c)
    (files : List (List α)) : kmergeCheckedFiles le desc c files = kmergeChecked le desc files := by
  unfold kmergeCheckedFiles
  congr 1
  conv => rhs; rw [← List.map_id files]
  exact List.map_congr_left (fun xs _ => kmRowIter_eq c hc xs)

/-- the model's result passes the executable spec the harness applies to the real output -/
theorem C14_checked_meets_spec [BEq α] [LawfulBEq α] (le : α → α → Bool) (hle : TotalPre le)
    (desc : Bool) (inputs : List (List α)) (out : List α) (err : Bool)
    (h : kmergeChecked le desc inputs = some (out, err)) :
    specChecked le desc inputs out err = "ok" := by
  have f := checked_facts le hle desc inputs out err h
  exact (specChecked_ok_iff hle desc inputs out err).mpr ⟨f.1, f.2.1, f.2.2.2, fun _ => f.2.2.1⟩

/-- `get_chunked_data_iterator(chunk_size = c)` / `merge_readers`: the frames, concatenated,
are the yielded rows; no frame is empty or longer than `c` -/
theorem C14_rechunk (c : Nat) (hc : 0 < c) (out : List α) :
    (kmRechunk c out).flatten = out ∧ ∀ ch ∈ kmRechunk c out, ch ≠ [] ∧ ch.length ≤ c :=
  ⟨kmChunks_flatten c hc out, kmChunksFuel_bounds c hc _ out⟩

/-! ## the executable spec checkers mean what they should -/

theorem C14_spec_merge_iff [BEq α] [LawfulBEq α] (le : α → α → Bool) (hle : TotalPre le)
    (inputs : List (List α)) (out : List α) :
    specMerge le inputs out = "ok" ↔
      out.Perm inputs.flatten ∧ ((∀ xs ∈ inputs, NonIncr le xs) → NonIncr le out) :=
  specMerge_ok_iff hle inputs out

theorem C14_spec_checked_iff [BEq α] [LawfulBEq α] (le : α → α → Bool) (hle : TotalPre le)
    (desc : Bool) (inputs : List (List α)) (out : List α) (err : Bool) :
    specChecked le desc inputs out err = "ok" ↔
      ((err = false ↔ ∀ xs ∈ inputs, SortedAs le desc xs) ∧ SortedAs le desc out ∧
        (err = false → out.Perm inputs.flatten) ∧ (err = true → out.Subperm inputs.flatten)) :=
  specChecked_ok_iff hle desc inputs out err

/-! ## The tie rule: the result is the *stable* sort of the concatenated inputs

`stableSortDesc le xs` is the stable sort of `xs` by decreasing score (`stableSortAs le desc`
in the declared direction).  Its declarative meaning — a permutation, non-increasing, and
every score class in its original order — is `C14_stable_sort_spec`, and these three clauses
determine it (`C14_stable_sort_unique`). -/

/-- the rows that tie with `t` -/
def tieWith (le : α → α → Bool) (t : α) : α → Bool := fun r => le t r && le r t

/-- the stable sort is a permutation, non-increasing, and keeps every score class in the
order in which its rows were written -/
theorem C14_stable_sort_spec (le : α → α → Bool) (hle : TotalPre le) (xs : List α) :
    (stableSortDesc le xs).Perm xs ∧ NonIncr le (stableSortDesc le xs) ∧
      ∀ t, (stableSortDesc le xs).filter (tieWith le t) = xs.filter (tieWith le t) :=
  ⟨stableSortDesc_perm le xs, stableSortDesc_sorted le hle xs,
    fun t => stableSortDesc_filter le hle t xs⟩

/-- … and nothing else has these three properties: two non-increasing arrangements of the
same rows that agree on every score class are equal -/
theorem C14_stable_sort_unique (le : α → α → Bool) (hle : TotalPre le) (xs ys : List α)
    (hp : ys.Perm xs) (hsort : NonIncr le ys)
    (hst : ∀ t, ys.filter (tieWith le t) = xs.filter (tieWith le t)) :
    ys = stableSortDesc le xs := by
  have key : ∀ (ys zs : List α), ys.Perm zs → NonIncr le ys → NonIncr le zs →
      (∀ t, ys.filter (tieWith le t) = zs.filter (tieWith le t)) → ys = zs := by
    intro ys
    induction ys with
    | nil => intro zs hp _ _ _; exact (List.nil_perm.mp hp).symm
    | cons y ys ih =>
      intro zs hp hy hz hf
      cases zs with
      | nil => exact absurd (List.perm_nil.mp hp) (by simp)
      | cons z zs =>
        have hzy : le z y = true := by
          have : z ∈ y :: ys := hp.symm.subset (by simp)
          rcases List.mem_cons.mp this with rfl | h
          · exact hle.refl _
          · exact (List.pairwise_cons.mp hy).1 z h
        have hyz : le y z = true := by
          have : y ∈ z :: zs := hp.subset (by simp)
          rcases List.mem_cons.mp this with rfl | h
          · exact hle.refl _
          · exact (List.pairwise_cons.mp hz).1 y h
        have h0 := hf y
        have e1 : tieWith le y y = true := by simp [tieWith, hle.refl]
        have e2 : tieWith le y z = true := by simp [tieWith, hyz, hzy]
        rw [List.filter_cons, List.filter_cons, e1, e2] at h0
        simp only [if_true] at h0
        have hyz' : y = z := (List.cons.inj h0).1
        subst hyz'
        congr 1
        refine ih zs ((List.perm_cons y).mp hp) (List.pairwise_cons.mp hy).2
          (List.pairwise_cons.mp hz).2 ?_
        intro t
        have := hf t
        rw [List.filter_cons, List.filter_cons] at this
        split at this
        · exact (List.cons.inj this).2
        · exact this
  have hs := C14_stable_sort_spec le hle xs
  exact key ys _ (hp.trans hs.1.symm) hsort hs.2.1 (fun t => (hst t).trans (hs.2.2 t).symm)

/-- `merge_sort` on non-increasing inputs returns exactly the stable sort by decreasing score
of the inputs written one after the other: rows of equal score come out ordered by (input
index, position in the input) — "first input wins".  The result is determined row by row. -/
theorem C14_kmerge_eq_stable_sort (le : α → α → Bool) (hle : TotalPre le)
    (inputs : List (List α)) (out : List α) (hs : ∀ xs ∈ inputs, NonIncr le xs)
    (h : kmerge le inputs = some out) : out = stableSortDesc le inputs.flatten := by
  have hall := (openAll_sorted_iff (NonIncr le) (by simp [NonIncr]) inputs).mpr hs
  rw [kmerge_some h, ← openAll_rows]
  exact mergeLoop_stable le hle _ _ (Nat.le_refl _) hall

/-- the table merger on inputs sorted as declared (either mode): no error, and the rows
yielded are exactly the stable sort, in the declared direction, of the concatenated inputs -/
theorem C14_checked_eq_stable_sort (le : α → α → Bool) (hle : TotalPre le) (desc : Bool)
    (inputs : List (List α)) (hne : inputs ≠ []) (hrow : [] ∉ inputs)
    (hs : ∀ xs ∈ inputs, SortedAs le desc xs) :
    kmergeChecked le desc inputs = some (stableSortAs le desc inputs.flatten, false) := by
  have hdesc : ∀ (le : α → α → Bool), TotalPre le → (∀ xs ∈ inputs, NonIncr le xs) →
      kmergeChecked le true inputs = some (stableSortDesc le inputs.flatten, false) := by
    intro le hle hs
    rw [C14_checked_eq_kmerge le hle inputs hs]
    cases hk : kmerge le inputs with
    | none =>
      rcases (kmerge_none_iff le inputs).mp hk with h | h
      · exact absurd h hne
      · exact absurd h hrow
    | some out => rw [C14_kmerge_eq_stable_sort le hle inputs out hs hk]; rfl
  cases desc
  · rw [kmergeChecked_dual]
    have := hdesc (fun a b => le b a) (totalPre_dual hle) (by simpa [SortedAs] using hs)
    simpa [stableSortAs] using this
  · have := hdesc le hle (by simpa [SortedAs] using hs)
    simpa [stableSortAs] using this

/-- independence of the number of inputs and of their lengths, row by row (tie order
included): however one and the same row sequence is cut into non-increasing inputs —
one file, eight files, single-row files — `merge_sort` returns the same rows in the same order -/
theorem C14_kmerge_split_invariant (le : α → α → Bool) (hle : TotalPre le)
    (ins₁ ins₂ : List (List α)) (out₁ out₂ : List α)
    (hs₁ : ∀ xs ∈ ins₁, NonIncr le xs) (hs₂ : ∀ xs ∈ ins₂, NonIncr le xs)
    (hflat : ins₁.flatten = ins₂.flatten)
    (h₁ : kmerge le ins₁ = some out₁) (h₂ : kmerge le ins₂ = some out₂) : out₁ = out₂ := by
  rw [C14_kmerge_eq_stable_sort le hle ins₁ out₁ hs₁ h₁,
    C14_kmerge_eq_stable_sort le hle ins₂ out₂ hs₂ h₂, hflat]

/-- independence of the number of inputs for the table merger, both modes: however the same
rows are distributed over inputs sorted as declared, no error is raised and the merged score
sequence is the same (`key` is the score, `lek` its antisymmetric order) -/
theorem C14_checked_any_k (key : α → κ) (lek : κ → κ → Bool) (hk : TotalPre lek)
    (hanti : ∀ a b, lek a b = true → lek b a = true → a = b) (desc : Bool)
    (ins₁ ins₂ : List (List α)) (out₁ out₂ : List α) (e₁ e₂ : Bool)
    (hs₁ : ∀ xs ∈ ins₁, SortedAs (fun a b => lek (key a) (key b)) desc xs)
    (hs₂ : ∀ xs ∈ ins₂, SortedAs (fun a b => lek (key a) (key b)) desc xs)
    (hrows : ins₁.flatten.Perm ins₂.flatten)
    (h₁ : kmergeChecked (fun a b => lek (key a) (key b)) desc ins₁ = some (out₁, e₁))
    (h₂ : kmergeChecked (fun a b => lek (key a) (key b)) desc ins₂ = some (out₂, e₂)) :
    e₁ = false ∧ e₂ = false ∧ out₁.map key = out₂.map key := by
  have hle : TotalPre (fun a b : α => lek (key a) (key b)) :=
    ⟨fun a b => hk.total _ _, fun a b c => hk.trans _ _ _⟩
  have f₁ := checked_facts _ hle desc ins₁ out₁ e₁ h₁
  have f₂ := checked_facts _ hle desc ins₂ out₂ e₂ h₂
  have he₁ : e₁ = false := f₁.1.mpr hs₁
  have he₂ : e₂ = false := f₂.1.mpr hs₂
  refine ⟨he₁, he₂, ?_⟩
  have p : (out₁.map key).Perm (out₂.map key) :=
    ((f₁.2.2.2 he₁).trans (hrows.trans (f₂.2.2.2 he₂).symm)).map key
  have s₁ := f₁.2.1
  have s₂ := f₂.2.1
  cases desc
  · simp only [SortedAs, Bool.false_eq_true, if_false, NonIncr] at s₁ s₂
    refine List.Perm.eq_of_pairwise (le := fun a b => lek a b = true) ?_ ?_ ?_ p
    · intro a b _ _ h1 h2; exact hanti a b h1 h2
    · exact List.pairwise_map.mpr s₁
    · exact List.pairwise_map.mpr s₂
  · simp only [SortedAs, if_true, NonIncr] at s₁ s₂
    refine List.Perm.eq_of_pairwise (le := fun a b => lek b a = true) ?_ ?_ ?_ p
    · intro a b _ _ h1 h2; exact hanti a b h2 h1
    · exact List.pairwise_map.mpr s₁
    · exact List.pairwise_map.mpr s₂

/-! ## Rows are carried, not computed: naturality, and the `columns=` option -/

/-- `merge_sort` commutes with every row map `f` that keeps the score comparison: merging the
images is the image of the merge, position by position — whatever else the rows hold is
yielded unmodified, and nothing but the score influences the order -/
theorem C14_kmerge_natural (f : α → β) (le : α → α → Bool) (le' : β → β → Bool)
    (h : ∀ a b, le' (f a) (f b) = le a b) (inputs : List (List α)) :
    kmerge le' (inputs.map (List.map f)) = (kmerge le inputs).map (List.map f) :=
  kmerge_map f le le' h inputs

/-- the same for the table merger (both modes; the `ValueError` is raised at the same place) -/
theorem C14_checked_natural (f : α → β) (le : α → α → Bool) (le' : β → β → Bool)
    (h : ∀ a b, le' (f a) (f b) = le a b) (desc : Bool) (inputs : List (List α)) :
    kmergeChecked le' desc (inputs.map (List.map f))
      = (kmergeChecked le desc inputs).map (fun r => (r.1.map f, r.2)) :=
  kmergeChecked_map f le le' h desc inputs

/-- `get_row_iterator(columns=…)` with a selection that keeps the priority column (in any
position, with any other columns): the rows yielded are the projections of the rows yielded
without a selection, in the same order, with the same `ValueError` — for every reader chunk size -/
theorem C14_checked_columns (le : α → α → Bool) (leβ : β → β → Bool) (proj : α → β)
    (hkey : ∀ a b, leβ (proj a) (proj b) = le a b) (desc : Bool) (c : Nat) (hc : 0 < c)
    (files : List (List α)) :
    kmergeCheckedCols leβ true proj desc c files
      = (kmergeChecked le desc files).map (fun r => (r.1.map proj, r.2)) := by
  unfold kmergeCheckedCols
  rw [if_pos rfl, C14_checked_chunk_invariant leβ desc c hc]
  exact kmergeChecked_map proj le leβ hkey desc files

/-- a selection without the priority column is refused before anything is yielded -/
theorem C14_checked_columns_without_priority (leβ : β → β → Bool) (proj : α → β) (desc : Bool)
    (c : Nat) (files : List (List α)) : kmergeCheckedCols leβ false proj desc c files = none := by
  simp [kmergeCheckedCols]

/-! ## What `get_chunked_data_iterator` / `merge_readers` / `read` hand to their consumer -/

/-- `get_chunked_data_iterator(chunk_size = c)`, `c ≥ 1`, on the result `r = (rows, raised?)` of
the row iterator: the frames handed on, concatenated, are a prefix of the yielded rows — all of
them when no error is raised; no frame is empty or longer than `c`; when `ValueError` propagates
every frame handed on is full and fewer than `c` yielded rows are lost -/
theorem C14_frames_delivered (c : Nat) (hc : 0 < c) (r : List α × Bool) :
    (kmDeliverFrames c r).2 = r.2 ∧
    (kmDeliverFrames c r).1.flatten <+: r.1 ∧
    (r.2 = false → (kmDeliverFrames c r).1.flatten = r.1) ∧
    (∀ f ∈ (kmDeliverFrames c r).1, f ≠ [] ∧ f.length ≤ c ∧ (r.2 = true → f.length = c)) ∧
    (r.2 = true → r.1.length < (kmDeliverFrames c r).1.flatten.length + c) := by
  have h := kmFramesGo_facts c r.2 r.1 [] (by simpa using hc)
  simp only [List.nil_append] at h
  exact ⟨rfl, h⟩

/-- `merge_readers` (frames of one row): every row the merge yields reaches the consumer, one
frame per row, also when the merge then ends in `ValueError` -/
theorem C14_merge_readers_delivers_all (r : List α × Bool) :
    (kmDeliverFrames 1 r).1.flatten = r.1 ∧ ∀ f ∈ (kmDeliverFrames 1 r).1, f.length = 1 := by
  refine ⟨kmFramesGo_one r.2 r.1, ?_⟩
  intro f hf
  have h := (kmFramesGo_facts 1 r.2 r.1 [] (by simp)).2.2.1 f hf
  have : f.length ≠ 0 := fun h0 => h.1 (List.length_eq_zero_iff.mp h0)
  omega

/-- at every entry point the consumer never receives an unsorted result: what
`get_chunked_data_iterator(c)` / `merge_readers` / `read` hand on — up to the end or up to the
`ValueError` — is sorted as declared and consists of distinct input rows; the error is passed on
exactly when some input is not sorted as declared -/
theorem C14_entry_points_sorted (le : α → α → Bool) (hle : TotalPre le) (desc : Bool) (c : Nat)
    (hc : 0 < c) (inputs : List (List α)) (r : List α × Bool)
    (h : kmergeChecked le desc inputs = some r) :
    SortedAs le desc (kmDeliverFrames c r).1.flatten ∧
    (kmDeliverFrames c r).1.flatten.Subperm inputs.flatten ∧
    SortedAs le desc (kmDeliverRead r).1 ∧ (kmDeliverRead r).1.Subperm inputs.flatten ∧
    ((kmDeliverFrames c r).2 = true ↔ ¬ ∀ xs ∈ inputs, SortedAs le desc xs) ∧
    ((kmDeliverRead r).2 = true ↔ ¬ ∀ xs ∈ inputs, SortedAs le desc xs) := by
  obtain ⟨out, err⟩ := r
  have f := checked_facts le hle desc inputs out err h
  have hp := (C14_frames_delivered c hc (out, err)).2.1
  have herr : err = true ↔ ¬ ∀ xs ∈ inputs, SortedAs le desc xs := by rw [← f.1]; simp
  refine ⟨sortedAs_of_prefix hp f.2.1, hp.sublist.subperm.trans f.2.2.1, ?_, ?_, herr, ?_⟩
  · cases err
    · simpa [kmDeliverRead] using f.2.1
    · cases desc <;> simp [kmDeliverRead, SortedAs, NonIncr]
  · cases err
    · simpa [kmDeliverRead] using f.2.2.1
    · simp [kmDeliverRead]
  · cases err <;> simpa [kmDeliverRead] using herr

/-! ## Non-vacuity and evaluation tests -/

/-- rows `(score, id)` ordered by score only: a total preorder with genuine ties -/
def c14LeScore (a b : Int × Nat) : Bool := decide (a.1 ≤ b.1)

theorem c14LeScore_totalPre : TotalPre c14LeScore := by
  constructor
  · intro a b; simp [c14LeScore]; omega
  · intro a b c; simp [c14LeScore]; omega

/-- the hypotheses of the theorems are met by a concrete tie-rich instance -/
example : TotalPre c14LeScore ∧ (∀ xs ∈ [[((5 : Int), 0), (3, 1), (3, 2)], [(4, 3)], [(5, 4), (5, 5), (1, 6)]],
    NonIncr c14LeScore xs) := by
  refine ⟨c14LeScore_totalPre, ?_⟩
  intro xs hxs
  simp only [List.mem_cons, List.not_mem_nil, or_false] at hxs
  rcases hxs with rfl | rfl | rfl <;> simp [NonIncr, c14LeScore]

example : (fun a b : Int => decide (a ≤ b)) 1 2 = true ∧
    (∀ a b : Int, decide (a ≤ b) = true → decide (b ≤ a) = true → a = b) :=
  ⟨by decide, fun a b h1 h2 => by simp at h1 h2; omega⟩

/-- hypotheses of `C14_kmerge_split_invariant`: one row sequence with ties cut in two different
ways into non-increasing inputs (1 input vs 3 inputs, a single-row input included) -/
example : ([[((5 : Int), 0), (5, 1), (3, 2), (3, 3)]] : List (List (Int × Nat))).flatten
      = [[(5, 0)], [(5, 1), (3, 2)], [(3, 3)]].flatten ∧
    (∀ xs ∈ [[((5 : Int), 0), (5, 1), (3, 2), (3, 3)]], NonIncr c14LeScore xs) ∧
    (∀ xs ∈ [[((5 : Int), 0)], [(5, 1), (3, 2)], [(3, 3)]], NonIncr c14LeScore xs) := by
  refine ⟨rfl, ?_, ?_⟩
  · intro xs hxs
    simp only [List.mem_cons, List.not_mem_nil, or_false] at hxs
    subst hxs; simp [NonIncr, c14LeScore]
  · intro xs hxs
    simp only [List.mem_cons, List.not_mem_nil, or_false] at hxs
    rcases hxs with rfl | rfl | rfl <;> simp [NonIncr, c14LeScore]

/-- hypothesis `hkey` of `C14_checked_columns` / `h` of the naturality theorems: selecting
`["id", "score"]` (swapped) or `["score"]` keeps the score comparison -/
example : (∀ a b : Int × Nat, (fun (x y : Nat × Int) => decide (x.2 ≤ y.2)) (a.2, a.1) (b.2, b.1)
      = c14LeScore a b) ∧
    (∀ a b : Int × Nat, (fun (x y : Int) => decide (x ≤ y)) a.1 b.1 = c14LeScore a b) :=
  ⟨fun _ _ => rfl, fun _ _ => rfl⟩

-- evaluation tests (compiler-evaluated: *tests*, not theorems); expected values are the
-- outputs of the real functions on the same inputs
#guard kmerge c14LeScore [[(5, 0), (3, 1), (3, 2)], [(4, 3)], [(5, 4), (5, 5), (1, 6)]]
    == some [(5, 0), (5, 4), (5, 5), (4, 3), (3, 1), (3, 2), (1, 6)]
#guard kmergeFiles c14LeScore 2 [[(5, 0), (3, 1), (3, 2)], [(4, 3)], [(5, 4), (5, 5), (1, 6)]]
    == some [(5, 0), (5, 4), (5, 5), (4, 3), (3, 1), (3, 2), (1, 6)]
#guard kmerge c14LeScore [[(5, 0), (1, 1)], [(5, 2), (9, 3)]] == some [(5, 0), (5, 2), (9, 3), (1, 1)]
#guard kmerge c14LeScore [[(1, 0)], []] == none
#guard kmergeChecked c14LeScore true [[(5, 0), (3, 1), (7, 2)], [(4, 3)]]
    == some ([(5, 0), (4, 3), (3, 1)], true)
#guard kmergeChecked c14LeScore false [[(1, 0), (3, 1), (7, 2)], [(4, 3)]]
    == some ([(1, 0), (3, 1), (4, 3), (7, 2)], false)
#guard kmergeCheckedFiles c14LeScore false 2 [[(1, 0), (3, 1), (2, 2)], [(1, 3)]]
    == some ([(1, 0), (1, 3), (3, 1)], true)
#guard sortedPrefix c14LeScore true [(5, 0), (3, 1), (7, 2), (1, 3)] == [(5, 0), (3, 1)]
#guard sortedPrefix c14LeScore false [(1, 0), (1, 1), (0, 2)] == [(1, 0), (1, 1)]
#guard kmRechunk 3 [1, 2, 3, 4, 5, 6, 7] == [[1, 2, 3], [4, 5, 6], [7]]
#guard specChecked c14LeScore true [[(5, 0), (3, 1), (7, 2)], [(4, 3)]] [(5, 0), (4, 3), (3, 1)] true == "ok"
#guard specChecked c14LeScore true [[(5, 0), (3, 1), (7, 2)], [(4, 3)]] [(5, 0), (4, 3), (3, 1), (7, 2)] false
    == "fail-error-iff-unsorted"
#guard specMerge c14LeScore [[(5, 0), (3, 1)], [(4, 3)]] [(5, 0), (3, 1), (4, 3)] == "fail-sorted"
#guard specMerge c14LeScore [[(5, 0), (3, 1)], [(4, 3)]] [(5, 0), (4, 3)] == "fail-perm"

-- the tie rule: first input wins, then position (expected values = outputs of the real functions)
#guard stableSortDesc c14LeScore ([[(5, 0), (3, 1), (3, 2)], [(4, 3)], [(5, 4), (5, 5), (1, 6)]] : List (List (Int × Nat))).flatten
    == [(5, 0), (5, 4), (5, 5), (4, 3), (3, 1), (3, 2), (1, 6)]
#guard stableSortAs c14LeScore false [(1, 0), (3, 1), (1, 2), (3, 3)] == [(1, 0), (1, 2), (3, 1), (3, 3)]
#guard kmergeChecked c14LeScore true [[(3, 0)], [(3, 1), (3, 2)], [(3, 3)]]
    == some (stableSortAs c14LeScore true [(3, 0), (3, 1), (3, 2), (3, 3)], false)
-- `columns=["id", "score"]` (swap) and `columns=["score"]`
#guard kmergeCheckedCols (fun (a b : Nat × Int) => decide (a.2 ≤ b.2)) true (fun r : Int × Nat => (r.2, r.1)) true 2
    [[(5, 0), (3, 1)], [(4, 3)]] == some ([(0, 5), (3, 4), (1, 3)], false)
#guard kmergeCheckedCols (fun (a b : Int) => decide (a ≤ b)) true (fun r : Int × Nat => r.1) true 1
    [[(5, 0), (3, 1), (7, 2)], [(4, 3)]] == some ([5, 4, 3], true)
#guard kmergeCheckedCols (fun (_ _ : Nat) => true) false (fun r : Int × Nat => r.2) true 1
    [[(5, 0), (3, 1)], [(4, 3)]] == none

-- frames: complete ones only when the error propagates; one-row frames lose nothing
#guard kmDeliverFrames 2 ([1, 2, 3, 4, 5], false) == ([[1, 2], [3, 4], [5]], false)
#guard kmDeliverFrames 2 ([1, 2, 3, 4, 5], true) == ([[1, 2], [3, 4]], true)
#guard kmDeliverFrames 1 ([1, 2, 3], true) == ([[1], [2], [3]], true)
#guard kmDeliverFrames 3 ([1, 2], true) == ([], true)
#guard kmDeliverRead ([1, 2, 3], true) == (([] : List Nat), true)
#guard ((kmergeChecked c14LeScore true [[(5, 0), (3, 1), (7, 2)], [(4, 3)]]).map (kmDeliverFrames 2))
    == some ([[(5, 0), (4, 3)]], true)

end Mk.Merge
