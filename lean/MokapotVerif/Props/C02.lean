import MokapotVerif.Lemmas.BrewPredict
/-!
# C02 — Cross-validation integrity (property theorems)
-/
namespace Mk.Brew

def SortedByHash (s : List (Nat × Nat)) : Prop := s.Pairwise (fun a b => a.1 ≤ b.1)

/-- exactly the requested number of folds -/
theorem C02_split_count (sorted : List (Nat × Nat)) (folds : Nat) (hf : 1 ≤ folds)
    (fs : List (List Nat)) (h : splitWith sorted folds = some fs) : fs.length = folds := by
  unfold splitWith at h
  simp only [Option.map_eq_some_iff] at h
  obtain ⟨cuts, hcuts, rfl⟩ := h
  have hlen := (mapM_some_forall₂ _ _ _ hcuts).length_eq
  rw [npSplit_length, ← hlen, splitPoints_length]
  omega

/-- the folds partition the rows: concatenated they are the row indices of the sorted array,
so every row is in exactly one fold -/
theorem C02_split_partition (sorted : List (Nat × Nat)) (folds : Nat)
    (fs : List (List Nat)) (h : splitWith sorted folds = some fs) :
    fs.flatten = sorted.map (·.2) := by
  unfold splitWith at h
  simp only [Option.map_eq_some_iff] at h
  obtain ⟨cuts, _, rfl⟩ := h
  exact npSplit_flatten _ _ _

/-- all PSMs with the same spectrum hash fall in the same fold (whatever order `argsort`
gives to equal hashes) -/
theorem C02_split_respects_key (sorted : List (Nat × Nat)) (folds : Nat) (fs : List (List Nat))
    (hs : SortedByHash sorted) (hnd : (sorted.map (·.2)).Nodup)
    (h : splitWith sorted folds = some fs)
    (a b : Nat × Nat) (ha : a ∈ sorted) (hb : b ∈ sorted) (hab : a.1 = b.1) :
    ∀ fold ∈ fs, (a.2 ∈ fold ↔ b.2 ∈ fold) := by
  intro fold hfold
  unfold splitWith at h
  simp only [Option.map_eq_some_iff] at h
  obtain ⟨cuts, hcuts, rfl⟩ := h
  have hsorted : (sorted.map (·.1)).Pairwise (· ≤ ·) := by
    rw [List.pairwise_map]; exact hs
  obtain ⟨_, hcm, hcp⟩ := cuts_props _ (groupStarts_pairwise _) _ cuts
    (splitPoints_pairwise _ _) hcuts
  obtain ⟨l, r, hl, hr, _, heq⟩ := npSplit_slices cuts (sorted.map (·.2)) 0 hcp
    (fun c _ => Nat.zero_le c) fold hfold
  simp only [Nat.sub_zero, List.length_map, Nat.add_zero] at heq hr
  -- positions of `a` and `b`
  obtain ⟨i, hi, hai⟩ := List.getElem_of_mem ha
  obtain ⟨j, hj, hbj⟩ := List.getElem_of_mem hb
  have hpos : ∀ (x : Nat × Nat) (k : Nat) (hk : k < sorted.length), sorted[k] = x →
      (x.2 ∈ fold ↔ l ≤ k ∧ k < r) := by
    intro x k hk hx
    rw [heq, mem_drop_take]
    constructor
    · rintro ⟨k', hlk, hkr, hk'⟩
      have hk'lt : k' < (sorted.map (·.2)).length := by
        by_contra hcon
        rw [List.getElem?_eq_none (by omega)] at hk'
        simp at hk'
      rw [List.getElem?_eq_getElem hk'lt] at hk'
      have hkk : (sorted.map (·.2))[k]'(by simpa using hk) = x.2 := by simp [hx]
      have : k' = k := by
        apply (hnd.getElem_inj_iff).mp
        rw [hkk]
        exact Option.some.inj hk'
      subst this
      exact ⟨hlk, hkr⟩
    · rintro ⟨hlk, hkr⟩
      exact ⟨k, hlk, hkr, by simp [hk, hx]⟩
  have hh : (sorted.map (·.1))[i]'(by simpa using hi) = (sorted.map (·.1))[j]'(by simpa using hj) := by
    simp [hai, hbj, hab]
  -- a boundary never falls strictly between `i` and `j`
  have hgood : ∀ c, (c = 0 ∨ c ∈ cuts ∨ sorted.length ≤ c) → (c ≤ i ↔ c ≤ j) := by
    intro c hc
    rcases hc with rfl | hc | hc
    · simp
    · have hsep := groupStarts_separates _ hsorted c (hcm c hc)
      constructor
      · intro hci
        by_contra hcj
        have := hsep j i (by omega) hci (by simpa using hi)
        omega
      · intro hcj
        by_contra hci
        have := hsep i j (by omega) hcj (by simpa using hj)
        omega
    · omega
  rw [hpos a i hi hai, hpos b j hj hbj]
  have h1 := hgood l (by rcases hl with rfl | hl; exact Or.inl rfl; exact Or.inr (Or.inl hl))
  have h2 := hgood r (by rcases hr with hr | hr; exact Or.inr (Or.inl hr); exact Or.inr (Or.inr hr))
  omega

/-- `_split` succeeds exactly when every split point has a group start at or after it;
otherwise it raises (IndexError) instead of mis-assigning -/
theorem C02_split_ok_iff (sorted : List (Nat × Nat)) (folds : Nat) :
    (splitWith sorted folds).isSome ↔
      ∀ p ∈ splitPoints sorted.length folds, ∃ s ∈ groupStarts (sorted.map (·.1)), p ≤ s := by
  unfold splitWith
  simp only [Option.isSome_map]
  rw [mapM_isSome_iff]
  constructor
  · intro h p hp
    exact (firstGE_isSome_iff _ _).mp (h p hp)
  · intro h p hp
    exact (firstGE_isSome_iff _ _).mpr (h p hp)

/-- end-to-end for the executable split, in terms of the input hash vector: the folds are a
partition of `0 … n-1` into `folds` lists and equal hashes share a fold; an in-fold shuffle
(`fs'`, any permutation of every fold) changes none of this -/
theorem C02_split_exec (hashes : List Nat) (folds : Nat) (hf : 1 ≤ folds) (fs fs' : List (List Nat))
    (h : split hashes folds = some fs) (hsh : List.Forall₂ List.Perm fs fs') :
    fs'.length = folds ∧ fs'.flatten.Perm (List.range hashes.length) ∧
    ∀ i j, i < hashes.length → j < hashes.length → hashes[i]? = hashes[j]? →
      ∀ fold ∈ fs', (i ∈ fold ↔ j ∈ fold) := by
  unfold split at h
  have hperm := List.mergeSort_perm hashes.zipIdx (fun a b => decide (a.1 ≤ b.1))
  have hsorted : SortedByHash (hashes.zipIdx.mergeSort (fun a b => decide (a.1 ≤ b.1))) := by
    unfold SortedByHash
    have := List.pairwise_mergeSort (le := fun (a b : Nat × Nat) => decide (a.1 ≤ b.1))
      (fun a b c hab hbc => by simp only [decide_eq_true_eq] at *; omega)
      (fun a b => by simp only [Bool.or_eq_true, decide_eq_true_eq]; omega) hashes.zipIdx
    exact this.imp (fun h => by simpa using h)
  have hsnd : ((hashes.zipIdx.mergeSort (fun a b => decide (a.1 ≤ b.1))).map (·.2)).Perm
      (List.range hashes.length) := by
    refine (hperm.map _).trans ?_
    rw [List.zipIdx_map_snd, List.range_eq_range']
  have hnd : ((hashes.zipIdx.mergeSort (fun a b => decide (a.1 ≤ b.1))).map (·.2)).Nodup :=
    hsnd.nodup_iff.mpr List.nodup_range
  refine ⟨?_, ?_, ?_⟩
  · rw [← hsh.length_eq]
    exact C02_split_count _ folds hf fs h
  · refine (List.Perm.flatten_congr hsh).symm.trans ?_
    rw [C02_split_partition _ folds fs h]
    exact hsnd
  · intro i j hi hj hij fold' hfold'
    obtain ⟨fold, hfold, hpf⟩ := forall₂_mem_right hsh fold' hfold'
    rw [← hpf.mem_iff, ← hpf.mem_iff]
    rw [List.getElem?_eq_getElem hi, List.getElem?_eq_getElem hj] at hij
    have ha : (hashes[i], i) ∈ hashes.zipIdx.mergeSort (fun a b => decide (a.1 ≤ b.1)) := by
      rw [hperm.mem_iff, List.mem_zipIdx_iff_getElem?]
      simp [hi]
    have hb : (hashes[j], j) ∈ hashes.zipIdx.mergeSort (fun a b => decide (a.1 ≤ b.1)) := by
      rw [hperm.mem_iff, List.mem_zipIdx_iff_getElem?]
      simp [hj]
    exact C02_split_respects_key _ folds fs hsorted hnd h (hashes[i], i) (hashes[j], j) ha hb
      (Option.some.inj hij) fold hfold

/-- training indices of a fold (any enumeration order of the set difference): disjoint from
the held-out fold, no duplicates, and all other rows of the file -/
theorem C02_train_disjoint (ds : Nat) (fold train : List Nat) (h : train.Perm (complement ds fold)) :
    (∀ i ∈ train, i ∉ fold ∧ i < ds) ∧ train.Nodup ∧ (∀ i, i < ds → i ∉ fold → i ∈ train) := by
  refine ⟨?_, ?_, ?_⟩
  · intro i hi
    have := h.mem_iff.mp hi
    simp only [complement, List.mem_filter, List.mem_range] at this
    exact ⟨by simpa using this.2, this.1⟩
  · rw [h.nodup_iff]
    exact List.nodup_range.filter _
  · intro i hi hnf
    rw [h.mem_iff]
    simp only [complement, List.mem_filter, List.mem_range]
    exact ⟨hi, by simpa using hnf⟩

/-- with a training-size cap the sub-sample (any subset `rng.choice` may return) is still drawn
from the other folds only -/
theorem C02_train_subset_cap (ds : Nat) (fold train sub : List Nat)
    (h : train.Perm (complement ds fold)) (hsub : ∀ i ∈ sub, i ∈ train) :
    ∀ i ∈ sub, i ∉ fold ∧ i < ds :=
  fun i hi => (C02_train_disjoint ds fold train h).1 i (hsub i hi)

/-- no training row shares a spectrum (hash) with a row of the held-out fold -/
theorem C02_train_no_shared_spectrum (ds : Nat) (hash : Nat → Nat) (fold train sub : List Nat)
    (hresp : ∀ i j, i < ds → j < ds → hash i = hash j → (i ∈ fold ↔ j ∈ fold))
    (h : train.Perm (complement ds fold)) (hsub : ∀ i ∈ sub, i ∈ train) :
    ∀ i ∈ sub, ∀ j ∈ fold, j < ds → hash i ≠ hash j := by
  intro i hi j hj hjds heq
  obtain ⟨hnf, hids⟩ := C02_train_subset_cap ds fold train sub h hsub i hi
  exact hnf ((hresp i j hids hjds heq).mpr hj)

set_option linter.unusedVariables false in
/-- `concat(pieces).reindex(train)` returns exactly the training rows in the order of the
index list, whatever the order of the pieces and inside the pieces -/
theorem C02_materialise_eq {ρ : Type} (row : Nat → ρ) (train : List Nat) (hnd : train.Nodup)
    (pieces : List (List (Nat × ρ)))
    (hp : pieces.flatten.Perm (train.map (fun i => (i, row i)))) :
    reindex pieces.flatten train = train.map (fun i => some (row i)) := by
  apply reindex_eq
  · intro i hi v
    rw [hp.mem_iff, List.mem_map]
    constructor
    · rintro ⟨j, _, hj⟩
      simp only [Prod.mk.injEq] at hj
      obtain ⟨rfl, rfl⟩ := hj
      rfl
    · intro h
      exact ⟨i, hi, by simpa using h⟩
  · intro i _
    rfl

set_option linter.unusedVariables false in
/-- reading the file in chunks of any size `c ≥ 1`, with the per-chunk pieces appended in any
completion order (`pieces`) and each piece in any order, materialises exactly `rows[train]` -/
theorem C02_materialise_chunks {ρ : Type} (c : Nat) (hc : 0 < c) (rows : List ρ) (train : List Nat)
    (hnd : train.Nodup) (hlt : ∀ i ∈ train, i < rows.length)
    (ps pieces : List (List (Nat × ρ)))
    (hps : List.Forall₂ List.Perm
      ((chunks c (rows.zipIdx.map (fun x => (x.2, x.1)))).map (chunkPiece train)) ps)
    (hpieces : pieces.Perm ps) :
    reindex pieces.flatten train = train.map (fun i => rows[i]?) := by
  have hperm : pieces.flatten.Perm (chunkPiece train (rows.zipIdx.map (fun x => (x.2, x.1)))) := by
    refine hpieces.flatten.trans ?_
    refine (List.Perm.flatten_congr hps).symm.trans ?_
    rw [chunkPiece_flatten, chunks_flatten c hc]
  apply reindex_eq
  · intro i hi v
    rw [hperm.mem_iff]
    unfold chunkPiece
    rw [List.mem_filter, mem_indexed]
    simp [hi]
  · intro i hi
    simp [hlt i hi]

/-- the routing vector maps every row to the fold that contains it -/
theorem C02_route_eq (folds : List (List Nat)) (n : Nat) (hperm : folds.flatten.Perm (List.range n))
    (p : Nat) (hp : p < n) (f : Nat) (hf : f < folds.length) :
    (route folds n)[p]? = some f ↔ p ∈ folds.getD f [] := by
  have hnd : folds.flatten.Nodup := hperm.nodup_iff.mpr List.nodup_range
  have hpm : p ∈ folds.flatten := hperm.mem_iff.mpr (List.mem_range.mpr hp)
  obtain ⟨fold, hfold, hpfold⟩ := List.mem_flatten.mp hpm
  obtain ⟨g, hg, hgfold⟩ := List.getElem_of_mem hfold
  have hpg : p ∈ folds.getD g [] := by
    rw [List.getD_eq_getElem?_getD, List.getElem?_eq_getElem hg, hgfold]
    exact hpfold
  have hlook : (foldTags folds).lookup p = some g := by
    apply lookup_eq_of_unique
    · exact (mem_foldTags folds p g).mpr ⟨hg, hpg⟩
    · intro w hw
      obtain ⟨hw1, hw2⟩ := (mem_foldTags folds p w).mp hw
      exact fold_unique folds hnd p w g hw1 hg hw2 hpg
  rw [route_getElem? folds n p hp, hlook]
  simp only [Option.getD_some, Option.some.injEq]
  constructor
  · rintro rfl
    exact hpg
  · intro hpf
    exact fold_unique folds hnd p g f hg hf hpg hpf

/-- `_predict`: for every prediction chunk size `c ≥ 1` the returned score of row `p` is the
calibrated output of the model of `p`'s own fold, calibrated with that fold's rows only;
in particular a chunk lacking some fold changes nothing -/
theorem C02_predict_eq_spec {ρ σ : Type} [Inhabited σ] (c : Nat) (hc : 0 < c) (nfolds : Nat)
    (rows : List ρ) (routing : List Nat) (hlen : routing.length = rows.length)
    (hr : ∀ f ∈ routing, f < nfolds)
    (score : Nat → ρ → σ) (target : ρ → Bool) (cal : List (σ × Bool) → σ → σ) :
    predict c nfolds rows routing score target cal = predictSpec rows routing score target cal := by
  unfold predict predictSpec
  simp only []
  rw [show (rows.zipIdx.map (fun x => (x.2, x.1))).zip routing = tagged rows routing from rfl]
  simp only [perFold_eq c hc]
  apply List.ext_getElem
  · simp [hlen]
  · intro p h1 h2
    simp only [List.length_map, List.length_range] at h1
    simp only [List.getElem_map, List.getElem_range, List.getElem_zip]
    have hpr : p < routing.length := by omega
    rw [lookup_eq_of_unique p
      (cal ((((rows.zip routing).filter (fun y => y.2 == routing[p])).map (·.1)).map
        (fun r => (score routing[p] r, target r))) (score routing[p] rows[p]))]
    · rfl
    · rw [List.mem_flatten]
      refine ⟨_, List.mem_map.mpr ⟨routing[p], List.mem_range.mpr (hr _ (List.getElem_mem hpr)), rfl⟩, ?_⟩
      rw [List.mem_map]
      refine ⟨(p, rows[p]), ?_, rfl⟩
      unfold foldSlice
      rw [List.mem_map]
      refine ⟨((p, rows[p]), routing[p]), ?_, rfl⟩
      rw [List.mem_filter]
      exact ⟨tagged_mem_of_lt rows routing hlen p h1, by simp⟩
    · intro w hw
      rw [List.mem_flatten] at hw
      obtain ⟨l, hl, hwl⟩ := hw
      rw [List.mem_map] at hl
      obtain ⟨f, _, rfl⟩ := hl
      rw [List.mem_map] at hwl
      obtain ⟨⟨i, v⟩, hx, hxe⟩ := hwl
      unfold foldSlice at hx
      rw [List.mem_map] at hx
      obtain ⟨⟨⟨i', v'⟩, f'⟩, hy, hye⟩ := hx
      rw [List.mem_filter] at hy
      simp only [Prod.mk.injEq] at hye hxe
      obtain ⟨rfl, rfl⟩ := hye
      obtain ⟨rfl, rfl⟩ := hxe
      obtain ⟨hy1, hy2⟩ := hy
      have hf' : f' = f := by simpa using hy2
      subst hf'
      obtain ⟨hv, hfp⟩ := mem_tagged rows routing i' v' f' hy1
      rw [List.getElem?_eq_getElem h1] at hv
      rw [List.getElem?_eq_getElem hpr] at hfp
      rw [Option.some.inj hv, Option.some.inj hfp]

/-- End to end (one file): with folds from `split` (shuffled in any way), the routing derived
from them, training sets that are any enumeration of the complements (optionally sub-sampled),
and `learner` an arbitrary function from the materialised training rows to a scorer, the score
returned for row `p` is produced by the model of the fold `f` containing `p`, and no training
row of that model has the same spectrum hash as `p`. -/
theorem C02_score_from_heldout_model {ρ σ : Type} [Inhabited σ] (c : Nat) (hc : 0 < c)
    (rows : List ρ) (hashes : List Nat) (hlen : hashes.length = rows.length)
    (folds : Nat) (hf : 1 ≤ folds) (fs fs' : List (List Nat))
    (h : split hashes folds = some fs) (hsh : List.Forall₂ List.Perm fs fs')
    (trains : List (List Nat))
    (htr : List.Forall₂ (fun fold tr => ∃ t : List Nat, t.Perm (complement rows.length fold) ∧ ∀ i ∈ tr, i ∈ t) fs' trains)
    (learner : List (Option ρ) → ρ → σ) (target : ρ → Bool) (cal : List (σ × Bool) → σ → σ) :
    let routing := route fs' rows.length
    let model := fun f => learner ((trains.getD f []).map (fun i => rows[i]?))
    let out := predict c folds rows routing model target cal
    out = predictSpec rows routing model target cal ∧
    ∀ p, p < rows.length → ∃ f, f < folds ∧ routing[p]? = some f ∧ p ∈ fs'.getD f [] ∧
      ∀ i ∈ trains.getD f [], i ∉ fs'.getD f [] ∧ hashes[i]? ≠ hashes[p]? := by
  intro routing model out
  obtain ⟨hcount, hpart, hresp⟩ := C02_split_exec hashes folds hf fs fs' h hsh
  rw [hlen] at hpart
  refine ⟨?_, ?_⟩
  · apply C02_predict_eq_spec c hc folds rows routing (route_length _ _)
    rw [← hcount]
    exact route_lt fs' rows.length (by omega)
  · intro p hp
    have hpm : p ∈ fs'.flatten := hpart.mem_iff.mpr (List.mem_range.mpr hp)
    obtain ⟨fold, hfold, hpfold⟩ := List.mem_flatten.mp hpm
    obtain ⟨f, hflt, hfeq⟩ := List.getElem_of_mem hfold
    have hgetD : fs'.getD f [] = fold := by
      rw [List.getD_eq_getElem?_getD, List.getElem?_eq_getElem hflt, hfeq]
      rfl
    refine ⟨f, by omega, ?_, by rw [hgetD]; exact hpfold, ?_⟩
    · exact (C02_route_eq fs' rows.length hpart p hp f hflt).mpr (by rw [hgetD]; exact hpfold)
    · intro i hi
      obtain ⟨t, ht, hsub⟩ := forall₂_getD htr f hflt [] []
      rw [hgetD] at ht ⊢
      obtain ⟨hnf, hids⟩ := C02_train_subset_cap rows.length fold t (trains.getD f []) ht hsub i hi
      refine ⟨hnf, ?_⟩
      intro heq
      exact hnf ((hresp i p (by omega) (by omega) heq fold hfold).mpr hpfold)

/-! ## Non-vacuity: the hypotheses are satisfiable on concrete non-trivial data -/

/-- hash-sorted array with two tied groups (the `argsort` order inside the ties is *not* the
stable one), 2 folds: rows 4 and 1 (hash 3) stay together -/
example : ∀ fold ∈ [[3, 4, 1], [2, 0, 5]],
    (((3, 4) : Nat × Nat).2 ∈ fold ↔ ((3, 1) : Nat × Nat).2 ∈ fold) :=
  C02_split_respects_key [(1, 3), (3, 4), (3, 1), (5, 2), (5, 0), (9, 5)] 2 [[3, 4, 1], [2, 0, 5]]
    (by unfold SortedByHash; decide) (by decide) (by decide) (3, 4) (3, 1) (by decide) (by decide) rfl

/-- the executable split on a concrete hash vector, folds shuffled (`split` runs `mergeSort`,
which `decide` cannot unfold: its value is checked by the first `#guard` below) -/
example (h : split [5, 3, 5, 1, 3, 9] 2 = some [[3, 1, 4], [0, 2, 5]]) :
    [[4, 3, 1], [5, 2, 0]].length = 2 ∧
    [[4, 3, 1], [5, 2, 0]].flatten.Perm (List.range [5, 3, 5, 1, 3, 9].length) :=
  have := C02_split_exec [5, 3, 5, 1, 3, 9] 2 (by decide) [[3, 1, 4], [0, 2, 5]] [[4, 3, 1], [5, 2, 0]]
    h (.cons (by decide) (.cons (by decide) .nil))
  ⟨this.1, this.2.1⟩

/-- five rows, chunk size 2 (the last chunk has no row of fold 0), two folds -/
example : predict 2 2 ["a", "b", "c", "d", "e"] [1, 0, 1, 0, 1] (fun f r => s!"{f}{r}")
      (fun r => r != "c") (fun l s => s!"{s}|{l.length}") =
    predictSpec ["a", "b", "c", "d", "e"] [1, 0, 1, 0, 1] (fun f r => s!"{f}{r}")
      (fun r => r != "c") (fun l s => s!"{s}|{l.length}") :=
  C02_predict_eq_spec 2 (by decide) 2 ["a", "b", "c", "d", "e"] [1, 0, 1, 0, 1] rfl (by decide) _ _ _

example : reindex [[(4, "e"), (1, "b")], [(3, "d")]].flatten [3, 1, 4] =
    [3, 1, 4].map (fun i => some (["a", "b", "c", "d", "e"].getD i "")) :=
  C02_materialise_eq (fun i => ["a", "b", "c", "d", "e"].getD i "") [3, 1, 4] (by decide)
    [[(4, "e"), (1, "b")], [(3, "d")]] (by decide)

/-! ## Evaluation tests of the model -/

#guard split [5, 3, 5, 1, 3, 9] 2 == some [[3, 1, 4], [0, 2, 5]]
#guard split [5, 3, 5, 1, 3, 9] 3 == some [[3, 1, 4], [0, 2], [5]]
#guard split [1, 2, 3, 4] 2 == some [[0, 1], [2, 3]]
-- the real code raises IndexError when a split point lies after the last group start
#guard split [7, 7, 7, 7] 2 == none
#guard split [1, 2, 2, 2] 2 == none
#guard split [] 3 == none
#guard groupStarts [1, 3, 3, 5, 5, 9] == [0, 1, 3, 5]
#guard splitPoints 7 3 == [3, 5]
-- the tie order chosen by `argsort` changes the order inside a fold, not the fold of a row
#guard splitWith [(1, 3), (3, 1), (3, 4), (5, 0), (5, 2), (9, 5)] 2 == some [[3, 1, 4], [0, 2, 5]]
#guard splitWith [(1, 3), (3, 4), (3, 1), (5, 2), (5, 0), (9, 5)] 2 == some [[3, 4, 1], [2, 0, 5]]
#guard route [[3, 1, 4], [0, 2, 5]] 6 == [1, 0, 1, 0, 0, 1]
#guard route [[4, 3, 1], [5, 2, 0]] 6 == [1, 0, 1, 0, 0, 1]
#guard complement 6 [3, 1, 4] == [0, 2, 5]
#guard perFileCaps 10 3 == [3, 3, 4]
#guard reindex [[(4, "e"), (1, "b")], [(3, "d")]].flatten [3, 1, 4] == [some "d", some "b", some "e"]
#guard (chunks 2 ([10, 20, 30, 40, 50].zipIdx.map (fun x => (x.2, x.1)))).map (chunkPiece [4, 0, 3])
  == [[(0, 10)], [(3, 40)], [(4, 50)]]
#guard predict 2 2 ["a", "b", "c", "d", "e"] [1, 0, 1, 0, 1] (fun f r => s!"{f}{r}")
    (fun r => r != "c") (fun l s => s!"{s}|{l.length}") == ["1a|3", "0b|2", "1c|3", "0d|2", "1e|3"]
#guard predictSpec ["a", "b", "c", "d", "e"] [1, 0, 1, 0, 1] (fun f r => s!"{f}{r}")
    (fun r => r != "c") (fun l s => s!"{s}|{l.length}") == ["1a|3", "0b|2", "1c|3", "0d|2", "1e|3"]
-- every chunk size gives the same scores; fold 1 never occurs
#guard (List.range 6).all (fun c => predict (c + 1) 3 [10, 20, 30, 40] [2, 0, 2, 0]
    (fun f r => f * 100 + r) (fun _ => true) (fun l s => s + (l.map (·.1)).sum * 1000)
    == [440210, 60020, 440230, 60040])

#print axioms C02_split_count
#print axioms C02_split_partition
#print axioms C02_split_respects_key
#print axioms C02_split_ok_iff
#print axioms C02_split_exec
#print axioms C02_train_disjoint
#print axioms C02_train_subset_cap
#print axioms C02_train_no_shared_spectrum
#print axioms C02_materialise_eq
#print axioms C02_materialise_chunks
#print axioms C02_route_eq
#print axioms C02_predict_eq_spec
#print axioms C02_score_from_heldout_model

end Mk.Brew
