import MokapotVerif.Lemmas.BrewRestore
import MokapotVerif.Props.C02Blocks
/-!
# C02, third extension: `argsort` + fancy indexing, `hstack` of an empty fold

`brew` puts things back into input order twice, both times with `a[np.argsort(labels)]`
(brew.py:233-245 the routing vector, brew.py:484-485 the scores).  The earlier models wrote these
steps as a lookup by row label; here the code's own computation (`Model/BrewRestore.lean`) is proved
equal to that lookup — for **any** sorting permutation `argsort` may return — exactly when the
labels are a permutation of `0 … n-1`, and the rest of `_predict` is lifted on top of it, together
with the `ValueError` of `np.hstack` for a fold without rows.
-/
namespace Mk.Brew

/-- **`a[np.argsort(labels)]` restores the input order**: if the labels are a permutation of
`0 … n-1` (every row label collected exactly once), position `p` of the result holds the value that
was stored next to label `p` — whatever sorting permutation `argsort` returned. -/
theorem C02_argsort_restores_order {β : Type} [Inhabited β] (labels perm : List Nat) (vals : List β)
    (n : Nat) (hk : labels.Perm (List.range n)) (hlen : labels.length = vals.length)
    (hp : ArgsortOf labels perm) :
    gather vals perm = (List.range n).map (fun p => ((labels.zip vals).lookup p).getD default) :=
  gather_argsort labels perm vals n hk hlen hp

/-- the routing vector `np.concatenate(model_idx)[np.argsort(flatten(folds))]` (brew.py:225-245),
for any `argsort`, sends every row to the fold that contains it (`C02_route_eq` applies to it) -/
theorem C02_route_argsort (folds : List (List Nat)) (n : Nat) (perm : List Nat)
    (hperm : folds.flatten.Perm (List.range n)) (hp : ArgsortOf folds.flatten perm)
    (p : Nat) (hpn : p < n) (f : Nat) (hf : f < folds.length) :
    (routeA folds perm = route folds n) ∧
      ((routeA folds perm)[p]? = some f ↔ p ∈ folds.getD f []) := by
  rw [routeA_eq_route folds n perm hperm hp]
  exact ⟨rfl, C02_route_eq folds n hperm p hpn f hf⟩

/-! ## `_predict` as the code computes it -/

/-- **The tail of `_predict` as the code computes it** (per-fold pieces, `np.hstack`, labels
collected by `get_index_values`, `np.argsort`, fancy indexing) for any list of tagged chunks whose
labels are the row numbers: it raises exactly when some model got no row, and otherwise returns
the lookup-by-label scores of `predictChunks` — for any `argsort`. -/
theorem C02_predict_chunks_argsort {ρ σ : Type} [Inhabited σ] (nfolds : Nat)
    (chs : List (List ((Nat × ρ) × Nat))) (rows : List ρ) (routing : List Nat)
    (hflat : chs.flatten = tagged rows routing) (hlen : routing.length = rows.length)
    (hr : ∀ f ∈ routing, f < nfolds)
    (score : Nat → ρ → σ) (target : ρ → Bool) (cal : List (σ × Bool) → σ → σ)
    (argsort : List Nat → List Nat) (hargs : ∀ keys, ArgsortOf keys (argsort keys)) :
    predictChunksA nfolds chs score target cal argsort =
      if hstackOk nfolds chs then some (predictChunks nfolds rows.length chs score target cal)
      else none := by
  apply predictChunksA_eq nfolds rows.length chs score target cal argsort _ (hargs _)
  have := foldLabels_perm nfolds chs (by
    intro x hx
    rw [hflat] at hx
    apply hr
    rw [← tagged_folds rows routing hlen]
    exact List.mem_map_of_mem hx)
  rw [hflat, tagged_labels rows routing hlen] at this
  exact this

/-- **Soundness of `_predict` as it is** (two chunkers, `get_index_values`, `hstack`, `argsort`):
for any reader delivering the rows of the file with their row numbers as labels in chunks of any
sizes, any chunk size `c ≥ 1` and any `argsort`: if `_predict` returns, the scores are the
specified ones — row `p` is scored by the model of `routing[p]`, calibrated with that fold's rows. -/
theorem C02_predict_two_argsort_sound {ρ σ : Type} [Inhabited σ] (readerChunks : List (List (Nat × ρ)))
    (c : Nat) (hc : 0 < c) (nfolds : Nat) (rows : List ρ) (routing : List Nat)
    (hread : readerChunks.flatten = indexed rows)
    (hlen : routing.length = rows.length) (hr : ∀ f ∈ routing, f < nfolds)
    (score : Nat → ρ → σ) (target : ρ → Bool) (cal : List (σ × Bool) → σ → σ)
    (argsort : List Nat → List Nat) (hargs : ∀ keys, ArgsortOf keys (argsort keys)) (out : List σ)
    (h : predictTwoA readerChunks c nfolds routing score target cal argsort = .ok out) :
    out = predictSpec rows routing score target cal ∧
      predictTwo readerChunks c nfolds routing score target cal = some out ∧
      ∀ f, f < nfolds → f ∈ routing := by
  unfold predictTwoA at h
  cases hp : pairChunks readerChunks (routingChunks c routing) with
  | none => rw [hp] at h; simp [optExcept, Except.bind] at h
  | some chs =>
    rw [hp] at h
    simp only [optExcept, Option.elim_some, Except.bind] at h
    have hflat : chs.flatten = tagged rows routing := by
      rw [pairChunks_flatten _ _ chs hp, hread]
      unfold routingChunks
      rw [chunks_flatten c hc]
      rfl
    rw [C02_predict_chunks_argsort nfolds chs rows routing hflat hlen hr score target cal argsort hargs] at h
    by_cases hh : hstackOk nfolds chs = true
    · rw [if_pos hh] at h
      simp only [Option.elim_some, Except.ok.injEq] at h
      have hn : (chs.map List.length).sum = rows.length := by
        rw [sum_lengths_flatten, hflat]
        unfold tagged
        simp [hlen]
      have h2 : predictTwo readerChunks c nfolds routing score target cal = some out := by
        unfold predictTwo
        rw [hp, Option.map_some, hn, h]
      exact ⟨C02_predict_two_sound readerChunks c hc nfolds rows routing hread hlen hr score target
        cal out h2, h2, (hstackOk_iff nfolds chs rows routing hflat hlen).mp hh⟩
    · rw [if_neg hh] at h
      simp at h

/-- **When does `_predict` return?**  Exactly when the two chunkers agree (the reader's chunk
lengths are an initial segment of `create_chunks`' lengths) **and every fold model has at least
one row of the collection** — otherwise `np.hstack([])` raises `ValueError`.  So whenever `brew`
returns scores, each collection really was cut into `nfolds` non-empty folds. -/
theorem C02_predict_two_argsort_ok_iff {ρ σ : Type} [Inhabited σ] (readerChunks : List (List (Nat × ρ)))
    (c : Nat) (hc : 0 < c) (nfolds : Nat) (rows : List ρ) (routing : List Nat)
    (hread : readerChunks.flatten = indexed rows)
    (hlen : routing.length = rows.length) (hr : ∀ f ∈ routing, f < nfolds)
    (score : Nat → ρ → σ) (target : ρ → Bool) (cal : List (σ × Bool) → σ → σ)
    (argsort : List Nat → List Nat) (hargs : ∀ keys, ArgsortOf keys (argsort keys)) :
    (∃ out, predictTwoA readerChunks c nfolds routing score target cal argsort = .ok out) ↔
      (readerChunks.map List.length <+: (routingChunks c routing).map List.length ∧
        ∀ f, f < nfolds → f ∈ routing) := by
  constructor
  · rintro ⟨out, h⟩
    obtain ⟨_, h2, h3⟩ := C02_predict_two_argsort_sound readerChunks c hc nfolds rows routing hread hlen
      hr score target cal argsort hargs out h
    refine ⟨?_, h3⟩
    rw [← C02_predict_two_ok_iff readerChunks c nfolds routing score target cal, h2]
    rfl
  · rintro ⟨h1, h2⟩
    rw [← C02_predict_two_ok_iff readerChunks c nfolds routing score target cal] at h1
    unfold predictTwo at h1
    rw [Option.isSome_map] at h1
    obtain ⟨chs, hp⟩ := Option.isSome_iff_exists.mp h1
    have hflat : chs.flatten = tagged rows routing := by
      rw [pairChunks_flatten _ _ chs hp, hread]
      unfold routingChunks
      rw [chunks_flatten c hc]
      rfl
    refine ⟨predictChunks nfolds rows.length chs score target cal, ?_⟩
    unfold predictTwoA
    rw [hp]
    simp only [optExcept, Option.elim_some, Except.bind]
    rw [C02_predict_chunks_argsort nfolds chs rows routing hflat hlen hr score target cal argsort hargs,
      if_pos ((hstackOk_iff nfolds chs rows routing hflat hlen).mpr h2)]
    rfl

/-- with the routing vector of a partition into `folds.length` folds: `_predict` returning means
that **no fold of the collection is empty** -/
theorem C02_predict_returns_folds_nonempty {ρ σ : Type} [Inhabited σ] (c : Nat) (hc : 0 < c)
    (rows : List ρ) (folds : List (List Nat)) (hpos : 0 < folds.length)
    (hperm : folds.flatten.Perm (List.range rows.length))
    (permR : List Nat) (hpR : ArgsortOf folds.flatten permR)
    (score : Nat → ρ → σ) (target : ρ → Bool) (cal : List (σ × Bool) → σ → σ)
    (argsort : List Nat → List Nat) (hargs : ∀ keys, ArgsortOf keys (argsort keys)) (out : List σ)
    (h : predictTwoA (chunks c (indexed rows)) c folds.length (routeA folds permR) score target cal
      argsort = .ok out) :
    out = predictSpec rows (route folds rows.length) score target cal ∧
      ∀ f, f < folds.length → folds.getD f [] ≠ [] := by
  rw [routeA_eq_route folds rows.length permR hperm hpR] at h
  obtain ⟨h1, _, h3⟩ := C02_predict_two_argsort_sound (chunks c (indexed rows)) c hc folds.length rows
    (route folds rows.length) (chunks_flatten c hc _) (route_length _ _) (route_lt folds _ hpos)
    score target cal argsort hargs out h
  refine ⟨h1, ?_⟩
  intro f hf hnil
  obtain ⟨p, hp⟩ := List.mem_iff_getElem?.mp (h3 f hf)
  have hpn : p < rows.length := by
    by_contra hge
    rw [List.getElem?_eq_none (by rw [route_length]; omega)] at hp
    simp at hp
  have := (C02_route_eq folds rows.length hperm p hpn f hf).mp hp
  rw [hnil] at this
  simp at this

/-! ## all collections, the whole run -/

/-- `_predict` over all collections as the code computes it: when it returns, the scores are those
of the lookup model `predictAll`, and no fold of any collection is empty -/
theorem C02_predict_all_argsort_sound {ρ σ : Type} [Inhabited σ] (c : Nat) (hc : 0 < c) (nfolds : Nat)
    (hpos : 0 < nfolds) (files : List (List ρ)) (testIdx : List (List (List Nat)))
    (hl : testIdx.length = files.length)
    (hpart : ∀ k, k < files.length → (testIdx.getD k []).length = nfolds ∧
      (testIdx.getD k []).flatten.Perm (List.range (files.getD k []).length))
    (score : Nat → ρ → σ) (target : ρ → Bool) (cal : List (σ × Bool) → σ → σ)
    (argsortR argsortP : Nat → List Nat → List Nat)
    (hR : ∀ k keys, ArgsortOf keys (argsortR k keys)) (hP : ∀ k keys, ArgsortOf keys (argsortP k keys))
    (out : List (List σ))
    (h : predictAllA c nfolds files testIdx score target cal argsortR argsortP = .ok out) :
    out = predictAll c nfolds files (routeAll testIdx files) score target cal ∧
      ∀ k, k < files.length → ∀ f, f < nfolds → heldOut testIdx k f ≠ [] := by
  unfold predictAllA at h
  have hf := mapM_except_forall₂ _ _ _ h
  have hlen : out.length = files.length := by
    have := hf.length_eq
    simp [hl] at this
    omega
  have key : ∀ k, k < files.length →
      out.getD k [] = predict c nfolds (files.getD k []) (route (testIdx.getD k []) (files.getD k []).length)
        score target cal ∧ ∀ f, f < nfolds → heldOut testIdx k f ≠ [] := by
    intro k hk
    have hkz : k < ((files.zip testIdx).zipIdx).length := by simp [hl, hk]
    have hk2 := forall₂_getD hf k hkz (([], []), 0) []
    rw [zipIdx_zip_getD files testIdx hl k hk] at hk2
    simp only at hk2
    obtain ⟨hn, hperm⟩ := hpart k hk
    rw [← hn] at hk2
    have hpos' : 0 < (testIdx.getD k []).length := by omega
    obtain ⟨h1, h2⟩ := C02_predict_returns_folds_nonempty c hc (files.getD k []) (testIdx.getD k []) hpos'
      hperm _ (hR k _) score target cal (argsortP k) (hP k) _ hk2
    refine ⟨?_, ?_⟩
    · rw [h1, ← hn, C02_predict_eq_spec c hc _ _ _ (route_length _ _) (route_lt _ _ hpos')]
    · intro f hf'
      exact h2 f (by omega)
  refine ⟨?_, fun k hk => (key k hk).2⟩
  apply List.ext_getElem
  · simp [predictAll, routeAll, hlen, hl]
  · intro k h1 h2
    have hk : k < files.length := by omega
    have hkr : k < (routeAll testIdx files).length := by rw [routeAll_length _ _ hl]; exact hk
    have e : out.getD k [] = (predictAll c nfolds files (routeAll testIdx files) score target cal).getD k [] := by
      rw [(key k hk).1, predictAll_getD c nfolds files _ score target cal k hk hkr,
        routeAll_getD testIdx files hl k hk]
    simpa [List.getD_eq_getElem?_getD, h1, h2] using e


/-- **Refinement of the whole run.**  `brewRunA` is `brew` (training path, ensemble off) with every
step as the code has it — feature-set test, `_split` per collection, `make_train_sets`,
`parse_in_chunks`, fit loop, sort by fold, routing vectors by `argsort` + fancy indexing,
`_predict` with two chunkers, `get_index_values`, `np.hstack`, `argsort` — and says which exception.
For any valid nondeterminism (incl. any `argsort`): whenever it returns, the simple model `brewRun`
returns the same models and scores (so `C02_brew_multi_heldout` and `C02_brew_multi_heldout_keys`
apply to it), the collections had the same features, and **every collection was cut into exactly
`folds` non-empty folds**. -/
theorem C02_brew_run_refines {ρ σ μ : Type} [Inhabited σ] [Inhabited μ]
    (cRead cPred folds : Nat) (hcr : 0 < cRead) (hcp : 0 < cPred) (hf : 1 ≤ folds)
    (feats : List (List String))
    (files : List (List ρ)) (hK : 0 < files.length)
    (hashes : List (List Nat)) (sorteds : List (List (Nat × Nat)))
    (hhl : hashes.length = files.length) (hsl : sorteds.length = files.length)
    (hlen : ∀ k, k < files.length → (hashes.getD k []).length = (files.getD k []).length)
    (hdata : ∀ k, k < files.length → IsArgsort (hashes.getD k []) (sorteds.getD k []))
    (shuffle : Nat → List (List Nat) → List (List Nat))
    (hshuf : ∀ k fs, List.Forall₂ List.Perm fs (shuffle k fs))
    (cap : Option Nat) (enum : Nat → Nat → List Nat → List Nat)
    (henum : ∀ f k l, (enum f k l).Perm l)
    (draw : Nat → Nat → Nat → List Nat) (hdraw : DrawsValid cap files.length draw)
    (sched : Nat → Nat → List (List (Nat × ρ)) → List (List (Nat × ρ)))
    (hsched : ∀ f k, SchedValid (sched f k))
    (ret : List (Nat × μ) → List (Nat × μ)) (hret : ∀ l, (ret l).Perm l)
    (learner : List (Option ρ) → μ) (apply : μ → ρ → σ) (target : ρ → Bool)
    (cal : List (σ × Bool) → σ → σ)
    (argsortR argsortP : Nat → List Nat → List Nat)
    (hR : ∀ k keys, ArgsortOf keys (argsortR k keys)) (hP : ∀ k keys, ArgsortOf keys (argsortP k keys))
    (models : List (Nat × μ)) (scores : List (List σ))
    (hrun : brewRunA cRead cPred folds feats files sorteds shuffle cap enum draw sched ret learner apply
      target cal argsortR argsortP = .ok (models, scores)) :
    brewRun cRead cPred folds files sorteds shuffle cap enum draw sched ret learner apply target cal
        = some (models, scores) ∧
      featuresAgree feats = true ∧
      ∃ testIdx, splitAll sorteds folds shuffle = some testIdx ∧
        ∀ k, k < files.length → (testIdx.getD k []).length = folds ∧
          ∀ f, f < folds → heldOut testIdx k f ≠ [] := by
  unfold brewRunA at hrun
  by_cases hfe : featuresAgree feats = true
  swap
  · rw [if_neg hfe] at hrun
    exact absurd hrun (by simp)
  rw [if_pos hfe] at hrun
  cases hs : splitAll sorteds folds shuffle with
  | none => rw [hs] at hrun; simp [optExcept, Except.bind] at hrun
  | some testIdx =>
    rw [hs] at hrun
    simp only [optExcept, Option.elim_some, Except.bind] at hrun
    cases ht : makeTrainSets testIdx cap (files.map List.length) enum draw with
    | none => rw [ht] at hrun; simp at hrun
    | some trains =>
      rw [ht] at hrun
      simp only [Option.elim_some] at hrun
      generalize hm : sortByFold (ret (fitAll learner (parseInChunks cRead sched files trains))) = models' at hrun
      cases hp : predictAllA cPred models'.length files testIdx (modelScore apply models') target cal
          argsortR argsortP with
      | error e => rw [hp] at hrun; simp [Except.map] at hrun
      | ok sc =>
        rw [hp] at hrun
        simp only [Except.map, Except.ok.injEq, Prod.mk.injEq] at hrun
        obtain ⟨hm1, hm2⟩ := hrun
        subst hm1 hm2
        have facts := C02_brew_multi_facts cRead cPred folds hcr hcp hf files hK hashes sorteds hhl hsl
          hlen hdata shuffle hshuf cap enum henum draw hdraw sched hsched ret hret learner apply target cal
          models' _ testIdx trains hs ht hm.symm rfl
        obtain ⟨⟨hl, htl, hA⟩, ⟨hB, _⟩, _, _⟩ := facts
        have hml : models'.length = folds := by
          rw [hB, fitAll_length, List.length_map, htl]
        obtain ⟨hsc, hne⟩ := C02_predict_all_argsort_sound cPred hcp models'.length (by omega) files testIdx hl
          (fun k hk => ⟨by rw [hml]; exact (hA k hk).1, (hA k hk).2.1⟩)
          (modelScore apply models') target cal argsortR argsortP hR hP sc hp
        refine ⟨?_, hfe, testIdx, rfl, ?_⟩
        · unfold brewRun
          rw [hs]
          simp only [Option.bind_some, ht, Option.map_some, hm, hsc]
        · intro k hk
          exact ⟨(hA k hk).1, fun f hf' => hne k hk f (by omega)⟩

/-! ## non-vacuity and concrete runs -/

example : ArgsortOf [3, 1, 4, 0, 2, 5] [3, 1, 4, 0, 2, 5] := by
  refine ⟨by decide, by decide⟩

example : ArgsortOf [3, 1, 4, 0, 2, 5] (argsortStable [3, 1, 4, 0, 2, 5]) := by
  refine ⟨by decide, by decide⟩

/-- an `argsort` valid for every key list exists: the driver's stable one -/
example : ∀ keys, ArgsortOf keys (argsortStable keys) := argsortStable_valid

section
open Mk.Brew.Ex

/-- all hypotheses of `C02_brew_run_refines` hold together on that run -/
example : brewRun 2 3 2 files sorteds shuffle none enum (draw none 2) sched List.reverse learner apply
    (fun r => r % 2 == 0) cal = some ([(1, 1556), (2, 1653)],
        [[1653102, 1556112, 1653122, 1556132], [1653203, 1556213, 1556223, 1653233, 1556243, 1653253]]) :=
  (C02_brew_run_refines 2 3 2 (by decide) (by decide) (by decide) [["f1", "f2"], ["f2", "f1"]] files (by decide)
    hashes sorteds (by decide) (by decide) (by decide)
    (by intro k hk
        have : k = 0 ∨ k = 1 := by simp [files] at hk; omega
        rcases this with rfl | rfl
        · exact ⟨by unfold SortedByHash; decide, by decide⟩
        · exact ⟨by unfold SortedByHash; decide, by decide⟩)
    shuffle shuffle_valid none enum enum_valid (draw none 2) (draw_valid none 2) sched sched_valid
    List.reverse List.reverse_perm learner apply (fun r => r % 2 == 0) cal
    (fun _ => argsortStable) (fun _ => argsortStable) (fun _ => argsortStable_valid) (fun _ => argsortStable_valid)
    _ _ ex_runA).1

end

/-- folds `[[3,1,4],[0,2,5]]`: labels collected fold after fold, routing by `argsort` -/
example : routeA [[3, 1, 4], [0, 2, 5]] [3, 1, 4, 0, 2, 5] = [1, 0, 1, 0, 0, 1] := by decide
example : route [[3, 1, 4], [0, 2, 5]] 6 = [1, 0, 1, 0, 0, 1] := by decide

/-- a run of `_predict` in two blocks of 3 with the identity calibration: every row gets the score
of its own fold's model -/
example : predictTwoA (chunks 3 (indexed [10, 20, 30, 40, 50, 60])) 3 2 [1, 0, 1, 0, 0, 1]
    (fun f r => f * 1000 + r) (fun _ => true) (fun _ s => s) (fun _ => [3, 0, 4, 1, 2, 5]) =
    .ok [1010, 20, 1030, 40, 50, 1060] := by decide

/-- … the `argsort` used there is one for the labels collected -/
example : ArgsortOf [1, 3, 4, 0, 2, 5] [3, 0, 4, 1, 2, 5] := ⟨by decide, by decide⟩

/-- a fold without rows: `np.hstack([])` -/
example : predictTwoA (chunks 3 (indexed [10, 20, 30])) 3 3 [1, 0, 1]
    (fun f r => f * 1000 + r) (fun _ => true) (fun _ s => s) (fun _ => [1, 0, 2]) =
    .error "hstack" := by decide

example : featuresAgree [["a", "b"], ["b", "a", "a"]] = true := by decide
example : featuresAgree [["a", "b"], ["b"]] = false := by decide

end Mk.Brew
