import MokapotVerif.Lemmas.TabularReuse
/-!
# C13 (second pass) — writer objects used again, several writer objects for one
file, options left to their defaults, computed columns that depend on cells

Property theorems only.  *"For every writer and every sequence of appends, reading
back the finalised file returns exactly the appended rows, in order"* — the
sequences of appends the code base itself issues are spread over several writer
objects (`confidence.py:692-706` initialises the output file through one object,
`confidence_writer.py:130-158` appends and finalises through another one created
later for the same path), and nothing keeps a caller from using one object for
several `with` blocks or `write` calls.  The theorems below state the round trip
for arbitrary programs of such *episodes* (Model/Tabular.lean: `Call`, `objStep`,
`fileStep`, `runCalls`, `Episode`, `Use`).
-/
namespace Mk.Tabular
variable {α β σ : Type}

/-- **Writer objects are transparent, whatever they were used for before.**  For any
file writer, any objects created for the file by `from_suffix` (any buffer kinds and
sizes) and any program of well-formed episodes — `initialize()` by one object followed
by segments `append_data…; finalize()` by any objects, or a one-shot `write` —: the
storage ends exactly as if the file writer itself had been fed, episode after episode,
with the frames the objects hand on (`epSigma`: the size-`buffer_size` chunks of a
segment's rows for a buffered object, the appended frames otherwise), failures
included; and after the program every object's buffer is empty. -/
theorem C13_objects_transparent (w : Writer σ β) (inner : σ → WFrame β → Option σ) (cols : List Name)
    (objs : List (Kind × Nat)) (s0 : σ) (eps : List (Episode β)) (hwf : ∀ e ∈ eps, e.WF cols objs) :
    ∃ bufs : List (Option (WFrame β)), bufs.length = objs.length ∧ (∀ b ∈ bufs, bufRows b = [])
      ∧ runCalls w inner objs s0 (eps.flatMap Episode.calls)
          = (foldOpt (epSigma w inner cols objs) s0 eps).map (fun s => (bufs, s)) := by
  obtain ⟨bufs, hinv, h⟩ := episodes_fold w inner cols objs eps _ s0 (fileInv_fresh cols objs) hwf
  exact ⟨bufs, hinv.1, fileInv_rows hinv, h⟩

/-- **A text file shared by several writer objects reads back the rows of its last
use.**  Any objects from `from_suffix` for one text file (columns `cols`, at least
one; any buffer kinds and sizes), any previous file content, any program of
well-formed episodes: the program succeeds; the file reads back exactly the rows of
the *last* episode — for a `run`: the rows of all its segments, in call order,
whichever objects appended them (CSV append mode continues the file that another
object initialised); for a `write`: the rows of the frame — unchanged, under `cols`,
labelled `0, 1, …`; chunk-wise read-back gives the same; no object keeps a row. -/
theorem C13_text_file_shared_by_objects (cols : List Name) (hne : cols ≠ []) (objs : List (Kind × Nat))
    (old : Option (CsvFile β)) (eps : List (Episode β)) (last : Episode β)
    (hwf : ∀ e ∈ eps, e.WF cols objs) (hlast : last.WF cols objs) :
    ∃ st rd, runCalls (csvWriter cols) (csvWrite1 cols) objs old ((eps ++ [last]).flatMap Episode.calls) = some st
      ∧ (∀ b ∈ st.1, bufRows b = [])
      ∧ csvDiskReader st.2 = some rd
      ∧ rd.read none = some ⟨cols, indexFrom 0 last.rows⟩
      ∧ ChunkOK rd := by
  have hall : ∀ e ∈ eps ++ [last], e.WF cols objs := by
    intro e he
    rcases List.mem_append.mp he with h | h
    · exact hwf e h
    · simp only [List.mem_singleton] at h; subst h; exact hlast
  obtain ⟨bufs, _, hrows, h⟩ := C13_objects_transparent (csvWriter cols) (csvWrite1 cols) cols objs old _ hall
  rw [csv_episodes_last cols objs eps old last hwf hlast] at h
  refine ⟨_, _, h, hrows, rfl, ?_, csvReader_chunkOK _⟩
  exact csv_readback cols hne last.rows (episode_rows_keys cols objs last hlast)

/-- **The pipeline's split of a text file over two objects** (`confidence.py` /
`confidence_writer.py`): object 0 only calls `initialize()`, object 1 — created
later for the same path — appends and finalises.  The file reads back exactly what
object 1 appended, in order. -/
theorem C13_text_initialised_by_another_object (cols : List Name) (hne : cols ≠ []) (o0 o1 : Kind × Nat)
    (old : Option (CsvFile β)) (args : List (Arg β)) (hargs : ∀ a ∈ args, ArgWF cols (okind o1) a) :
    ∃ st rd, runCalls (csvWriter cols) (csvWrite1 cols) [o0, o1] old
          ((0, Call.init) :: (args.map (fun a => (1, Call.app a)) ++ [(1, Call.fin)])) = some st
      ∧ csvDiskReader st.2 = some rd
      ∧ rd.read none = some ⟨cols, indexFrom 0 (args.flatMap Arg.rows)⟩
      ∧ ChunkOK rd := by
  have hl : (Episode.run 0 [(1, args)] : Episode β).WF cols [o0, o1] := by
    refine ⟨by simp, ?_⟩
    intro seg hseg
    simp only [List.mem_singleton] at hseg
    subst hseg
    exact ⟨o1, rfl, hargs⟩
  obtain ⟨st, rd, h1, _, h3, h4, h5⟩ :=
    C13_text_file_shared_by_objects cols hne [o0, o1] old [] (Episode.run 0 [(1, args)]) (by simp) hl
  refine ⟨st, rd, ?_, h3, ?_, h5⟩
  · simpa [Episode.calls, segCalls] using h1
  · simpa [Episode.rows] using h4

/-- **A text writer object used again.**  One object from `from_suffix` (any buffer
kind and size) used for any sequence of completed uses — `with writer:` blocks with
well-formed appends and one-shot `write` calls, in any mix —: the file reads back
exactly the rows of the last use; nothing of an earlier use comes back (neither
from the file nor from the object's buffer). -/
theorem C13_writer_object_used_again_text (cols : List Name) (hne : cols ≠ []) (o : Kind × Nat)
    (old : Option (CsvFile β)) (uses : List (Use β)) (last : Use β)
    (hwf : ∀ u ∈ uses, u.WF cols o) (hlast : last.WF cols o) :
    ∃ st rd, runCalls (csvWriter cols) (csvWrite1 cols) [o] old
          ((uses ++ [last]).flatMap (fun u => (Use.episode 0 u).calls)) = some st
      ∧ (∀ b ∈ st.1, bufRows b = [])
      ∧ csvDiskReader st.2 = some rd
      ∧ rd.read none = some ⟨cols, indexFrom 0 last.rows⟩
      ∧ ChunkOK rd := by
  have ho : [o][0]? = some o := rfl
  obtain ⟨st, rd, h1, h2, h3, h4, h5⟩ :=
    C13_text_file_shared_by_objects cols hne [o] old (uses.map (Use.episode 0)) (Use.episode 0 last)
      (by
        intro e he
        obtain ⟨u, hu, rfl⟩ := List.mem_map.mp he
        exact use_wf cols [o] 0 o ho u (hwf u hu))
      (use_wf cols [o] 0 o ho last hlast)
  refine ⟨st, rd, ?_, h2, h3, ?_, h5⟩
  · simpa [List.flatMap_def, List.map_append, List.map_map, Function.comp_def] using h1
  · rw [← use_rows 0 last]; exact h4

/-- **A Parquet writer object used again** (distinct column names): same statement;
every `initialize()` opens a new `ParquetWriter` that truncates the file, `write`
replaces the file, the file is closed (readable) after every use. -/
theorem C13_writer_object_used_again_parquet (cols : List Name) (hn : cols.Nodup) (o : Kind × Nat)
    (old : Option (PqDisk β)) (uses : List (Use β)) (last : Use β)
    (hwf : ∀ u ∈ uses, u.WF cols o) (hlast : last.WF cols o) :
    ∃ st rd, runCalls (pqWriter cols) (pqWrite1 cols) [o] old
          ((uses ++ [last]).flatMap (fun u => (Use.episode 0 u).calls)) = some st
      ∧ (∀ b ∈ st.1, bufRows b = [])
      ∧ pqDiskReader st.2 = some rd
      ∧ rd.read none = some ⟨cols, indexFrom 0 last.rows⟩
      ∧ ChunkOK rd := by
  have ho : [o][0]? = some o := rfl
  have hall : ∀ e ∈ (uses ++ [last]).map (Use.episode 0), e.WF cols [o] := by
    intro e he
    obtain ⟨u, hu, rfl⟩ := List.mem_map.mp he
    rcases List.mem_append.mp hu with h | h
    · exact use_wf cols [o] 0 o ho u (hwf u h)
    · simp only [List.mem_singleton] at h; subst h; exact use_wf cols [o] 0 o ho _ hlast
  obtain ⟨bufs, _, hrows, h⟩ := C13_objects_transparent (pqWriter cols) (pqWrite1 cols) cols [o] old _ hall
  obtain ⟨groups, hk, hflat, hfold⟩ := pq_uses_last cols hn o uses old last hwf hlast
  rw [hfold] at h
  refine ⟨(bufs, some ⟨⟨cols, groups.map (fun g => g.map rowVals)⟩, false⟩),
    pqReader ⟨cols, groups.map (fun g => g.map rowVals)⟩, ?_, hrows, rfl, ?_, pqReader_chunkOK _⟩
  · simpa [List.flatMap_def, List.map_map, Function.comp_def] using h
  · rw [← hflat]; exact pq_readback cols groups hk

/-- **`from_suffix(file_name, columns)` with the buffer options omitted** is the bare,
unbuffered file writer: a session is `initialize(); append_data(frame)…; finalize()`
on the file writer itself, and only frames are accepted. -/
theorem C13_from_suffix_defaults (w : Writer σ β) (s0 : σ) (args : List (Arg β)) :
    (runSess (fromSuffixDefault w) (none, s0) args).map (fun p => p.2)
      = (optAll (args.map argFrame)).bind (fun fs => runWriter w s0 fs) := by
  unfold fromSuffixDefault defaultBufferSize defaultKind
  rw [runSess_fromSuffix]
  simp [runFromSuffix]

/-- **Computed-column reader whose function looks at cells** (the real use: e.g. a
column computed from the score and label columns).  If the function depends on the
row only through the cells under the columns `D` (and the index label), the new
column name is not a column of the table, and the selection `cs` contains `D`, then
`read(cs)` returns the selection `cs` of the table extended by the computed column —
the function being applied to the *full* row of the table.  (With
`C13_computed_reader`'s `ChunkOK` half: chunk-wise reading gives the same.) -/
theorem C13_computed_reader_dependent (r : Reader β) (col : Name) (fn : Nat → Row β → β) (t : DF β) (an : Bool)
    (h : ReadsTable r t an) (hwf : t.WF) (hcol : col ∉ t.names) (D : List Name) (hD : ∀ d ∈ D, d ∈ t.names)
    (hdep : ∀ i x y, (∀ d ∈ D, List.lookup d x = List.lookup d y) → fn i x = fn i y)
    (cs : List Name) (hcs : ∀ c ∈ cs, c ∈ t.names ∨ c = col) (hDcs : ∀ d ∈ D, d ∈ cs) :
    (computedReader r col fn).read (some cs) = some (selectDF (some cs) (addCol col fn t)) := by
  have hrc : ∀ c ∈ readerCols col cs, c ∈ t.names := by
    intro c hc
    simp only [readerCols, List.mem_filter, bne_iff_ne, ne_eq] at hc
    rcases hcs c hc.1 with h1 | h1
    · exact h1
    · exact absurd h1 hc.2
  simp only [computedReader, Option.elim_some]
  rw [h.read (some (readerCols col cs)) ((hasAll_iff _ _).mpr hrc) (by simp)]
  have hok2 : colsOK (addCol col fn (selectDF (some (readerCols col cs)) t)).names (some cs) = true := by
    apply (hasAll_iff _ _).mpr
    intro c hc
    simp only [addCol, selectDF, outNames, Option.elim_some, id, List.mem_append, List.mem_singleton]
    by_cases hcc : c = col
    · exact Or.inr hcc
    · left
      simp only [readerCols, List.mem_filter, bne_iff_ne, ne_eq]
      exact ⟨hc, hcc⟩
  simp only [Option.bind_some, frameRead, hok2, if_true, Option.some.injEq]
  simp only [selectDF, addCol, outNames, pick, Option.elim_some, id, List.map_map]
  congr 1
  apply List.map_congr_left
  intro ir hir
  simp only [Function.comp]
  congr 1
  apply reorder_congr
  intro c hc
  have hkeys : rowKeys ir.2 = t.names := hwf.2 ir hir
  have hfn : fn ir.1 (reorder (readerCols col cs) ir.2) = fn ir.1 ir.2 := by
    apply hdep
    intro d hd
    apply lookup_reorder
    simp only [readerCols, List.mem_filter, bne_iff_ne, ne_eq]
    refine ⟨hDcs d hd, ?_⟩
    rintro rfl
    exact hcol (hD _ hd)
  rw [List.lookup_append, List.lookup_append, hfn]
  by_cases hcc : c = col
  · subst hcc
    rw [lookup_reorder_not_mem _ _ _ (by simp [readerCols]),
      lookup_of_not_mem_keys ir.2 c (by rw [hkeys]; exact hcol)]
  · rw [lookup_reorder _ _ _ (by
      simp only [readerCols, List.mem_filter, bne_iff_ne, ne_eq]; exact ⟨hc, hcc⟩)]

/-! ## Non-vacuity -/

/-- three objects for one text file: unbuffered, buffered with dicts (size 2), buffered with frames (size 3) -/
def exObjs : List (Kind × Nat) := [(Kind.dataframe, 0), (Kind.dicts, 2), (Kind.dataframe, 3)]

/-- an earlier complete use by object 2, a `write` by object 1, and a last run that object 0 initialises and
objects 1, 2, 1 continue -/
def exEps : List (Episode Nat) :=
  [.run 2 [(2, [Arg.frame ⟨["a", "b"], [[("a", 90), ("b", 91)]]⟩])],
   .write 1 ⟨["a", "b"], [[("a", 80), ("b", 81)], [("a", 82), ("b", 83)]]⟩]
def exLast : Episode Nat :=
  .run 0 [(1, [Arg.dict [("a", 1), ("b", 2)], Arg.dictList [[("a", 3), ("b", 4)], [("a", 5), ("b", 6)]]]),
          (2, [Arg.frame ⟨["a", "b"], [[("a", 7), ("b", 8)]]⟩]),
          (1, [Arg.dict [("a", 9), ("b", 10)]])]

theorem exLast_wf : exLast.WF ["a", "b"] exObjs := by
  refine ⟨by decide, ?_⟩
  intro seg hseg
  simp only [List.mem_cons, List.mem_nil_iff, or_false] at hseg
  rcases hseg with rfl | rfl | rfl
  · refine ⟨(Kind.dicts, 2), rfl, ?_⟩
    intro a ha
    simp only [List.mem_cons, List.mem_nil_iff, or_false] at ha
    rcases ha with rfl | rfl <;> simp [ArgWF, okind, argOK, Arg.rows, rowKeys]
  · refine ⟨(Kind.dataframe, 3), rfl, ?_⟩
    intro a ha
    simp only [List.mem_singleton] at ha
    subst ha
    simp [ArgWF, okind, argOK, Arg.rows, Arg.names, rowKeys]
  · refine ⟨(Kind.dicts, 2), rfl, ?_⟩
    intro a ha
    simp only [List.mem_singleton] at ha
    subst ha
    simp [ArgWF, okind, argOK, Arg.rows, rowKeys]

example : ∀ e ∈ exEps, e.WF ["a", "b"] exObjs := by
  intro e he
  simp only [exEps, List.mem_cons, List.mem_nil_iff, or_false] at he
  rcases he with rfl | rfl
  · refine ⟨by decide, ?_⟩
    intro seg hseg
    simp only [List.mem_singleton] at hseg
    subst hseg
    refine ⟨(Kind.dataframe, 3), rfl, ?_⟩
    intro a ha
    simp only [List.mem_singleton] at ha
    subst ha
    simp [ArgWF, okind, argOK, Arg.rows, Arg.names, rowKeys]
  · exact ⟨by decide, rfl, by simp [rowKeys]⟩

/-- hypotheses of `C13_computed_reader_dependent`: a function of the cell under `"a"` and the index label -/
example : ∀ (i : Nat) (x y : Row Nat), (∀ d ∈ ["a"], List.lookup d x = List.lookup d y) →
    (fun (j : Nat) (r : Row Nat) => 100 * j + (r.lookup "a").getD 0) i x
      = (fun (j : Nat) (r : Row Nat) => 100 * j + (r.lookup "a").getD 0) i y := by
  intro i x y h
  simp only [h "a" (by simp)]

/-! ## Evaluation tests (`#guard`) -/

-- the last run wins: rows of all its segments in call order, whichever object appended them
#guard (runCalls (csvWriter ["a", "b"]) (csvWrite1 ["a", "b"]) exObjs (some ⟨["old"], [[99]]⟩)
          ((exEps ++ [exLast]).flatMap Episode.calls)).map (fun st => st.2) ==
  some (some ⟨["a", "b"], [[1, 2], [3, 4], [5, 6], [7, 8], [9, 10]]⟩)
-- every object's buffer is empty afterwards (object 1 keeps an empty list, object 2 was reset by its forced flush)
#guard (runCalls (csvWriter ["a", "b"]) (csvWrite1 ["a", "b"]) exObjs none
          ((exEps ++ [exLast]).flatMap Episode.calls)).map (fun st => st.1.map bufRows) == some [[], [], []]
-- the same object twice: the second `with` block replaces the file
#guard (runCalls (csvWriter ["a"]) (csvWrite1 ["a"]) [(Kind.dataframe, 3)] none
          ([Use.session [Arg.frame ⟨["a"], [[("a", 1)], [("a", 2)]]⟩],
            Use.session [Arg.frame ⟨["a"], [[("a", 3)]]⟩]].flatMap (fun u => (Use.episode 0 u).calls))).map
        (fun st => st.2) == some (some ⟨["a"], [[3]]⟩)
-- Parquet: append after finalize (closed writer) raises; a second `initialize()` starts a new file
#guard (runCalls (pqWriter ["a"]) (pqWrite1 ["a"]) [(Kind.dataframe, 0)] none
          [(0, Call.init), (0, Call.fin), (0, Call.app (Arg.frame ⟨["a"], [[("a", 1)]]⟩))]).isNone
#guard ((runCalls (pqWriter ["a"]) (pqWrite1 ["a"]) [(Kind.records, 2)] none
          ([Use.session [Arg.record [("a", 1)], Arg.record [("a", 2)], Arg.record [("a", 3)]],
            Use.write ⟨["a"], [[("a", 7)]]⟩,
            Use.session [Arg.record [("a", 4)]]].flatMap (fun u => (Use.episode 0 u).calls))).map
        (fun st => st.2.map (fun d => (d.file.groups, d.isOpen)))) == some (some ([[[4]]], false))
-- a call on an object that does not exist raises
#guard (runCalls (csvWriter ["a"]) (csvWrite1 ["a"]) [(Kind.dataframe, 0)] none [(1, (Call.init : Call Nat))]).isNone
-- options omitted: unbuffered, frames only
#guard ((runSess (fromSuffixDefault (csvWriter ["a"])) (none, none) [Arg.frame ⟨["a"], [[("a", 1)]]⟩]).map (fun p => p.2))
  == some (some ⟨["a"], [[1]]⟩)
#guard (runSess (fromSuffixDefault (csvWriter ["a"])) (none, none) [Arg.dict [("a", 1)]]).isNone

end Mk.Tabular
