import MokapotVerif.Lemmas.DecoysCalls
import MokapotVerif.Props.C18
/-!
# C18, second pass — "any RNG state": which lengths get a permutation and how often the
generator is asked, declaratively

`Props/C18.lean` follows the `perms` dict step by step (`makeDecoysS`) and bounds one run of the
retry loop.  Here the outcome of a whole `make_decoys` call is characterised without running
the loops: the dict ends up with exactly one entry per *different* peptide-interior length
`≥ 2` of the proteins of the call (`neededLensAll`), and the number of
`np.random.permutation` calls lies between one and a hundred per such length — a hundred for a
generator state in which every draw is the identity (the branch `tries < 100` of
fasta.py:406 gives up; the decoy then *is* the target), one for a generator that never
returns the identity.  These are the states the correspondence run scripts on the real code.
-/
namespace Mk.Decoys

/-- **one permutation per needed length, and no other**: after the call the keys of the dict
are the different interior lengths `≥ 2` in order of first need (newest first), each once -/
theorem C18_dict_keys (reverse : Bool) (rng : Nat → Nat → List Nat) (ends : List Char → List Nat)
    (ts : List (List Char × List Char)) :
    dkeys (stateAfterProteins reverse rng ends ts drawState0).1 = keysAfter (neededLensAll ends ts) [] ∧
    (dkeys (stateAfterProteins reverse rng ends ts drawState0).1).Nodup ∧
    (∀ n, n ∈ dkeys (stateAfterProteins reverse rng ends ts drawState0).1 ↔ n ∈ neededLensAll ends ts) ∧
    (dkeys (stateAfterProteins reverse rng ends ts drawState0).1).length = distinctLens (neededLensAll ends ts) := by
  have h := stateAfterProteins_keys reverse rng ends ts drawState0
  have h0 : dkeys drawState0.1 = [] := rfl
  rw [h0] at h
  refine ⟨h, ?_, ?_, ?_⟩
  · rw [h]; exact keysAfter_nodup _ _ List.nodup_nil
  · intro n; rw [h, mem_keysAfter]; simp
  · rw [h]; rfl

/-- **number of generator calls of a shuffling call**: at least one and at most a hundred per
different interior length, for every generator -/
theorem C18_generator_calls_bounds (rng : Nat → Nat → List Nat) (ends : List Char → List Nat)
    (ts : List (List Char × List Char)) :
    distinctLens (neededLensAll ends ts) ≤ (stateAfterProteins false rng ends ts drawState0).2 ∧
    (stateAfterProteins false rng ends ts drawState0).2 ≤ 100 * distinctLens (neededLensAll ends ts) := by
  have := calls_between (cost_shuffle rng) ends ts
  omega

/-- a generator that never returns the identity (for `n ≥ 2`) is asked exactly once per
different interior length -/
theorem C18_generator_never_identity {rng : Nat → Nat → List Nat}
    (hne : ∀ k n, 2 ≤ n → rng k n ≠ List.range n) (ends : List Char → List Nat)
    (ts : List (List Char × List Char)) :
    (stateAfterProteins false rng ends ts drawState0).2 = distinctLens (neededLensAll ends ts) := by
  have := calls_between (cost_never_id hne) ends ts
  omega

/-- **the retry loop gives up**: under a generator state in which every draw is the identity,
`make_decoys` asks exactly a hundred times per different interior length, keeps the identity,
and writes decoys whose sequences are the target sequences (all clauses of C18 hold trivially,
the decoy is useless — the code accepts that after 100 tries). -/
theorem C18_generator_gives_up {rng : Nat → Nat → List Nat} (hid : ∀ k n, rng k n = List.range n)
    (pre : List Char) {ends : List Char → List Nat} (he : EndsOK ends) (concat : Bool) (w : Nat)
    (old : Option (List Char)) (files : List (List Char)) (ts : List (List Char × List Char))
    (hparse : parseFasta files = some ts) :
    makeDecoysS false rng pre ends concat w old files
      = some (renderFasta w ((if concat then ts else []) ++ ts.map (fun t => (pre ++ t.1, t.2))),
              100 * distinctLens (neededLensAll ends ts)) := by
  rw [(C18_draws_refine false rng pre ends concat w old files).1 ts hparse, famOfDict_all_id hid]
  have hcount : (stateAfterProteins false rng ends ts drawState0).2
      = 100 * distinctLens (neededLensAll ends ts) := by
    have := calls_between (cost_all_id hid) ends ts
    omega
  have hspec : ts.map (decoySpecE idFam pre ends) = ts.map (fun t => (pre ++ t.1, t.2)) := by
    apply List.map_congr_left
    intro t _
    unfold decoySpecE
    rw [specLoop_id]
  unfold makeDecoysE decoyEntriesE
  rw [hparse]
  simp only [Option.bind_some, shuffleProteinsE_closed idFam_family pre he, Option.map_some, hspec, hcount]
  cases concat <;> simp

/-- the executable spec of the call count (driver op `spec-C18-calls`) accepts what the model
does, for every generator; `allId` / `noneId` may be claimed only for generators of that kind -/
theorem C18_calls_checker_sound (reverse : Bool) (rng : Nat → Nat → List Nat) (ends : List Char → List Nat)
    (ts : List (List Char × List Char)) (allId noneId : Bool)
    (hall : allId = true → ∀ k n, rng k n = List.range n)
    (hnone : noneId = true → ∀ k n, 2 ≤ n → rng k n ≠ List.range n) :
    callsOK reverse (neededLensAll ends ts) (stateAfterProteins reverse rng ends ts drawState0).2
      allId noneId = true := by
  unfold callsOK
  cases reverse with
  | true =>
    simp only [if_true, beq_iff_eq]
    exact (C18_draws_reverse rng ends ts).2
  | false =>
    simp only [Bool.false_eq_true, if_false, Bool.and_eq_true, decide_eq_true_eq, Bool.or_eq_true,
      Bool.not_eq_true', beq_iff_eq]
    have hb := C18_generator_calls_bounds rng ends ts
    refine ⟨⟨⟨hb.1, hb.2⟩, ?_⟩, ?_⟩
    · cases allId with
      | false => exact Or.inl rfl
      | true =>
        right
        have := calls_between (cost_all_id (hall rfl)) ends ts
        omega
    · cases noneId with
      | false => exact Or.inl rfl
      | true => exact Or.inr (C18_generator_never_identity (hnone rfl) ends ts)

/-! ## Non-vacuity -/

/-- a generator that never returns the identity for `n ≥ 2` -/
example : ∀ k n, 2 ≤ n → (fun (_ : Nat) n => rot n) k n ≠ List.range n := by
  intro k n h2 h
  change rot n = List.range n at h
  obtain ⟨m, rfl⟩ : ∃ m, n = m + 2 := ⟨n - 2, by omega⟩
  have := congrArg List.head? h
  simp [rot, List.range_succ_eq_map] at this
example : ∀ k n, (fun (_ : Nat) n => List.range n) k n = List.range n := fun _ _ => rfl

-- evaluation tests (compiler-evaluated: *tests*, not theorems)
#guard neededLens [0, 2, 9, 14, 19] == [5, 3, 3]
#guard neededLens [0, 3, 3, 4, 6] == []
#guard keysAfter [5, 3, 3, 7, 5] [] == [7, 3, 5]
#guard distinctLens [5, 3, 3, 7, 5] == 3
#guard neededLensAll (matchEnds kr noBlock 0) [("a".toList, "MKAAAAAAKBBBBRCCCCC".toList), ("b".toList, "AAAAAAA".toList)]
    == [5, 3, 3, 5]
-- the always-identity generator: 100 calls per different length (2 lengths), decoy = target
#guard (makeDecoysS false (fun _ n => List.range n) "d_".toList (matchEnds kr noBlock 0) true 70 none
    [">x\nABCDEFGHKXYZWK\n>y\nABCDEFGHK".toList]).map (fun r => (String.ofList r.1, r.2))
  == some (">x\nABCDEFGHKXYZWK\n>y\nABCDEFGHK\n>d_x\nABCDEFGHKXYZWK\n>d_y\nABCDEFGHK", 200)
#guard callsOK false [7, 3, 7] 200 true false
#guard !callsOK false [7, 3, 7] 199 true false
#guard callsOK false [7, 3, 7] 2 false true
#guard !callsOK false [7, 3, 7] 3 false true
#guard callsOK false [7, 3, 7] 57 false false
#guard !callsOK false [7, 3, 7] 1 false false
#guard !callsOK false [7, 3, 7] 201 false false
#guard callsOK true [7, 3, 7] 0 false false
#guard !callsOK true [7, 3, 7] 1 false false

end Mk.Decoys
