import MokapotVerif.Lemmas.DecoysAnyInput
import MokapotVerif.Props.C18Input
/-!
# C18, third pass — "all FASTA inputs": empty files, blank lines before the first record

`Props/C18Input.lean` proves the reader correct on files that *begin* with a record, and the
list of files had to be non-empty.  On the code as it was (fasta.py:332,
`"\n".join(fasta)[1:].split("\n>")`) that restriction was not a weakness of the proof but a
defect of the code: an empty first file or a leading blank line made `[1:]` remove the line break
instead of the `>`, the first target was named `>p1` (written `>>p1`, decoy `>decoy_>p1`), two
leading blank lines or only empty files raised `IndexError` (finding D50, repaired in /repo
f95d0dc; the old line is the refuted variant `parseFastaFilesDropFirstChar`).  The theorems below
are about the repaired line and have no such side condition: a file is any number of blank lines
followed by any number of records (`FastaFile`), any number of files (none, too).
-/
namespace Mk.Decoys

/-- **all FASTA inputs**: any number of files (also none), each empty, or blank lines only, or
blank lines followed by records, each with its own newline convention: the reader returns
`(name, concatenated lines)` of every record, in file and record order. -/
theorem C18_fasta_input_parse_any (fss : List (Eol × FastaFile))
    (hok : ∀ p ∈ fss, ∀ r ∈ p.2.recs, RecOK r) :
    parseFastaInput fss = some (fastaInputEntries (fss.map (·.2))) :=
  parseFastaInput_eq fss hok

/-- **only the records matter**: two inputs with the same records in the same order — however
they are distributed over files, whichever files are empty, however many blank lines precede the
first record of a file, whatever the newline conventions — are read alike. -/
theorem C18_input_depends_on_records_only (fss gss : List (Eol × FastaFile))
    (hf : ∀ p ∈ fss, ∀ r ∈ p.2.recs, RecOK r) (hg : ∀ p ∈ gss, ∀ r ∈ p.2.recs, RecOK r)
    (h : (fss.map (·.2)).flatMap (·.recs) = (gss.map (·.2)).flatMap (·.recs)) :
    parseFastaInput fss = parseFastaInput gss := by
  rw [C18_fasta_input_parse_any fss hf, C18_fasta_input_parse_any gss hg]
  unfold fastaInputEntries
  rw [h]

/-- **the repair changed nothing for inputs that begin with `>`**: there the reader is literally
the former line, `"\n".join(texts)[1:].split("\n>")` (so every theorem of the earlier passes, and
every other property that reads FASTA files beginning with a record, is unaffected) -/
theorem C18_reader_same_on_headed_input (files : List (List Char))
    (h : (joinWith ['\n'] (files.map univNL)).head? = some '>') :
    parseFastaFiles files = splitRecords ((joinWith ['\n'] (files.map univNL)).drop 1) :=
  parseFastaFiles_headed files h

/-- **text before the first record is no record**: whatever precedes the first line that begins
with `>` (blank lines, `;` comment lines of the old FASTA convention — anything without `>`) is
dropped, the records are those of the text from that line on -/
theorem C18_reader_ignores_text_before_first_record (P X : List Char) (hP : '>' ∉ P)
    (hcP : '\r' ∉ P) (hcX : '\r' ∉ X) :
    parseFastaFiles [P ++ '\n' :: '>' :: X] = splitRecords X ∧
    parseFastaFiles [P ++ '\n' :: '>' :: X] = parseFastaFiles ['>' :: X] := by
  have hc : '\r' ∉ P ++ '\n' :: '>' :: X := by
    intro hm
    rcases List.mem_append.mp hm with hm | hm
    · exact hcP hm
    · simp only [List.mem_cons] at hm
      rcases hm with hm | hm | hm
      · exact absurd hm (by decide)
      · exact absurd hm (by decide)
      · exact hcX hm
  have hc2 : '\r' ∉ '>' :: X := by
    intro hm
    rcases List.mem_cons.mp hm with hm | hm
    · exact absurd hm (by decide)
    · exact hcX hm
  have h1 : parseFastaFiles [P ++ '\n' :: '>' :: X] = splitRecords X := by
    unfold parseFastaFiles
    simp only [List.map_cons, List.map_nil, joinWith]
    rw [univNL_id _ hc, ← List.cons_append, splitRecords_append_sep,
      splitRecords_last ('\n' :: P) (by
        intro hm
        rcases List.mem_cons.mp hm with hm | hm
        · exact absurd hm (by decide)
        · exact hP hm)]
    rfl
  refine ⟨h1, ?_⟩
  rw [h1, parseFastaFiles_headed ['>' :: X] (by simp [joinWith, univNL_id _ hc2])]
  simp [joinWith, univNL_id _ hc2]

/-- **`make_decoys` on any FASTA input, any RNG state, any enzyme** — no hypothesis about the
reader and none about which files are empty or begin with blank lines: the call succeeds, and
re-reading what it wrote yields the proteins of the input records (concatenated mode) followed by
one decoy per record, `prefix + name` with the peptide-wise shuffled sequence, accepted by the
file-level checker. -/
theorem C18_make_decoys_on_any_fasta_input (reverse : Bool) {rng : Nat → Nat → List Nat} (hr : RngOK rng)
    (pre : List Char) (hpre : NameOK pre) {ends : List Char → List Nat} (he : EndsOK ends)
    (concat : Bool) (w : Nat) (hw : 1 ≤ w) (old : Option (List Char))
    (fss : List (Eol × FastaFile)) (hok : ∀ p ∈ fss, ∀ r ∈ p.2.recs, RecOK r) :
    ∃ out k perms, makeDecoysS reverse rng pre ends concat w old
          (fss.map (fun p => encodeEol p.1 p.2.text)) = some (out, k) ∧
      PermFamily perms ∧ (reverse = true → perms = revPerm ∧ k = 0) ∧
      parseFasta [out] = some ((if concat then fastaInputEntries (fss.map (·.2)) else []) ++
        (fastaInputEntries (fss.map (·.2))).map (decoySpecE perms pre ends)) ∧
      fileOK pre (cleavageSitesOf ends) none reverse concat (fastaInputEntries (fss.map (·.2)))
        ((if concat then fastaInputEntries (fss.map (·.2)) else []) ++
          (fastaInputEntries (fss.map (·.2))).map (decoySpecE perms pre ends)) = true := by
  apply C18_make_decoys_any_rng reverse hr pre hpre he concat w hw old _ _
    (C18_fasta_input_parse_any fss hok)
  intro t ht
  unfold fastaInputEntries at ht
  obtain ⟨r, hr', rfl⟩ := List.mem_map.mp ht
  obtain ⟨f, hf, hrf⟩ := List.mem_flatMap.mp hr'
  obtain ⟨p, hp, rfl⟩ := List.mem_map.mp hf
  intro hm
  obtain ⟨l, hl, hml⟩ := List.mem_flatten.mp hm
  exact ((hok p hp r hrf).2.2.1 l hl _ hml).2 rfl

/-- **an input without any record** (no file, empty files, files of blank lines): the call
succeeds, writes an empty file — replacing whatever was there — and asks the generator nothing
(before the repair: `IndexError`) -/
theorem C18_no_record_input_writes_empty_file (reverse : Bool) (rng : Nat → Nat → List Nat)
    (pre : List Char) (ends : List Char → List Nat) (concat : Bool) (w : Nat) (old : Option (List Char))
    (fss : List (Eol × FastaFile)) (h : ∀ p ∈ fss, p.2.recs = []) :
    makeDecoysS reverse rng pre ends concat w old (fss.map (fun p => encodeEol p.1 p.2.text))
      = some ([], 0) := by
  have hparse : parseFasta (fss.map (fun p => encodeEol p.1 p.2.text)) = some [] := by
    have := C18_fasta_input_parse_any fss (fun p hp r hr => by rw [h p hp] at hr; simp at hr)
    unfold parseFastaInput at this
    rw [this]
    unfold fastaInputEntries
    have : (fss.map (·.2)).flatMap (·.recs) = [] := by
      rw [List.flatMap_eq_nil_iff]
      intro f hf
      obtain ⟨p, hp, rfl⟩ := List.mem_map.mp hf
      exact h p hp
    rw [this]; rfl
  unfold makeDecoysS
  rw [hparse]
  cases concat <;> rfl

/-! ## Non-vacuity -/

/-- an empty file, a file of two blank lines, a file with one leading blank line and two records
(CR-LF line ends), an empty file, a file that begins with a record -/
def inputA : List (Eol × FastaFile) :=
  [(Eol.lf, ⟨0, []⟩), (Eol.cr, ⟨2, []⟩), (Eol.crlf, ⟨1, [recA, recB]⟩), (Eol.lf, ⟨0, []⟩), (Eol.lf, ⟨0, [recC]⟩)]

example : ∀ p ∈ inputA, ∀ r ∈ p.2.recs, RecOK r := by
  unfold inputA
  intro p hp r hr
  simp only [List.mem_cons, List.not_mem_nil, or_false] at hp
  rcases hp with rfl | rfl | rfl | rfl | rfl <;> simp at hr
  · rcases hr with rfl | rfl
    · unfold RecOK recA NameOK BreakFree SeqOK FastaRec.header descText; decide
    · unfold RecOK recB NameOK BreakFree SeqOK FastaRec.header descText; decide
  · subst hr
    unfold RecOK recC NameOK BreakFree SeqOK FastaRec.header descText; decide
example : ∀ p ∈ [(Eol.lf, (⟨0, []⟩ : FastaFile)), (Eol.crlf, ⟨3, []⟩)], p.2.recs = [] := by decide
example : '>' ∉ "; a comment line\n".toList ∧ '\r' ∉ "; a comment line\n".toList := by decide

-- evaluation tests (compiler-evaluated: *tests*, not theorems)
#guard (inputA.map (fun p => String.ofList (encodeEol p.1 p.2.text)))
  == ["", "\r\r", "\r\n>sp|A first > protein\r\nMKAAAK\r\n\r\nBBR\r\n\r\n>b", "", "> x\nKK"]
#guard parseFastaInput inputA
  == some [("sp|A".toList, "MKAAAKBBR".toList), ("b".toList, []), ([], "KK".toList)]
#guard parseFastaInput [] == some []
#guard parseFastaInput [(Eol.lf, ⟨0, []⟩)] == some []
#guard parseFastaFiles ["; comment\n>a\nAB".toList] == ["a\nAB".toList]
#guard (makeDecoysS true (fun _ n => List.range n) "decoy_".toList (matchEnds (fun c => c = 'K') noBlock 0)
    true 70 (some "old".toList) (inputA.map (fun p => encodeEol p.1 p.2.text))).map (fun r => (String.ofList r.1, r.2))
  == some (">sp|A\nMKAAAKBBR\n>b\n\n>\nKK\n>decoy_sp|A\nMKAAAKBBR\n>decoy_b\n\n>decoy_\nKK", 0)

end Mk.Decoys
