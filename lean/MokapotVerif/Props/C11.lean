import MokapotVerif.Lemmas.CalibrateFolds
/-!
# C11 — Per-fold score calibration is order-preserving and anchors 0 and −1

Property theorems only.  `calibrate desc thr xs` is the model of
`calibrate_scores(scores, targets, eval_fdr, desc)` (and of
`OnDiskPsmDataset.calibrate_scores`) on rows `(score, is_target)`; `brew` always calls it
with `desc = true`.  The *accepted* targets are those whose defining-formula q-value
(`qSpec`, the specification of C01) is at most `thr`; `t` is the lowest accepted target
score, `m` the median of the decoy scores.  The property's quantifier "every fold accepts
at least one target above the decoy median" is the hypothesis `m < t`.
-/
namespace Mk.Calibrate

/-! ## The explicit error -/

/-- `calibrate_scores` raises its RuntimeError exactly when no target is accepted at the
evaluation FDR (in particular for an input without targets or without rows). -/
theorem C11_calib_error_iff (desc : Bool) (thr : Rat) (xs : List (Rat × Bool)) :
    calibrate desc thr xs = Except.error CalErr.noPositive ↔
      ∀ x ∈ xs, x.2 = true → thr < qSpec (calLe desc) xs x.1 := by
  rw [calibrate_error_iff, List.eq_nil_iff_forall_not_mem]
  constructor
  · intro h x hx hx2
    by_contra hq
    exact h x.1 ((mem_accepted desc thr xs x.1).mpr ⟨x, hx, rfl, hx2, not_lt.mp hq⟩)
  · intro h s hs
    obtain ⟨x, hx, _, hx2, hq⟩ := (mem_accepted desc thr xs s).mp hs
    exact absurd hq (not_le.mpr (h x hx hx2))

/-- ... and otherwise it returns one score per row: scores are returned iff some target
is accepted; no other error exists. -/
theorem C11_calib_returns_iff (desc : Bool) (thr : Rat) (xs : List (Rat × Bool)) :
    (∃ out, calibrate desc thr xs = Except.ok out ∧ out.length = xs.length) ↔
      ∃ x ∈ xs, x.2 = true ∧ qSpec (calLe desc) xs x.1 ≤ thr := by
  constructor
  · rintro ⟨out, hout, _⟩
    by_contra hno
    have : calibrate desc thr xs = Except.error CalErr.noPositive := by
      rw [C11_calib_error_iff]
      intro x hx hx2
      by_contra hq
      exact hno ⟨x, hx, hx2, not_lt.mp hq⟩
    rw [this] at hout
    cases hout
  · rintro ⟨x, hx, hx2, hq⟩
    have hne : accepted desc thr xs ≠ [] :=
      List.ne_nil_of_mem ((mem_accepted desc thr xs x.1).mpr ⟨x, hx, rfl, hx2, hq⟩)
    obtain ⟨t, ht⟩ := exists_least_of_ne_nil hne
    exact ⟨_, calibrate_ok desc thr xs t ht, by simp⟩

/-! ## The ingredients computed by the code are the declared ones -/

/-- `np.median` as modelled (sort, middle element or mean of the two middle elements)
returns the median in the order-statistic sense, and nothing for the empty list. -/
theorem C11_median_spec (l : List Rat) :
    (median l = none ↔ l = []) ∧ ∀ m, median l = some m ↔ (l ≠ [] ∧ IsMedianOf l m) := by
  refine ⟨median_eq_none l, fun m => ⟨fun h => ⟨?_, median_spec h⟩, fun h => median_of_isMedianOf h.1 h.2⟩⟩
  intro h0
  rw [(median_eq_none l).mpr h0] at h
  cases h

/-- the anchor `t` used by the code is the lowest score among the accepted targets, and it
is the score of an actual accepted target row. -/
theorem C11_anchor_is_lowest_accepted (desc : Bool) (thr : Rat) (xs : List (Rat × Bool)) (t : Rat)
    (ht : minList (accepted desc thr xs) = some t) :
    (∃ x ∈ xs, x.1 = t ∧ x.2 = true ∧ qSpec (calLe desc) xs x.1 ≤ thr) ∧
      ∀ x ∈ xs, x.2 = true → qSpec (calLe desc) xs x.1 ≤ thr → t ≤ x.1 := by
  obtain ⟨h1, h2⟩ := minList_isLeast ht
  refine ⟨(mem_accepted desc thr xs t).mp h1, fun x hx hx2 hq => h2 x.1 ?_⟩
  exact (mem_accepted desc thr xs x.1).mpr ⟨x, hx, rfl, hx2, hq⟩

/-! ## The returned scores are the defining formula -/

/-- Main theorem (function level): with `t` the lowest accepted target and `m` the decoy
median, `t ≠ m`, the code returns exactly `(s - t) / (t - m)` for every row, in input order. -/
theorem C11_calib_eq_formula (desc : Bool) (thr : Rat) (xs : List (Rat × Bool)) (t m : Rat)
    (ht : IsLeastOf (accepted desc thr xs) t) (hm : IsMedianOf (decoys xs) m) (htm : t ≠ m) :
    calibrate desc thr xs = Except.ok (xs.map (fun x => XR.fin (calF t m x.1))) := by
  have hne : decoys xs ≠ [] := by
    intro h0
    obtain ⟨a, _, ha, _⟩ := hm
    rw [h0] at ha
    exact absurd ha.1 (by simp)
  rw [calibrate_ok desc thr xs t ht, median_of_isMedianOf hne hm]
  congr 1
  apply List.map_congr_left
  intro x _
  exact calOne_ne t m x.1 htm

/-- the returned scores are an affine function `a·s + b` of the raw scores with slope
`a = 1/(t − m)` -/
theorem C11_calib_affine (desc : Bool) (thr : Rat) (xs : List (Rat × Bool)) (t m : Rat)
    (ht : IsLeastOf (accepted desc thr xs) t) (hm : IsMedianOf (decoys xs) m) (htm : t ≠ m) :
    ∃ a b : Rat, a = 1 / (t - m) ∧ b = -t / (t - m) ∧
      calibrate desc thr xs = Except.ok (xs.map (fun x => XR.fin (a * x.1 + b))) := by
  refine ⟨1 / (t - m), -t / (t - m), rfl, rfl, ?_⟩
  rw [C11_calib_eq_formula desc thr xs t m ht hm htm]
  congr 1
  apply List.map_congr_left
  intro x _
  rw [calF_affine]

/-- Inside the property's quantifier (`m < t`: an accepted target lies above the decoy
median) the returned scores are a strictly increasing function of the raw scores that
sends the lowest accepted target to 0 and the decoy median to −1. -/
theorem C11_calib_strictMono (desc : Bool) (thr : Rat) (xs : List (Rat × Bool)) (t m : Rat)
    (ht : IsLeastOf (accepted desc thr xs) t) (hm : IsMedianOf (decoys xs) m) (htm : m < t) :
    ∃ f : Rat → Rat, StrictMono f ∧ f t = 0 ∧ f m = -1 ∧
      calibrate desc thr xs = Except.ok (xs.map (fun x => XR.fin (f x.1))) :=
  ⟨calF t m, calF_strictMono t m htm, calF_anchor_zero t m, calF_anchor_neg_one t m (ne_of_gt htm),
    C11_calib_eq_formula desc thr xs t m ht hm (ne_of_gt htm)⟩

/-- stated on the returned list: one finite score per row, and for any two rows the
calibrated scores compare exactly as the raw scores do (same ranking, ties preserved). -/
theorem C11_calib_order_preserved (desc : Bool) (thr : Rat) (xs : List (Rat × Bool)) (t m : Rat)
    (ht : IsLeastOf (accepted desc thr xs) t) (hm : IsMedianOf (decoys xs) m) (htm : m < t)
    (out : List XR) (hout : calibrate desc thr xs = Except.ok out) :
    out.length = xs.length ∧
    ∀ i j (hi : i < xs.length) (hj : j < xs.length), ∃ a b : Rat,
      out[i]? = some (XR.fin a) ∧ out[j]? = some (XR.fin b) ∧
      (a < b ↔ xs[i].1 < xs[j].1) ∧ (a = b ↔ xs[i].1 = xs[j].1) := by
  rw [C11_calib_eq_formula desc thr xs t m ht hm (ne_of_gt htm)] at hout
  cases hout
  refine ⟨by simp, fun i j hi hj => ⟨calF t m xs[i].1, calF t m xs[j].1, by simp [hi], by simp [hj], ?_, ?_⟩⟩
  · exact (calF_strictMono t m htm).lt_iff_lt
  · exact (calF_strictMono t m htm).injective.eq_iff

/-- the anchors, stated on rows: some accepted target row has score `t`; every row scoring
`t` is returned as 0, every row scoring the decoy median as −1; rows above `t` are positive,
rows below the decoy median are below −1. -/
theorem C11_calib_anchors (desc : Bool) (thr : Rat) (xs : List (Rat × Bool)) (t m : Rat)
    (ht : IsLeastOf (accepted desc thr xs) t) (hm : IsMedianOf (decoys xs) m) (htm : m < t)
    (out : List XR) (hout : calibrate desc thr xs = Except.ok out) :
    (∃ i, ∃ hi : i < xs.length, xs[i].2 = true ∧ qSpec (calLe desc) xs xs[i].1 ≤ thr ∧ xs[i].1 = t ∧
        out[i]? = some (XR.fin 0)) ∧
    ∀ i (hi : i < xs.length), ∃ a : Rat, out[i]? = some (XR.fin a) ∧
      (xs[i].1 = t → a = 0) ∧ (xs[i].1 = m → a = -1) ∧ (t < xs[i].1 ↔ 0 < a) ∧ (xs[i].1 < m ↔ a < -1) := by
  rw [C11_calib_eq_formula desc thr xs t m ht hm (ne_of_gt htm)] at hout
  cases hout
  have hmono := calF_strictMono t m htm
  constructor
  · obtain ⟨x, hx, hxt, hx2, hq⟩ := (mem_accepted desc thr xs t).mp ht.1
    obtain ⟨i, hi, rfl⟩ := List.getElem_of_mem hx
    exact ⟨i, hi, hx2, hq, hxt, by simp [hi, hxt, calF_anchor_zero]⟩
  · intro i hi
    refine ⟨calF t m xs[i].1, by simp [hi], ?_, ?_, ?_, ?_⟩
    · intro h; rw [h, calF_anchor_zero]
    · intro h; rw [h, calF_anchor_neg_one t m (ne_of_gt htm)]
    · rw [← calF_anchor_zero t m]; exact hmono.lt_iff_lt.symm
    · rw [← calF_anchor_neg_one t m (ne_of_gt htm)]; exact hmono.lt_iff_lt.symm

/-- "the ranking inside a fold is exactly the model's ranking": target-decoy q-values (C01)
computed from the calibrated scores equal those computed from the raw scores, row by row. -/
theorem C11_calib_ranking_preserved (thr : Rat) (xs : List (Rat × Bool)) (t m : Rat)
    (ht : IsLeastOf (accepted true thr xs) t) (hm : IsMedianOf (decoys xs) m) (htm : m < t) :
    ∃ ys : List Rat, calibrate true thr xs = Except.ok (ys.map XR.fin) ∧ ys.length = xs.length ∧
      tdc (calLe true) (ys.zip (xs.map (fun x => x.2))) = tdc (calLe true) xs := by
  refine ⟨xs.map (fun x => calF t m x.1), ?_, by simp, ?_⟩
  · rw [C11_calib_eq_formula true thr xs t m ht hm (ne_of_gt htm), List.map_map]; rfl
  · have : (xs.map (fun x => calF t m x.1)).zip (xs.map (fun x => x.2)) =
        xs.map (fun x => (calF t m x.1, x.2)) := by
      rw [List.zip_map']
    rw [this]
    exact tdc_order_invariant (calLe true) (calLe_totalPre true) (calLe true) (calLe_totalPre true)
      (calF t m) (calLe_strictMono _ (calF_strictMono t m htm)) xs

/-! ## Boundary of the quantifier: what the code does when `m < t` fails -/

/-- `t = m` (lowest accepted target equal to the decoy median): the code divides by zero
and every returned entry is `+inf`, `-inf` or `nan` — no exception. -/
theorem C11_calib_degenerate (desc : Bool) (thr : Rat) (xs : List (Rat × Bool)) (t : Rat)
    (ht : IsLeastOf (accepted desc thr xs) t) (hm : IsMedianOf (decoys xs) t) :
    calibrate desc thr xs = Except.ok (xs.map (fun x =>
      if t < x.1 then XR.pinf else if x.1 < t then XR.ninf else XR.nan)) := by
  have hne : decoys xs ≠ [] := by
    intro h0
    obtain ⟨a, _, ha, _⟩ := hm
    rw [h0] at ha
    exact absurd ha.1 (by simp)
  rw [calibrate_ok desc thr xs t ht, median_of_isMedianOf hne hm]
  congr 1
  apply List.map_congr_left
  intro x _
  exact calOne_eq t x.1

/-- `t < m` (all accepted targets... the lowest accepted target below the decoy median):
the returned scores are a strictly *decreasing* function of the raw scores, so the
hypothesis `m < t` of the order-preservation theorems cannot be dropped. -/
theorem C11_calib_reversed (desc : Bool) (thr : Rat) (xs : List (Rat × Bool)) (t m : Rat)
    (ht : IsLeastOf (accepted desc thr xs) t) (hm : IsMedianOf (decoys xs) m) (htm : t < m) :
    ∃ f : Rat → Rat, StrictAnti f ∧
      calibrate desc thr xs = Except.ok (xs.map (fun x => XR.fin (f x.1))) :=
  ⟨calF t m, calF_strictAnti t m htm, C11_calib_eq_formula desc thr xs t m ht hm (ne_of_lt htm)⟩

/-- a decoy-free input with an accepted target: `np.median([])` is `nan` and so is every
returned entry. -/
theorem C11_calib_no_decoy (desc : Bool) (thr : Rat) (xs : List (Rat × Bool))
    (hacc : ∃ x ∈ xs, x.2 = true ∧ qSpec (calLe desc) xs x.1 ≤ thr) (hd : ∀ x ∈ xs, x.2 = true) :
    calibrate desc thr xs = Except.ok (xs.map (fun _ => XR.nan)) := by
  obtain ⟨x, hx, hx2, hq⟩ := hacc
  have hne : accepted desc thr xs ≠ [] :=
    List.ne_nil_of_mem ((mem_accepted desc thr xs x.1).mpr ⟨x, hx, rfl, hx2, hq⟩)
  obtain ⟨t, ht⟩ := exists_least_of_ne_nil hne
  have hdec : decoys xs = [] := by
    unfold decoys
    rw [List.map_eq_nil_iff, List.filter_eq_nil_iff]
    intro y hy
    simp [hd y hy]
  rw [calibrate_ok desc thr xs t ht, hdec, (median_eq_none []).mpr rfl]
  rfl

/-! ## Brew level: `_predict` calibrates every fold with that fold's rows only

`predictFolds c k thr rows` is the model of `mokapot.brew._predict` for one collection: `rows`
are the PSMs in file order, each with the fold of its spectrum, the raw output of that
fold's model and the target flag; `c` is the prediction chunk size, `k` the number of
folds, `thr` the evaluation FDR.  `restrictTo f rows out` are the returned scores of the
rows of fold `f`, `foldOf f rows` these rows' `(raw score, target)` pairs. -/

/-- Per-fold application: whenever `_predict` returns, it returns one score per row, in the
original row order, and the scores of every fold are *exactly* `calibrate_scores` applied to
that fold's raw scores and targets — nothing from other folds enters.  For all chunk sizes
`c ≥ 1`, all numbers of folds, all thresholds, all rows. -/
theorem C11_per_fold_applied (c k : Nat) (thr : Rat) (rows : List FRow) (out : List XR) (hc : 1 ≤ c)
    (h : predictFolds c k thr rows = Except.ok out) :
    out.length = rows.length ∧
      ∀ f, f < k → calibrate true thr (foldOf f rows) = Except.ok (restrictTo f rows out) := by
  obtain ⟨h1, h2⟩ := predictFolds_ok c k thr rows out hc h
  exact ⟨h1, fun f hf => (h2 f hf).2⟩

/-- the prediction chunk size has no influence on the result -/
theorem C11_per_fold_chunk_independent (c c' k : Nat) (thr : Rat) (rows : List FRow) (hc : 1 ≤ c)
    (hc' : 1 ≤ c') : predictFolds c k thr rows = predictFolds c' k thr rows := by
  unfold predictFolds
  simp only [foldRowsChunked_eq c hc, foldRowsChunked_eq c' hc']

/-- The property, per fold: inside the quantifier (fold `f` accepts a target above its decoy
median, `m < t`) the returned scores of fold `f` are a strictly increasing function of that
fold's raw model output, sending the fold's lowest accepted target to 0 and its decoy median
to −1. -/
theorem C11_fold_scores_strictMono (c k : Nat) (thr : Rat) (rows : List FRow) (out : List XR) (hc : 1 ≤ c)
    (h : predictFolds c k thr rows = Except.ok out) (f : Nat) (hf : f < k) (t m : Rat)
    (ht : IsLeastOf (accepted true thr (foldOf f rows)) t) (hm : IsMedianOf (decoys (foldOf f rows)) m)
    (htm : m < t) :
    ∃ g : Rat → Rat, StrictMono g ∧ g t = 0 ∧ g m = -1 ∧
      restrictTo f rows out = (foldOf f rows).map (fun x => XR.fin (g x.1)) := by
  obtain ⟨g, hg, h0, h1, hcal⟩ := C11_calib_strictMono true thr (foldOf f rows) t m ht hm htm
  refine ⟨g, hg, h0, h1, ?_⟩
  have := (C11_per_fold_applied c k thr rows out hc h).2 f hf
  rw [hcal] at this
  simpa using this.symm

/-- the ranking inside a fold is the model's ranking: q-values of the fold computed from the
returned scores equal those computed from the raw scores. -/
theorem C11_fold_ranking_preserved (c k : Nat) (thr : Rat) (rows : List FRow) (out : List XR) (hc : 1 ≤ c)
    (h : predictFolds c k thr rows = Except.ok out) (f : Nat) (hf : f < k) (t m : Rat)
    (ht : IsLeastOf (accepted true thr (foldOf f rows)) t) (hm : IsMedianOf (decoys (foldOf f rows)) m)
    (htm : m < t) :
    ∃ ys : List Rat, restrictTo f rows out = ys.map XR.fin ∧
      tdc (calLe true) (ys.zip ((foldOf f rows).map (fun x => x.2))) = tdc (calLe true) (foldOf f rows) := by
  obtain ⟨ys, hys, _, hq⟩ := C11_calib_ranking_preserved thr (foldOf f rows) t m ht hm htm
  refine ⟨ys, ?_, hq⟩
  have := (C11_per_fold_applied c k thr rows out hc h).2 f hf
  rw [hys] at this
  simpa using this.symm

/-- `_predict` returns scores iff every fold has rows and accepts at least one target at the
evaluation FDR ... -/
theorem C11_brew_returns_iff (c k : Nat) (thr : Rat) (rows : List FRow) (hc : 1 ≤ c) (hk : 1 ≤ k) :
    (∃ out, predictFolds c k thr rows = Except.ok out) ↔
      ∀ f, f < k → foldOf f rows ≠ [] ∧
        ∃ x ∈ foldOf f rows, x.2 = true ∧ qSpec (calLe true) (foldOf f rows) x.1 ≤ thr := by
  rw [predictFolds_ok_iff c k thr rows hc hk]
  apply forall_congr'; intro f
  apply imp_congr_right; intro _
  apply and_congr_right; intro _
  constructor
  · intro hne
    obtain ⟨t, ht⟩ := exists_least_of_ne_nil hne
    obtain ⟨x, hx, _, hx2, hq⟩ := (mem_accepted true thr _ t).mp ht.1
    exact ⟨x, hx, hx2, hq⟩
  · rintro ⟨x, hx, hx2, hq⟩
    exact List.ne_nil_of_mem ((mem_accepted true thr _ x.1).mpr ⟨x, hx, rfl, hx2, hq⟩)

/-- ... and otherwise the run stops with the explicit error instead of returning scores:
with every fold non-empty, `_predict` raises the calibration RuntimeError exactly when some
fold accepts no target at the evaluation FDR. -/
theorem C11_brew_stops_on_error (c k : Nat) (thr : Rat) (rows : List FRow) (hc : 1 ≤ c) (hk : 1 ≤ k)
    (hne : ∀ f, f < k → foldOf f rows ≠ []) :
    predictFolds c k thr rows = Except.error CalErr.noPositive ↔
      ∃ f, f < k ∧ ∀ x ∈ foldOf f rows, x.2 = true → thr < qSpec (calLe true) (foldOf f rows) x.1 := by
  constructor
  · intro h
    rcases predictFolds_error c k thr rows _ hc h with ⟨he, _⟩ | ⟨_, f, hf, _, hacc⟩
    · cases he
    · refine ⟨f, hf, fun x hx hx2 => ?_⟩
      by_contra hq
      have : x.1 ∈ accepted true thr (foldOf f rows) :=
        (mem_accepted true thr _ x.1).mpr ⟨x, hx, rfl, hx2, not_lt.mp hq⟩
      rw [hacc] at this
      simp at this
  · rintro ⟨f, hf, hno⟩
    cases hp : predictFolds c k thr rows with
    | ok out =>
      exfalso
      obtain ⟨_, x, hx, hx2, hq⟩ := (C11_brew_returns_iff c k thr rows hc hk).mp ⟨out, hp⟩ f hf
      exact absurd hq (not_le.mpr (hno x hx hx2))
    | error e =>
      rcases predictFolds_error c k thr rows e hc hp with ⟨_, h0 | ⟨g, hg, h0⟩⟩ | ⟨he, _⟩
      · omega
      · exact absurd h0 (hne g hg)
      · rw [he]

/-! ## Non-vacuity and evaluation tests -/

/-- a fold inside the quantifier: targets 5, 4 accepted at 1/2 (`t = 4`), decoys 3, 1 (`m = 2`) -/
def exRows : List (Rat × Bool) := [(5, true), (4, true), (3, false), (1, false), (2, true)]

example : IsLeastOf (accepted true (1/2) exRows) 4 ∧ IsMedianOf (decoys exRows) 2 ∧ (2 : Rat) < 4 := by
  refine ⟨minList_isLeast (by decide +kernel), ⟨1, 3, ?_, ?_, by norm_num⟩, by norm_num⟩
  · exact ⟨by decide +kernel, by decide +kernel, by decide +kernel⟩
  · exact ⟨by decide +kernel, by decide +kernel, by decide +kernel⟩

/-- the boundary cases exist as well: `t = m` at threshold 1 on the same rows -/
example : IsLeastOf (accepted true 1 exRows) 2 ∧ IsMedianOf (decoys exRows) 2 := by
  refine ⟨minList_isLeast (by decide +kernel), ⟨1, 3, ?_, ?_, by norm_num⟩⟩
  · exact ⟨by decide +kernel, by decide +kernel, by decide +kernel⟩
  · exact ⟨by decide +kernel, by decide +kernel, by decide +kernel⟩

/-- two folds, chunk size 2 -/
def exFolds : List FRow :=
  [⟨0, 5, true⟩, ⟨1, 30, true⟩, ⟨0, 1, false⟩, ⟨1, 20, false⟩, ⟨1, 90, true⟩, ⟨0, 3, false⟩, ⟨0, 7, true⟩]

-- evaluation tests (compiler-evaluated: *tests*, not theorems)
#guard (match calibrate true (1/2) exRows with
  | Except.ok v => v == [XR.fin (1/2), XR.fin 0, XR.fin (-1/2), XR.fin (-3/2), XR.fin (-1)]
  | _ => false)
#guard (match calibrate true 1 exRows with
  | Except.ok v => v == [XR.pinf, XR.pinf, XR.pinf, XR.ninf, XR.nan]
  | _ => false)
#guard (match calibrate true (1/4) exRows with | Except.error CalErr.noPositive => true | _ => false)
#guard (match calibrate true 1 [(1, true), (2, true)] with | Except.ok v => v == [XR.nan, XR.nan] | _ => false)
#guard (match calibrate false 1 [(1, true), (2, true), (3, false), (5, false)] with
  | Except.ok v => v == [XR.fin 0, XR.fin (-1/3), XR.fin (-2/3), XR.fin (-4/3)] | _ => false)
#guard median [3, 1, 2, 10] == some (5/2)
#guard median [3, 1, 2] == some 2
#guard median [] == none
#guard (match predictFolds 2 2 1 exFolds with
  | Except.ok v => v == [XR.fin 0, XR.fin 0, XR.fin (-4/3), XR.fin (-1), XR.fin 6, XR.fin (-2/3), XR.fin (2/3)]
  | _ => false)
#guard (match predictFolds 100 2 1 exFolds, predictFolds 1 2 1 exFolds with
  | Except.ok v, Except.ok w => v == w | _, _ => false)
#guard (match predictFolds 2 3 1 exFolds with | Except.error CalErr.empty => true | _ => false)
#guard (match predictFolds 2 2 (1/4) exFolds with | Except.error CalErr.noPositive => true | _ => false)
#guard restrictTo 1 exFolds [XR.fin 0, XR.fin 0, XR.fin (-4/3), XR.fin (-1), XR.fin 6, XR.fin (-2/3), XR.fin (2/3)]
  == [XR.fin 0, XR.fin (-1), XR.fin 6]

end Mk.Calibrate
