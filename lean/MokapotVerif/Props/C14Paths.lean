import MokapotVerif.Props.C14
import MokapotVerif.Lemmas.MergePaths
/-!
# C14, second pass — path suffixes and mixed lists, Parquet row groups, ±∞, split invariance of the table merger

Property theorems only.

* `kmergePaths le c files` is `mokapot.utils.merge_sort(paths, …)` on files given as `(suffix, rows)`
  with `MERGE_SORT_CHUNK_SIZE = c`: the row iterator is chosen from the suffix of the *first* path
  (`kmIsParquet`) and applied to every path; a file named `.parquet` holds Parquet data, every other
  file is text.  `none` = the code raises before the first row.
* `kmRowIterGroups g c xs`: the rows of a Parquet file written in row groups of `g` rows and read in
  batches of at most `c` rows that stop at the row-group borders.
* `XScore`, `xle`: float scores that may be ±∞ (no NaN) and IEEE `<=` on them.
-/
namespace Mk.Merge
variable {α : Type}

/-! ## "text or Parquet": the result does not depend on the storage format or the suffix -/

/-- a list of files of one format — all text (with any suffixes, equal or not: `.csv`, `.pin`,
`.tsv`, `.txt`, …) or all Parquet — is merged exactly as its row sequences are: the result is the
same for text and Parquet, for every suffix and every reader chunk size -/
theorem C14_paths_same_format (le : α → α → Bool) (c : Nat) (hc : 0 < c) (b : Bool)
    (files : List (String × List α)) (h : ∀ f ∈ files, kmIsParquet f.1 = b) :
    kmergePaths le c files = kmerge le (files.map (·.2)) := by
  rw [kmergePaths_eq, pathsReadable_of_same b files h, if_pos rfl, kmergeFiles_eq le c hc]

/-- a list whose first path is a text file may also contain Parquet files: every file is then
opened through `TabularDataReader.from_path`, which reads each one according to its own suffix -/
theorem C14_paths_text_first (le : α → α → Bool) (c : Nat) (hc : 0 < c) (s : String) (xs : List α)
    (rest : List (String × List α)) (h : kmIsParquet s = false) :
    kmergePaths le c ((s, xs) :: rest) = kmerge le (xs :: rest.map (·.2)) := by
  rw [kmergePaths_eq, pathsReadable_text_first s xs rest h, if_pos rfl, kmergeFiles_eq le c hc]
  rfl

/-- boundary: `merge_sort` raises before the first row exactly when there is no path, a file has
no row, or the first path is Parquet and some other file is text -/
theorem C14_paths_raises_iff (le : α → α → Bool) (c : Nat) (hc : 0 < c)
    (files : List (String × List α)) :
    kmergePaths le c files = none ↔
      files = [] ∨ (∃ f ∈ files, f.2 = []) ∨
      (kmIsParquet ((files.map (·.1)).headD "") = true ∧ ∃ f ∈ files, kmIsParquet f.1 = false) := by
  rw [kmergePaths_eq]
  cases hr : pathsReadable files with
  | false =>
    simp only [Bool.false_eq_true, if_false, true_iff]
    exact Or.inr (Or.inr ((pathsReadable_false_iff files).mp hr))
  | true =>
    simp only [if_true]
    rw [kmergeFiles_eq le c hc, kmerge_none_iff]
    have hnot : ¬ (kmIsParquet ((files.map (·.1)).headD "") = true ∧
        ∃ f ∈ files, kmIsParquet f.1 = false) := by
      intro h
      have := (pathsReadable_false_iff files).mpr h
      rw [hr] at this; cases this
    constructor
    · rintro (h | h)
      · left; simpa using h
      · right; left
        obtain ⟨f, hf, he⟩ := List.mem_map.mp h
        exact ⟨f, hf, he⟩
    · rintro (h | ⟨f, hf, he⟩ | h)
      · left; simp [h]
      · right; exact List.mem_map.mpr ⟨f, hf, he⟩
      · exact absurd h hnot

/-- whenever `merge_sort` accepts a path list, every row of every file comes out exactly once, and
in non-increasing order if the files were sorted — whatever the formats and suffixes -/
theorem C14_paths_perm_sorted (le : α → α → Bool) (hle : TotalPre le) (c : Nat) (hc : 0 < c)
    (files : List (String × List α)) (out : List α) (h : kmergePaths le c files = some out) :
    out.Perm (files.map (·.2)).flatten ∧
      ((∀ f ∈ files, NonIncr le f.2) → NonIncr le out) := by
  rw [kmergePaths_eq] at h
  cases hr : pathsReadable files with
  | false => rw [hr] at h; cases h
  | true =>
    rw [hr, if_pos rfl, kmergeFiles_eq le c hc] at h
    refine ⟨C14_kmerge_perm le _ out h, fun hs => C14_kmerge_sorted le hle _ out ?_ h⟩
    intro xs hxs
    obtain ⟨f, hf, rfl⟩ := List.mem_map.mp hxs
    exact hs f hf

/-! ## Parquet row groups: any batching that stops at row-group borders -/

/-- a Parquet file written in row groups of `g ≥ 1` rows and read in batches of at most `c ≥ 1` rows
inside each row group delivers its rows in order: `merge_sort` gives the same result as on the
row sequences themselves -/
theorem C14_kmerge_rowgroup_invariant (le : α → α → Bool) (g c : Nat) (hg : 0 < g) (hc : 0 < c)
    (files : List (List α)) : kmerge le (files.map (kmRowIterGroups g c)) = kmerge le files := by
  rw [map_kmRowIterGroups g c hg hc]

/-- the same for the table merger over Parquet readers (both modes, the `ValueError` included) -/
theorem C14_checked_rowgroup_invariant (le : α → α → Bool) (desc : Bool) (g c : Nat) (hg : 0 < g)
    (hc : 0 < c) (files : List (List α)) :
    kmergeChecked le desc (files.map (kmRowIterGroups g c)) = kmergeChecked le desc files := by
  rw [map_kmRowIterGroups g c hg hc]

/-! ## Independence of the number of inputs, row by row, for the table merger -/

/-- however one and the same row sequence is cut into inputs sorted as declared — one reader, eight
readers, single-row readers — the table merger yields the same rows in the same order (ties
included) and raises no error, in both modes -/
theorem C14_checked_split_invariant (le : α → α → Bool) (hle : TotalPre le) (desc : Bool)
    (ins₁ ins₂ : List (List α)) (hne₁ : ins₁ ≠ []) (hne₂ : ins₂ ≠ []) (hrow₁ : [] ∉ ins₁)
    (hrow₂ : [] ∉ ins₂) (hs₁ : ∀ xs ∈ ins₁, SortedAs le desc xs)
    (hs₂ : ∀ xs ∈ ins₂, SortedAs le desc xs) (hflat : ins₁.flatten = ins₂.flatten) :
    kmergeChecked le desc ins₁ = kmergeChecked le desc ins₂ ∧
      ∃ out, kmergeChecked le desc ins₁ = some (out, false) := by
  rw [C14_checked_eq_stable_sort le hle desc ins₁ hne₁ hrow₁ hs₁,
    C14_checked_eq_stable_sort le hle desc ins₂ hne₂ hrow₂ hs₂, hflat]
  exact ⟨rfl, _, rfl⟩

/-! ## Scores that are ±∞ -/

/-- float scores extended by ±∞ (no NaN) are totally pre-ordered by IEEE `<=`, so every theorem of
this property applies to rows whose score is `inf` or `-inf`: they sort first / last, tie among
themselves, and are yielded exactly once like any other row -/
theorem C14_infinite_scores_total_preorder : TotalPre xleRow :=
  ⟨fun a b => xle_total a.1 b.1, fun a b c => xle_trans a.1 b.1 c.1⟩

/-- in particular: non-increasing inputs containing ±∞ are merged completely into a non-increasing
sequence by both implementations -/
theorem C14_infinite_scores_merged (inputs : List (List (XScore × Nat))) (out : List (XScore × Nat))
    (hs : ∀ xs ∈ inputs, NonIncr xleRow xs) (h : kmerge xleRow inputs = some out) :
    out.Perm inputs.flatten ∧ NonIncr xleRow out ∧
      kmergeChecked xleRow true inputs = some (out, false) := by
  refine ⟨C14_kmerge_perm _ inputs out h,
    C14_kmerge_sorted _ C14_infinite_scores_total_preorder inputs out hs h, ?_⟩
  rw [C14_checked_eq_kmerge _ C14_infinite_scores_total_preorder inputs hs, h]
  rfl

/-! ## Non-vacuity and evaluation tests -/

/-- hypotheses of `C14_paths_same_format`: a homogeneous text list with three different suffixes
(one of them unknown to `from_path`), and a homogeneous Parquet list -/
example : (∀ f ∈ [(".pin", [((3 : Int), (0 : Nat))]), (".tsv", [(2, 1)]), ("", [(1, 2)])],
      kmIsParquet f.1 = false) ∧
    (∀ f ∈ [(".parquet", [((3 : Int), (0 : Nat))]), (".parquet", [(2, 1)])], kmIsParquet f.1 = true) := by
  decide

/-- hypotheses of `C14_checked_split_invariant`: ascending mode, one input vs three -/
example : ([[((1 : Int), 0), (1, 1), (3, 2), (3, 3)]] : List (List (Int × Nat))).flatten
      = [[(1, 0)], [(1, 1), (3, 2)], [(3, 3)]].flatten ∧
    (∀ xs ∈ [[((1 : Int), 0), (1, 1), (3, 2), (3, 3)]], SortedAs c14LeScore false xs) ∧
    (∀ xs ∈ [[((1 : Int), 0)], [(1, 1), (3, 2)], [(3, 3)]], SortedAs c14LeScore false xs) := by
  refine ⟨rfl, ?_, ?_⟩
  · intro xs hxs
    simp only [List.mem_cons, List.not_mem_nil, or_false] at hxs
    subst hxs; simp [SortedAs, NonIncr, c14LeScore]
  · intro xs hxs
    simp only [List.mem_cons, List.not_mem_nil, or_false] at hxs
    rcases hxs with rfl | rfl | rfl <;> simp [SortedAs, NonIncr, c14LeScore]

/-- hypotheses of `C14_infinite_scores_merged`: non-increasing inputs with +∞, −∞ and ties among them -/
example : ∀ xs ∈ [[(XScore.posInf, 0), (.fin 2, 1), (.negInf, 2)], [(.posInf, 3), (.negInf, 4), (.negInf, 5)]],
    NonIncr xleRow xs := by
  intro xs hxs
  simp only [List.mem_cons, List.not_mem_nil, or_false] at hxs
  rcases hxs with rfl | rfl <;> simp [NonIncr, xleRow, xle]

-- evaluation tests (compiler-evaluated: *tests*, not theorems); expected values are the outputs of
-- the real functions on the same inputs
#guard kmergePaths c14LeScore 2 [(".pin", [(5, 0), (3, 1)]), (".tsv", [(4, 2)])] == some [(5, 0), (4, 2), (3, 1)]
#guard kmergePaths c14LeScore 2 [(".csv", [(5, 0), (3, 1)]), (".parquet", [(4, 2)])] == some [(5, 0), (4, 2), (3, 1)]
#guard kmergePaths c14LeScore 2 [(".parquet", [(5, 0), (3, 1)]), (".csv", [(4, 2)])] == none
#guard kmergePaths c14LeScore 2 [(".parquet", [(5, 0), (3, 1)]), (".parquet", [(4, 2)])] == some [(5, 0), (4, 2), (3, 1)]
#guard kmergePaths c14LeScore 2 ([] : List (String × List (Int × Nat))) == none
#guard kmRowIterGroups 3 2 [1, 2, 3, 4, 5, 6, 7] == [1, 2, 3, 4, 5, 6, 7]
#guard (kmChunks 3 [1, 2, 3, 4, 5, 6, 7]).map (kmChunks 2) == [[[1, 2], [3]], [[4, 5], [6]], [[7]]]
#guard kmerge xleRow [[(.posInf, 0), (.fin 2, 1), (.negInf, 2)], [(.posInf, 3), (.negInf, 4), (.negInf, 5)]]
    == some [(.posInf, 0), (.posInf, 3), (.fin 2, 1), (.negInf, 2), (.negInf, 4), (.negInf, 5)]
#guard kmergeChecked xleRow false [[(.negInf, 0), (.fin 2, 1), (.posInf, 2)], [(.negInf, 3), (.posInf, 4), (.fin 7, 5)]]
    == some ([(.negInf, 0), (.negInf, 3), (.fin 2, 1), (.posInf, 2), (.posInf, 4)], true)

end Mk.Merge
