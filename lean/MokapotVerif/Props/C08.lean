import MokapotVerif.Generated.Effects
import MokapotVerif.Props.C05
import MokapotVerif.Props.C15
/-!
# C08 — Fixed seed gives bit-identical results (PARTIAL)

What a theorem can carry here:
1. the *inventory obligation*: `Generated/Effects.lean` is rewritten from /repo's AST on every
   run and lists every call site that can introduce nondeterminism (global numpy RNG, stdlib
   `random`, `DataFrame.sample`, new generators, generator draws, `hash`/`id`, clocks, sets whose
   iteration order escapes (also sets handed to / returned by other functions of the package), lists and
   dictionaries whose ORDER was fixed while such a set was enumerated and everything derived from them
   (`order-taint`), enumerations of the hash-ordered maps of a `Proteins` object (`map-order`), directory
   listings (`dir-order`), lists that joblib workers append to (`thread-order`), uses of dictionary values that
   were made by enumerating a set (`map-value`)); every entry must be
   *accounted for* by the rule below;
2. the order-invariance facts the rule appeals to (proved in C02/C05/C15/C16, and in `Props/C08Order.lean` for
   dictionaries filled while a set is enumerated);
3. the threading of the seeded generator through `brew` (`Props/C08Rng.lean`).
Bit-identity of numpy/sklearn/BLAS computations is established by differential execution only.
-/
namespace Mk
open Mk.Generated

/-- the enumerations of unordered sets, site by site (function, what is enumerated — for `list(set(..) ..)`
the text of the whole set expression, a repeated entry of one function carries an ordinal `#n`), each with the
theorem or argument showing that the enumeration order cannot influence any result -/
def orderInvariantSites : List (String × String × String) :=
  [ ("make_train_sets", "list:set(range(k, k + chunk_range)) - set(idx)", "sets of ints: CPython hashes an int to itself, the enumeration does not depend on PYTHONHASHSEED; C02_train_disjoint, C02_materialise_eq: the training rows are re-ordered by this index list"),
    ("make_train_sets", "list:set(range(k, ds)) - set(idx)", "as above (last block of the file)"),
    ("get_rows_from_dataframe", "list:set(train) & set(chunk.index)", "C02_materialise_chunks: any order inside and between pieces (and ints again)"),
    ("drop_missing_values_and_fill_spectra_dataframe", "list:set(column) - set(spectra)", "fixes the COLUMN ORDER of the missing-value mask; everything derived from it is inventoried as `order-taint` (the list of features to drop), and that list is used for membership and log lines only (C10)"),
    ("_group_proteins", "for:peps", "`set.intersection(*[peptides[p] for p in peps])`: intersection is commutative and associative"),
    ("_group_proteins", "for:matches", "C16_order_independent: the grouping is invariant under every enumeration of every `matches` set"),
    ("_group_proteins", "for:matches#2", "C16_order_independent (the loop that creates the merged groups)"),
    ("_group_proteins", "for:grouped[]", "C08_lookups_enumeration_independent: the body touches the entry `peptides[pep]` of its own key only"),
    ("read_fasta", "iter:prots", "`next(iter(prots))` is applied to one-element sets only (C16_unique_iff_one_group)"),
    ("read_fasta", "join:prots", "the order inside the '; '-joined value strings of shared_peptides does depend on the hash seed, but those strings reach no result file (picked_protein only tests key membership) and the C08 harness compares them as sets"),
    ("read_fasta", "for:peps", "C08_lookups_enumeration_independent / C08_key_order_follows_enumeration: the enumeration of a protein's peptide set fixes only the KEY ORDER of the peptide -> proteins dictionary and hence of Proteins.peptide_map / shared_peptides; every enumeration of those maps is inventoried as a `map-order` / `order-taint` effect and must be sorted or membership-only (rule below), so the key order reaches no result") ]

/-- unsorted enumerations of containers whose order was fixed while a set was enumerated (kind `order-taint`),
site by site, with the reason why the order goes no further than into containers that are inventoried again -/
def orderTaintSites : List (String × String × String) :=
  [ ("read_fasta", "for:peptides.items()", "fills unique_peptides / shared_peptides key by key (C08_lookups_enumeration_independent: content independent of the order); their key order is the order of this loop and is tracked on: they become Proteins.peptide_map / shared_peptides, whose enumerations are `map-order` entries"),
    ("drop_missing_values_and_fill_spectra_dataframe", "raw:concat([na_mask, pd.DataFrame([feature.isna().any(axis=0)])])", "pd.concat keeps the (hash-ordered) columns of the mask; only `.any(axis=0)` per column is taken"),
    ("drop_missing_values_and_fill_spectra_dataframe", "raw:list(na_mask[na_mask].index)", "the returned list of features with missing values is in hash order: its uses in read_percolator are inventoried"),
    ("flatten", "raw:list(itertools.chain.from_iterable(split))", "keeps the order of its argument: the result is as ordered as the argument, and is tracked at the caller"),
    ("flatten", "raw:from_iterable(split)", "as above"),
    ("read_percolator", "for:features_to_drop", "drops the empty answers of the column slices (slice order is the submission order of joblib)"),
    ("read_percolator", "for:features_to_drop#2", "log lines only; the feature columns are `[f for f in features if f not in features_to_drop]`: file order, membership test") ]

/-- lists that joblib workers append to (kind `thread-order`): completion order -/
def threadOrderSites : List (String × String × String) :=
  [ ("get_rows_from_dataframe", "append:train_psms", "C08_completion_order_irrelevant (C05_materialise_invariant): the pieces are concatenated and re-indexed by the training index list"),
    ("predict_fold", "append:scores", "one task per fold appends to its own fold's list, and the tasks of one chunk have all finished before the next chunk is submitted (C05)"),
    ("drop_missing_values_and_fill_spectra_dataframe", "append:df_spectra_list", "only the one column slice that holds the spectrum columns appends (create_chunks_with_identifier never splits them), chunk after chunk inside a single task") ]

/-- uses of the VALUES of a dictionary whose value strings list a set in hash order (kind `map-value`: anything
but `.keys()` / `in` on `Proteins.shared_peptides`, whose values are `"; ".join(<set of groups>)`): none is allowed
inside the observables of C08.  The one listed site is OUTSIDE them and is a known hash-seed dependence:
`mokapot.to_flashlfq` copies these strings into the "Protein Accession" column, so that file differs between
PYTHONHASHSEED values for shared peptides (reproduced with a hand-built confidence object; the objects made by
`assign_confidence` no longer carry the attributes this writer needs, so no run of the pipeline reaches it). -/
def outsideObservableSites : List (String × String × String) :=
  [ ("_format_flashlfq", "shared_peptides:get", "FlashLFQ export: not an observable of C08 (brew / assign_confidence files / read_fasta maps), unreachable from assign_confidence; reported as a side finding") ]

/-- calls of a callable of the package that takes the seeded generator as an OPTIONAL argument (`rng=None`: a new
generator from OS entropy) and leave it out (kind `rng-default`, second pass): accounted for only when the object
made never draws from its generator.  NOT listed — and rejected by the rule, `C08_rule_rejects_unseeded_objects` — is
`brew`'s former `PercolatorModel()` (brew.py:110 before the repair of D39): that constructor DOES draw
(`rng.integers`, model.py:436: the seed of the grid search's cross-validation), see `Props/C08Seed.lean` and
`Mutants/Determ.lean: defaultModel_violates`. -/
def unusedGeneratorSites : List (String × String × String) :=
  [ ("_create_psms", "LinearPsmDataset:<omitted>", "PsmDataset.rng is stored (dataset.py:94, 171-174) and never drawn from: the only draw of dataset.py is `rng.shuffle` in `_split`, on the generator `brew` passes in as an argument"),
    ("read_pepxml", "LinearPsmDataset:<omitted>", "as above"),
    ("load_model", "Model:<omitted>", "`Model.__init__` makes no draw; a loaded Percolator model is trained: in a list it only predicts, as a single model `brew` replaces its generator before the first draw (`model.rng = rng`, brew.py:121)") ]

/-- functions that read a clock for log messages only -/
def clockFuncs : List String := ["output_start_message", "output_end_message", "make_timer", "elapsed", "main"]

def siteListed (sites : List (String × String × String)) (e : Effect) : Bool :=
  sites.any (fun p => p.1 == e.func && p.2.1 == e.detail)

/-- the accounting rule -/
def accounted (e : Effect) : Bool :=
  if e.kind == "rng-new" then e.seeded                       -- `default_rng(seed)`: explicit seed/generator
  else if e.kind == "rng-draw" then true                     -- draw from an explicit Generator
  else if e.kind == "df-sample" then e.seeded                -- `sample(..., random_state=rng)` (not `random_state=None`)
  else if e.kind == "np-global" then
    (e.detail == "seed" && e.func == "main")                 -- CLI entry points seed the global state once
      || e.func == "_shuffle_proteins"                       -- make_decoys: not an observable of C08
  else if e.kind == "set-order" then siteListed orderInvariantSites e
  else if e.kind == "map-order" then e.seeded                -- Proteins maps: `sorted(m.keys())` or `.isin(m.keys())` only
  else if e.kind == "order-taint" then e.seeded || siteListed orderTaintSites e   -- sorted / counted / membership, or listed
  else if e.kind == "dir-order" then e.seeded                -- directory listings: `sorted(glob(..))` or `len(list(glob(..)))` only
  else if e.kind == "thread-order" then siteListed threadOrderSites e
  else if e.kind == "map-value" then siteListed outsideObservableSites e   -- hash-ordered value strings: keys / membership only
  else if e.kind == "rng-default" then siteListed unusedGeneratorSites e   -- `rng` left out where the default is OS entropy
  else if e.kind == "random-state" then e.seeded             -- third-party `random_state=`: not None, not missing with `shuffle=True`
  else if e.kind == "clock" then clockFuncs.contains e.func
  else false                                                 -- stdlib random, hash()/id(), parse errors, anything new

/-- **Inventory obligation** (re-checked against the current source on every run): every
nondeterminism source in mokapot is seeded explicitly or provably irrelevant. -/
theorem C08_effects_accounted : ∀ e ∈ effects, accounted e = true := by decide

/-- the inventory is not empty and really contains the kinds the rule speaks about (non-vacuity) -/
theorem C08_inventory_nonvacuous :
    (effects.any (fun e => e.kind == "df-sample")) = true ∧
    (effects.any (fun e => e.kind == "set-order")) = true ∧
    (effects.any (fun e => e.kind == "rng-draw")) = true := by decide

/-- the rule has teeth: an unseeded `DataFrame.sample` (the defect D13 repaired in /repo), a call
to stdlib `random`, or a new use of `hash()` would not be accounted for -/
theorem C08_rule_rejects_unseeded :
    accounted ⟨"mokapot/peptides.py", "match_decoy", 36, "df-sample", "targets.sample", false⟩ = false ∧
    accounted ⟨"mokapot/x.py", "f", 1, "py-random", "shuffle", false⟩ = false ∧
    accounted ⟨"mokapot/x.py", "f", 1, "hash-id", "hash", false⟩ = false ∧
    accounted ⟨"mokapot/x.py", "f", 1, "np-global", "permutation", false⟩ = false ∧
    -- a new set enumeration inside an already-listed function is not covered by the old entry
    accounted ⟨"mokapot/parsers/fasta.py", "read_fasta", 1, "set-order", "for:something_new", false⟩ = false ∧
    -- the defect D25 repaired in /repo: the hash-ordered keys of peptide_map handed to the seeded shuffle
    accounted ⟨"mokapot/picked_protein.py", "group_without_decoys", 201, "map-order", "raw:peptide_map.keys", false⟩ = false := by decide

/-- the inventory also contains the order sources added with the extension (directory listings, lists
appended to by joblib workers, containers ordered by a set enumeration) — the rule is exercised on them -/
theorem C08_inventory_nonvacuous_order :
    (effects.any (fun e => e.kind == "dir-order")) = true ∧
    (effects.any (fun e => e.kind == "thread-order")) = true ∧
    (effects.any (fun e => e.kind == "order-taint")) = true ∧
    (effects.any (fun e => e.kind == "map-order")) = true := by decide

/-- the extended rule has teeth: an unsorted `glob` in the roll-up tool, a new list that workers append to, a
second `list(set(..))` in a function that already has an accounted one, a raw enumeration of a container ordered
by a set, a third loop over the hash-ordered list of dropped features, `random_state=None`, and a `for` over a
Proteins map are all rejected -/
theorem C08_rule_rejects_new_order_sources :
    accounted ⟨"mokapot/brew_rollup.py", "do_rollup", 279, "dir-order", "raw:glob:*.targets.{}s{}", false⟩ = false ∧
    accounted ⟨"mokapot/brew.py", "_fit_model", 1, "thread-order", "append:fitted", false⟩ = false ∧
    accounted ⟨"mokapot/parsers/pin.py", "read_percolator", 1, "set-order", "tuple:set(features) - set(features_to_drop)", false⟩ = false ∧
    accounted ⟨"mokapot/brew.py", "make_train_sets", 1, "set-order", "list:set(idx)", false⟩ = false ∧
    accounted ⟨"mokapot/parsers/fasta.py", "read_fasta", 1, "order-taint", "raw:list(unique_peptides)", false⟩ = false ∧
    accounted ⟨"mokapot/parsers/pin.py", "read_percolator", 1, "order-taint", "for:features_to_drop#3", false⟩ = false ∧
    accounted ⟨"mokapot/utils.py", "groupby_max", 33, "df-sample", "df.sample", false⟩ = false ∧
    accounted ⟨"mokapot/picked_protein.py", "group_with_decoys", 1, "map-order", "raw:peptide_map", false⟩ = false ∧
    -- the value strings of shared_peptides (hash-ordered '; '-joined sets) used for a protein group
    accounted ⟨"mokapot/picked_protein.py", "group_with_decoys", 1, "map-value", "shared_peptides:get", false⟩ = false := by decide

/-- the inventory contains the seed sources added with the second pass (`random_state=` of third-party objects,
package callables called without their optional `rng`) — the rule is exercised on them -/
theorem C08_inventory_nonvacuous_seeds :
    (effects.any (fun e => e.kind == "random-state")) = true ∧
    (effects.any (fun e => e.kind == "rng-default")) = true ∧
    (effects.any (fun e => e.kind == "rng-new" && e.seeded)) = true := by decide

/-- the second-pass rule has teeth: `PercolatorModel()` without a generator (the defect D39 repaired in /repo), a
`Model(...)` built without one inside `brew`, `rng=None` spelled out, a `KFold` with `random_state=None` or with
`shuffle=True` and no `random_state`, and `default_rng()` / `default_rng(None)` are all rejected -/
theorem C08_rule_rejects_unseeded_objects :
    accounted ⟨"mokapot/brew.py", "brew", 110, "rng-default", "PercolatorModel:<omitted>", false⟩ = false ∧
    accounted ⟨"mokapot/brew.py", "brew", 110, "rng-default", "Model:<omitted>", false⟩ = false ∧
    accounted ⟨"mokapot/confidence.py", "_assign_confidence", 1, "rng-default", "match_decoy:None", false⟩ = false ∧
    accounted ⟨"mokapot/model.py", "__init__", 436, "random-state", "KFold:None", false⟩ = false ∧
    accounted ⟨"mokapot/model.py", "__init__", 436, "random-state", "KFold:<omitted>", false⟩ = false ∧
    accounted ⟨"mokapot/model.py", "__init__", 430, "rng-new", "np.random.default_rng", false⟩ = false := by decide

/-- Feeding the models of one run back in any order: `brew` sorts them by their fold tag, so
every permutation of a list with pairwise distinct tags yields the same model list. -/
theorem C08_models_any_order {μ : Type} (fold : μ → Nat) (ms ms' : List μ) (hperm : ms'.Perm ms)
    (hnd : (ms.map fold).Nodup) :
    ms'.mergeSort (fun a b => decide (fold a ≤ fold b)) = ms.mergeSort (fun a b => decide (fold a ≤ fold b)) :=
  C05_fit_order_invariant fold ms' ms hperm ((hperm.map fold).nodup_iff.mpr hnd)

/-- worker completion order never reaches the result of training-set materialisation or
prediction (restated from C05 for the determinism property) -/
theorem C08_completion_order_irrelevant {ρ : Type} (c : Nat) (hc : 0 < c) (rows : List ρ)
    (train : List Nat) (hnd : train.Nodup) (hlt : ∀ i ∈ train, i < rows.length)
    (ps₁ pieces₁ ps₂ pieces₂ : List (List (Nat × ρ)))
    (hps₁ : List.Forall₂ List.Perm ((Brew.chunks c (rows.zipIdx.map (fun x => (x.2, x.1)))).map (Brew.chunkPiece train)) ps₁)
    (hps₂ : List.Forall₂ List.Perm ((Brew.chunks c (rows.zipIdx.map (fun x => (x.2, x.1)))).map (Brew.chunkPiece train)) ps₂)
    (hp₁ : pieces₁.Perm ps₁) (hp₂ : pieces₂.Perm ps₂) :
    Brew.reindex pieces₁.flatten train = Brew.reindex pieces₂.flatten train :=
  C05_materialise_invariant c c hc hc rows train hnd hlt ps₁ pieces₁ ps₂ pieces₂ hps₁ hps₂ hp₁ hp₂

/-- the seeded shuffle inside `groupby_max` (protein level) cannot influence a tie-free result:
any two shuffle+sort arrangements (= any two seeds) give the same protein entries -/
theorem C08_groupby_max_seed_irrelevant_tiefree {α : Type} (le : α → α → Bool) (hle : TotalPre le)
    (P : Picked.Proteins) (R s1 s2 : List (Picked.Entry α)) (htf : Picked.TieFree le P R)
    (hp1 : s1.Perm R) (hs1 : Picked.KeySorted le P s1) (hp2 : s2.Perm R) (hs2 : Picked.KeySorted le P s2) :
    (Picked.pickedOf P s1).Perm (Picked.pickedOf P s2) :=
  Picked.C15_seed_independent_when_tie_free le hle P R s1 s2 htf hp1 hs1 hp2 hs2

/-! ## non-vacuity of the restated order facts -/

/-- the models returned by `brew` carry the fold tags 1..k: pairwise distinct, and a fed-back list is a permutation -/
example : (([3, 1, 2] : List Nat).map id).Nodup ∧ ([3, 1, 2] : List Nat).Perm [1, 2, 3] := by decide

end Mk
