import MokapotVerif.Generated.Effects
import MokapotVerif.Props.C05
import MokapotVerif.Props.C15
/-!
# C08 — Fixed seed gives bit-identical results (PARTIAL)

What a theorem can carry here:
1. the *inventory obligation*: `Generated/Effects.lean` is rewritten from /repo's AST on every
   run and lists every call site that can introduce nondeterminism (global numpy RNG, stdlib
   `random`, `DataFrame.sample`, new generators, generator draws, `hash`/`id`, clocks, sets whose
   iteration order escapes, enumerations of the hash-ordered maps of a `Proteins` object); every entry must be *accounted for* by the rule below;
2. the order-invariance facts the rule appeals to (proved in C02/C05).
Bit-identity of numpy/sklearn/BLAS computations is established by differential execution only.
-/
namespace Mk
open Mk.Generated

/-- the enumerations of unordered sets, site by site (function, what is enumerated), each with the
theorem or argument showing that the enumeration order cannot influence any result -/
def orderInvariantSites : List (String × String × String) :=
  [ ("make_train_sets", "list", "C02_train_disjoint, C02_materialise_eq: the training rows are re-ordered by the index list"),
    ("get_rows_from_dataframe", "list", "C02_materialise_chunks: any order inside and between pieces"),
    ("drop_missing_values_and_fill_spectra_dataframe", "list", "set difference of column names, used for membership only (C10)"),
    ("_group_proteins", "for:matches", "C16_order_independent: the grouping is invariant under every enumeration of every `matches` set"),
    ("read_fasta", "iter:prots", "`next(iter(prots))` is applied to one-element sets only (C16_unique_iff_one_group)"),
    ("read_fasta", "join:prots", "the order inside the '; '-joined value strings of shared_peptides does depend on the hash seed, but those strings reach no result file (picked_protein only tests key membership) and the C08 harness compares them as sets"),
    ("read_fasta", "for:peps", "the enumeration of a protein's peptide set fixes only the KEY ORDER of the peptide -> proteins dictionary and hence of Proteins.peptide_map / shared_peptides; every enumeration of those maps is inventoried as a `map-order` effect and must be sorted or membership-only (rule below), so the key order reaches no result") ]

/-- functions that read a clock for log messages only -/
def clockFuncs : List String := ["output_start_message", "output_end_message", "make_timer", "elapsed", "main"]

/-- the accounting rule -/
def accounted (e : Effect) : Bool :=
  if e.kind == "rng-new" then e.seeded                       -- `default_rng(seed)`: explicit seed/generator
  else if e.kind == "rng-draw" then true                     -- draw from an explicit Generator
  else if e.kind == "df-sample" then e.seeded                -- `sample(..., random_state=rng)`
  else if e.kind == "np-global" then
    (e.detail == "seed" && e.func == "main")                 -- CLI entry points seed the global state once
      || e.func == "_shuffle_proteins"                       -- make_decoys: not an observable of C08
  else if e.kind == "set-order" then orderInvariantSites.any (fun p => p.1 == e.func && p.2.1 == e.detail)
  else if e.kind == "map-order" then e.seeded                -- Proteins maps: `sorted(m.keys())` or `.isin(m.keys())` only
  else if e.kind == "clock" then clockFuncs.contains e.func
  else false                                                 -- stdlib random, hash()/id(), parse errors, anything new

/-- **Inventory obligation** (re-checked against the current source on every run): every
nondeterminism source in mokapot is seeded explicitly or provably irrelevant. -/
theorem C08_effects_accounted : ∀ e ∈ effects, accounted e = true := by decide

/-- the inventory is not empty and really contains the kinds the rule speaks about (non-vacuity) -/
theorem C08_inventory_nonvacuous :
    (effects.any (fun e => e.kind == "df-sample")) = true ∧
    (effects.any (fun e => e.kind == "set-order")) = true ∧
    (effects.any (fun e => e.kind == "rng-draw")) = true := by decide

/-- the rule has teeth: an unseeded `DataFrame.sample` (the defect D13 repaired in /repo), a call
to stdlib `random`, or a new use of `hash()` would not be accounted for -/
theorem C08_rule_rejects_unseeded :
    accounted ⟨"mokapot/peptides.py", "match_decoy", 36, "df-sample", "targets.sample", false⟩ = false ∧
    accounted ⟨"mokapot/x.py", "f", 1, "py-random", "shuffle", false⟩ = false ∧
    accounted ⟨"mokapot/x.py", "f", 1, "hash-id", "hash", false⟩ = false ∧
    accounted ⟨"mokapot/x.py", "f", 1, "np-global", "permutation", false⟩ = false ∧
    -- a new set enumeration inside an already-listed function is not covered by the old entry
    accounted ⟨"mokapot/parsers/fasta.py", "read_fasta", 1, "set-order", "for:something_new", false⟩ = false ∧
    -- the defect D25 repaired in /repo: the hash-ordered keys of peptide_map handed to the seeded shuffle
    accounted ⟨"mokapot/picked_protein.py", "group_without_decoys", 201, "map-order", "raw:peptide_map.keys", false⟩ = false := by decide

/-- Feeding the models of one run back in any order: `brew` sorts them by their fold tag, so
every permutation of a list with pairwise distinct tags yields the same model list. -/
theorem C08_models_any_order {μ : Type} (fold : μ → Nat) (ms ms' : List μ) (hperm : ms'.Perm ms)
    (hnd : (ms.map fold).Nodup) :
    ms'.mergeSort (fun a b => decide (fold a ≤ fold b)) = ms.mergeSort (fun a b => decide (fold a ≤ fold b)) :=
  C05_fit_order_invariant fold ms' ms hperm ((hperm.map fold).nodup_iff.mpr hnd)

/-- worker completion order never reaches the result of training-set materialisation or
prediction (restated from C05 for the determinism property) -/
theorem C08_completion_order_irrelevant {ρ : Type} (c : Nat) (hc : 0 < c) (rows : List ρ)
    (train : List Nat) (hnd : train.Nodup) (hlt : ∀ i ∈ train, i < rows.length)
    (ps₁ pieces₁ ps₂ pieces₂ : List (List (Nat × ρ)))
    (hps₁ : List.Forall₂ List.Perm ((Brew.chunks c (rows.zipIdx.map (fun x => (x.2, x.1)))).map (Brew.chunkPiece train)) ps₁)
    (hps₂ : List.Forall₂ List.Perm ((Brew.chunks c (rows.zipIdx.map (fun x => (x.2, x.1)))).map (Brew.chunkPiece train)) ps₂)
    (hp₁ : pieces₁.Perm ps₁) (hp₂ : pieces₂.Perm ps₂) :
    Brew.reindex pieces₁.flatten train = Brew.reindex pieces₂.flatten train :=
  C05_materialise_invariant c c hc hc rows train hnd hlt ps₁ pieces₁ ps₂ pieces₂ hps₁ hps₂ hp₁ hp₂

/-- the seeded shuffle inside `groupby_max` (protein level) cannot influence a tie-free result:
any two shuffle+sort arrangements (= any two seeds) give the same protein entries -/
theorem C08_groupby_max_seed_irrelevant_tiefree {α : Type} (le : α → α → Bool) (hle : TotalPre le)
    (P : Picked.Proteins) (R s1 s2 : List (Picked.Entry α)) (htf : Picked.TieFree le P R)
    (hp1 : s1.Perm R) (hs1 : Picked.KeySorted le P s1) (hp2 : s2.Perm R) (hs2 : Picked.KeySorted le P s2) :
    (Picked.pickedOf P s1).Perm (Picked.pickedOf P s2) :=
  Picked.C15_seed_independent_when_tie_free le hle P R s1 s2 htf hp1 hs1 hp2 hs2

end Mk
