import MokapotVerif.Lemmas.ConfidenceInput
import MokapotVerif.Props.C03Run
import MokapotVerif.Props.C03Rollup
/-!
# C03 — the score column, repeated calls, and the roll-up tool's buffers (second audit pass)

`Props/C03*.lean` so far start from rows that carry their score, from one call on a directory,
and from a roll-up tool that writes its temporary level files row by row.  The code
(1) receives the score vector *separately* from the table, negates it for a lower-is-better
score, chunks both by the same constant and `zip`s the chunk streams;
(2) can be told to append to result files of an earlier call (`append_to_output_file=True`);
(3) writes the tool's temporary level files through a buffer of 1000 rows.
The theorems here show that, for every chunk size / buffer size, (1) and (3) are invisible — every
row meets exactly its own score; the buffered file is the unbuffered one — and state what (2)
leaves in the files.
-/
namespace Mk

/-! ## the score column -/

/-- **Every PSM gets its own score.**  For every chunk size `c ≥ 1`, every table and every score
vector of the same length, zipping the separately chunked table and score vector produces exactly
the chunks of the table in which row `i` carries `scores[i]`; the loop does not raise. -/
theorem C03_scores_attached_rowwise (c : Nat) (hc : 0 < c) (tab : List Row) (scores : List Int)
    (h : tab.length = scores.length) :
    confAttach c tab scores = some (chunksOf c (List.zipWith confSetScore tab scores)) :=
  confAttach_eq c hc tab scores h

/-- … hence the level files computed from (table, score vector) are the level files of the rows
with their scores attached, to which `C03_level_files_spec`, `C03_level_files_total` and the
theorems behind them apply. -/
theorem C03_level_files_raw_eq (c : Nat) (hc : 0 < c) (dedup : Bool) (n : Nat) (desc : Bool)
    (tab : List Row) (scores : List Int) (h : tab.length = scores.length) :
    confidenceLevelFilesRaw c dedup n desc tab scores
      = confidenceLevelFiles c dedup n (List.zipWith confSetScore tab (confOrient desc scores)) := by
  unfold confidenceLevelFilesRaw confidenceLevelFiles
  have hl : tab.length = (confOrient desc scores).length := by
    unfold confOrient; split <;> simp [h]
  rw [confAttach_eq c hc tab _ hl]
  rfl

/-- **End to end from the caller's arguments** (higher scores better): for every table with at
least one row, score vector of the same length, chunk size `c ≥ 1`, number of roll-up levels and
de-duplication setting, the call does not raise and its level files meet the level specification
with respect to *the table whose row `i` carries `scores[i]`*. -/
theorem C03_level_files_raw_spec (c : Nat) (hc : 0 < c) (dedup : Bool) (n : Nat)
    (tab : List Row) (scores : List Int) (h : tab.length = scores.length) (hne : tab ≠ []) :
    ∃ psm lv, confidenceLevelFilesRaw c dedup n true tab scores = some (psm :: lv) ∧
      lv.length = n ∧ SortedRows psm ∧
      (dedup = true → LevelSpec Row.spec (List.zipWith confSetScore tab scores) psm) ∧
      (dedup = false → psm.Perm (List.zipWith confSetScore tab scores)) ∧
      ∀ l, l < n → LevelSpec (fun r => r.key l) psm (lv.getD l []) := by
  have hz : List.zipWith confSetScore tab scores ≠ [] := by
    cases tab with
    | nil => exact absurd rfl hne
    | cons r rest =>
      cases scores with
      | nil => simp at h
      | cons s ss => simp
  obtain ⟨lvs, hl⟩ := C03_level_files_total c hc dedup n _ hz
  obtain ⟨psm, lv, rfl, h1, h2, h3, h4, h5⟩ := C03_level_files_spec c hc dedup n _ lvs hl
  refine ⟨psm, lv, ?_, h1, h2, h3, h4, h5⟩
  rw [C03_level_files_raw_eq c hc dedup n true tab scores h]
  simpa [confOrient] using hl

/-- **Lower scores better** (`descs=[False]`): the rows compete by the negated score, so a level
that meets the specification on the negated rows holds, per key, a row with a *lowest* given
score — stated on the rows with the given scores restored (`rowNeg` is an involution).  `key` is
any key that does not look at the score (spectrum, level id). -/
theorem C03_lower_is_better (key : Row → Nat) (hkey : ∀ r, key (rowNeg r) = key r)
    (rows out : List Row) (h : LevelSpec key (rows.map rowNeg) out) :
    (∀ o ∈ out, ∃ r ∈ rows, o = rowNeg r) ∧
    (∀ r ∈ rows, ∃ o ∈ out, key o = key r ∧ (rowNeg o).score ≤ r.score) := by
  refine ⟨?_, ?_⟩
  · intro o ho
    obtain ⟨r, hr, he⟩ := List.mem_map.mp (h.2.2.1 o ho)
    exact ⟨r, hr, he.symm⟩
  · intro r hr
    obtain ⟨o, ho, hk, hs⟩ := h.2.2.2 (rowNeg r) (List.mem_map.mpr ⟨r, hr, rfl⟩)
    refine ⟨o, ho, hk.trans (hkey r), ?_⟩
    simp only [rowNeg] at hs ⊢
    omega

/-- the negated score vector attaches as the negated rows -/
theorem C03_orient_false_negates_rows (tab : List Row) (scores : List Int) :
    List.zipWith confSetScore tab (confOrient false scores)
      = (List.zipWith confSetScore tab scores).map rowNeg := by
  simp only [confOrient, Bool.false_eq_true, if_false]
  exact zipWith_confSetScore_neg tab scores

/-! ## `append_to_output_file` -/

/-- **Appending keeps earlier results.**  With `append_to_output_file=True` no result file is
re-initialised: after the loop, for every chunk size, number of levels, set of collections with
pairwise different prefixes and directory content before the call, every result file of a
prefixed collection holds what it held before the call (nothing if it did not exist) followed by
that collection's target (resp. decoy) rows; the shared files of the collections without prefix
hold what they held before followed by those collections' rows, one collection after the other. -/
theorem C03_append_keeps_earlier_results (c : Nat) (hc : 0 < c) (decoys : Bool) (m : Nat)
    (colls : List (Option Nat × List (List Row))) (fs0 : ConfFS)
    (hnd : (confPrefixes colls).Nodup) :
    ∃ st, confRunAllWith c decoys m true colls fs0 = some st ∧
      (∀ k ∈ colls, k.1 ≠ none → ∀ l, l < m →
        st.1 ⟨k.1, false, l⟩
          = some ((fs0 ⟨k.1, false, l⟩).getD [] ++ (splitTD (k.2.getD l [])).1) ∧
        (decoys = true → st.1 ⟨k.1, true, l⟩
          = some ((fs0 ⟨k.1, true, l⟩).getD [] ++ (splitTD (k.2.getD l [])).2))) ∧
      (confUnprefixed colls ≠ [] → ∀ l, l < m →
        st.1 ⟨none, false, l⟩
          = some ((fs0 ⟨none, false, l⟩).getD [] ++
              (confUnprefixed colls).flatMap (fun k => (splitTD (k.2.getD l [])).1)) ∧
        (decoys = true → st.1 ⟨none, true, l⟩
          = some ((fs0 ⟨none, true, l⟩).getD [] ++
              (confUnprefixed colls).flatMap (fun k => (splitTD (k.2.getD l [])).2)))) := by
  refine ⟨_, confRunAllWith_eq c hc decoys m true colls fs0, ?_, ?_⟩
  · intro k hk hsome l hl
    refine ⟨?_, ?_⟩
    · have := collsSpec_prefixed_app decoys m true colls false fs0 hnd k hk hsome ⟨k.1, false, l⟩
        ((confOwnFile_iff _ _ _ _).mpr ⟨rfl, hl, by simp⟩)
      simpa [confTdPart] using this
    · intro hd
      have := collsSpec_prefixed_app decoys m true colls false fs0 hnd k hk hsome ⟨k.1, true, l⟩
        ((confOwnFile_iff _ _ _ _).mpr ⟨rfl, hl, fun _ => hd⟩)
      simpa [confTdPart] using this
  · intro hne l hl
    refine ⟨?_, ?_⟩
    · have := collsSpec_unprefixed decoys m true ⟨none, false, l⟩
        ((confOwnFile_iff _ _ _ _).mpr ⟨rfl, hl, by simp⟩) colls false fs0
      simpa [hne, confTdPart] using this
    · intro hd
      have := collsSpec_unprefixed decoys m true ⟨none, true, l⟩
        ((confOwnFile_iff _ _ _ _).mpr ⟨rfl, hl, fun _ => hd⟩) colls false fs0
      simpa [hne, confTdPart] using this

/-- **Two calls, the second one appending**: a first call (default: files initialised) for a
collection with prefix `p` and level files `a`, then a call with `append_to_output_file=True` for
the same prefix and level files `b`, leave in `<p>.targets.<level l>` the target rows of `a`'s
level `l` followed by those of `b`'s — whatever the directory held before the first call. -/
theorem C03_second_call_appends (c : Nat) (hc : 0 < c) (decoys : Bool) (m : Nat) (p : Nat)
    (a b : List (List Row)) (fs0 : ConfFS) :
    ∃ st1 st2, confRunAllWith c decoys m false [(some p, a)] fs0 = some st1 ∧
      confRunAllWith c decoys m true [(some p, b)] st1.1 = some st2 ∧
      ∀ l, l < m →
        st2.1 ⟨some p, false, l⟩ = some ((splitTD (a.getD l [])).1 ++ (splitTD (b.getD l [])).1) ∧
        (decoys = true →
          st2.1 ⟨some p, true, l⟩ = some ((splitTD (a.getD l [])).2 ++ (splitTD (b.getD l [])).2)) := by
  obtain ⟨st1, h1, f1⟩ := C03_collections_prefixed c hc decoys m [(some p, a)] fs0 (by simp [confPrefixes])
  obtain ⟨st2, h2, f2, _⟩ := C03_append_keeps_earlier_results c hc decoys m [(some p, b)] st1.1
    (by simp [confPrefixes])
  refine ⟨st1, st2, h1, h2, ?_⟩
  intro l hl
  have g1 := f1 (some p, a) (by simp) (by simp) l hl
  have g2 := f2 (some p, b) (by simp) (by simp) l hl
  refine ⟨?_, ?_⟩
  · rw [g2.1, g1.1]; rfl
  · intro hd
    rw [g2.2 hd, g1.2.1 hd]; rfl

/-! ## the roll-up tool's buffered temporary writers -/

/-- a buffered writer hands on every row exactly once, in the order of the `append_data` calls,
whatever the buffer size -/
theorem C03_tool_buffer_push (b : Nat) (s : ToolBuf) (r : Row) :
    (s.push b r).close = s.close ++ [r] :=
  ToolBuf.close_push b s r

/-- **The buffer is invisible.**  For every buffer size (1000 in the code; also one that is never
reached, and sizes that are reached many times), every `--level`, every set of input files, the
tool with buffered temporary writers produces exactly the outcome of the tool that writes row by
row (`rollupRun`) — so `C03_rollup_run_spec`, `C03_rollup_run_rejects_unsorted` and
`C03_rollup_tool_same_rule` are statements about the tool as it runs. -/
theorem C03_tool_buffer_invisible (b : Nat) (parents : List (RollupName × RollupName)) (base : RollupName)
    (cols cands : List RollupName) (tfiles dfiles : List (List Row)) :
    rollupRunB b parents base cols cands tfiles dfiles = rollupRun parents base cols cands tfiles dfiles := by
  unfold rollupRunB rollupRun
  have : (fun merged => (toolLevels parents base cols).map (toolWriteB b cands merged))
      = (fun merged => (toolLevels parents base cols).map (toolWrite cands merged)) := by
    funext merged
    apply List.map_congr_left
    intro lv _
    simp [toolWriteB, toolWrite, toolLevelRowsB_eq]
  rw [this]

/-! ## Non-vacuity and evaluation tests -/

-- table of `exRows` with the score column given separately; chunk sizes 1, 2, "never reached"
def c03ExScores : List Int := exRows.map (·.score)
def c03ExTab : List Row := exRows.map (fun r => { r with score := 0 })

example : c03ExTab.length = c03ExScores.length ∧ c03ExTab ≠ [] := by decide

#guard (confidenceLevelFilesRaw 2 true 1 true c03ExTab c03ExScores).map (fun l => l.map (fun f => f.map (·.id)))
        == some [[1, 2, 3], [1, 2]]
#guard (confidenceLevelFilesRaw 1 true 1 true c03ExTab c03ExScores) == confidenceLevelFiles 1 true 1 exRows
#guard (confidenceLevelFilesRaw 9 false 1 true c03ExTab c03ExScores) == confidenceLevelFiles 9 false 1 exRows
-- lower is better: the worst row of every spectrum wins, and is reported by the negated score
#guard (confidenceLevelFilesRaw 2 true 0 false c03ExTab c03ExScores).map (fun l => l.map (fun f => f.map (fun r => (r.id, r.score))))
        == some [[(4, -1), (3, -2), (0, -5)]]
-- a score vector that is too short by a whole chunk: the last table chunk is silently ignored
#guard (confAttach 2 c03ExTab (c03ExScores.take 4)).map (fun fs => fs.flatten.map (·.id)) == some [0, 1, 2, 3]
-- too short inside a chunk: pandas refuses the assignment; too long: a chunk file is never written
#guard (confAttach 2 c03ExTab (c03ExScores.take 3)).isNone
#guard (confAttach 2 c03ExTab (c03ExScores ++ [1, 2])).isNone
#guard (confAttach 9 c03ExTab (c03ExScores ++ [1])).isNone

-- buffered temporary writers: sizes 2, 3 and 1000 on the merged example stream
#guard (toolLevelRowsB 2 c03ExCands (exRows.mergeSort rowBetter) "peptide".toList).map (·.id) == [1, 2, 4]
#guard (toolLevelRowsB 3 c03ExCands (exRows.mergeSort rowBetter) "peptide".toList)
        == toolLevelRows c03ExCands (exRows.mergeSort rowBetter) "peptide".toList
#guard ((exRows.foldl (ToolBuf.push 2) ToolBuf.empty).file.map (·.id), (exRows.foldl (ToolBuf.push 2) ToolBuf.empty).buf.map (·.id))
        == ([0, 1, 2, 3], [4])

-- two calls on one directory, the second appending
#guard ((confRunCalls 2 true true 1 [⟨false, [⟨some 0, exRows⟩]⟩, ⟨true, [⟨some 0, exRows.take 3⟩]⟩] c03FsNone).bind
    (fun fs => fs ⟨some 0, false, 0⟩)).map (fun ls => ls.map (·.1.id)) == some [1, 3, 1]
-- … and not appending: the second call's rows only
#guard ((confRunCalls 2 true true 1 [⟨false, [⟨some 0, exRows⟩]⟩, ⟨false, [⟨some 0, exRows.take 3⟩]⟩] c03FsNone).bind
    (fun fs => fs ⟨some 0, false, 0⟩)).map (fun ls => ls.map (·.1.id)) == some [1]

end Mk
