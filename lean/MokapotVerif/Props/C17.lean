import MokapotVerif.Lemmas.DigestSpec
/-!
# C17 — In-silico digestion returns exactly the peptides the enzyme rules allow

Property theorems only.  Sequences are arbitrary `List Char` of any length, the
enzyme is any residue class with any (possibly empty) set of blocking next
residues, `mc`, `lo`, `hi` are arbitrary naturals (`1 ≤ lo` where stated: with
`min_length = 0` the real code also returns the empty peptide, DESIGN §5 C17
"boundary").  The result of `digest` is a Python set; the model returns the list
of insertions and all statements are about membership.
-/
namespace Mk

/-! ## cleavage sites -/

/-- the Boolean `endsAt` used in the specification says: the sequence splits as
`pre ++ c :: rest` with `|pre| + 1 = p`, `c` a cleavage residue and the residue
after it (if any) not a blocking one. -/
theorem C17_endsAt_iff (e : Enzyme) (seq : List Char) (p : Nat) :
    endsAt e seq p = true ↔
      ∃ pre c rest, seq = pre ++ c :: rest ∧ pre.length + 1 = p ∧ c ∈ e.cls
        ∧ ∀ d, rest.head? = some d → d ∉ e.notNext := by
  constructor
  · intro h
    unfold endsAt at h
    simp only [Bool.and_eq_true, decide_eq_true_eq, Bool.not_eq_true'] at h
    obtain ⟨⟨hp, hc⟩, hn⟩ := h
    obtain ⟨q, rfl⟩ : ∃ q, p = q + 1 := ⟨p - 1, by omega⟩
    simp only [Nat.add_sub_cancel] at hc
    cases hq : seq[q]? with
    | none => simp [hq] at hc
    | some c =>
      have hlt : q < seq.length := by
        rcases Nat.lt_or_ge q seq.length with h | h
        · exact h
        · rw [List.getElem?_eq_none h] at hq; cases hq
      refine ⟨seq.take q, c, seq.drop (q + 1), ?_, ?_, ?_, ?_⟩
      · have hc' : seq[q] = c := by
          rw [List.getElem?_eq_getElem hlt] at hq; exact Option.some.inj hq
        rw [← hc', List.getElem_cons_drop, List.take_append_drop]
      · simp [List.length_take]; omega
      · simpa [hq] using hc
      · intro d hd
        rw [List.head?_drop] at hd
        simp [hd] at hn
        exact hn
  · rintro ⟨pre, c, rest, rfl, rfl, hc, hn⟩
    unfold endsAt
    have h1 : (pre ++ c :: rest)[pre.length]? = some c := by simp
    have h2 : (pre ++ c :: rest)[pre.length + 1]? = rest.head? := by
      rw [List.getElem?_append_right (by omega)]
      cases rest <;> simp
    simp only [Nat.add_sub_cancel, h1, h2]
    cases hr : rest.head? with
    | none => simp [hc]
    | some d => simp [hc, hn d hr]

/-- `_cleavage_sites` returns exactly the cleavage positions: 0, `len(seq)` and
every match end. -/
theorem C17_sites_spec (e : Enzyme) (seq : List Char) (p : Nat) :
    p ∈ cleavageSites e seq ↔ p ≤ seq.length ∧ isSite e seq p = true := by
  rw [cleavageSites_eq]
  simp only [List.mem_append, List.mem_filter, List.mem_range, List.mem_singleton]
  constructor
  · rintro (⟨h1, h2⟩ | h)
    · refine ⟨by omega, ?_⟩
      unfold isSite; unfold innerSite at h2
      simp only [Bool.or_eq_true] at h2 ⊢
      rcases h2 with h2 | h2
      · exact Or.inl (Or.inl h2)
      · exact Or.inr h2
    · subst h; simp [isSite]
  · rintro ⟨h1, h2⟩
    by_cases hp : p = seq.length
    · exact Or.inr hp
    · rw [isSite_eq_inner e seq p hp] at h2
      exact Or.inl ⟨by omega, h2⟩

/-- the sites come in increasing order: strictly increasing, followed by
`len(seq)` (which repeats the last one when the last residue is a cleavage
residue); the first site is 0. -/
theorem C17_sites_sorted (e : Enzyme) (seq : List Char) :
    ∃ inner, cleavageSites e seq = inner ++ [seq.length] ∧ inner.Pairwise (· < ·)
      ∧ (∀ x ∈ inner, x ≤ seq.length) ∧ inner.head? = some 0 := by
  refine ⟨(List.range (seq.length + 1)).filter (innerSite e seq), cleavageSites_eq e seq, ?_, ?_, ?_⟩
  · exact List.Pairwise.filter _ List.pairwise_lt_range
  · intro x hx
    simp only [List.mem_filter, List.mem_range] at hx
    omega
  · rw [← inner_eq_filter]; rfl

/-! ## the digest is exactly the specification -/

/-- **C17 main theorem**: a peptide is returned iff the enzyme rules allow it
(`DigestSpec`: fully enzymatic within the limits, or its clipped form, or a proper
prefix/suffix of it of length ≥ `lo` under `semi`). -/
theorem C17_digest_mem_iff_spec (e : Enzyme) (seq : List Char) (mc lo hi : Nat) (clip semi : Bool)
    (hlo : 1 ≤ lo) (p : Pep) :
    p ∈ digest e seq mc lo hi clip semi ↔ DigestSpec e seq mc lo hi clip semi p :=
  mem_digest_iff_spec e seq mc lo hi clip semi hlo p

/-- the enumeration used by the driver op `digestspec` is the specification -/
theorem C17_specList_mem_iff_spec (e : Enzyme) (seq : List Char) (mc lo hi : Nat) (clip semi : Bool)
    (p : Pep) :
    p ∈ specList e seq mc lo hi clip semi ↔ DigestSpec e seq mc lo hi clip semi p :=
  mem_specList e seq mc lo hi clip semi p

/-- without the options the digest is exactly the set of fully enzymatic peptides -/
theorem C17_digest_plain (e : Enzyme) (seq : List Char) (mc lo hi : Nat) (hlo : 1 ≤ lo) (p : Pep) :
    p ∈ digest e seq mc lo hi false false ↔ ∃ a b, Enzymatic e seq mc lo hi a b ∧ p = slice seq a b := by
  rw [C17_digest_mem_iff_spec e seq mc lo hi false false hlo]
  unfold DigestSpec
  simp

/-- clause "with N-terminal methionine clipping it also contains the clipped form
of each qualifying N-terminal peptide" -/
theorem C17_digest_clip_contains (e : Enzyme) (seq : List Char) (mc lo hi : Nat) (semi : Bool)
    (hlo : 1 ≤ lo) (b : Nat) (hE : Enzymatic e seq mc lo hi 0 b) (hM : seq.head? = some 'M')
    (hlen : lo ≤ b - 1) :
    slice seq 1 b ∈ digest e seq mc lo hi true semi := by
  rw [C17_digest_mem_iff_spec e seq mc lo hi true semi hlo]
  exact ⟨0, b, hE, Or.inr (Or.inl ⟨rfl, rfl, hM, hlen, rfl⟩)⟩

/-- clause "with semi-enzymatic digestion every proper prefix and suffix of such a
peptide that respects the minimum length" -/
theorem C17_digest_semi_contains (e : Enzyme) (seq : List Char) (mc lo hi : Nat) (clip : Bool)
    (hlo : 1 ≤ lo) (a b k : Nat) (hE : Enzymatic e seq mc lo hi a b) (hk1 : 1 ≤ k) (hk2 : k < b - a)
    (hlen : lo ≤ b - a - k) :
    slice seq (a + k) b ∈ digest e seq mc lo hi clip true
      ∧ slice seq a (b - k) ∈ digest e seq mc lo hi clip true := by
  rw [C17_digest_mem_iff_spec e seq mc lo hi clip true hlo,
    C17_digest_mem_iff_spec e seq mc lo hi clip true hlo]
  exact ⟨⟨a, b, hE, Or.inr (Or.inr ⟨rfl, k, hk1, hk2, hlen, Or.inl rfl⟩)⟩,
    ⟨a, b, hE, Or.inr (Or.inr ⟨rfl, k, hk1, hk2, hlen, Or.inr rfl⟩)⟩⟩

/-! ## substring, length bounds (no hypothesis on the bounds) -/

/-- every returned peptide is a contiguous substring of the protein -/
theorem C17_digest_substring (e : Enzyme) (seq : List Char) (mc lo hi : Nat) (clip semi : Bool) (p : Pep)
    (h : p ∈ digest e seq mc lo hi clip semi) : ∃ pre suf, seq = pre ++ p ++ suf := by
  obtain ⟨pre, suf, h⟩ := cleave_infix seq _ mc lo hi semi clip p h
  exact ⟨pre, suf, h.symm⟩

/-- every returned peptide (clipped and semi forms included) respects the length bounds -/
theorem C17_digest_length_bounds (e : Enzyme) (seq : List Char) (mc lo hi : Nat) (clip semi : Bool) (p : Pep)
    (h : p ∈ digest e seq mc lo hi clip semi) : lo ≤ p.length ∧ p.length ≤ hi := by
  unfold digest at h
  rw [mem_cleave] at h
  obtain ⟨i, d, s, t, -, -, -, -, hp⟩ := h
  rw [mem_pepsOf] at hp
  obtain ⟨h1, h2, hp | ⟨-, -, -, c4, hp⟩ | ⟨-, k, k1, k2, k3, hp | hp⟩⟩ := hp
  · subst hp; exact ⟨h1, h2⟩
  · subst hp; rw [List.length_drop]; omega
  · subst hp; rw [List.length_drop]; omega
  · subst hp; rw [List.length_take]; omega

/-! ## monotonicity (no hypothesis on the bounds) -/

/-- more missed cleavages: the result can only grow -/
theorem C17_digest_mono_mc (e : Enzyme) (seq : List Char) (mc mc' lo hi : Nat) (clip semi : Bool)
    (h : mc ≤ mc') (p : Pep) (hp : p ∈ digest e seq mc lo hi clip semi) :
    p ∈ digest e seq mc' lo hi clip semi :=
  cleave_mono seq _ mc mc' lo hi lo hi semi semi clip clip p h (Nat.le_refl _) (Nat.le_refl _) id id hp

/-- wider length bounds: the result can only grow -/
theorem C17_digest_mono_bounds (e : Enzyme) (seq : List Char) (mc lo hi lo' hi' : Nat) (clip semi : Bool)
    (hlo : lo' ≤ lo) (hhi : hi ≤ hi') (p : Pep) (hp : p ∈ digest e seq mc lo hi clip semi) :
    p ∈ digest e seq mc lo' hi' clip semi :=
  cleave_mono seq _ mc mc lo hi lo' hi' semi semi clip clip p (Nat.le_refl _) hlo hhi id id hp

/-- allowing semi-enzymatic peptides: the result can only grow -/
theorem C17_digest_mono_semi (e : Enzyme) (seq : List Char) (mc lo hi : Nat) (clip semi : Bool)
    (p : Pep) (hp : p ∈ digest e seq mc lo hi clip semi) :
    p ∈ digest e seq mc lo hi clip true :=
  cleave_mono seq _ mc mc lo hi lo hi semi true clip clip p (Nat.le_refl _) (Nat.le_refl _) (Nat.le_refl _)
    (fun _ => rfl) id hp

/-- allowing N-terminal methionine clipping: the result can only grow -/
theorem C17_digest_mono_clip (e : Enzyme) (seq : List Char) (mc lo hi : Nat) (clip semi : Bool)
    (p : Pep) (hp : p ∈ digest e seq mc lo hi clip semi) :
    p ∈ digest e seq mc lo hi true semi :=
  cleave_mono seq _ mc mc lo hi lo hi semi semi clip true p (Nat.le_refl _) (Nat.le_refl _) (Nat.le_refl _)
    id (fun _ => rfl) hp

/-- all relaxations at once -/
theorem C17_digest_mono (e : Enzyme) (seq : List Char) (mc mc' lo hi lo' hi' : Nat)
    (clip clip' semi semi' : Bool) (hmc : mc ≤ mc') (hlo : lo' ≤ lo) (hhi : hi ≤ hi')
    (hsemi : semi = true → semi' = true) (hclip : clip = true → clip' = true)
    (p : Pep) (hp : p ∈ digest e seq mc lo hi clip semi) :
    p ∈ digest e seq mc' lo' hi' clip' semi' :=
  cleave_mono seq _ mc mc' lo hi lo' hi' semi semi' clip clip' p hmc hlo hhi hsemi hclip hp

/-! ## Non-vacuity and evaluation tests -/

def trypsinP : Enzyme := ⟨['K', 'R'], ['P']⟩
def demoSeq : List Char := ['M', 'K', 'P', 'A', 'K', 'R', 'A', 'A', 'K']

/-- the specification is inhabited by a non-trivial peptide: `MKPAK` = seq[0:5]
(K at 1 is followed by P, so position 2 is no site) -/
example : DigestSpec trypsinP demoSeq 0 1 7 false false ['M', 'K', 'P', 'A', 'K'] :=
  ⟨0, 5, by decide, Or.inl (by decide)⟩

/-- … its clipped form (hypotheses of `C17_digest_clip_contains`) -/
example : Enzymatic trypsinP demoSeq 0 1 7 0 5 ∧ demoSeq.head? = some 'M' ∧ 1 ≤ 5 - 1 :=
  ⟨by decide, by decide, by decide⟩

/-- … and a semi-enzymatic suffix (hypotheses of `C17_digest_semi_contains`) -/
example : Enzymatic trypsinP demoSeq 1 2 7 5 9 ∧ 1 ≤ 2 ∧ 2 < 9 - 5 ∧ 2 ≤ 9 - 5 - 2 :=
  ⟨by decide, by decide, by decide, by decide⟩

/-- a peptide spanning two sites is *not* allowed with `mc = 0` -/
example : ¬ Enzymatic trypsinP demoSeq 0 1 7 0 6 := by decide

-- evaluation tests (compiler-evaluated: *tests*, not theorems)
#guard cleavageSites trypsinP demoSeq == [0, 5, 6, 9, 9]
#guard cleavageSites ⟨['K', 'R'], []⟩ demoSeq == [0, 2, 5, 6, 9, 9]
#guard cleavageSites trypsinP [] == [0, 0]
#guard digest trypsinP demoSeq 0 1 7 false false
    == ["MKPAK".toList, "R".toList, "AAK".toList]
#guard digest trypsinP demoSeq 1 2 7 true false
    == ["MKPAK".toList, "KPAK".toList, "MKPAKR".toList, "KPAKR".toList, "RAAK".toList, "AAK".toList,
        "AAK".toList]
#guard (digest trypsinP demoSeq 2 1 7 true true).all (fun p => (specList trypsinP demoSeq 2 1 7 true true).contains p)
#guard (specList trypsinP demoSeq 2 1 7 true true).all (fun p => (digest trypsinP demoSeq 2 1 7 true true).contains p)
-- boundary: `min_length = 0` returns the empty peptide (excluded by `1 ≤ lo`)
#guard (digest ⟨['K'], []⟩ ['A', 'K'] 0 0 5 false false).contains []

end Mk
