import MokapotVerif.Lemmas.QvaluesArr
import MokapotVerif.Props.C01
/-!
# C01 — the array-level pipeline, the `_fdr2qvalue` helper, input validation, label encodings

Property theorems only.  `Model/QvaluesArr.lean` follows `tdc` array by array (cumulative
sums, guarded division, `np.unique` counts, the flips that depend on `desc`, the
`_fdr2qvalue` loop with its slices and `np.argmax`, the un-sort).  `leq` is the natural
order of the scores (total, transitive, antisymmetric — finite floats), `desc` the direction
flag of the code.  All statements are for lists of arbitrary length.
-/
namespace Mk
open Mk.Qv
variable {α β : Type}

/-- The q-values do not depend on how `np.argsort` arranges tied scores: every admissible
arrangement gives the result of the executable model. -/
theorem C01_any_argsort_eq_tdc (le : α → α → Bool) (hle : TotalPre le) (xs : List (α × Bool))
    (sorted : List ((α × Bool) × Nat)) (hperm : sorted.Perm xs.zipIdx)
    (hs : SortedDesc le (sorted.map (·.1))) :
    tdcOf le xs.length sorted = tdc le xs := by
  rw [C01_tdc_any_argsort_eq_spec le hle xs sorted hperm hs, C01_tdc_eq_spec le hle]

/-- **Anchor 2 (`_fdr2qvalue`)**: fed with the flipped FDR and `num_total` arrays of a
best-first sorted input and the worst-first tie-group sizes, the loop (slices of
`indices[idx]` members, FDR taken where `num_total` is largest in the group, running
minimum from the worst group to the best) returns, flipped, the defining formula of every
row. -/
theorem C01_fdr2qvalue_on_sorted (le : α → α → Bool) (hle : TotalPre le) (l : List (α × Bool))
    (hs : SortedDesc le l) :
    fdr2qvalue (fdrs 0 0 l).reverse (nts 0 0 l).reverse (runLengths (tieOf le) (l.map (·.1)).reverse)
      = some (l.map (fun x => qSpec le l x.1)).reverse := by
  unfold fdr2qvalue
  rw [if_pos (by simp [length_fdrs, length_nts]), loop_eq_go le l 0 0 hs, go_eq_spec_sorted le hle l hs]

/-- **Anchor 1 (`tdc`, array by array)** for any result of the `argsort`: cumulative counts,
`(D+1)/T` with the zero-target guard, `np.unique` counts, the flips of both directions,
`_fdr2qvalue`, the un-sort — together they return the defining formula in input order. -/
theorem C01_pipeline_any_argsort_eq_spec (leq : α → α → Bool) (hle : LinearLe leq) (desc : Bool)
    (xs : List (α × Bool)) (sorted : List ((α × Bool) × Nat)) (hperm : sorted.Perm xs.zipIdx)
    (hs : SortedDesc (dirLe leq desc) (sorted.map (·.1))) :
    tdcArrOf leq desc xs.length sorted = some (xs.map (fun x => qSpec (dirLe leq desc) xs x.1)) := by
  rw [tdcArrOf_eq_tdcOf leq hle desc _ _ hs,
    C01_tdc_any_argsort_eq_spec _ (hle.totalPre desc) xs sorted hperm hs]

/-- … and for the executable array-level model (merge sort as the `argsort`): it never
fails and returns the defining formula, for both values of `desc`. -/
theorem C01_pipeline_eq_spec (leq : α → α → Bool) (hle : LinearLe leq) (desc : Bool)
    (xs : List (α × Bool)) :
    tdcArr leq desc xs = some (xs.map (fun x => qSpec (dirLe leq desc) xs x.1)) := by
  rw [tdcArr_eq_tdc leq hle, C01_tdc_eq_spec _ (hle.totalPre desc)]

/-- the array-level and the fused model agree everywhere -/
theorem C01_pipeline_eq_fused (leq : α → α → Bool) (hle : LinearLe leq) (desc : Bool)
    (xs : List (α × Bool)) : tdcArr leq desc xs = some (tdc (dirLe leq desc) xs) :=
  tdcArr_eq_tdc leq hle desc xs

/-- "either score direction": ranking with lower-is-better equals ranking the mirrored
scores with higher-is-better, for any order-reversing map `neg` (e.g. `x ↦ -x`). -/
theorem C01_direction_dual (leq : α → α → Bool) (hle : LinearLe leq) (leq' : β → β → Bool)
    (hle' : LinearLe leq') (neg : α → β) (hneg : ∀ a b, leq' (neg a) (neg b) = leq b a)
    (xs : List (α × Bool)) :
    tdc (dirLe leq false) xs = tdc (dirLe leq' true) (xs.map (fun x => (neg x.1, x.2))) := by
  symm
  apply C01_tdc_strictMono_invariant (dirLe leq false) (hle.totalPre false) (dirLe leq' true)
    (hle'.totalPre true) neg
  intro a b
  simp [dirLe, hneg]

/-! ## Input validation (qvalues.py:84-102) and label encodings -/

/-- integer labels are accepted exactly when every entry is 0 or 1 … -/
theorem C01_decode_ints_accepts_iff (is : List Int) :
    (decodeLabels (.ints is)).isSome = true ↔ ∀ i ∈ is, i = 0 ∨ i = 1 := by
  simp only [decodeLabels]
  split <;> rename_i h
  · simp only [Option.isSome_some, true_iff]
    intro i hi
    have := List.all_eq_true.mp h i hi
    simpa using this
  · simp only [Option.isSome_none, Bool.false_eq_true, false_iff]
    intro hall
    apply h
    rw [List.all_eq_true]
    intro i hi
    simpa using hall i hi

/-- … and floating labels exactly when every entry equals 0.0 or 1.0 -/
theorem C01_decode_floats_accepts_iff (fs : List Rat) :
    (decodeLabels (.floats fs)).isSome = true ↔ ∀ f ∈ fs, f = 0 ∨ f = 1 := by
  simp only [decodeLabels]
  split <;> rename_i h
  · simp only [Option.isSome_some, true_iff]
    intro f hf
    have := List.all_eq_true.mp h f hf
    simpa using this
  · simp only [Option.isSome_none, Bool.false_eq_true, false_iff]
    intro hall
    apply h
    rw [List.all_eq_true]
    intro f hf
    simpa using hall f hf

/-- `tdc` as called returns a value exactly when the labels decode to Booleans and both
arrays have one length; the value then is the defining formula on the decoded rows. -/
theorem C01_tdc_checked_ok_iff (leq : α → α → Bool) (hle : LinearLe leq) (desc : Bool)
    (scores : List α) (labels : LabelArr) (q : List Rat) :
    tdcChecked leq desc scores labels = .ok q ↔
      ∃ bs, decodeLabels labels = some bs ∧ scores.length = bs.length ∧
        q = (scores.zip bs).map (fun x => qSpec (dirLe leq desc) (scores.zip bs) x.1) := by
  unfold tdcChecked checkInput
  cases hd : decodeLabels labels with
  | none => simp [Option.elim, Except.map]
  | some bs =>
    simp only [Option.elim]
    by_cases hl : scores.length = bs.length
    · simp only [hl, if_true, Except.map, Except.ok.injEq, Option.some.injEq, exists_eq_left', true_and]
      rw [C01_tdc_eq_spec _ (hle.totalPre desc)]
      exact eq_comm
    · simp [hl, Except.map]

/-- the two refusals, in the order of the code: labels first, then the lengths -/
theorem C01_tdc_checked_errors (leq : α → α → Bool) (desc : Bool) (scores : List α) (labels : LabelArr) :
    (decodeLabels labels = none → tdcChecked leq desc scores labels = .error .notBoolean) ∧
    (∀ bs, decodeLabels labels = some bs → scores.length ≠ bs.length →
      tdcChecked leq desc scores labels = .error .lengthMismatch) := by
  unfold tdcChecked checkInput
  constructor
  · intro h; simp [h, Option.elim, Except.map]
  · intro bs h hl; simp [h, hl, Option.elim, Except.map]

/-- "any labelling (bool, 0/1 int or float)": the three encodings of one labelling are
validated to the same rows, hence give the same q-values and the same training labels. -/
theorem C01_label_encoding_invariant (scores : List α) (bs : List Bool) :
    checkInput scores (.ints (bs.map (fun b => if b then 1 else 0))) = checkInput scores (.bools bs) ∧
    checkInput scores (.floats (bs.map (fun b => if b then 1 else 0))) = checkInput scores (.bools bs) := by
  have hi : decodeLabels (.ints (bs.map (fun b => if b then (1 : Int) else 0))) = some bs := by
    simp only [decodeLabels]
    rw [if_pos]
    · congr 1
      rw [List.map_map]
      conv => rhs; rw [← List.map_id bs]
      apply List.map_congr_left
      intro b _
      cases b <;> simp
    · rw [List.all_eq_true]
      intro i hi
      obtain ⟨b, _, rfl⟩ := List.mem_map.mp hi
      cases b <;> simp
  have hf : decodeLabels (.floats (bs.map (fun b => if b then (1 : Rat) else 0))) = some bs := by
    simp only [decodeLabels]
    rw [if_pos]
    · congr 1
      rw [List.map_map]
      conv => rhs; rw [← List.map_id bs]
      apply List.map_congr_left
      intro b _
      cases b <;> simp
    · rw [List.all_eq_true]
      intro i hi
      obtain ⟨b, _, rfl⟩ := List.mem_map.mp hi
      cases b <;> simp
  unfold checkInput
  rw [hi, hf]
  simp [decodeLabels]

/-- `qvalues_from_scores(scores, targets, "tdc")` is `tdc` with higher-is-better -/
theorem C01_qvalues_from_scores_tdc (leq : α → α → Bool) (scores : List α) (labels : LabelArr) :
    qvaluesFromScoresTdc leq scores labels = tdcChecked leq true scores labels := rfl

/-- training labels through the validated entry: a result exists exactly when `tdc`
accepts the input, and it marks the targets with `q ≤ thr` (q the defining formula) +1,
all decoys −1, every other target 0 — whatever the encoding of the labels. -/
theorem C01_labels_checked_exact (leq : α → α → Bool) (hle : LinearLe leq) (desc : Bool) (thr : Rat)
    (scores : List α) (labels : LabelArr) (labs : List Int) :
    updateLabelsChecked leq desc thr scores labels = .ok labs ↔
      ∃ bs, decodeLabels labels = some bs ∧ scores.length = bs.length ∧
        labs = (scores.zip bs).map (fun x =>
          if x.2 = false then (-1 : Int)
          else if qSpec (dirLe leq desc) (scores.zip bs) x.1 ≤ thr then 1 else 0) := by
  unfold updateLabelsChecked checkInput
  cases hd : decodeLabels labels with
  | none => simp [Option.elim, Except.map]
  | some bs =>
    simp only [Option.elim]
    by_cases hl : scores.length = bs.length
    · simp only [hl, if_true, Except.map, Except.ok.injEq, Option.some.injEq, exists_eq_left', true_and]
      rw [C01_labels_exact _ (hle.totalPre desc)]
      exact eq_comm
    · simp [hl, Except.map]

/-- the pandas-Series branch (`astype(bool)`) agrees with the validated one on every 0/1
labelling -/
theorem C01_labels_series_agree (leq : α → α → Bool) (desc : Bool) (thr : Rat) (scores : List α)
    (labels : LabelArr) (bs : List Bool) (h : decodeLabels labels = some bs) :
    updateLabelsSeries leq desc thr scores labels = updateLabelsChecked leq desc thr scores labels := by
  have hb : astypeBool labels = bs := by
    cases labels with
    | bools b => simp only [decodeLabels, Option.some.injEq] at h; simpa [astypeBool] using h
    | ints is =>
      simp only [decodeLabels] at h
      split at h <;> rename_i hall
      · simp only [Option.some.injEq] at h
        rw [← h]
        simp only [astypeBool]
        apply List.map_congr_left
        intro i hi
        have := List.all_eq_true.mp hall i hi
        simp only [Bool.or_eq_true, beq_iff_eq] at this
        rcases this with rfl | rfl <;> simp
      · simp at h
    | floats fs =>
      simp only [decodeLabels] at h
      split at h <;> rename_i hall
      · simp only [Option.some.injEq] at h
        rw [← h]
        simp only [astypeBool]
        apply List.map_congr_left
        intro f hf
        have := List.all_eq_true.mp hall f hf
        simp only [Bool.or_eq_true, beq_iff_eq] at this
        rcases this with rfl | rfl <;> simp
      · simp at h
  unfold updateLabelsSeries updateLabelsChecked checkInput
  rw [hb, h]
  simp [decodeLabels]

/-! ## Non-vacuity -/

def leqInt (a b : Int) : Bool := decide (a ≤ b)

theorem leqInt_linear : LinearLe leqInt := by
  constructor
  · intro a b; simp [leqInt]; omega
  · intro a b c; simp [leqInt]; omega
  · intro a b; simp [leqInt]; omega

def leqRat (a b : Rat) : Bool := decide (a ≤ b)

theorem leqRat_linear : LinearLe leqRat := by
  constructor
  · intro a b; simp [leqRat]; exact le_total _ _
  · intro a b c; simp [leqRat]; exact le_trans
  · intro a b; simp [leqRat]; exact le_antisymm

/-- the order hypotheses hold for integer and rational scores -/
example : LinearLe leqInt ∧ LinearLe leqRat := ⟨leqInt_linear, leqRat_linear⟩

/-- the `argsort` hypotheses are met by an arrangement that is *not* the stable one (the two
tied rows in reversed index order), in both directions -/
example : let xs : List (Int × Bool) := [(4, true), (4, false), (5, true)]
    let sorted : List ((Int × Bool) × Nat) := [((5, true), 2), ((4, false), 1), ((4, true), 0)]
    sorted.Perm xs.zipIdx ∧ SortedDesc (dirLe leqInt true) (sorted.map (·.1)) ∧
      SortedDesc (dirLe leqInt false) (sorted.reverse.map (·.1)) := by
  refine ⟨by decide, ?_, ?_⟩ <;> simp [SortedDesc, dirLe, leqInt]

/-- a mismatch of lengths and a non-0/1 label are refused, a 0/1 integer labelling is accepted -/
example : tdcChecked leqInt true [3, 2, 1] (.bools [true, false]) = .error .lengthMismatch ∧
    tdcChecked leqInt true [3, 2] (.ints [1, 2]) = .error .notBoolean ∧
    (checkInput [3, 2] (.ints [1, 0]) : Except TdcErr (List (Int × Bool))) = .ok [(3, true), (2, false)] := by
  refine ⟨rfl, rfl, rfl⟩

-- evaluation tests (compiler-evaluated: *tests*, not theorems)
#guard tdcArr leqInt true [(5, true), (4, true), (4, false), (3, true), (3, false), (1, true)]
    == some [3/4, 3/4, 3/4, 3/4, 3/4, 3/4]
#guard tdcArr leqInt true [(5, true), (4, false), (4, true), (3, true), (3, true), (1, false)]
    == some [1/2, 1/2, 1/2, 1/2, 1/2, 3/4]
#guard tdcArr leqInt false [(1, true), (2, true), (2, true), (2, false), (3, false), (3, true)]
    == some [2/3, 2/3, 2/3, 2/3, 3/4, 3/4]
#guard fdr2qvalue [3/4, 2/3, 1/2, 1] [4, 3, 2, 1] [1, 2, 1] == some [3/4, 2/3, 2/3, 2/3]
#guard fdr2qvalue [1/2, 1/3, 1] [3, 2, 1] [2, 0, 1] == none
#guard updateLabelsChecked leqInt true (1/2) [5, 4, 3, 2, 1] (.ints [1, 0, 1, 1, 0]) == .ok [0, -1, 0, 0, -1]

end Mk
