import MokapotVerif.Lemmas.PinOrder
/-!
# C10 — every well-formed PIN / Parquet PSM table parses into a faithful dataset

Property theorems only.  `readPercolatorSched args c r t order` is the model of
`mokapot.read_pin` / `read_percolator` (Model/Pin.lean): `c` is the column-scan
chunk size, `r` the row-scan chunk size, `order` the completion order of the
scan tasks (any re-arrangement of the column chunks), `t` the table as
decoded by pandas / pyarrow (columns in file order; cells missing | int | bool |
text).  All theorems hold for tables of any size, every `c ≥ 1`, every `r ≥ 1`
and every task order; the worker count does not occur in the model at all.
`WellFormed` spells out "well-formed PSM table"; `specDataset` is the
declarative specification.
-/
namespace Mk.Pin
variable {α : Type}

/-! ## The main theorem -/

/-- **C10 main theorem.** A well-formed table parses — for every column-scan
chunk size, row-scan chunk size and completion order of the scan tasks — into
exactly the specified dataset: features = non-reserved columns without missing
value in file order, spectrum key = [file, scan, time, mass] ∩ present, one
spectra row per input row in file order, targets = rows labelled 1 / true. -/
theorem C10_parse_faithful {t : Table} (h : WellFormed t) {c r : Nat} (hc : 1 ≤ c) (hr : 1 ≤ r)
    (order : List (List Name) → List (List Name)) (hord : ∀ l, (order l).Perm l) :
    readPercolatorSched {} c r t order = .ok (specDataset t) :=
  readPercolatorSched_wf h hc hr order hord

/-- the same for the executable model used by the correspondence driver -/
theorem C10_parse_faithful_exec {t : Table} (h : WellFormed t) {c r : Nat} (hc : 1 ≤ c) (hr : 1 ≤ r) :
    readPercolator {} c r t = .ok (specDataset t) :=
  readPercolatorSched_wf h hc hr id (fun _ => List.Perm.refl _)

/-! ## The clauses of the property, one by one -/

/-- **features**: exactly the non-reserved columns that contain no missing
value, in file order (a sub-list of the header); columns with missing values
are dropped. -/
theorem C10_features_spec {t : Table} (h : WellFormed t) {c r : Nat} (hc : 1 ≤ c) (hr : 1 ≤ r)
    (order : List (List Name) → List (List Name)) (hord : ∀ l, (order l).Perm l) :
    ∃ d, readPercolatorSched {} c r t order = .ok d ∧ d.features.Sublist t.header ∧
      ∀ f, f ∈ d.features ↔
        f ∈ t.header ∧ isReserved t.header f = false ∧ ∀ cell ∈ t.column f, cell ≠ Cell.na := by
  refine ⟨_, C10_parse_faithful h hc hr order hord, List.filter_sublist, ?_⟩
  intro f
  show f ∈ specFeatures t ↔ _
  unfold specFeatures hasMissing
  rw [List.mem_filter]
  simp only [Bool.and_eq_true, Bool.not_eq_true', List.any_eq_false]
  constructor
  · rintro ⟨h1, h2, h3⟩
    refine ⟨h1, h2, ?_⟩
    intro cell hcell hna; subst hna
    exact h3 _ hcell rfl
  · rintro ⟨h1, h2, h3⟩
    refine ⟨h1, h2, ?_⟩
    intro cell hcell hna
    cases cell with
    | na => exact h3 _ hcell rfl
    | int i => cases hna
    | bool b => cases hna
    | str s => cases hna

/-- **spectrum key**: the scan column and those of the file-name, retention-time
and measured-mass columns that are present, in the order file, scan, time, mass. -/
theorem C10_spectrum_key {t : Table} (h : WellFormed t) {c r : Nat} (hc : 1 ≤ c) (hr : 1 ≤ r)
    (order : List (List Name) → List (List Name)) (hord : ∀ l, (order l).Perm l) :
    ∃ d, readPercolatorSched {} c r t order = .ok d ∧
      d.spectrum = (pick t.header nFilename).toList ++ [pickD t.header nScannr]
        ++ (pick t.header nRetTime).toList ++ (pick t.header nExpmass).toList ∧
      lowerName (pickD t.header nScannr) = nScannr := by
  refine ⟨_, C10_parse_faithful h hc hr order hord, ?_, ?_⟩
  · show specSpectrum t.header = _
    rw [← default_spectra (wf_headerOk h)]; rfl
  · obtain ⟨x, hx, _, hl⟩ := pick_some_of_count (req_count (wf_headerOk h)).2.2.2.2
    unfold pickD; rw [hx]; exact hl

/-- **rows**: the spectra data frame has one entry per input row in file order —
each spectrum-key column is returned in full, unchanged; no row is dropped. -/
theorem C10_rows_in_file_order {t : Table} (h : WellFormed t) {c r : Nat} (hc : 1 ≤ c) (hr : 1 ≤ r)
    (order : List (List Name) → List (List Name)) (hord : ∀ l, (order l).Perm l) :
    ∃ d, readPercolatorSched {} c r t order = .ok d ∧
      d.spectra = d.spectrum.map (fun x => (x, t.column x)) ∧
      (∀ p ∈ d.spectra, p.2.length = t.nrows) ∧ d.targets.length = t.nrows := by
  refine ⟨_, C10_parse_faithful h hc hr order hord, rfl, ?_, ?_⟩
  · intro p hp
    obtain ⟨x, hx, rfl⟩ := List.mem_map.mp hp
    have hw := default_within (wf_headerOk h)
    rw [← default_spectra (wf_headerOk h)] at hx
    exact column_length t h.rows (within_spectra hw x hx)
  · show ((t.column (pickD t.header nLabel)).map Cell.isTarget).length = _
    rw [List.length_map]
    exact column_length t h.rows (default_within (wf_headerOk h)).labels

/-- **targets**: row `i` is a target iff its label cell is `1` or `true`. -/
theorem C10_targets_spec {t : Table} (h : WellFormed t) {c r : Nat} (hc : 1 ≤ c) (hr : 1 ≤ r)
    (order : List (List Name) → List (List Name)) (hord : ∀ l, (order l).Perm l) :
    ∃ d, readPercolatorSched {} c r t order = .ok d ∧
      ∀ i, i < t.nrows → ∃ cell, (t.column (pickD t.header nLabel))[i]? = some cell ∧
        d.targets[i]? = some (decide (cell = Cell.int 1 ∨ cell = Cell.bool true)) := by
  refine ⟨_, C10_parse_faithful h hc hr order hord, ?_⟩
  intro i hi
  have hlen := column_length t h.rows (default_within (wf_headerOk h)).labels
  have hlen' : (t.column (pickD t.header nLabel)).length = t.nrows := hlen
  have hi' : i < (t.column (pickD t.header nLabel)).length := by omega
  refine ⟨(t.column (pickD t.header nLabel))[i], List.getElem?_eq_getElem hi', ?_⟩
  show ((t.column (pickD t.header nLabel)).map Cell.isTarget)[i]? = _
  rw [List.getElem?_map, List.getElem?_eq_getElem hi']
  simp only [Option.map_some, Option.some.injEq]
  unfold Cell.isTarget
  generalize (t.column (pickD t.header nLabel))[i] = cell
  by_cases h1 : cell = Cell.int 1 <;> by_cases h2 : cell = Cell.bool true <;> simp [h1, h2]

/-- **letter case**: whatever the letter case of a reserved column name in the
file, that column is the one the dataset reports for the role (and no other). -/
theorem C10_reserved_found_in_any_case {t : Table} (h : WellFormed t) {c r : Nat} (hc : 1 ≤ c) (hr : 1 ≤ r)
    (order : List (List Name) → List (List Name)) (hord : ∀ l, (order l).Perm l) :
    ∃ d, readPercolatorSched {} c r t order = .ok d ∧ ∀ x ∈ t.header,
      (d.specid = x ↔ lowerName x = nSpecid) ∧ (d.target = x ↔ lowerName x = nLabel) ∧
      (d.scan = x ↔ lowerName x = nScannr) ∧ (d.peptide = x ↔ lowerName x = nPeptide) ∧
      (d.protein = x ↔ lowerName x = nProteins) ∧ (d.filename = some x ↔ lowerName x = nFilename) ∧
      (d.calcmass = some x ↔ lowerName x = nCalcmass) ∧ (d.expmass = some x ↔ lowerName x = nExpmass) ∧
      (d.rt = some x ↔ lowerName x = nRetTime) := by
  refine ⟨_, C10_parse_faithful h hc hr order hord, ?_⟩
  intro x hx
  obtain ⟨r1, r2, r3, r4, r5⟩ := req_count (wf_headerOk h)
  obtain ⟨o1, o2, o3, o4, _⟩ := opt_count (wf_headerOk h)
  exact ⟨pickD_eq_iff r1 hx, pickD_eq_iff r4 hx, pickD_eq_iff r5 hx, pickD_eq_iff r2 hx,
    pickD_eq_iff r3 hx, pick_eq_some_iff o1 hx, pick_eq_some_iff o2 hx, pick_eq_some_iff o3 hx,
    pick_eq_some_iff o4 hx⟩

/-- **column order**: re-ordering the columns of a well-formed table in any way
gives a well-formed table that parses into the same spectrum key, the same
spectra rows, the same targets, and the same features listed in the new file
order. -/
theorem C10_column_order_irrelevant {t t' : Table} (h : WellFormed t) (hp : t'.cols.Perm t.cols)
    {c r : Nat} (hc : 1 ≤ c) (hr : 1 ≤ r)
    (order : List (List Name) → List (List Name)) (hord : ∀ l, (order l).Perm l) :
    ∃ d d', readPercolatorSched {} c r t order = .ok d ∧ readPercolatorSched {} c r t' order = .ok d' ∧
      d'.spectrum = d.spectrum ∧ d'.spectra = d.spectra ∧ d'.targets = d.targets ∧
      d'.features = t'.header.filter (fun x => d.features.contains x) := by
  obtain ⟨h1, h2, h3, h4⟩ := specDataset_perm h hp
  exact ⟨_, _, C10_parse_faithful h hc hr order hord,
    C10_parse_faithful (wellFormed_perm h hp) hc hr order hord, h1, h2, h3, h4⟩

/-- **missing required column**: whatever the keyword arguments, chunk sizes and
task order, a table lacking one of specid / peptide / proteins / label / scannr
(in any letter case) is rejected with "column not found / not unique". -/
theorem C10_missing_required_rejected (t : Table) {q : Name} (hq : q ∈ requiredNames)
    (h0 : countLower t.header q = 0) (args : PinArgs) (c r : Nat)
    (order : List (List Name) → List (List Name)) :
    ∃ e, readPercolatorSched args c r t order = .error e ∧ (e = .missing ∨ e = .ambiguous) := by
  cases hk : lookupColumns args t.header with
  | error e => exact ⟨e, readPercolatorSched_lookup_error hk, lookupColumns_error_kind hk⟩
  | ok k => have := lookupColumns_ok_required hk q hq; omega

/-- **duplicate case variants**: a required column present under several
letter cases (e.g. `Label` and `label`) is rejected, whatever the arguments. -/
theorem C10_duplicate_case_variants_rejected (t : Table) {q : Name} (hq : q ∈ requiredNames)
    (h2 : 2 ≤ countLower t.header q) (args : PinArgs) (c r : Nat)
    (order : List (List Name) → List (List Name)) :
    ∃ e, readPercolatorSched args c r t order = .error e ∧ (e = .missing ∨ e = .ambiguous) := by
  cases hk : lookupColumns args t.header with
  | error e => exact ⟨e, readPercolatorSched_lookup_error hk, lookupColumns_error_kind hk⟩
  | ok k => have := lookupColumns_ok_required hk q hq; omega

/-- **out-of-range label**: an integer label column with a value outside
{-1, 0, 1} is rejected with the "values not in {-1, 0, 1}" error. -/
theorem C10_label_out_of_range_rejected {t : Table} (hreq : ∀ q ∈ requiredNames, countLower t.header q = 1)
    (hopt : ∀ q ∈ optionalNames ++ [nChargeColumn], countLower t.header q ≤ 1)
    (hrows : ∀ p ∈ t.cols, p.2.length = t.nrows) (hn : 0 < t.nrows)
    (hint : (t.column (pickD t.header nLabel)).all Cell.isInt = true)
    (hbad : ∃ cell ∈ t.column (pickD t.header nLabel), cell.intVal < -1 ∨ 1 < cell.intVal)
    {c r : Nat} (hc : 1 ≤ c) (hr : 1 ≤ r)
    (order : List (List Name) → List (List Name)) (hord : ∀ l, (order l).Perm l) :
    readPercolatorSched {} c r t order = .error .labelRange := by
  rw [readPercolatorSched_core ⟨hreq, hopt⟩ hrows hn hc hr order hord, convertTargets_range hint hbad]
  rfl

/-- **accepted iff well-formed**: among tables with distinct column names and
columns of one positive length, parsing (default arguments) succeeds exactly
on the well-formed ones. -/
theorem C10_accepts_iff {t : Table} (hnd : t.header.Nodup)
    (hrows : ∀ p ∈ t.cols, p.2.length = t.nrows) (hn : 0 < t.nrows)
    {c r : Nat} (hc : 1 ≤ c) (hr : 1 ≤ r)
    (order : List (List Name) → List (List Name)) (hord : ∀ l, (order l).Perm l) :
    (∃ d, readPercolatorSched {} c r t order = .ok d) ↔ WellFormed t := by
  constructor
  · rintro ⟨d, hd⟩
    obtain ⟨k, hk⟩ := readPercolatorSched_ok_lookup hd
    have hok := lookupColumns_ok_headerOk hk
    rw [readPercolatorSched_core hok hrows hn hc hr order hord] at hd
    obtain ⟨bs, hbs, _⟩ := bind_ok hd
    exact ⟨hnd, hrows, hn, hok.required, hok.optional, (convertTargets_ok_iff _).mp ⟨bs, hbs⟩⟩
  · intro h
    exact ⟨_, C10_parse_faithful h hc hr order hord⟩

/-! ## Mechanisms -/

/-- **column chunks cover**: the chunks of the (repaired)
`create_chunks_with_identifier` concatenate to `data ++ identifiers` — every
column is scanned exactly once, none is lost. -/
theorem C10_idchunks_cover (data ids : List α) {c : Nat} (hc : 1 ≤ c) :
    (idChunks data ids c).flatten = data ++ ids :=
  idChunks_flatten hc data ids

/-- **identifier columns stay together**: for every chunk size `c ≥ 1`, exactly
one column chunk contains all identifier columns (so the spectra data frame is
appended exactly once per row chunk). False for the function before the repair
(`Mutants/Pin.lean`, 18 features, 3 identifiers, c = 19). -/
theorem C10_idchunks_together [BEq α] [LawfulBEq α] (data ids : List α) (hne : ids ≠ [])
    (hdis : ∀ x ∈ ids, x ∉ data) {c : Nat} (hc : 1 ≤ c) :
    (idChunks data ids c).countP (hasIds ids) = 1 :=
  countP_hasIds_idChunks hc data ids hne hdis

/-- **missing-value scan**: a data column (not an identifier) is reported by the
column-chunk × row-chunk scan iff it contains a missing value — for every
column chunk size and every row chunk size. -/
theorem C10_nan_scan_spec (t : Table) (hrows : ∀ p ∈ t.cols, p.2.length = t.nrows)
    (data ids : List Name) {c r : Nat} (hc : 1 ≤ c) (hr : 1 ≤ r) {f : Name}
    (hfd : f ∈ data) (hfi : f ∉ ids) (hfh : f ∈ t.header) :
    f ∈ (idChunks data ids c).flatMap (scanDrop t ids r (numRowChunks t.nrows r))
      ↔ ∃ cell ∈ t.column f, cell = Cell.na := by
  rw [mem_scanDrop_iff t hc hr data ids hfd hfi (column_length t hrows hfh)]
  unfold hasMissing
  rw [List.any_eq_true]
  constructor
  · rintro ⟨cell, h1, h2⟩
    refine ⟨cell, h1, ?_⟩
    cases cell <;> first | rfl | cases h2
  · rintro ⟨cell, h1, rfl⟩
    exact ⟨_, h1, rfl⟩

/-- **independence of chunk sizes, workers and timing**: on a well-formed table
any two column-chunk sizes, row-chunk sizes and task completion orders give
the same dataset. -/
theorem C10_chunking_and_schedule_irrelevant {t : Table} (h : WellFormed t) {c r c' r' : Nat}
    (hc : 1 ≤ c) (hr : 1 ≤ r) (hc' : 1 ≤ c') (hr' : 1 ≤ r')
    (order order' : List (List Name) → List (List Name))
    (hord : ∀ l, (order l).Perm l) (hord' : ∀ l, (order' l).Perm l) :
    readPercolatorSched {} c r t order = readPercolatorSched {} c' r' t order' := by
  rw [C10_parse_faithful h hc hr order hord, C10_parse_faithful h hc' hr' order' hord']

/-- **column existence checks**: the checks in `OnDiskPsmDataset.__init__` never
reject a dataset produced by the parser (any table, any arguments). -/
theorem C10_column_checks_never_fire (args : PinArgs) (c r : Nat) (t : Table)
    (order : List (List Name) → List (List Name)) :
    readPercolatorSched args c r t order ≠ .error .columnCheck :=
  readPercolatorSched_no_columnCheck args c r t order

/-- **features vs metadata, any arguments**: whenever parsing succeeds (also with
user-supplied column arguments) the features are disjoint from the metadata
columns, are columns of the file, and both are reported in file order. -/
theorem C10_features_disjoint_metadata {args : PinArgs} {c r : Nat} {t : Table}
    {order : List (List Name) → List (List Name)} {d : Dataset}
    (h : readPercolatorSched args c r t order = .ok d) :
    d.features.Sublist t.header ∧ (∀ f ∈ d.features, f ∉ d.metadata) ∧ (∀ m ∈ d.metadata, m ∈ t.header) := by
  unfold readPercolatorSched at h
  obtain ⟨k, hk, h⟩ := bind_ok h
  split at h
  · cases h
  split at h
  · cases h
  unfold assemble at h
  split at h
  · cases h
  obtain ⟨tg, _, h⟩ := bind_ok h
  split at h
  · simp only [Except.ok.injEq] at h
    subst h
    refine ⟨?_, ?_, ?_⟩
    · exact (List.filter_sublist).trans List.filter_sublist
    · intro f hf hm
      have hf' := (List.mem_filter.mp (List.mem_filter.mp hf).1).2
      have hm' : f ∈ k.nonfeat t.header := hm
      simp [hm'] at hf'
    · exact within_nonfeat (lookupColumns_within hk)
  · cases h

/-! ## Non-vacuity: a concrete well-formed table and its parse -/

/-- 3 rows; reserved names in mixed case; a file-name and a mass column; labels
1 / -1; feature `f2` and `charge` have a missing value, `f1`, `f3` do not. -/
def exTable : Table :=
  ⟨[("SpecId".toList, [.str "a".toList, .str "b".toList, .str "c".toList]),
    ("LABEL".toList, [.int 1, .int (-1), .int 1]),
    ("f1".toList, [.int 5, .int 6, .int 7]),
    ("scannr".toList, [.int 11, .int 12, .int 13]),
    ("ExpMass".toList, [.int 500, .na, .int 502]),
    ("f2".toList, [.int 1, .na, .int 3]),
    ("FileName".toList, [.str "r1".toList, .str "r1".toList, .str "r2".toList]),
    ("charge".toList, [.na, .int 2, .int 3]),
    ("f3".toList, [.int 0, .int 0, .int 0]),
    ("Peptide".toList, [.str "P".toList, .str "Q".toList, .str "R".toList]),
    ("Proteins".toList, [.str "X".toList, .str "Y".toList, .str "Z".toList])]⟩

example : WellFormed exTable := (wellFormedB_iff _).mp (by decide +kernel)

#guard wellFormedB exTable
#guard (readPercolator {} 2 2 exTable).toOption.map (·.features) == some ["f1".toList, "f3".toList]
#guard (readPercolator {} 19 1 exTable).toOption.map (·.features) == some ["f1".toList, "f3".toList]
#guard (readPercolator {} 2 2 exTable).toOption.map (·.spectrum)
  == some ["FileName".toList, "scannr".toList, "ExpMass".toList]
#guard (readPercolator {} 3 1 exTable).toOption.map (·.targets) == some [true, false, true]
#guard (List.range 12).all (fun c => (List.range 5).all (fun r =>
  okEq (readPercolator {} (c + 1) (r + 1) exTable) (specDataset exTable)))
-- reversed completion order of the tasks
#guard okEq (readPercolatorSched {} 2 1 exTable List.reverse) (specDataset exTable)
-- missing required column / label out of range are rejected
#guard errEq (readPercolator {} 19 10 ⟨exTable.cols.drop 1⟩) .missing
#guard errEq (readPercolator {} 19 10 ⟨("label".toList, [.int 1, .int 1, .int 1]) :: exTable.cols⟩)
  .ambiguous
#guard errEq (readPercolator {} 19 10
  ⟨exTable.cols.map (fun p => if p.1 = "LABEL".toList then (p.1, [.int 1, .int 2, .int 0]) else p)⟩)
  .labelRange
-- hypotheses of the mechanism theorems are satisfiable: 18 features, 3 identifiers, c = 19
#guard ((idChunks (List.range 18) [100, 101, 102] 19).countP (hasIds [100, 101, 102])) == 1
#guard (idChunks (List.range 18) [100, 101, 102] 19).flatten == List.range 18 ++ [100, 101, 102]
example : (idChunks (List.range 18) [100, 101, 102] 19).countP (hasIds [100, 101, 102]) = 1 := by
  decide +kernel

end Mk.Pin
