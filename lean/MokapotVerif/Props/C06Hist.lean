import MokapotVerif.Lemmas.PepsHist
import MokapotVerif.Props.C06Kernel
/-!
# C06 (third extension) — the histogram side: `hist_nnls`, `from_peps`, `from_counts` from the bin edges on

Property theorems only (definitions: `Model/PepsHist.lean`; gap analysis: `GAPS-C06.md`, third pass).

* `np.histogram` with explicit edges as `hist_data_from_scores` uses it: the cumulative-count
  implementation equals bin membership, every score inside the edges is counted exactly once, and the
  counts do not depend on the order of the PSMs.
* Hence the *alignment* clause for `hist_nnls`, `from_peps` and `from_counts` no longer assumes "the numeric
  kernels returned the same grid and the same NNLS solution for the permuted input": the NNLS system is
  *proved* to be the same for every arrangement (`C06_hist_nnls_full_perm_equivariant`,
  `C06_from_peps_full_perm_equivariant`, `C06_from_counts_full_perm_equivariant_no_td_ties`); the only
  order-related hypothesis left is that `np.histogram_bin_edges` is a function of the multiset of scores.
* the systems handed to `scipy.optimize.nnls` by `fit_nnls` and `monotonize_nnls`: a populated bin's
  equation is `n_i · (d_0 + … + d_i) ≈ k_i`, i.e. the unknowns are the increments of the fitted values.
-/
namespace Mk
open Peps

/-! ## np.histogram on the joint edges -/

/-- **cumulative histogram = bin membership**: for ascending edges (numpy refuses others) the count of
bin `i` is the number of values in `[e_i, e_{i+1})`, for the last bin in `[e_{N-1}, e_N]` -/
theorem C06_hist_counts_spec (xs edges : List Rat) (hasc : edges.Pairwise (· ≤ ·)) :
    histCounts xs edges = (histSpec xs edges).map (fun c => (c : Int)) :=
  histCounts_eq_spec xs edges hasc

/-- **every score inside the edges is counted exactly once**: the counts add up to the number of values
`≤` the last edge minus those `<` the first; when all values lie within the edges
(`np.histogram_bin_edges` spans `[min, max]`) they add up to the number of values -/
theorem C06_hist_counts_partition (xs : List Rat) (a b : Rat) (rest : List Rat) :
    intSum (histCounts xs (a :: b :: rest))
      = (cumUpTo xs ((b :: rest).getLast (List.cons_ne_nil b rest)) : Int) - cumBelow xs a ∧
    ((∀ x ∈ xs, a ≤ x ∧ x ≤ (b :: rest).getLast (List.cons_ne_nil b rest)) →
      intSum (histCounts xs (a :: b :: rest)) = xs.length) := by
  refine ⟨intSum_histCounts xs a b rest, ?_⟩
  intro h
  rw [intSum_histCounts, cumBelow_zero xs a (fun x hx => (h x hx).1), cumUpTo_all xs _ (fun x hx => (h x hx).2)]
  simp

/-- **the histograms do not depend on the order of the PSMs** -/
theorem C06_hist_data_perm_invariant (edges : List Rat) (xs ys : List Psm) (hperm : ys.Perm xs) :
    histDataOf edges ys = histDataOf edges xs := by
  unfold histDataOf
  rw [histCounts_perm (targetScores_perm hperm), histCounts_perm (decoyScores_perm hperm)]

/-- the evaluation grid: one midpoint per bin, strictly ascending, strictly inside the edges -/
theorem C06_hist_midpoints (edges : List Rat) (hasc : edges.Pairwise (· < ·)) :
    (histMid edges).length = edges.length - 1 ∧ (histMid edges).Pairwise (· < ·) ∧
    (∀ m ∈ histMid edges, ∃ a ∈ edges, ∃ b ∈ edges, a < m ∧ m < b) :=
  ⟨histMid_length edges, histMid_pairwise edges hasc, histMid_mem_between edges hasc⟩

/-! ## the NNLS systems -/

/-- **the system of `fit_nnls`**: row `i` of a populated bin (`n_i ≠ 0`) applied to the unknowns `d` is
`n_i · (d_0 + … + d_i)` — the unknowns are the increments of the fitted probabilities, which is why a
non-negative solution gives monotone PEPs; its right-hand side is `k_i`, its squared weight `n_i`.  An empty
bin gets the replacement row with `-1` in column `min(i+1, N-1)`, `1` on the diagonal (unless that is the
same column), `0` elsewhere, right-hand side `0`, weight `1`. -/
theorem C06_fit_nnls_system_rows (n d : List Rat) (hd : d.length = n.length) (i : Nat) (hi : i < n.length) :
    (fitRows n).length = n.length ∧
    (n[i] ≠ 0 → ∃ row ∈ fitRows n, (fitRows n)[i]? = some row ∧ dotRat row d = n[i] * (d.take (i + 1)).sum) ∧
    (n[i] = 0 → ∀ j, fitEntry n.length n[i] i j =
      if j = min (i + 1) (n.length - 1) then -1 else if j = i then 1 else 0) ∧
    (∀ k : List Rat, k.length = n.length →
      (fitRhs n k)[i]? = some (if n[i] = 0 then 0 else k.getD i 0)) ∧
    (fitW2 n)[i]? = some (if n[i] = 0 then 1 else n[i]) := by
  have hrow : (fitRows n)[i]? = some ((List.range n.length).map (fitEntry n.length n[i] i)) := by
    simp [fitRows, List.getElem?_map, List.getElem?_zipIdx, hi]
  refine ⟨by simp [fitRows], ?_, ?_, ?_, ?_⟩
  · intro hne
    refine ⟨_, List.mem_of_getElem? hrow, hrow, ?_⟩
    have hf : fitEntry n.length n[i] i = fun j => if j ≤ i then n[i] else 0 := by
      funext j
      simp [fitEntry, hne]
    rw [hf, List.range_eq_range', ← hd]
    simpa using dot_lower n[i] i d 0
  · intro h0 j
    simp [fitEntry, h0]
  · intro k hk
    have hki : i < k.length := by omega
    simp [fitRhs, List.getElem?_zipWith, hi, hki, List.getD_eq_getElem?_getD]
  · simp [fitW2, hi]

/-- **the system of `monotonize_nnls`**: `tril(ones) · d = cumsum d` -/
theorem C06_mono_nnls_system_rows (d : List Rat) (i : Nat) (hi : i < d.length) :
    ∃ row, (monoRows d.length)[i]? = some row ∧ dotRat row d = (d.take (i + 1)).sum := by
  refine ⟨(List.range d.length).map (fun j => if j ≤ i then (1 : Rat) else 0), by simp [monoRows, hi], ?_⟩
  rw [List.range_eq_range']
  simpa using dot_lower 1 i d 0

/-! ## hist_nnls from the bin edges on -/

/-- **hist_nnls always answers**, one PEP per PSM — no hypothesis on any kernel -/
theorem C06_hist_nnls_full_defined (k : HistKern) (xs : List Psm) :
    ∃ r, histNnlsFullOf k xs = some r ∧ r.length = xs.length ∧ r = xs.map (fun x => histFullFun k xs x.1) := by
  refine ⟨_, rfl, by simp, ?_⟩
  simp [histFullFun, histPepFun, List.map_map, Function.comp_def]

/-- **hist_nnls, shape**: for every bin-edge function, every `threshold * max`, every slope of `np.polyfit`
and every NNLS solver whose solutions are non-negative: one PEP in `[0,1]` per PSM, never decreasing as the
score worsens, equal on equal scores -/
theorem C06_hist_nnls_full_shape (k : HistKern) (hnn : ∀ A b w, ∀ x ∈ k.nnls A b w, 0 ≤ x)
    (xs : List Psm) (r : List Rat) (hr : histNnlsFullOf k xs = some r) :
    Shape 0 (some 1) (xs.map (·.1)) r :=
  C06_hist_nnls_shape _ _ _ (hnn _ _ _) r hr

/-- **hist_nnls, alignment — from the bin edges on, with no "same kernel outputs" assumption**: if the bin
edges are a function of the multiset of scores, then for EVERY arrangement `ys` of the data set `xs` the
`i`-th PEP is the value at the `i`-th PSM's own score of ONE function fixed by `xs`: the histograms, the
factor, the NNLS system and therefore its solution are the same for every arrangement. -/
theorem C06_hist_nnls_full_perm_equivariant (k : HistKern)
    (hE : ∀ a b : List Rat, a.Perm b → k.binEdges a = k.binEdges b)
    (xs ys : List Psm) (hperm : ys.Perm xs) :
    histNnlsFullOf k ys = some (ys.map (fun y => histFullFun k xs y.1)) := by
  obtain ⟨r, hr, _, hr2⟩ := C06_hist_nnls_full_defined k ys
  rw [hr, hr2]
  have he : k.binEdges (ys.map (·.1)) = k.binEdges (xs.map (·.1)) := hE _ _ (hperm.map _)
  have hf : ∀ x, histFullFun k ys x = histFullFun k xs x := by
    intro x
    unfold histFullFun
    rw [he, histFitOf_perm k _ hperm]
  simp [hf]

/-! ## the alternative q-value estimators from the bin edges on -/

/-- **from_peps (default pipeline), shape with no kernel hypothesis at all** -/
theorem C06_from_peps_full_shape (k : HistKern) (xs : List Psm) (ind : List Nat) (r : List Rat)
    (hr : fromPepsFullOf k xs ind = some r) : Shape 0 (some 1) (xs.map (·.1)) r :=
  C06_from_peps_default_shape _ _ xs ind r hr

/-- **from_peps, alignment from the bin edges on**: every arrangement `ys` of `xs`, every admissible
argsort, gives `ys.map` of one function of the score fixed by `xs` -/
theorem C06_from_peps_full_perm_equivariant (k : HistKern)
    (hE : ∀ a b : List Rat, a.Perm b → k.binEdges a = k.binEdges b)
    (xs ys : List Psm) (hperm : ys.Perm xs) (ind : List Nat) (hind : ValidArgsort ys ind)
    (htgt : ∃ x ∈ xs, x.2 = true)
    (sx : List (Psm × Rat)) (hsx : sx.Perm (xs.map (fun x => (x, histFullFun k xs x.1))))
    (h1 : sx.Pairwise (fun a b => b.1.1 ≤ a.1.1)) :
    fromPepsFullOf k ys ind = some (ys.map (fun y => interp (pepKnots sx) y.1)) := by
  have he : k.binEdges (ys.map (·.1)) = k.binEdges (xs.map (·.1)) := hE _ _ (hperm.map _)
  unfold fromPepsFullOf
  rw [he, histFitOf_perm k _ hperm]
  exact C06_from_peps_default_perm_equivariant _ _ xs ys hperm ind hind htgt sx hsx h1

/-- **from_counts from the bin edges on, shape with no kernel hypothesis at all** -/
theorem C06_from_counts_full_shape (k : HistKern) (xs : List Psm) (ind : List Nat) (r : List Rat)
    (hr : fromCountsFullOf k xs ind = some r) : Shape 0 none (xs.map (·.1)) r :=
  C06_from_counts_slope_shape _ _ _ xs ind r hr

/-- **from_counts, alignment from the bin edges on** (no target ties with a decoy, top row a target — the
inherent restrictions of the first pass): the densities, hence `pi0`, are the same for every arrangement -/
theorem C06_from_counts_full_perm_equivariant_no_td_ties (k : HistKern)
    (hE : ∀ a b : List Rat, a.Perm b → k.binEdges a = k.binEdges b)
    (xs ys : List Psm) (hperm : ys.Perm xs) (ind : List Nat) (hind : ValidArgsort ys ind)
    (hdec : numDecoys xs ≠ 0) (sx : List Psm) (hsx : sx.Perm xs)
    (h1 : sx.Pairwise (fun a b => b.1 ≤ a.1))
    (hnt : ∀ a ∈ xs, ∀ b ∈ xs, a.1 = b.1 → a.2 = b.2) (htop : (sx.headD (0, false)).2 = true) :
    fromCountsFullOf k ys ind
      = some (ys.map (fun y => interp (countKnots (countsFactor (fromCountsFullPi0 k xs) xs) sx) y.1)) := by
  have he : k.binEdges (ys.map (·.1)) = k.binEdges (xs.map (·.1)) := hE _ _ (hperm.map _)
  simp only [fromCountsFullOf]
  rw [he, histCounts_perm (targetScores_perm hperm), histCounts_perm (decoyScores_perm hperm)]
  exact C06_from_counts_slope_perm_equivariant_no_td_ties _ _ _ xs ys hperm ind hind hdec sx hsx h1 hnt htop

/-! ## Non-vacuity and evaluation tests -/

/-- a bin-edge function of the multiset of scores (hypothesis `hE`): edges from the number of scores and
the number of negative ones -/
example : ∀ a b : List Rat, a.Perm b →
    (fun s : List Rat => [-(s.length : Rat), (s.countP (fun x => decide (x < 0)) : Rat), (s.length : Rat) + 1]) a
      = (fun s : List Rat => [-(s.length : Rat), (s.countP (fun x => decide (x < 0)) : Rat), (s.length : Rat) + 1]) b := by
  intro a b h
  simp [h.length_eq, h.countP_eq]

/-- an NNLS stand-in with non-negative solutions (hypothesis `hnn`) -/
example : ∀ (A : List (List Rat)) (b w : List Rat), ∀ x ∈ (fun _ _ (w : List Rat) => w.map (fun _ => (1 : Rat))) A b w, 0 ≤ x := by
  intro A b w x hx
  obtain ⟨_, _, rfl⟩ := List.mem_map.mp hx
  norm_num

/-- ascending edges with all values inside (hypotheses of the partition theorem) -/
example : ([0, 1, 2, 4] : List Rat).Pairwise (· < ·) ∧
    ∀ x ∈ ([0, 1/2, 1, 4, 3] : List Rat), (0 : Rat) ≤ x ∧ x ≤ ([1, 2, 4] : List Rat).getLast (by simp) := by
  decide +kernel

-- values on an inner edge go to the right bin, on the last edge to the last bin, outside: dropped
#guard histCounts [0, 1/2, 1, 4, 3, 5, -1] [0, 1, 2, 4] == [2, 1, 2]
#guard histSpec [0, 1/2, 1, 4, 3, 5, -1] [0, 1, 2, 4] == [2, 1, 2]
#guard histMid [0, 1, 2, 4] == [1/2, 3/2, 3]
#guard histDensity [2, 1, 2] [0, 1, 2, 4] == [2/5, 1/5, 1/5]
-- the system of fit_nnls for counts (2, 0, 3, 0): empty bins get the difference rows, the last one `-1`
#guard fitRows [2, 0, 3, 0] == [[2, 0, 0, 0], [0, 1, -1, 0], [3, 3, 3, 0], [0, 0, 0, -1]]
#guard fitRhs [2, 0, 3, 0] [5, 6, 7, 8] == [5, 0, 7, 0]
#guard fitW2 [2, 0, 3, 0] == [2, 1, 3, 1]
#guard monoRows 3 == [[1, 0, 0], [1, 1, 0], [1, 1, 1]]

end Mk
