import MokapotVerif.Lemmas.FallbackTail
import MokapotVerif.Props.C07
import MokapotVerif.Props.C03
/-!
# C07 (extension) — the safety net end to end

`Props/C07.lean` proves the *decision* on abstract counts.  Here the returned pair
`(scores, descs)` of `brew` is tied to what the tail of `brew` reads (fold models, stored label
columns, feature columns, the fold models' scores), the accepted-target count is the declarative
count of C01's defining formula, "training failed" is followed to the returned feature, and the
direction clause is derived from the C03 specification of the confidence pipeline and the C01
formula instead of being restated; the entry of `assign_confidence` without scores and the
`direction=` start are covered.  Gap analysis: `GAPS-C07.md`.
-/
namespace Mk.Fallback
open Mk

/-! ### the count that is compared -/

/-- The number of PSMs labelled +1 by `_update_labels` is the number of genuine targets whose
q-value by the defining formula of C01 is at most the threshold (any score order). -/
theorem C07_accepted_eq_spec {α : Type} (le : α → α → Bool) (hle : TotalPre le) (thr : Rat)
    (xs : List (α × Bool)) :
    accepted le thr xs = xs.countP (fun x => x.2 && Decidable.decide (qSpec le xs x.1 ≤ thr)) :=
  accepted_eq_spec le hle thr xs

/-- `pred_total` of `brew` is the declarative count summed over the collections, where a row is a
genuine target iff its stored label is 1 / True — whatever mixture of encodings the files use. -/
theorem C07_pred_total_eq_spec (thr : Rat) (colls : List Coll) (h : labelsOk colls = true)
    (scores : List (List Int)) :
    tailPred thr colls scores = some (totalAccepted thr colls scores) :=
  tailPred_ok thr colls h scores

/-! ### the returned pair -/

/-- `brew`'s tail returns a result exactly when every stored label lies in {−1, 0, 1, False, True} -/
theorem C07_brew_tail_returns_iff (ms : List FoldModel) (thr : Rat) (colls : List Coll)
    (hwf : WellFormed colls) : (brewTail ms thr colls).isSome = labelsOk colls := by
  cases h : labelsOk colls
  · rw [brewTail_bad ms thr colls hwf h]; rfl
  · rw [brewTail_unfold ms thr colls h]; rfl

/-- **End-to-end specification**: whatever `brew`'s tail returns satisfies `TailSpec`. -/
theorem C07_brew_tail_spec (ms : List FoldModel) (thr : Rat) (colls : List Coll)
    (out : List (List Int) × List Bool) (h : brewTail ms thr colls = some out) :
    TailSpec ms thr colls out := by
  have h := brewTail_some ms thr colls out h
  subst h
  unfold TailSpec
  by_cases hov : ms.all (·.override) = true
  · left
    have : decide ms (totalAccepted thr colls (tailScores ms colls)) = .useModel := by
      simp [decide, hov]
    rw [this]
    exact ⟨rfl, Or.inl hov⟩
  · have hov' : ms.all (·.override) = false := by simpa using hov
    cases hd : decide ms (totalAccepted thr colls (tailScores ms colls)) with
    | useModel =>
      left
      refine ⟨rfl, Or.inr ?_⟩
      exact C07_never_silently_worse ms _ hov' hd
    | useFeature f d =>
      right
      obtain ⟨m, hm, hf, hdsc, hgt, hmax⟩ := C07_fallback_returns_best_feature ms _ f d hd
      exact ⟨hov', m, hm, hmax, hgt, by simp [returnOf, hf, hdsc]⟩

/-- **Never silently worse, end to end.**  Unless every model forces its use, either the returned
scores themselves accept at `thr` at least as many genuine targets as the best feature of every
fold did in training, or the result is the column of the best feature of a best fold model in
every collection, with that feature's direction for every collection. -/
theorem C07_brew_never_silently_worse (ms : List FoldModel) (thr : Rat) (colls : List Coll)
    (out : List (List Int) × List Bool) (hov : ms.all (·.override) = false)
    (h : brewTail ms thr colls = some out) :
    (∀ m ∈ ms, m.featPass ≤ totalAccepted thr colls out.1) ∨
    (∃ m ∈ ms, (∀ m' ∈ ms, m'.featPass ≤ m.featPass) ∧
      out = (colls.map (featColumn m.bestFeat), colls.map (fun _ => m.desc))) := by
  rcases C07_brew_tail_spec ms thr colls out h with ⟨_, hc⟩ | ⟨_, m, hm, hmax, _, hout⟩
  · rcases hc with hc | hc
    · rw [hov] at hc; cases hc
    · exact Or.inl hc
  · exact Or.inr ⟨m, hm, hmax, hout⟩

/-- the learned (or zero) scores come back only if they are not beaten: if some fold's best feature
accepted strictly more targets than the compared scores do, the result is a feature column -/
theorem C07_brew_falls_back_when_beaten (ms : List FoldModel) (thr : Rat) (colls : List Coll)
    (out : List (List Int) × List Bool) (hov : ms.all (·.override) = false)
    (h : brewTail ms thr colls = some out)
    (hbeaten : ∃ m ∈ ms, totalAccepted thr colls (tailScores ms colls) < m.featPass) :
    ∃ m ∈ ms, (∀ m' ∈ ms, m'.featPass ≤ m.featPass) ∧
      out = (colls.map (featColumn m.bestFeat), colls.map (fun _ => m.desc)) := by
  rcases C07_brew_tail_spec ms thr colls out h with ⟨hout, hc⟩ | ⟨_, m, hm, hmax, _, hout⟩
  · rcases hc with hc | hc
    · rw [hov] at hc; cases hc
    · obtain ⟨m, hm, hlt⟩ := hbeaten
      have := hc m hm
      rw [hout] at this
      dsimp only at this
      omega
  · exact ⟨m, hm, hmax, hout⟩

/-- a forced model is returned whatever the counts are -/
theorem C07_forced_model_returned (ms : List FoldModel) (thr : Rat) (colls : List Coll)
    (hov : ms.all (·.override) = true) (hok : labelsOk colls = true) :
    brewTail ms thr colls = some (tailScores ms colls, colls.map (fun _ => true)) := by
  rw [brewTail_unfold ms thr colls hok]
  simp [decide, hov, returnOf]

/-- one score list and one direction per collection -/
theorem C07_brew_tail_shape (ms : List FoldModel) (thr : Rat) (colls : List Coll)
    (out : List (List Int) × List Bool) (h : brewTail ms thr colls = some out) :
    out.1.length = colls.length ∧ out.2.length = colls.length ∧ (∃ d, ∀ x ∈ out.2, x = d) := by
  have h := brewTail_some ms thr colls out h
  subst h
  cases decide ms (totalAccepted thr colls (tailScores ms colls)) with
  | useModel =>
    refine ⟨by simp [returnOf, tailScores_length], by simp [returnOf], true, ?_⟩
    intro x hx
    simp only [returnOf, List.mem_map] at hx
    obtain ⟨_, _, rfl⟩ := hx
    rfl
  | useFeature f d =>
    refine ⟨by simp [returnOf], by simp [returnOf], d, ?_⟩
    intro x hx
    simp only [returnOf, List.mem_map] at hx
    obtain ⟨_, _, rfl⟩ := hx
    rfl

/-- the Boolean evaluated by the driver on the real code's output *is* the specification -/
theorem C07_tailSpecX_iff (ms : List FoldModel) (thr : Rat) (colls : List Coll)
    (out : List (List Int) × List Bool) : tailSpecX ms thr colls out = true ↔ TailSpec ms thr colls out := by
  have hX : totalAcceptedX thr colls = totalAccepted thr colls := by
    funext scores
    unfold totalAcceptedX totalAccepted collAccepted
    simp only [accepted_eq_spec leUp leUp_totalPre]
  unfold tailSpecX tailSpecWith TailSpec
  rw [hX]
  simp only [Bool.or_eq_true, Bool.and_eq_true, beq_iff_eq, List.all_eq_true, List.any_eq_true,
    decide_eq_true_eq, Bool.not_eq_true', ← and_assoc]

/-! ### training failed -/

/-- All compared scores equal (as the zeros of a failed training are): every genuine target is
accepted or none is, according to the one FDR `(decoys + 1) / targets` of the whole list. -/
theorem C07_equal_scores_accept_all_or_nothing {α : Type} (le : α → α → Bool) (hle : TotalPre le)
    (thr : Rat) (xs : List (α × Bool)) (h : ∀ x ∈ xs, ∀ y ∈ xs, le x.1 y.1 = true) :
    accepted le thr xs
      = if min (fdrRaw (xs.countP (·.2)) (xs.countP (fun y => !y.2))) 1 ≤ thr then xs.countP (·.2) else 0 := by
  rw [accepted_eq_spec le hle, acceptedSpec_const le thr xs h]

theorem zip_zeros (l : List RawLabel) :
    ((l.map (fun _ => (0 : Int))).zip l).map (fun x => (x.1, isTargetRaw x.2)) = l.map (fun x => ((0 : Int), isTargetRaw x)) := by
  induction l with
  | nil => rfl
  | cons x rest ih =>
    simp only [List.map_cons, List.zip_cons_cons]
    rw [ih]

theorem collAccepted_zeros (thr : Rat) (c : Coll)
    (hfdr : thr < min (fdrRaw (c.labels.countP isTargetRaw) (c.labels.countP (fun l => !isTargetRaw l))) 1) :
    collAccepted thr (zerosLike c) c = 0 := by
  unfold collAccepted scoredRows zerosLike
  rw [zip_zeros, acceptedSpec_const leUp thr]
  · have h1 : (c.labels.map (fun x => ((0 : Int), isTargetRaw x))).countP (·.2) = c.labels.countP isTargetRaw := by
      rw [List.countP_map]; rfl
    have h2 : (c.labels.map (fun x => ((0 : Int), isTargetRaw x))).countP (fun y => !y.2)
        = c.labels.countP (fun l => !isTargetRaw l) := by
      rw [List.countP_map]; rfl
    rw [h1, h2, if_neg (not_le.mpr hfdr)]
  · intro x hx y hy
    obtain ⟨_, _, rfl⟩ := List.mem_map.mp hx
    obtain ⟨_, _, rfl⟩ := List.mem_map.mp hy
    simp [leUp]

theorem totalAccepted_zeros (thr : Rat) (colls : List Coll)
    (hfdr : ∀ c ∈ colls, thr < min (fdrRaw (c.labels.countP isTargetRaw) (c.labels.countP (fun l => !isTargetRaw l))) 1) :
    totalAccepted thr colls (colls.map zerosLike) = 0 := by
  unfold totalAccepted
  induction colls with
  | nil => rfl
  | cons c rest ih =>
    simp only [List.map_cons, List.zip_cons_cons, List.sum_cons]
    rw [collAccepted_zeros thr c (hfdr c (by simp)), ih (fun c' hc' => hfdr c' (List.mem_cons_of_mem _ hc'))]

/-- **Training failed ⇒ the best feature is returned.**  If some fold model is untrained, the user
does not force the model, some fold's best feature accepted a target in training (always so in
`brew`: `Model.fit` raises otherwise) and in no collection the undifferentiated list passes the
threshold (`(decoys + 1) / targets > thr`, the situation of every realistic search), then `brew`
returns, for every collection, the column of the best feature of a best fold model with its
direction. -/
theorem C07_training_failed_falls_back (ms : List FoldModel) (thr : Rat) (colls : List Coll)
    (hov : ms.all (·.override) = false) (hun : ms.all (·.trained) = false)
    (hok : labelsOk colls = true) (hpass : ∃ m ∈ ms, 0 < m.featPass)
    (hfdr : ∀ c ∈ colls, thr < min (fdrRaw (c.labels.countP isTargetRaw) (c.labels.countP (fun l => !isTargetRaw l))) 1) :
    ∃ m ∈ ms, (∀ m' ∈ ms, m'.featPass ≤ m.featPass) ∧
      brewTail ms thr colls = some (colls.map (featColumn m.bestFeat), colls.map (fun _ => m.desc)) := by
  have hz : tailScores ms colls = colls.map zerosLike := by simp [tailScores, hun]
  have h0 : totalAccepted thr colls (tailScores ms colls) = 0 := by
    rw [hz]; exact totalAccepted_zeros thr colls hfdr
  obtain ⟨m0, hm0, hpos⟩ := hpass
  have hbeaten : ∃ m ∈ ms, totalAccepted thr colls (tailScores ms colls) < m.featPass :=
    ⟨m0, hm0, by omega⟩
  have hsome := brewTail_unfold ms thr colls hok
  obtain ⟨m, hm, hmax, hout⟩ := C07_brew_falls_back_when_beaten ms thr colls _ hov hsome hbeaten
  exact ⟨m, hm, hmax, by rw [hsome, hout]⟩

/-! ### `direction=<feature>` -/

/-- with the start feature named by the user, `feat_pass` is the better of that feature's two
directions and `desc` the direction reaching it (higher-is-better on ties) -/
theorem C07_direction_start_spec (pd pa : Nat) :
    (dirStart pd pa).1 = max pd pa ∧ ((dirStart pd pa).2 = true ↔ pa ≤ pd) ∧
    (dirStart pd pa).1 = (if (dirStart pd pa).2 then pd else pa) := by
  unfold dirStart
  split <;> simp <;> omega

/-- with `direction = j` the stored `best_feat` names feature `j`, so that the fallback of `brew` reads
exactly that feature's column; `feat_pass`/`desc` are those of `C07_direction_start_spec` -/
theorem C07_direction_attrs_spec (j pd pa : Nat) (c : Coll) :
    readBestFeat (dirAttrs j pd pa).1 c = some (featColumn j c) ∧
    (dirAttrs j pd pa).2.1 = max pd pa ∧ ((dirAttrs j pd pa).2.2 = true ↔ pa ≤ pd) := by
  refine ⟨rfl, ?_, ?_⟩
  · exact (C07_direction_start_spec pd pa).1
  · exact (C07_direction_start_spec pd pa).2.1

/-! ### confidence assignment honours the direction (derived from C03 and C01) -/

/-- **PSM level of `assign_confidence` for a score of direction `desc`** — for every chunk size and
every arrangement of ties in the per-chunk sorts and the merge (the hypotheses of
`C03_psm_level_spec`, on the rows as they are ranked after confidence.py:630-636).
`rankScore desc o.score` is the value the *feature* has on the output row `o`, and
`leDir desc a b` reads "`b` is at least as good as `a` in the feature's own direction".  So: one
row per spectrum of the input table, each an input row, listed best-first in the feature's own
direction, and the row kept for a spectrum is at least as good as every row of that spectrum —
for a lower-is-better feature the row with the *lowest* value, low values first. -/
theorem C07_psm_level_honours_direction (desc : Bool) (c : Nat) (hc : 0 < c) (rows : List Row)
    (files : List (List Row))
    (hfiles : List.Forall₂ (IsChunkFile true) (chunksOf c (confInput desc rows)) files)
    (merged : List Row) (hperm : merged.Perm files.flatten) (hs : SortedRows merged) :
    ((psmLevel true merged).map Row.spec).Nodup ∧
    (∀ o ∈ psmLevel true merged, ∃ r ∈ rows, o = { r with score := rankScore desc r.score }) ∧
    (psmLevel true merged).Pairwise
      (fun a b => leDir desc (rankScore desc b.score) (rankScore desc a.score) = true) ∧
    (∀ r ∈ rows, ∃ o ∈ psmLevel true merged, o.spec = r.spec ∧
      leDir desc r.score (rankScore desc o.score) = true) := by
  obtain ⟨hsorted, hnodup, hsub, hbest⟩ :=
    C03_psm_level_spec c hc (confInput desc rows) files hfiles merged hperm hs
  refine ⟨hnodup, ?_, ?_, ?_⟩
  · intro o ho
    have := hsub o ho
    unfold confInput at this
    obtain ⟨r, hr, rfl⟩ := List.mem_map.mp this
    exact ⟨r, hr, rfl⟩
  · refine hsorted.imp ?_
    intro a b hab
    rw [← leUp_rankScore, rankScore_invol, rankScore_invol]
    simpa [leUp] using hab
  · intro r hr
    have hmem : ({ r with score := rankScore desc r.score } : Row) ∈ confInput desc rows :=
      List.mem_map.mpr ⟨r, hr, rfl⟩
    obtain ⟨o, ho, hk, hsc⟩ := hbest _ hmem
    refine ⟨o, ho, hk, ?_⟩
    rw [← leUp_rankScore, rankScore_invol]
    simpa [leUp] using hsc

/-- the lower-is-better case spelt out on the values: the rows come lowest value first and the row
kept for a spectrum has the lowest value of that spectrum (`-o.score` is the feature's value) -/
theorem C07_psm_level_low_values_first (c : Nat) (hc : 0 < c) (rows : List Row)
    (files : List (List Row))
    (hfiles : List.Forall₂ (IsChunkFile true) (chunksOf c (confInput false rows)) files)
    (merged : List Row) (hperm : merged.Perm files.flatten) (hs : SortedRows merged) :
    (psmLevel true merged).Pairwise (fun a b => -a.score ≤ -b.score) ∧
    (∀ r ∈ rows, ∃ o ∈ psmLevel true merged, o.spec = r.spec ∧ -o.score ≤ r.score) := by
  obtain ⟨_, _, h3, h4⟩ := C07_psm_level_honours_direction false c hc rows files hfiles merged hperm hs
  constructor
  · refine h3.imp ?_
    intro a b hab
    simpa [leDir, rankScore] using hab
  · intro r hr
    obtain ⟨o, ho, hk, hle⟩ := h4 r hr
    exact ⟨o, ho, hk, by simpa [leDir, rankScore] using hle⟩

/-- the q-value column of a level ranked by a score of direction `desc` is the defining formula of
C01 *in that direction* on the feature's own values: for a lower-is-better feature the thresholds
count the targets and decoys with values at or below -/
theorem C07_qvalues_honour_direction (desc : Bool) (rows : List Row) :
    levelQvalues (confInput desc rows)
      = rows.map (fun r => qSpec (leDir desc) (rows.map (fun r => (r.score, r.target))) r.score) := by
  unfold levelQvalues
  have hle : (fun a b : Int => Decidable.decide (a ≤ b)) = leUp := rfl
  rw [hle]
  have hmap : (confInput desc rows).map (fun r => (r.score, r.target))
      = (rows.map (fun r => (r.score, r.target))).map (fun x => (rankScore desc x.1, x.2)) := by
    simp [confInput, Function.comp_def]
  rw [hmap, C01_tdc_strictMono_invariant (leDir desc) (leDir_totalPre desc) leUp leUp_totalPre
    (rankScore desc) (leUp_rankScore desc), C01_tdc_eq_spec (leDir desc) (leDir_totalPre desc),
    List.map_map]
  rfl

/-! ### entry of `assign_confidence` without scores -/

theorem mapM_decodeLabel (ls : List RawLabel) (ts : List Bool) (h : ls.mapM decodeLabel = some ts) :
    ts = ls.map isTargetRaw := by
  induction ls generalizing ts with
  | nil => simp at h; subst h; rfl
  | cons l rest ih =>
    rw [List.mapM_cons] at h
    cases hl : decodeLabel l with
    | none => simp [hl] at h
    | some t =>
      cases hr : rest.mapM decodeLabel with
      | none => simp [hl, hr] at h
      | some tr =>
        simp [hl, hr] at h
        rw [decodeLabel_eq] at hl
        split at hl
        · injection hl with hl
          rw [← h, ← hl, ih tr hr]
          rfl
        · cases hl

/-- **The default of `assign_confidence(psms)`**: the scores chosen for a collection are a column
of that collection, and the direction that comes with it is one in which this feature accepts at
`thr` the largest number of genuine targets (declarative count) over all features and both
directions — at least one. -/
theorem C07_default_entry_is_best_feature (thr : Rat) (c : Coll) (col : List Int) (d : Bool)
    (h : defaultEntry thr c = some (col, d)) :
    ∃ i n, col = featColumn i c ∧ 0 < n ∧
      (c.feats[i]?).map (fun f => acceptedSpec (leDir d) thr (f.zip (c.labels.map isTargetRaw))) = some n ∧
      ∀ f ∈ c.feats, ∀ d', acceptedSpec (leDir d') thr (f.zip (c.labels.map isTargetRaw)) ≤ n := by
  unfold defaultEntry collBest at h
  cases hts : c.labels.mapM decodeLabel with
  | none => simp [hts] at h
  | some ts =>
    have hts' := mapM_decodeLabel _ _ hts
    subst hts'
    simp only [hts, Option.bind_some, Option.map_eq_some_iff] at h
    obtain ⟨⟨i, n, d'⟩, hb, heq⟩ := h
    injection heq with h1 h2
    dsimp only at h1 h2
    subst h2
    obtain ⟨hpos, hcd, hca, hat⟩ := (C07_bestFeature_spec _ _).2 i n d' hb
    have hcount : ∀ (dd : Bool) (f : List Int),
        featCount thr (c.labels.map isTargetRaw) dd f
          = acceptedSpec (leDir dd) thr (f.zip (c.labels.map isTargetRaw)) := by
      intro dd f
      unfold featCount
      exact accepted_eq_spec _ (leDir_totalPre dd) _ _
    refine ⟨i, n, h1.symm, hpos, ?_, ?_⟩
    · cases d' with
      | true =>
        simp only [if_true, List.getElem?_map] at hat
        simpa [hcount] using hat
      | false =>
        simp only [Bool.false_eq_true, if_false, List.getElem?_map] at hat
        simpa [hcount] using hat
    · intro f hf dd
      rw [← hcount]
      cases dd with
      | true => exact hcd _ (List.mem_map.mpr ⟨f, hf, rfl⟩)
      | false => exact hca _ (List.mem_map.mpr ⟨f, hf, rfl⟩)

theorem mapM_some_forall₂ {β γ : Type} (f : β → Option γ) (l : List β) (r : List γ)
    (h : l.mapM f = some r) : List.Forall₂ (fun a b => f a = some b) l r := by
  induction l generalizing r with
  | nil => simp at h; subst h; exact List.Forall₂.nil
  | cons a rest ih =>
    rw [List.mapM_cons] at h
    cases ha : f a with
    | none => simp [ha] at h
    | some b =>
      cases hr : rest.mapM f with
      | none => simp [ha, hr] at h
      | some br =>
        simp [ha, hr] at h
        subst h
        exact List.Forall₂.cons ha (ih br hr)

/-- what every later step of `assign_confidence(psms)` ranks by: per collection the best feature's
column, negated when `find_best_feature` reports it lower-is-better — so that (by
`C07_psm_level_honours_direction`) low values come first exactly then -/
theorem C07_default_ranking_spec (thr : Rat) (colls : List Coll) (rk : List (List Int))
    (h : defaultRanking thr colls = some rk) :
    List.Forall₂ (fun c r => ∃ col d, defaultEntry thr c = some (col, d) ∧ r = col.map (rankScore d)) colls rk := by
  unfold defaultRanking at h
  refine (mapM_some_forall₂ _ colls rk h).imp ?_
  intro c r hcr
  simp only [Option.map_eq_some_iff] at hcr
  obtain ⟨e, he, rfl⟩ := hcr
  exact ⟨e.1, e.2, he, rfl⟩

/-- directions used by `assign_confidence`: the caller's if given; otherwise higher-is-better for
the caller's scores and the found directions for the scores it chose itself -/
theorem C07_entry_descs_spec (descs : List Bool) (found : List Bool) (n : Nat) (g : Bool) :
    entryDescs g (some descs) found n = descs ∧ entryDescs false none found n = found ∧
    entryDescs true none found n = List.replicate n true := by
  simp [entryDescs]

/-! ### non-vacuity / evaluation tests -/

def exColl : Coll :=
  { labels := [.int 1, .int 1, .int (-1), .int 1, .int (-1)],
    feats := [[5, 4, 3, 2, 1], [1, 2, 9, 3, 8]],
    modelScores := [1, 2, 3, 4, 5] }

def exMs (trained : Bool) : List FoldModel := [⟨2, 0, true, false, trained⟩, ⟨3, 1, false, false, true⟩]

-- inverted model scores accept nothing at 1/2; fold 2's best feature (index 1, lower-is-better) accepted 3
#guard brewTail (exMs true) (1/2) [exColl] == some ([[1, 2, 9, 3, 8]], [false])
#guard tailSpecX (exMs true) (1/2) [exColl] ([[1, 2, 9, 3, 8]], [false])
#guard !tailSpecX (exMs true) (1/2) [exColl] ([[1, 2, 9, 3, 8]], [true])
#guard !tailSpecX (exMs true) (1/2) [exColl] ([[1, 2, 3, 4, 5]], [true])
-- training failed: zeros, (2+1)/3 > 1/2, nothing accepted
#guard brewTail (exMs false) (1/2) [exColl] == some ([[1, 2, 9, 3, 8]], [false])
#guard brewTail (exMs false) (1/2) [{ exColl with labels := [.int 1, .int 2] }] == none
#guard defaultEntry (1/2) exColl == some ([1, 2, 9, 3, 8], false)
#guard defaultRanking (1/2) [exColl] == some [[-1, -2, -9, -3, -8]]

/-- the hypotheses of `C07_training_failed_falls_back` are satisfiable -/
example : (exMs false).all (·.override) = false ∧ (exMs false).all (·.trained) = false ∧
    labelsOk [exColl] = true ∧ (∃ m ∈ exMs false, 0 < m.featPass) ∧ WellFormed [exColl] := by
  refine ⟨by decide, by decide, by decide, ⟨_, List.mem_cons_self, by decide⟩, ?_⟩
  intro c hc
  simp at hc
  subst hc
  rfl

example : ∀ c ∈ [exColl], (1/2 : Rat) <
    min (fdrRaw (c.labels.countP isTargetRaw) (c.labels.countP (fun l => !isTargetRaw l))) 1 := by
  intro c hc
  simp at hc
  subst hc
  have h1 : exColl.labels.countP isTargetRaw = 3 := by decide
  have h2 : exColl.labels.countP (fun l => !isTargetRaw l) = 2 := by decide
  rw [h1, h2]
  norm_num [fdrRaw]

/-- the hypotheses of `C07_pred_counts_genuine_targets` (Props/C07.lean) are satisfiable with two
collections stored in different encodings -/
example : ([encPM1, encBool] : List (Bool → RawLabel)).length = ([[((3 : Int), true)], [(1, false)]] : List (List (Int × Bool))).length ∧
    ∀ e ∈ ([encPM1, encBool] : List (Bool → RawLabel)), e = encPM1 ∨ e = enc01 ∨ e = encBool := by
  refine ⟨rfl, ?_⟩
  intro e he
  simp at he
  rcases he with rfl | rfl <;> simp

-- the executable confidence pipeline on a lower-is-better score: two spectra, lowest value kept and listed first
def exRows : List Row := [⟨0, 1, [], true, 7⟩, ⟨1, 1, [], false, 3⟩, ⟨2, 2, [], true, 5⟩, ⟨3, 2, [], true, 9⟩]
#guard ((confidenceLevels 2 true 0 (confInput false exRows)).1.map (·.id)) == [1, 2]
#guard ((confidenceLevels 2 true 0 (confInput true exRows)).1.map (·.id)) == [3, 0]
#guard levelQvalues (confInput false exRows) == tdc (leDir false) (exRows.map (fun r => (r.score, r.target)))

end Mk.Fallback
