import MokapotVerif.Lemmas.FallbackDtype
import MokapotVerif.Props.C07Full
/-!
# C07 — the safety net on *stored* score columns (integer number types), third extension

The earlier theorems treat a score as an integer with exact arithmetic.  The code computes in the number type
of the array it is handed: brew's fallback returns the best feature's column as it is stored (an `int64`,
`uint16`, … array), `assign_confidence` negates a lower-is-better column, `tdc` converts integer arrays to a
floating point type before ranking.  `Model/FallbackDtype.lean` models these conversions (`castF64`: binary64,
53 significant digits, as the repaired code does; the stored-type negation and the binary32 conversion of the
code before the repair are refuted in `Mutants/FallbackDtype.lean`).  The theorems here are *refinements*: on
every column whose values are exactly representable — in particular every column of an integer type of at most
53 bits, signed or unsigned — the typed entry of `assign_confidence`, the typed `tdc` count and the typed start of
`Model(direction=…)` are the exact-integer functions the earlier theorems are about, so every direction /
q-value / safety-net theorem holds for stored columns.  Unbounded in the number of rows, collections, folds and
chunk sizes.  Not covered: integers of magnitude `2^53` or more (binary64 rounds them; the order is kept but
ties can appear) and non-integral float columns (a score is an integer in this model; covered only by
differential execution).
-/
namespace Mk.Fallback
open Mk

/-- the conversion to binary64 does not change an integer of magnitude below `2^53` -/
theorem C07_cast_exact_below_2p53 (x : Int) (h : x.natAbs < 2 ^ 53) : castF64 x = x :=
  castF64_exact x h

/-- **every column of an integer type of at most 53 bits is converted exactly** (`uint8 … uint32`,
`int8 … int32`, and 64-bit columns whose values stay below `2^53`): signed or unsigned, including the
smallest value of a signed type and the 0 of an unsigned one -/
theorem C07_stored_values_cast_exactly (d : IntDtype) (hb : d.bits ≤ 53) (col : List Int)
    (hcol : ∀ x ∈ col, inDtype d x = true) : f64Exact col = true := by
  unfold f64Exact
  rw [List.all_eq_true]
  intro x hx
  simpa using inDtype_natAbs_lt d hb x (hcol x hx)

/-- **Refinement of the entry of `assign_confidence`**: on an exactly representable stored column the
ranking column the code computes (conversion, then negation of a lower-is-better column) is the exact-integer
ranking column `rankColumn` of the earlier theorems — no wrap-around, whatever the stored type -/
theorem C07_typed_entry_rank_eq (desc : Bool) (col : List Int) (h : f64Exact col = true) :
    entryRankTyped desc col = rankColumn desc col := by
  unfold entryRankTyped
  rw [map_castF64_exact col h, rankColumn_eq]

/-- spelt out: a higher-is-better column is ranked by its values, a lower-is-better column by their negations
(so the 0 of an unsigned "rank" column becomes the *highest* ranking score) -/
theorem C07_typed_entry_values (col : List Int) (h : f64Exact col = true) :
    entryRankTyped true col = col ∧ entryRankTyped false col = col.map (fun x => -x) := by
  rw [C07_typed_entry_rank_eq true col h, C07_typed_entry_rank_eq false col h, rankColumn_eq, rankColumn_eq]
  constructor
  · calc col.map (rankScore true) = col.map id := List.map_congr_left (fun x _ => by simp [rankScore])
      _ = col := List.map_id col
  · exact List.map_congr_left (fun x _ => by simp [rankScore])

/-- **low values first, no new ties**: between two exactly representable stored values the ranking score of
one is at most the other's exactly when it is at most as good in the feature's own direction; in particular
equal ranking scores come from equal stored values -/
theorem C07_typed_rank_order (desc : Bool) (x y : Int) (hx : x.natAbs < 2 ^ 53) (hy : y.natAbs < 2 ^ 53) :
    (leUp (rankScore desc (castF64 x)) (rankScore desc (castF64 y)) = leDir desc x y) ∧
    (rankScore desc (castF64 x) = rankScore desc (castF64 y) → x = y) := by
  rw [castF64_exact x hx, castF64_exact y hy]
  constructor
  · unfold leUp leDir rankScore
    cases desc <;> simp
  · unfold rankScore
    cases desc <;> simp

/-- the rows handed to the level pipeline for a stored column are those of the exact-integer model -/
theorem C07_typed_conf_input_eq (desc : Bool) (rows : List Row)
    (h : f64Exact (rows.map (·.score)) = true) : confInputTyped desc rows = confInput desc rows := by
  unfold confInputTyped confInput
  apply List.map_congr_left
  intro r hr
  have : r.score.natAbs < 2 ^ 53 := f64Exact_mem _ h r.score (List.mem_map.mpr ⟨r, hr, rfl⟩)
  rw [castF64_exact _ this]

/-- **The PSM level honours the returned direction for a stored column** (lift of
`C07_psm_level_honours_direction` through the conversion): every chunk size, every tie arrangement, every
number type whose values are exactly representable — one row per spectrum, each an input row, best-first in
the feature's own direction, the kept row at least as good as every row of its spectrum. -/
theorem C07_typed_psm_level_honours_direction (desc : Bool) (c : Nat) (hc : 0 < c) (rows : List Row)
    (hex : f64Exact (rows.map (·.score)) = true)
    (files : List (List Row))
    (hfiles : List.Forall₂ (IsChunkFile true) (chunksOf c (confInputTyped desc rows)) files)
    (merged : List Row) (hperm : merged.Perm files.flatten) (hs : SortedRows merged) :
    ((psmLevel true merged).map Row.spec).Nodup ∧
    (∀ o ∈ psmLevel true merged, ∃ r ∈ rows, o = { r with score := rankScore desc r.score }) ∧
    (psmLevel true merged).Pairwise
      (fun a b => leDir desc (rankScore desc b.score) (rankScore desc a.score) = true) ∧
    (∀ r ∈ rows, ∃ o ∈ psmLevel true merged, o.spec = r.spec ∧
      leDir desc r.score (rankScore desc o.score) = true) := by
  rw [C07_typed_conf_input_eq desc rows hex] at hfiles
  exact C07_psm_level_honours_direction desc c hc rows files hfiles merged hperm hs

/-- **the q-values of a level ranked by a stored column** are the defining formula of C01 in the feature's own
direction on the stored values (lift of `C07_qvalues_honour_direction`): what `tdc` computes after its
conversion of an integer array -/
theorem C07_typed_qvalues_honour_direction (desc : Bool) (rows : List Row)
    (hex : f64Exact (rows.map (·.score)) = true) :
    levelQvalues (confInputTyped desc rows)
      = rows.map (fun r => qSpec (leDir desc) (rows.map (fun r => (r.score, r.target))) r.score) := by
  rw [C07_typed_conf_input_eq desc rows hex]
  exact C07_qvalues_honour_direction desc rows

/-- the PEP estimator is handed the exact-integer ranking column of a stored column -/
theorem C07_typed_pep_input (desc : Bool) (col : List Int) (h : f64Exact col = true) :
    pepScoresTyped desc col = rankColumn desc col := by
  unfold pepScoresTyped pepInput
  rw [C07_typed_entry_rank_eq desc col h]
  simp

/-- **`tdc` on an integer array counts what the best-feature search counts**: the accepted targets of a stored
integer column (converted by `tdc`) are those of the same column handed over as a `Series` (converted to
binary64 by `_update_labels`) — `featCount` of the earlier theorems -/
theorem C07_typed_count_eq (thr : Rat) (targets : List Bool) (desc : Bool) (col : List Int)
    (h : f64Exact col = true) : featCountTyped thr targets desc col = featCount thr targets desc col := by
  unfold featCountTyped
  rw [map_castF64_exact col h]

/-- **`Model(direction=<feature>)` on the stored column of that feature**: `feat_pass` is the larger of the two
declarative counts (genuine target ∧ q-value by the defining formula, in the feature's direction, ≤ the
training threshold) and `desc` is `True` exactly when the higher-is-better count is at least the other -/
theorem C07_direction_start_col_spec (thr : Rat) (targets : List Bool) (col : List Int)
    (h : f64Exact col = true) :
    (dirStartCol thr targets col).1
      = max (acceptedSpec (leDir true) thr (col.zip targets)) (acceptedSpec (leDir false) thr (col.zip targets)) ∧
    ((dirStartCol thr targets col).2 = true ↔
      acceptedSpec (leDir false) thr (col.zip targets) ≤ acceptedSpec (leDir true) thr (col.zip targets)) ∧
    (dirStartCol thr targets col).1
      = acceptedSpec (leDir (dirStartCol thr targets col).2) thr (col.zip targets) := by
  have hd : featCountTyped thr targets true col = acceptedSpec (leDir true) thr (col.zip targets) := by
    rw [C07_typed_count_eq thr targets true col h]
    exact C07_accepted_eq_spec (leDir true) (leDir_totalPre true) thr _
  have ha : featCountTyped thr targets false col = acceptedSpec (leDir false) thr (col.zip targets) := by
    rw [C07_typed_count_eq thr targets false col h]
    exact C07_accepted_eq_spec (leDir false) (leDir_totalPre false) thr _
  unfold dirStartCol dirStart
  rw [hd, ha]
  by_cases hab : acceptedSpec (leDir true) thr (col.zip targets) ≥ acceptedSpec (leDir false) thr (col.zip targets)
  · rw [if_pos hab]
    exact ⟨(Nat.max_eq_left hab).symm, by simpa using hab, rfl⟩
  · rw [if_neg hab]
    have hlt : acceptedSpec (leDir true) thr (col.zip targets) < acceptedSpec (leDir false) thr (col.zip targets) := by
      omega
    refine ⟨(Nat.max_eq_right (Nat.le_of_lt hlt)).symm, ?_, rfl⟩
    simp only [Bool.false_eq_true, false_iff]
    omega

/-- **brew's return value followed by `assign_confidence`** (every source of the compared scores, every stored
type): when the compared scores and all feature columns are exactly representable, the pair returned by the
tail of `brew` satisfies `TailSpecG` and each collection is then ranked by the exact-integer ranking column of
its returned column in its returned direction — the learned scores as they are, or the best feature's column,
negated exactly when that feature is lower-is-better. -/
theorem C07_brew_then_rank_spec (reset ens : Bool) (ms : List FoldModel) (thr : Rat) (colls : List Coll)
    (src : Sources) (out : List (List Int) × List Bool)
    (h : brewFull reset ens ms thr colls src = some out)
    (hsc : ∀ col ∈ brewScores reset ens ms colls src, f64Exact col = true)
    (hft : ∀ c ∈ colls, ∀ col ∈ c.feats, f64Exact col = true) :
    TailSpecG ms thr colls (brewScores reset ens ms colls src) out ∧
    brewThenRank reset ens ms thr colls src
      = some ((out.1.zip out.2).map (fun cd => rankColumn cd.2 cd.1)) := by
  have hspec := C07_full_spec reset ens ms thr colls src out h
  refine ⟨hspec, ?_⟩
  have hout : ∀ col ∈ out.1, f64Exact col = true := by
    rcases hspec with ⟨ho, _⟩ | ⟨_, m, _, _, _, ho⟩
    · rw [ho]; exact hsc
    · rw [ho]
      intro col hcol
      obtain ⟨c, hc, rfl⟩ := List.mem_map.mp hcol
      exact featColumn_exact _ c (hft c hc)
  unfold brewThenRank
  rw [h]
  simp only [Option.map_some]
  congr 1
  apply List.map_congr_left
  intro cd hcd
  exact C07_typed_entry_rank_eq cd.2 cd.1 (hout cd.1 (List.of_mem_zip hcd).1)

/-! ### non-vacuity and executable checks -/

def u16 : IntDtype := ⟨16, false⟩
def i8 : IntDtype := ⟨8, true⟩

-- a uint16 "rank" column with best value 0, lower-is-better: 0 gets the highest ranking score
#guard entryRankTyped false [0, 1, 2, 65535] == [0, -1, -2, -65535]
#guard entryRankTyped false [-128, 127] == [128, -127]
#guard castF64 (2 ^ 53 + 1) == 2 ^ 53 && castF64 (2 ^ 53 + 3) == 2 ^ 53 + 4 && castF64 (-(2 ^ 53) - 1) == -(2 ^ 53)
#guard castF32 (2 ^ 30 + 1) == 2 ^ 30 && castF32 16777217 == 16777216 && castF32 16777219 == 16777220
#guard castF32 16777215 == 16777215 && castF64 (2 ^ 53 - 1) == 2 ^ 53 - 1
#guard dirStartCol (1/2) [true, true, false, true, false] [1, 2, 9, 3, 8] == (3, false)
#guard brewThenRank true true (exMs true) (1/2) [exColl] exSrc == some [[-1, -2, -9, -3, -8]]

-- hypotheses of `C07_stored_values_cast_exactly` / `C07_typed_entry_rank_eq`
example : u16.bits ≤ 53 ∧ (∀ x ∈ ([0, 1, 65535] : List Int), inDtype u16 x = true) ∧
    i8.bits ≤ 53 ∧ (∀ x ∈ ([-128, 0, 127] : List Int), inDtype i8 x = true) ∧
    f64Exact [0, 1, 65535, -128, 2 ^ 53 - 1] = true := by decide +kernel

-- hypotheses of `C07_typed_psm_level_honours_direction` / `C07_typed_qvalues_honour_direction`
example : f64Exact (([⟨0, 0, [], true, 3⟩, ⟨1, 0, [], false, 0⟩, ⟨2, 1, [], true, 65535⟩] : List Row).map (·.score)) = true := by
  decide +kernel

-- hypotheses of `C07_brew_then_rank_spec`
example : (∃ out, brewFull true true (exMs true) (1/2) [exColl] exSrc = some out) ∧
    (∀ col ∈ brewScores true true (exMs true) [exColl] exSrc, f64Exact col = true) ∧
    (∀ c ∈ [exColl], ∀ col ∈ c.feats, f64Exact col = true) := by
  refine ⟨⟨_, brewTailG_unfold (exMs true) (1/2) [exColl] _ (by decide +kernel)⟩, by decide +kernel, by decide +kernel⟩

end Mk.Fallback
