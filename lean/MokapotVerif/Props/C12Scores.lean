import MokapotVerif.Lemmas.FitScores
import MokapotVerif.Lemmas.FitRefit
import MokapotVerif.Props.C12
/-!
# C12, continued — the scoring API (`_get_scores`), the scaler at prediction, re-fit invariance

Property theorems only.  They close three gaps of `Props/C12.lean` (see `GAPS-C12.md`):

* the quantifier item "estimators with `decision_function` or `predict_proba`": `Est.score` in the
  alignment theorems is the per-row view of what `_get_scores` (model.py:692-727, called at
  model.py:313 and :238) returns; the theorems below are about that dispatch itself, for every
  output shape `predict_proba` can have, every number of rows (one row included);
* "prediction matches features by name, not by column position" with an arbitrary *positional*
  scaler (`Model.decision_function` = select by name → `scaler.transform` → score, model.py:224-238),
  and the `is_trained` guard;
* the second entry point of `Model.fit` (a trained model, `_get_starting_labels` branch
  `model.is_trained`): independence of the shuffle switch and draw.
-/
namespace Mk.Fit
variable {α β ρ θ ν : Type}

/-! ## `_get_scores` -/

/-- **`decision_function` wins.**  Whatever `predict_proba` would return (any shape, also an
ill-formed one), an estimator with a `decision_function` is scored with it. -/
theorem C12_scores_decision_preferred (d : List α) (p : ProbaOut α) : getScores (some d) p = .ok d := rfl

/-- **One score per row, and it is the row's own positive-class output.**  For an estimator without
`decision_function` whose `predict_proba` output has `n` rows (a vector, or a rectangular matrix of
any width): if `_get_scores` returns, the result has exactly `n` entries — also for `n = 1` — and
entry `i` is the declarative `scoreAt`: the vector entry, the only entry of a one-column row, the
class-1 entry of a wider row.  With a `decision_function` of `n` values the same holds. -/
theorem C12_scores_one_per_row (n : Nat) (d : Option (List α)) (p : ProbaOut α) (hd : ∀ v, d = some v → v.length = n)
    (hwf : p.WF n) (s : List α) (h : getScores d p = .ok s) :
    s.length = n ∧ ∀ i : Nat, s[i]? = scoreAt d p i := by
  cases d with
  | none => exact probaScores_spec n p hwf s h
  | some v =>
    simp only [getScores, Option.map_some, Option.getD_some, Except.ok.injEq] at h
    subst h
    exact ⟨hd v rfl, fun i => rfl⟩

/-- **Row-wise.**  Scoring the rows in another order (any index list `idx`: a permutation, the
shuffled order, a subset) gives the same scores in that order: `_get_scores` commutes with row
selection, so `scores[original_idx]` puts each score back on the PSM whose row produced it. -/
theorem C12_scores_rowwise (n : Nat) (d : Option (List α)) (p : ProbaOut α) (hwf : p.WF n) (idx : List Nat) :
    getScores (d.map (fun v => gather v idx)) (p.gatherRows idx) = (getScores d p).map (fun s => gather s idx) := by
  cases d with
  | none => exact probaScores_gatherRows n p hwf idx
  | some v => rfl

/-- sklearn-style `predict_proba` (two or more class columns; `neg`, `pos`, `extra` are arbitrary
per-row functions): the score list is `feat.map pos` — the per-row `Est.score` of the loop model -/
theorem C12_scores_proba_matrix (feat : List ρ) (neg pos : ρ → α) (extra : ρ → List α) (k : Nat) :
    getScores none (.mat (k + 2) (feat.map (fun r => neg r :: pos r :: extra r))) = .ok (feat.map pos) := by
  simp only [getScores, Option.map_none, Option.getD_none, probaScores]
  rw [if_neg (by omega), if_neg (by omega), colOf_map_cons2]

/-- skorch-style single-column `predict_proba`: the score list is that column -/
theorem C12_scores_proba_single_column (feat : List ρ) (pos : ρ → α) :
    getScores none (.mat 1 (feat.map (fun r => [pos r]))) = .ok (feat.map pos) := by
  simp only [getScores, Option.map_none, Option.getD_none, probaScores, if_true]
  rw [colOf_map_single]

/-- one-dimensional `predict_proba`: taken as it is -/
theorem C12_scores_proba_flat (feat : List ρ) (pos : ρ → α) :
    getScores none (.vec (feat.map pos)) = .ok (feat.map pos) := rfl

/-- `decision_function`: the score list is `feat.map dec` whatever `predict_proba` is -/
theorem C12_scores_decision_rows (feat : List ρ) (dec : ρ → α) (p : ProbaOut α) :
    getScores (some (feat.map dec)) p = .ok (feat.map dec) := rfl

/-- `_get_scores` fails exactly for an output with three or more axes (`RuntimeError`) and for a
matrix without columns (`IndexError`) of an estimator without `decision_function` -/
theorem C12_scores_error_iff (d : Option (List α)) (p : ProbaOut α) (e : ScoreErr) :
    getScores d p = .error e ↔
      d = none ∧ ((p = .higher ∧ e = .tooManyDims) ∨ (∃ rows, p = .mat 0 rows) ∧ e = .indexError) := by
  cases d with
  | some v => simp [getScores]
  | none =>
    cases p with
    | vec v => simp [getScores, probaScores]
    | higher =>
      cases e <;> simp [getScores, probaScores]
    | mat w rows =>
      by_cases h1 : w = 1
      · subst h1; simp [getScores, probaScores]
      · by_cases h0 : w = 0
        · subst h0; cases e <;> simp [getScores, probaScores]
        · simp [getScores, probaScores, h1, h0]

/-! ## the scaler inside `Model.decision_function` -/

/-- **Prediction by name, any scaler.**  For every positional transform (StandardScaler, a custom
scaler, "as-is"), `Model.predict` returns the same scores for every arrangement of the dataset's
feature columns (distinct names): the selection by stored name comes *before* the scaler. -/
theorem C12_predict_scaled_by_name [DecidableEq ν] (trained : Bool) (transform : List (List β) → List (List β))
    (score : List β → α) (stored : List ν) (n : Nat) (cols cols' : List (ν × List β)) (h : cols'.Perm cols)
    (hnd : (cols.map (·.1)).Nodup) :
    predictScaled trained transform score stored n cols' = predictScaled trained transform score stored n cols :=
  predictScaled_perm trained transform score stored n h hnd

/-- what the scaler sees: with the stored names being the training column order, the matrix handed
to `scaler.transform` is the training-order matrix (selection is the identity) -/
theorem C12_predict_scaled_training_order [DecidableEq ν] (transform : List (List β) → List (List β))
    (score : List β → α) (n : Nat) (cols : List (ν × List β)) (hnd : (cols.map (·.1)).Nodup) :
    predictScaled true transform score (cols.map (·.1)) n cols
      = .ok ((transform (rowsOf n (cols.map (·.2)))).map score) := by
  unfold predictScaled
  rw [selectByName_self cols hnd]
  rfl

/-- with `scaler="as-is"` this is the `predictByName` of `Props/C12.lean` -/
theorem C12_predict_scaled_as_is [DecidableEq ν] (score : List β → α) (stored : List ν) (n : Nat)
    (cols : List (ν × List β)) :
    predictScaled true id score stored n cols
      = ((predictByName score stored n cols).map Except.ok).getD (.error .featMismatch) := by
  unfold predictScaled predictByName
  cases selectByName stored cols <;> rfl

/-- an untrained model refuses to predict (`NotFittedError`), a trained one refuses exactly when the
set of feature names differs (`ValueError`) -/
theorem C12_predict_scaled_rejects [DecidableEq ν] (trained : Bool) (transform : List (List β) → List (List β))
    (score : List β → α) (stored : List ν) (n : Nat) (cols : List (ν × List β)) :
    (predictScaled trained transform score stored n cols = .error .notFitted ↔ trained = false) ∧
    (predictScaled trained transform score stored n cols = .error .featMismatch ↔
      trained = true ∧ ¬ ∀ x, x ∈ cols.map (·.1) ↔ x ∈ stored) := by
  unfold predictScaled
  cases trained with
  | false => simp
  | true =>
    have hiff := selectByName_none_iff stored cols
    cases hsel : selectByName stored cols with
    | none =>
      rw [hsel] at hiff
      simp only [Bool.true_eq_false, if_false, Option.map_none, Option.getD_none, true_and]
      exact ⟨by simp, by simpa using hiff⟩
    | some sel =>
      rw [hsel] at hiff
      simp only [Bool.true_eq_false, if_false, Option.map_some, Option.getD_some, true_and]
      refine ⟨by simp, ?_⟩
      constructor
      · intro h; cases h
      · intro hne; exact absurd (hiff.mpr hne) (by simp)

/-! ## re-fitting a trained model: shuffle switch and draw -/

/-- **Re-fit, shuffle invariance.**  `Model.fit` on an already trained model (start labels from the
by-name scores of the stored state): for an order-insensitive estimator the outcome, the learned
state and — as multisets — the examples of every `fit` call are the same for any two settings of
the shuffle switch and any two draws.  `direction` is not consulted on this path. -/
theorem C12_refit_shuffle_invariant [DecidableEq ν] (est : Est (List β) α θ) (hfit : PermInvariant est)
    (le : α → α → Bool) (thr : Rat) (cfg1 cfg2 : FitCfg) (hit : cfg1.maxIter = cfg2.maxIter)
    (hov : cfg1.override = cfg2.override) (th : θ) (rows : List (List β)) (targets : List Bool) (stored : List ν)
    (named : List (ν × List β)) (hr : rows.length = targets.length)
    (hp1 : cfg1.perm.Perm (List.range rows.length)) (hp2 : cfg2.perm.Perm (List.range rows.length)) :
    (refitModel est le thr cfg1 th rows targets stored named).status
      = (refitModel est le thr cfg2 th rows targets stored named).status ∧
    (refitModel est le thr cfg1 th rows targets stored named).theta
      = (refitModel est le thr cfg2 th rows targets stored named).theta ∧
    List.Forall₂ List.Perm (refitModel est le thr cfg1 th rows targets stored named).trace
      (refitModel est le thr cfg2 th rows targets stored named).trace := by
  unfold refitModel
  split
  · exact ⟨rfl, rfl, List.Forall₂.nil⟩
  split
  · exact ⟨rfl, rfl, List.Forall₂.nil⟩
  cases hsc : predictByName (est.score th) stored targets.length named with
  | none => exact ⟨rfl, rfl, List.Forall₂.nil⟩
  | some sc =>
    simp only [Option.map_some, Option.getD_some, refitFrom]
    cases hst : trainedStart le thr targets sc with
    | none => exact ⟨rfl, rfl, List.Forall₂.nil⟩
    | some st =>
      simp only [Option.map_some, Option.getD_some]
      have hlen : st.labels.length = rows.length := by
        rw [hr]
        exact trainedStart_length le thr targets sc st (predictByName_length _ _ _ _ sc hsc) hst
      exact runFrom_shuffle_invariant est hfit le thr cfg1 cfg2 hit hov th rows targets st hr hlen hp1 hp2

/-- the `direction` setting of the model plays no part in a re-fit -/
theorem C12_refit_ignores_direction [DecidableEq ν] (est : Est (List β) α θ) (le : α → α → Bool) (thr : Rat)
    (cfg : FitCfg) (dir : Option Nat) (th : θ) (rows : List (List β)) (targets : List Bool) (stored : List ν)
    (named : List (ν × List β)) :
    refitModel est le thr { cfg with direction := dir } th rows targets stored named
      = refitModel est le thr cfg th rows targets stored named := rfl

/-! ## Non-vacuity and evaluation tests -/

-- a 1-row matrix of width 2 is well formed (the input of the repaired single-PSM defect)
example : (ProbaOut.mat 2 [[(1 : Int), 9]]).WF 1 := ⟨rfl, by decide⟩
example : (ProbaOut.mat 1 [[(4 : Int)], [5], [6]]).WF 3 := ⟨rfl, by decide⟩
example : (ProbaOut.vec [(4 : Int), 5]).WF 2 := rfl
example : ∀ v, (some [(7 : Int), 8]) = some v → v.length = 2 := by intro v h; cases h; rfl
-- hypotheses of `C12_both_classes_present` and `C12_refit_is_aligned_loop` (Props/C12.lean) on four PSMs T T D T
example : false ∈ [true, true, false, true] := by decide
example : 0 < numPos [1, 0, -1, 1] := by decide
example : ∀ i : Nat, [true, true, false, true][i]? = some false → ([1, 0, -1, 1] : List Int)[i]? = some (-1) := by
  intro i h
  match i, h with
  | 0, h => simp at h
  | 1, h => simp at h
  | 2, _ => rfl
  | 3, h => simp at h
  | n + 4, h => simp at h
#guard numPos (tdcRelabel leI (1/2) [true, true, false, true] [5, -1, 3, 4]) != 0

#guard getScores none (.mat 2 [[(1 : Int), 9]]) == .ok [9]
#guard getScores none (.mat 2 [[(1 : Int), 9], [2, 8]]) == .ok [9, 8]
#guard getScores none (.mat 1 [[(4 : Int)]]) == .ok [4]
#guard getScores none (.mat 3 [[(1 : Int), 9, 0], [2, 8, 0]]) == .ok [9, 8]
#guard getScores none (.vec [(4 : Int), 5]) == .ok [4, 5]
#guard getScores (some [(7 : Int), 8]) (.mat 2 [[1, 9], [2, 8]]) == .ok [7, 8]
#guard getScores (none : Option (List Int)) .higher == .error .tooManyDims
#guard getScores (none : Option (List Int)) (.mat 0 [[], []]) == .error .indexError
#guard predictScaled true (fun m => m.map (fun r => List.zipWith (· * ·) r [1, 10])) (fun r : List Int => r.sum)
    ["a", "b"] 2 [("b", [3, 4]), ("a", [1, 2])] == .ok [31, 42]
#guard predictScaled false id (fun r : List Int => r.sum) ["a", "b"] 2 [("b", [3, 4]), ("a", [1, 2])]
    == .error .notFitted
#guard predictScaled true id (fun r : List Int => r.sum) ["a", "b"] 2 [("b", [3, 4]), ("c", [1, 2])]
    == .error .featMismatch

end Mk.Fit
