import MokapotVerif.Lemmas.ConfidenceRollup
import MokapotVerif.Props.C03Batch
/-!
# C03 — the stand-alone roll-up tool as a whole

"The stand-alone rollup tool applies the same rule to previously written result files":
`C03_rollup_tool_spec` (in `Props/C03.lean`) is about the inner loop on an already merged,
already sorted stream.  Here the assumptions of that theorem are discharged for the tool as it
runs (`rollupRun`): the levels it rolls up to for each accepted `--level`, the merge of the
target and decoy files by the checked table merger (C14), the re-computed target flags, the
q-values and the split into the two output files; and the tool is tied to `assign_confidence`:
on the PSM-level result files of a tie-free run it reproduces `assign_confidence`'s own roll-up.
-/
namespace Mk

/-! ## which levels -/

/-- **The levels per `--level` value** (finite table, kernel-evaluated on the model of
`compute_rollup_levels` with `DEFAULT_PARENT_LEVELS`, started — as `do_rollup` does — from the
column name of the command-line value): from PSMs the tool rolls up to precursors, modified
peptides, peptides and peptide groups; from precursors to the same four (the precursor level
itself included); from modified peptides (`--level modifiedpeptide`) to modified peptides and
peptides; from peptides to peptides; from peptide groups (`--level peptidegroup`) to peptide
groups.  Every accepted value other than `psm` yields its own level first. -/
theorem C03_rollup_levels_table :
    rollupLevelNames rollupDefaultParents (rollupStdName "psm".toList)
      = ["psm".toList, "precursor".toList, "modified_peptide".toList, "peptide".toList,
         "peptide_group".toList] ∧
    rollupLevelNames rollupDefaultParents (rollupStdName "precursor".toList)
      = ["precursor".toList, "modified_peptide".toList, "peptide".toList, "peptide_group".toList] ∧
    rollupLevelNames rollupDefaultParents (rollupStdName "modifiedpeptide".toList)
      = ["modified_peptide".toList, "peptide".toList] ∧
    rollupLevelNames rollupDefaultParents (rollupStdName "peptide".toList) = ["peptide".toList] ∧
    rollupLevelNames rollupDefaultParents (rollupStdName "peptidegroup".toList)
      = ["peptide_group".toList] := by
  decide

/-- **No accepted `--level` is a dead end**: for every accepted value other than `psm`, if the
input files carry the column of that level, the tool rolls up (at least) to that level — and to
every level below it whose column is present (`C03_rollup_levels_closed`). -/
theorem C03_rollup_levels_nonempty :
    ∀ base ∈ rollupCliLevels, base ≠ "psm".toList →
      ∀ cols : List RollupName, rollupStdName base ∈ cols →
        rollupStdName base ∈ toolLevels rollupDefaultParents base cols := by
  intro base hb hne cols hc
  unfold toolLevels
  rw [List.mem_filter]
  refine ⟨?_, by simpa using hc⟩
  have h : ∀ b ∈ rollupCliLevels,
      rollupStdName b ∈ rollupLevelNames rollupDefaultParents (rollupStdName b) := by decide
  exact h base hb

/-- for every accepted `--level` the computed list is a fixpoint (no further pass would add a
level: the fuel of the model is sufficient), starts with the column name of the base level, has
no repetition, and is closed under "child of a level is a level" -/
theorem C03_rollup_levels_closed :
    ∀ base ∈ rollupCliLevels,
      rlPass rollupDefaultParents (rollupLevelNames rollupDefaultParents (rollupStdName base))
        = rollupLevelNames rollupDefaultParents (rollupStdName base) ∧
      (rollupLevelNames rollupDefaultParents (rollupStdName base)).head? = some (rollupStdName base) ∧
      (rollupLevelNames rollupDefaultParents (rollupStdName base)).Nodup ∧
      ∀ cp ∈ rollupDefaultParents, cp.2 ∈ rollupLevelNames rollupDefaultParents (rollupStdName base) →
        cp.1 ∈ rollupLevelNames rollupDefaultParents (rollupStdName base) := by
  decide

/-- soundness for *any* parent map and base: one pass only ever appends children whose parent
is already a level, and keeps what is there -/
theorem C03_rollup_pass_sound (parents : List (RollupName × RollupName)) (lv : List RollupName) :
    lv <+: rlPass parents lv ∧
    ∀ x ∈ rlPass parents lv, x ∈ lv ∨ ∃ cp ∈ parents, cp.1 = x ∧ cp.2 ∈ rlPass parents lv := by
  unfold rlPass
  induction parents generalizing lv with
  | nil => exact ⟨List.prefix_refl _, fun x hx => Or.inl hx⟩
  | cons cp rest ih =>
    simp only [List.foldl_cons]
    obtain ⟨hp, hm⟩ := ih (rlStep lv cp)
    have hstep : lv <+: rlStep lv cp := by
      unfold rlStep; split
      · exact List.prefix_append _ _
      · exact List.prefix_refl _
    refine ⟨hstep.trans hp, ?_⟩
    intro x hx
    rcases hm x hx with h | ⟨cp', hcp', h1, h2⟩
    · unfold rlStep at h
      split at h
      · rename_i hc
        rcases List.mem_append.mp h with h | h
        · exact Or.inl h
        · right
          refine ⟨cp, by simp, (List.mem_singleton.mp h).symm, ?_⟩
          have : cp.2 ∈ lv := by
            simp only [Bool.and_eq_true, List.contains_eq_mem, decide_eq_true_eq] at hc
            exact hc.1
          exact (hstep.trans hp).subset this
      · exact Or.inl h
    · exact Or.inr ⟨cp', List.mem_cons_of_mem _ hcp', h1, h2⟩

/-! ## the run -/

/-- **The tool as it runs.**  For every set of target and decoy result files that are sorted
best-first and hold at least one row each (at least one file), the tool does not raise; the
merged stream is a best-first arrangement of all their rows (targets files flagged target,
decoys files flagged decoy; the decoy readers are listed first, which matters for ties only);
and for every level it rolls up to, the rows it retains are
exactly one highest-scoring row per entity of *all the input rows* (`LevelSpec`), written with
the q-values of the C01 formula on exactly those rows (`C03_qvalues_are_C01`), targets to
`targets.<level>s`, decoys to `decoys.<level>s` (`C03_targets_decoys_partition`). -/
theorem C03_rollup_run_spec (parents : List (RollupName × RollupName)) (base : RollupName) (cols cands : List RollupName)
    (tfiles dfiles : List (List Row)) (hne : tfiles ++ dfiles ≠ [])
    (hrow : ∀ f ∈ tfiles ++ dfiles, f ≠ []) (hs : ∀ f ∈ tfiles ++ dfiles, SortedRows f) :
    ∃ merged, merged.Perm (dfiles.map (rollupRetag false) ++ tfiles.map (rollupRetag true)).flatten ∧
      SortedRows merged ∧
      rollupRun parents base cols cands tfiles dfiles
        = .ok ((toolLevels parents base cols).map (toolWrite cands merged)) ∧
      ∀ lv, LevelSpec (fun r => r.key (rollupKeyIdx cands lv))
        (dfiles.map (rollupRetag false) ++ tfiles.map (rollupRetag true)).flatten
        (toolLevelRows cands merged lv) := by
  have hne' : dfiles.map (rollupRetag false) ++ tfiles.map (rollupRetag true) ≠ [] := by
    intro h
    rw [List.append_eq_nil_iff, List.map_eq_nil_iff, List.map_eq_nil_iff] at h
    exact hne (by rw [h.1, h.2]; rfl)
  have hmem : ∀ xs ∈ dfiles.map (rollupRetag false) ++ tfiles.map (rollupRetag true),
      ∃ t f, f ∈ tfiles ++ dfiles ∧ xs = rollupRetag t f := by
    intro xs hxs
    rcases List.mem_append.mp hxs with h | h
    · obtain ⟨f, hf, rfl⟩ := List.mem_map.mp h
      exact ⟨false, f, List.mem_append_right _ hf, rfl⟩
    · obtain ⟨f, hf, rfl⟩ := List.mem_map.mp h
      exact ⟨true, f, List.mem_append_left _ hf, rfl⟩
  have hrow' : [] ∉ dfiles.map (rollupRetag false) ++ tfiles.map (rollupRetag true) := by
    intro h
    obtain ⟨t, f, hf, he⟩ := hmem [] h
    exact rollupRetag_ne_nil t f (hrow f hf) he.symm
  have hs' : ∀ xs ∈ dfiles.map (rollupRetag false) ++ tfiles.map (rollupRetag true),
      Merge.SortedAs rowLe true xs := by
    intro xs hxs
    obtain ⟨t, f, hf, rfl⟩ := hmem xs hxs
    simp only [Merge.SortedAs, if_true]
    exact (sortedRows_iff_nonIncr _).mp (rollupRetag_sorted t f (hs f hf))
  obtain ⟨merged, hm, hperm, hsorted⟩ :=
    Merge.C14_checked_sorted_inputs_ok rowLe rowLe_totalPre true _ hne' hrow' hs'
  have hsr : SortedRows merged := by
    simp only [Merge.SortedAs, if_true] at hsorted
    exact (sortedRows_iff_nonIncr _).mpr hsorted
  refine ⟨merged, hperm, hsr, ?_, ?_⟩
  · unfold rollupRun
    have : Merge.kmergeChecked rowLeB true (dfiles.map (rollupRetag false) ++ tfiles.map (rollupRetag true))
        = some (merged, false) := hm
    rw [this]
    rfl
  · intro lv
    exact levelSpec_perm_input _ _ _ _ hperm (dedupFirst_levelSpec _ merged hsr)

/-- unsorted input files are refused, not silently rolled up: if the tool returns a result, every
input file was sorted best-first -/
theorem C03_rollup_run_rejects_unsorted (parents : List (RollupName × RollupName)) (base : RollupName)
    (cols cands : List RollupName) (tfiles dfiles : List (List Row)) (out : List RollupToolOut)
    (h : rollupRun parents base cols cands tfiles dfiles = .ok out) :
    ∀ f ∈ tfiles ++ dfiles, SortedRows f := by
  unfold rollupRun at h
  cases hk : Merge.kmergeChecked rowLeB true (dfiles.map (rollupRetag false) ++ tfiles.map (rollupRetag true)) with
  | none => rw [hk] at h; simp [toolOutcome] at h
  | some r =>
    obtain ⟨merged, err⟩ := r
    rw [hk] at h
    cases err with
    | true => simp [toolOutcome] at h
    | false =>
      have hk' : Merge.kmergeChecked rowLe true (dfiles.map (rollupRetag false) ++ tfiles.map (rollupRetag true))
          = some (merged, false) := hk
      have hall := (Merge.C14_checked_error_iff_unsorted rowLe rowLe_totalPre true _ merged false hk')
      have hsorted : ∀ xs ∈ dfiles.map (rollupRetag false) ++ tfiles.map (rollupRetag true),
          Merge.SortedAs rowLe true xs := by
        by_contra hc
        exact absurd (hall.mpr hc) (by simp)
      intro f hf
      have unret : ∀ t, SortedRows (rollupRetag t f) → SortedRows f := by
        intro t h
        unfold SortedRows rollupRetag at h
        exact List.pairwise_map.mp h
      rcases List.mem_append.mp hf with h1 | h1
      · have := hsorted (rollupRetag true f) (List.mem_append_right _ (List.mem_map.mpr ⟨f, h1, rfl⟩))
        simp only [Merge.SortedAs, if_true] at this
        exact unret true ((sortedRows_iff_nonIncr _).mpr this)
      · have := hsorted (rollupRetag false f) (List.mem_append_left _ (List.mem_map.mpr ⟨f, h1, rfl⟩))
        simp only [Merge.SortedAs, if_true] at this
        exact unret false ((sortedRows_iff_nonIncr _).mpr this)

/-- **Same rule as `assign_confidence`.**  Feed the tool the two PSM-level result files
`assign_confidence` wrote for a level file `psm` without score ties (both non-empty): the merged
stream *is* `psm` again (flags recomputed from the file kind included), so for every level the
tool writes exactly `splitTD` of the first-seen rows of `psm` — which, for
`psm = psmLevel dedup merged`, is by definition the roll-up level of `assign_confidence`
(`rollupLevel`, `C03_scan_eq_levels`). -/
theorem C03_rollup_tool_same_rule (parents : List (RollupName × RollupName)) (base : RollupName)
    (cols cands : List RollupName) (psm : List Row)
    (hstrict : psm.Pairwise (fun a b => b.score < a.score))
    (ht : (splitTD psm).1 ≠ []) (hd : (splitTD psm).2 ≠ []) :
    rollupRun parents base cols cands [(splitTD psm).1.map Prod.fst] [(splitTD psm).2.map Prod.fst]
      = .ok ((toolLevels parents base cols).map (toolWrite cands psm)) := by
  have hsr : SortedRows psm := hstrict.imp (fun {a b} h => le_of_lt h)
  have hpart := C03_targets_decoys_partition psm
  have hsf := C03_result_files_sorted psm hsr
  obtain ⟨merged, hperm, hsorted, hrun, _⟩ := C03_rollup_run_spec parents base cols cands
    [(splitTD psm).1.map Prod.fst] [(splitTD psm).2.map Prod.fst] (by simp)
    (by
      intro f hf
      simp only [List.cons_append, List.nil_append, List.mem_cons, List.not_mem_nil, or_false] at hf
      rcases hf with rfl | rfl
      · simpa using ht
      · simpa using hd)
    (by
      intro f hf
      simp only [List.cons_append, List.nil_append, List.mem_cons, List.not_mem_nil, or_false] at hf
      rcases hf with rfl | rfl
      · exact hsf.1
      · exact hsf.2)
  have e1 : rollupRetag true ((splitTD psm).1.map Prod.fst) = (splitTD psm).1.map Prod.fst := by
    apply rollupRetag_id
    rw [hpart.1]
    intro r hr
    simpa using (List.mem_filter.mp hr).2
  have e2 : rollupRetag false ((splitTD psm).2.map Prod.fst) = (splitTD psm).2.map Prod.fst := by
    apply rollupRetag_id
    rw [hpart.2.1]
    intro r hr
    simpa using (List.mem_filter.mp hr).2
  have hp2 : merged.Perm psm := by
    refine hperm.trans ?_
    simp only [List.map_cons, List.map_nil, List.cons_append, List.nil_append, List.flatten_cons,
      List.flatten_nil, List.append_nil]
    rw [e1, e2, hpart.1, hpart.2.1]
    exact List.perm_append_comm.trans (List.filter_append_perm _ _)
  have : merged = psm := sorted_perm_strict_eq psm merged hstrict hp2 hsorted
  rw [hrun, this]

/-- the roll-up level `assign_confidence` writes is what the tool computes from the PSM level -/
theorem C03_rollup_tool_level_is_rollupLevel (cands : List RollupName) (dedup : Bool) (merged : List Row)
    (lv : RollupName) :
    toolLevelRows cands (psmLevel dedup merged) lv = rollupLevel dedup merged (rollupKeyIdx cands lv) :=
  rfl

/-! ## Non-vacuity and evaluation tests -/

def c03ExCands : List RollupName := ["peptide".toList]
def c03ExCols : List RollupName := ["psm_id".toList, "peptide".toList, "score".toList]

-- PSM-level files of `exRows` (ids 1, 3 targets; 2 decoy), roll-up from PSMs to peptides
#guard (match rollupRun rollupDefaultParents "psm".toList c03ExCols c03ExCands
          [[exRows[1]!, exRows[3]!]] [[exRows[2]!]] with
        | .ok outs => outs.map (fun o => (String.ofList o.level, o.targets.map (·.1.id), o.decoys.map (·.1.id)))
        | .error _ => []) == [("peptide", [1], [2])]
-- `--level modifiedpeptide` on files without a modified-peptide column: rolls up to peptides
#guard (match rollupRun rollupDefaultParents "modifiedpeptide".toList c03ExCols c03ExCands
          [[exRows[1]!, exRows[3]!]] [[exRows[2]!]] with
        | .ok outs => outs.map (fun o => String.ofList o.level) | .error _ => []) == ["peptide"]
-- an unsorted file is refused; a file without rows makes the reader raise
#guard (match rollupRun rollupDefaultParents "psm".toList c03ExCols c03ExCands
          [[exRows[3]!, exRows[1]!]] [[exRows[2]!]] with
        | .ok _ => "ok" | .error e => e) == "unsorted"
#guard (match rollupRun rollupDefaultParents "psm".toList c03ExCols c03ExCands [[exRows[1]!]] [[]] with
        | .ok _ => "ok" | .error e => e) == "no-rows"

/-- hypotheses of `C03_rollup_tool_same_rule` on a concrete PSM level -/
example : ([exRows[1]!, exRows[2]!, exRows[3]!] : List Row).Pairwise (fun a b => b.score < a.score) := by
  decide

end Mk
