import MokapotVerif.Lemmas.PepsAlign
/-!
# C06 — PEPs are probabilities, monotone in score, and aligned with their PSM
(PARTIAL claim: numeric kernels are abstract parameters with explicit hypotheses)

Property theorems only.  Definitions live in `Mk.Peps` (`Model/Peps.lean`).
`Shape lo hi scores vals` is the declarative specification: one value per PSM,
every value in `[lo, hi]`, values never decrease as the score worsens (hence
equal scores receive equal values, `C06_shape_ties_equal`).  "Aligned with
its PSM whatever the input order" is stated as in C01: for *every* permutation
`ys` of the data set and *every* admissible `argsort` result, the returned list
is `ys.map (fun y => F y.score)` for one function `F` of the score that does
not depend on the arrangement.

Kernel hypotheses (asserted by the harness on every real call):
* NNLS solution `d ≥ 0`                       (`scipy.optimize.nnls`)
* `QvalityKernelOK K g xs`: triqler returns `g` evaluated at the scores in
  descending order, `g` non-increasing in the score with values in `[0,1]`
* `0 ≤ c = pi0 * #targets/#decoys`            (`estimate_pi0_by_slope`)
* input PEPs of `qvalues_from_peps` are `≥ 0` and a function of the score.
-/
namespace Mk
open Peps

/-! ## primitives -/

/-- `monotonize_simple(x, ascending=True)` returns a non-decreasing sequence of the same length -/
theorem C06_runmax_monotone (xs : List Rat) :
    (runMax xs).length = xs.length ∧ (runMax xs).Pairwise (· ≤ ·) :=
  ⟨runMax_length xs, runMax_pairwise xs⟩

/-- … namely the *least* non-decreasing sequence that dominates the input pointwise,
and each of its entries is one of the inputs -/
theorem C06_runmax_least_majorant (xs : List Rat) :
    (∀ (i : Nat) (h : i < xs.length), xs[i] ≤ (runMax xs)[i]'(by rw [runMax_length]; exact h)) ∧
    (∀ y ∈ runMax xs, y ∈ xs) ∧
    (∀ (ys : List Rat) (hlen : ys.length = xs.length), ys.Pairwise (· ≤ ·) →
      (∀ (i : Nat) (h : i < xs.length), xs[i] ≤ ys[i]'(by rw [hlen]; exact h)) →
      ∀ (i : Nat) (h : i < xs.length),
        (runMax xs)[i]'(by rw [runMax_length]; exact h) ≤ ys[i]'(by rw [hlen]; exact h)) :=
  ⟨runMax_getElem_ge xs, runMax_mem xs, fun ys hlen hys hdom => runMax_least xs ys hlen hys hdom⟩

/-- `monotonize_simple(x, ascending=False)` returns a non-increasing sequence of the same length -/
theorem C06_runmin_monotone (xs : List Rat) :
    (runMin xs).length = xs.length ∧ (runMin xs).Pairwise (· ≥ ·) :=
  ⟨runMin_length xs, runMin_pairwise xs⟩

/-- cumulative sums of non-negative increments (the NNLS solution) are
non-negative and non-decreasing; entry `i` is the sum of the first `i+1` increments -/
theorem C06_cumsum_nonneg_monotone (d : List Rat) (hd : ∀ x ∈ d, 0 ≤ x) :
    (cumsum d).length = d.length ∧ (cumsum d).Pairwise (· ≤ ·) ∧ (∀ y ∈ cumsum d, 0 ≤ y) ∧
    (∀ (i : Nat) (h : i < d.length),
      (cumsum d)[i]'(by rw [cumsum_length]; exact h) = (d.take (i + 1)).sum) := by
  refine ⟨cumsum_length d, cumsumFrom_pairwise 0 d hd, cumsumFrom_ge 0 d hd, ?_⟩
  intro i h
  have := cumsumFrom_getElem 0 d i h
  simpa [cumsum] using this

/-- `np.clip(x, lo, hi)` lies in `[lo, hi]` -/
theorem C06_clip_range (lo hi x : Rat) (h : lo ≤ hi) : lo ≤ clip lo hi x ∧ clip lo hi x ≤ hi :=
  ⟨le_clip lo hi x h, clip_le lo hi x⟩

/-- `np.clip` is monotone and leaves values already in range unchanged -/
theorem C06_clip_monotone (lo hi : Rat) :
    (∀ x y, x ≤ y → clip lo hi x ≤ clip lo hi y) ∧ (∀ x, lo ≤ x → x ≤ hi → clip lo hi x = x) :=
  ⟨fun _ _ h => clip_mono lo hi h, fun x h1 h2 => clip_of_mem lo hi x h1 h2⟩

/-- `np.interp`, left of the first knot: the first value -/
theorem C06_interp_spec_left (x0 y0 : Rat) (rest : List (Rat × Rat)) (x : Rat) (h : x < x0) :
    interp ((x0, y0) :: rest) x = y0 := by
  simp [interp, h]

/-- `np.interp`, at or right of the last knot `j = n-1` (all earlier knots `≤ x`): its value -/
theorem C06_interp_spec_last (pre : List (Rat × Rat)) (x0 y0 x : Rat)
    (hpre : ∀ k ∈ pre, k.1 ≤ x) (h0 : x0 ≤ x) : interp (pre ++ [(x0, y0)]) x = y0 := by
  rw [interp_skip x pre x0 y0 [] hpre h0]; rfl

/-- `np.interp`, `j` = the last index with `xp[j] ≤ x` (knots before it `≤ x`, the next one `> x`):
`fp[j]` if `xp[j] = x`, else `slope * (x - xp[j]) + fp[j]` -/
theorem C06_interp_spec_segment (pre : List (Rat × Rat)) (x0 y0 x1 y1 : Rat) (post : List (Rat × Rat))
    (x : Rat) (hpre : ∀ k ∈ pre, k.1 ≤ x) (h0 : x0 ≤ x) (h1 : x < x1) :
    interp (pre ++ (x0, y0) :: (x1, y1) :: post) x
      = if x0 = x then y0 else (y1 - y0) / (x1 - x0) * (x - x0) + y0 := by
  rw [interp_skip x pre x0 y0 _ hpre h0]
  simp [interpGo, not_le.mpr h1, lerp]

/-- values non-increasing along the knots ⇒ the interpolant is non-increasing in `x`
(no strictness of the knots needed: duplicated knots are covered) -/
theorem C06_interp_monotone (ks : List (Rat × Rat)) (hvals : ks.Pairwise (fun a b => b.2 ≤ a.2))
    (x x' : Rat) (h : x ≤ x') : interp ks x' ≤ interp ks x :=
  interp_anti ks hvals h

/-- the interpolant stays within the range of the knot values -/
theorem C06_interp_range (ks : List (Rat × Rat)) (hne : ks ≠ []) (lo hi x : Rat)
    (h : ∀ k ∈ ks, lo ≤ k.2 ∧ k.2 ≤ hi) : lo ≤ interp ks x ∧ interp ks x ≤ hi :=
  ⟨interp_ge ks hne lo x (fun k hk => (h k hk).1), interp_le ks hne hi x (fun k hk => (h k hk).2)⟩

/-! ## the specification's consequences -/

/-- equal scores receive equal values (follows from the monotonicity clause of `Shape`) -/
theorem C06_shape_ties_equal (lo : Rat) (hi : Option Rat) (scores vals : List Rat)
    (h : Shape lo hi scores vals) (i j : Nat) (hi' : i < scores.length) (hj : j < scores.length)
    (e : scores[i] = scores[j]) :
    vals[i]'(by rw [h.length]; exact hi') = vals[j]'(by rw [h.length]; exact hj) :=
  h.ties i j hi' hj e

/-! ## kde_nnls and hist_nnls PEPs -/

/-- **kde_nnls**: if the NNLS increments are `≥ 0`, every PSM receives one PEP in `[0,1]`,
PEPs never decrease as the score worsens and equal scores receive equal PEPs —
for every grid `es`, every score vector, in any order. -/
theorem C06_kde_nnls_shape (es d scores : List Rat) (hd : ∀ x ∈ d, 0 ≤ x) :
    Shape 0 (some 1) scores (kdeNnlsOf es d scores) := by
  unfold kdeNnlsOf
  apply shape_map 0 (some 1) (fun x => clip 0 1 (interp (es.zip (revCumsum d)) x))
  · intro a b hab
    exact clip_mono 0 1 (interp_anti _ (antiKnots_zip es _ (revCumsum_anti d hd)) hab)
  · intro a
    refine ⟨le_clip 0 1 _ (by norm_num), ?_⟩
    intro h hh
    cases hh
    exact clip_le 0 1 _

/-- **hist_nnls**: same, including the `scale_to_one` division (which the repaired code
performs only for `0 < pep_est[0] < 1`). -/
theorem C06_hist_nnls_shape (es d scores : List Rat) (hd : ∀ x ∈ d, 0 ≤ x) (r : List Rat)
    (hr : histNnlsOf es d scores = some r) : Shape 0 (some 1) scores r := by
  unfold histNnlsOf at hr
  cases hr
  apply shape_map 0 (some 1) (fun x => clip 0 1 (interp (es.zip (scaleToOne (revCumsum d))) x))
  · intro a b hab
    exact clip_mono 0 1 (interp_anti _ (antiKnots_zip es _
      (scaleToOne_anti _ (revCumsum_anti d hd) (revCumsum_nonneg d hd))) hab)
  · intro a
    refine ⟨le_clip 0 1 _ (by norm_num), ?_⟩
    intro h hh
    cases hh
    exact clip_le 0 1 _

/-- **`hist_nnls` always yields one PEP per PSM** (restated for the repaired code, commit 835a908; no
hypothesis on the fit): in particular for an identically zero fit (`pep_est[0] = 0`, well separated
targets and decoys), which is left unscaled — the old code computed `0/0` for every PSM there
(`Mutants.histNnlsOfOld_violates`). -/
theorem C06_hist_nnls_defined_iff (es d scores : List Rat) :
    (histNnlsOf es d scores ≠ none) ∧
    (∃ r, histNnlsOf es d scores = some r ∧ r.length = scores.length) ∧
    ((revCumsum d).headD 0 = 0 → scaleToOne (revCumsum d) = revCumsum d) := by
  refine ⟨by simp [histNnlsOf], ⟨_, rfl, by simp⟩, ?_⟩
  intro h
  unfold scaleToOne
  rw [if_neg]
  rw [h]
  intro hc
  exact absurd hc.1 (lt_irrefl 0)

/-- **alignment of the interpolation-based PEPs** (`interp_pointwise`): output `i` depends on
score `i` only — for every arrangement `ys` of the PSMs the result is `ys.map` of one
function of the score fixed by the kernel outputs. -/
theorem C06_interp_pointwise (es d : List Rat) (ys : List Psm) :
    kdeNnlsOf es d (ys.map (·.1)) = ys.map (fun y => kdePepFun es d y.1) ∧
    (∀ r, histNnlsOf es d (ys.map (·.1)) = some r → r = ys.map (fun y => histPepFun es d y.1)) := by
  constructor
  · simp [kdeNnlsOf, kdePepFun, List.map_map, Function.comp_def]
  · intro r hr
    unfold histNnlsOf at hr
    cases hr
    simp [histPepFun, List.map_map, Function.comp_def]

/-! ## qvality wrapper -/

/-- **qvality wrapper, alignment** (true only for the repaired code, D11): for every
arrangement `ys` of the data set and every admissible result `ind` of
`np.argsort(-scores)` (any order among ties, in particular the stable one), the
`i`-th returned PEP is the kernel's value for the `i`-th PSM's own score. -/
theorem C06_qvality_wrapper_aligned (K : List Rat → List Rat → List Rat) (g : Rat → Rat)
    (xs : List Psm) (hK : QvalityKernelOK K g xs) (ys : List Psm) (hperm : ys.Perm xs)
    (ind : List Nat) (hind : ValidArgsort ys ind) :
    qvalityWrapOf K ys ind = ys.map (fun y => g y.1) :=
  qvalityWrapOf_aligned K g xs hK ys hperm ind hind

/-- the executable wrapper (stable merge sort as the argsort) is an instance -/
theorem C06_qvality_wrapper_stable (K : List Rat → List Rat → List Rat) (g : Rat → Rat)
    (xs : List Psm) (hK : QvalityKernelOK K g xs) (ys : List Psm) (hperm : ys.Perm xs) :
    qvalityWrap K ys = ys.map (fun y => g y.1) :=
  qvalityWrapOf_aligned K g xs hK ys hperm _ (stableArgsortDesc_valid ys)

/-- **qvality wrapper, shape**: if the kernel's response `g` is non-increasing in the score
with values in `[0,1]`, so are the returned PEPs, one per PSM. -/
theorem C06_qvality_wrapper_shape (K : List Rat → List Rat → List Rat) (g : Rat → Rat)
    (xs : List Psm) (hK : QvalityKernelOK K g xs)
    (hanti : ∀ a b, a ≤ b → g b ≤ g a) (hrange : ∀ a, 0 ≤ g a ∧ g a ≤ 1)
    (ys : List Psm) (hperm : ys.Perm xs) (ind : List Nat) (hind : ValidArgsort ys ind) :
    Shape 0 (some 1) (ys.map (·.1)) (qvalityWrapOf K ys ind) := by
  rw [qvalityWrapOf_aligned K g xs hK ys hperm ind hind]
  have : ys.map (fun y => g y.1) = (ys.map (·.1)).map g := by simp [List.map_map, Function.comp_def]
  rw [this]
  apply shape_map 0 (some 1) g hanti
  intro a
  refine ⟨(hrange a).1, ?_⟩
  intro h hh
  cases hh
  exact (hrange a).2

/-! ## q-values from PEPs -/

/-- **from_peps, shape**: for non-negative input PEPs and *any* arrangement `sorted`
(whatever `np.argsort` does with ties), one q-value `≥ 0` per PSM, never
decreasing as the score worsens, equal for equal scores. -/
theorem C06_from_peps_shape (scores : List Rat) (sorted : List (Psm × Rat))
    (hp : ∀ e ∈ sorted, 0 ≤ e.2) (r : List Rat) (hr : fromPepsOf scores sorted = some r) :
    Shape 0 none scores r := by
  unfold fromPepsOf at hr
  split at hr
  · cases hr
  · cases hr
    apply shape_map 0 none (interp (pepKnots sorted))
    · intro a b hab
      exact interp_anti _ (pepKnots_anti sorted) hab
    · intro a
      exact ⟨interp_nonneg _ a (pepKnots_nonneg sorted hp), fun h hh => by cases hh⟩

/-- **from_peps, independent of the argsort's tie order**: if the PEPs are a function
of the score (as the PEP theorems above guarantee), two descending arrangements of
the same PSMs give the same knots, hence the same q-values. -/
theorem C06_from_peps_argsort_independent (g : Rat → Rat) (scores : List Rat)
    (s1 s2 : List (Psm × Rat)) (hperm : s1.Perm s2)
    (h1 : s1.Pairwise (fun a b => b.1.1 ≤ a.1.1)) (h2 : s2.Pairwise (fun a b => b.1.1 ≤ a.1.1))
    (hg : ∀ e ∈ s1, e.2 = g e.1.1) : fromPepsOf scores s1 = fromPepsOf scores s2 := by
  unfold fromPepsOf
  rw [pepKnots_indep g s1 s2 hperm h1 h2 hg, filter_isTgt_isEmpty_perm hperm]

/-- **from_peps, alignment**: for every arrangement `ys` of the data set `xs` (with PEPs
`g score`) and every admissible sort `sy` of it, the `i`-th q-value is
`interp (pepKnots sx)` at the `i`-th PSM's own score, where `sx` is any fixed sorted
arrangement of `xs` — one function of the score for all input orders. -/
theorem C06_from_peps_perm_equivariant (g : Rat → Rat) (xs ys : List Psm) (hperm : ys.Perm xs)
    (sx sy : List (Psm × Rat))
    (hsx : sx.Perm (xs.map (fun x => (x, g x.1)))) (hsy : sy.Perm (ys.map (fun y => (y, g y.1))))
    (h1 : sx.Pairwise (fun a b => b.1.1 ≤ a.1.1)) (h2 : sy.Pairwise (fun a b => b.1.1 ≤ a.1.1))
    (htgt : ∃ x ∈ xs, x.2 = true) :
    fromPepsOf (ys.map (·.1)) sy = some (ys.map (fun y => interp (pepKnots sx) y.1)) := by
  have hp : sy.Perm sx := hsy.trans ((hperm.map _).trans hsx.symm)
  have hg : ∀ e ∈ sy, e.2 = g e.1.1 := by
    intro e he
    obtain ⟨y, _, rfl⟩ := List.mem_map.mp (hsy.mem_iff.mp he)
    rfl
  have hne : (sy.filter isTgt).isEmpty = false := by
    obtain ⟨x, hx, hxt⟩ := htgt
    have hmem : (x, g x.1) ∈ sy := hp.mem_iff.mpr (hsx.mem_iff.mpr (List.mem_map.mpr ⟨x, hx, rfl⟩))
    have : (x, g x.1) ∈ sy.filter isTgt := List.mem_filter.mpr ⟨hmem, by simpa [isTgt] using hxt⟩
    cases hf : sy.filter isTgt with
    | nil => rw [hf] at this; simp at this
    | cons a t => rfl
  unfold fromPepsOf
  rw [hne, pepKnots_indep g sy sx hp h2 h1 hg]
  simp [List.map_map, Function.comp_def]

/-! ## q-values from counts -/

/-- **from_counts, shape**: for `c = pi0 · #T/#D ≥ 0` and *any* arrangement `sorted`, one
q-value `≥ 0` per PSM, never decreasing as the score worsens, equal for equal scores.
(`none` = the top-ranked row is a decoy: the code returns `+inf` for every PSM.) -/
theorem C06_from_counts_shape (c : Rat) (hc : 0 ≤ c) (scores : List Rat) (sorted : List Psm)
    (r : List Rat) (hr : fromCountsOf c scores sorted = some r) : Shape 0 none scores r := by
  unfold fromCountsOf at hr
  split at hr
  · cases hr
  · cases hr
    apply shape_map 0 none (interp (countKnots c sorted))
    · intro a b hab
      exact interp_anti _ (countKnots_anti c sorted) hab
    · intro a
      exact ⟨interp_nonneg _ a (countKnots_nonneg c hc sorted), fun h hh => by cases hh⟩

/-- **from_counts, independent of the argsort's tie order when no target ties with a decoy**:
then the descending arrangement of the PSMs is unique as a list of (score, label). -/
theorem C06_from_counts_argsort_independent_no_td_ties (c : Rat) (scores : List Rat)
    (s1 s2 : List Psm) (hperm : s1.Perm s2)
    (h1 : s1.Pairwise (fun a b => b.1 ≤ a.1)) (h2 : s2.Pairwise (fun a b => b.1 ≤ a.1))
    (hnt : ∀ a ∈ s1, ∀ b ∈ s1, a.1 = b.1 → a.2 = b.2) :
    fromCountsOf c scores s1 = fromCountsOf c scores s2 := by
  have : s1 = s2 := sorted_unique (fun p : Psm => p.1) s1 s2 hperm h1 h2
    (fun a ha b hb hab => Prod.ext hab (hnt a ha b hb hab))
  rw [this]

/-- **from_counts, alignment when no target ties with a decoy**: every arrangement `ys` of
`xs`, sorted any admissible way, gives `ys.map` of one function of the score. -/
theorem C06_from_counts_perm_equivariant_no_td_ties (c : Rat) (xs ys : List Psm) (hperm : ys.Perm xs)
    (sx sy : List Psm) (hsx : sx.Perm xs) (hsy : sy.Perm ys)
    (h1 : sx.Pairwise (fun a b => b.1 ≤ a.1)) (h2 : sy.Pairwise (fun a b => b.1 ≤ a.1))
    (hnt : ∀ a ∈ xs, ∀ b ∈ xs, a.1 = b.1 → a.2 = b.2)
    (htop : (sx.headD (0, false)).2 = true) :
    fromCountsOf c (ys.map (·.1)) sy = some (ys.map (fun y => interp (countKnots c sx) y.1)) := by
  have hp : sy.Perm sx := hsy.trans (hperm.trans hsx.symm)
  have : sy = sx := sorted_unique (fun p : Psm => p.1) sy sx hp h2 h1
    (fun a ha b hb hab => Prod.ext hab
      (hnt a (hperm.mem_iff.mp (hsy.mem_iff.mp ha)) b (hperm.mem_iff.mp (hsy.mem_iff.mp hb)) hab))
  rw [this]
  unfold fromCountsOf
  rw [if_neg (by rw [htop]; decide)]
  simp [List.map_map, Function.comp_def]

/-- **observation** (not a defect of C06's clauses): with a target/decoy tie the q-value of the
tie group depends on the argsort's tie order.  PSMs (2,T), (1,T), (1,D), `c = 1`: the score-1
group gets 0 when the target is ranked first and 1 when the decoy is. -/
theorem C06_from_counts_tie_order_dependent_witness :
    fromCountsOf 1 [2, 1, 1] [((2 : Rat), true), (1, true), (1, false)] = some [0, 0, 0] ∧
    fromCountsOf 1 [2, 1, 1] [((2 : Rat), true), (1, false), (1, true)] = some [0, 1, 1] := by
  decide +kernel

/-! ## Non-vacuity -/

/-- a kernel satisfying `QvalityKernelOK` for every data set and every response `g`:
sort all scores descending and evaluate `g` (what triqler does with its spline) -/
example (g : Rat → Rat) (xs : List Psm) :
    QvalityKernelOK (fun ts ds => ((ts ++ ds).mergeSort (fun a b => decide (b ≤ a))).map g) g xs := by
  intro ts ds _ _ s hs hsorted
  have hm := List.pairwise_mergeSort (le := fun a b : Rat => decide (b ≤ a))
    (fun a b c h1 h2 => by simp only [decide_eq_true_eq] at *; exact le_trans h2 h1)
    (fun a b => by rcases le_total a b with h | h <;> simp [h]) (ts ++ ds)
  have : (ts ++ ds).mergeSort (fun a b => decide (b ≤ a)) = s := by
    apply sorted_unique (fun x : Rat => x)
    · exact (List.mergeSort_perm _ _).trans hs.symm
    · exact hm.imp (fun h => by simpa using h)
    · exact hsorted
    · intro a _ b _ h; exact h
  simp only [this]

/-- a response `g` that is non-increasing with values in `[0,1]` -/
example : (∀ a b : Rat, a ≤ b → clip 0 1 (1 - b) ≤ clip 0 1 (1 - a)) ∧
    (∀ a : Rat, 0 ≤ clip 0 1 (1 - a) ∧ clip 0 1 (1 - a) ≤ 1) :=
  ⟨fun a b h => clip_mono 0 1 (by linarith), fun a => ⟨le_clip 0 1 _ (by norm_num), clip_le 0 1 _⟩⟩

/-- an admissible argsort exists for every input -/
example (xs : List Psm) : ValidArgsort xs (stableArgsortDesc xs) := stableArgsortDesc_valid xs

/-- admissible descending arrangements exist for every input (the executable models use them) -/
example (xs : List Psm) :
    (xs.mergeSort descPsm).Perm xs ∧ (xs.mergeSort descPsm).Pairwise (fun a b => b.1 ≤ a.1) := by
  refine ⟨List.mergeSort_perm _ _, ?_⟩
  have h := List.pairwise_mergeSort (le := descPsm)
    (fun a b c h1 h2 => by unfold descPsm at *; simp only [decide_eq_true_eq] at *; exact le_trans h2 h1)
    (fun a b => by unfold descPsm; rcases le_total a.1 b.1 with h | h <;> simp [h]) xs
  exact h.imp (fun h => by unfold descPsm at h; simpa using h)

/-- hypotheses of the NNLS theorems met by concrete data -/
example : (∀ x ∈ [(0 : Rat), 1/4, 0, 1/2], 0 ≤ x) := by decide +kernel

-- evaluation tests (compiler-evaluated: *tests*, not theorems)
#guard runMax [1, 3, 2, 5, 4] == [1, 3, 3, 5, 5]
#guard runMin [4, 5, 2, 3, 1] == [4, 4, 2, 2, 1]
#guard cumsum [1, 2, 3] == [1, 3, 6]
-- duplicated knot: the value of the last duplicate; between knots: linear; outside: constant
#guard [-1, 0, 1/2, 1, 3/2, 2, 3].map (interp [(0, 4), (1, 3), (1, 2), (2, 0)]) == [4, 4, 7/2, 2, 1, 0, 0]
#guard qvalityWrap (fun _ _ => [1/10, 2/10, 2/10, 9/10]) [(1, true), (5, false), (3, true), (3, false)]
    == [9/10, 1/10, 2/10, 2/10]
#guard kdeNnlsOf [0, 1, 2] [1/4, 1/4, 1/2] [2, 0, 1, 3/2, 5, -1] == [1/4, 1, 1/2, 3/8, 1/4, 1]
#guard histNnlsOf [0, 1, 2] [1/8, 1/8, 1/4] [2, 0, 1] == some [1/4, 1, 1/2]
#guard histNnlsOf [0, 1, 2] [0, 0, 0] [2, 0, 1] == some [0, 0, 0]   -- all-zero fit: unscaled (repaired code)
#guard fromPeps [(3, true), (1, true), (2, false), (2, true)] [0, 1/2, 1/4, 1/4] == some [0, 1/4, 1/8, 1/8]
#guard fromCounts 1 [(3, true), (1, false), (2, true), (0, true)] == some [0, 1/2, 0, 1/2]
#guard fromCounts 1 [(3, false), (1, true)] == none
#guard shapeCheck 0 (some 1) 0 [3, 1, 2, 2] [0, 1, 1/2, 1/2] == "ok"
#guard shapeCheck 0 (some 1) 0 [3, 1, 2, 2] [0, 1, 1/2, 1/4] == "fail-ties"
#guard shapeCheck 0 (some 1) 0 [3, 1, 2] [1/2, 1, 0] == "fail-monotone"

end Mk
