import MokapotVerif.Lemmas.DigestPat
/-!
# C17 (extension) — all length bounds, the entry point's defaults, general enzyme patterns

Property theorems only.

* **All length bounds.**  `C17_digest_mem_iff_spec` (Props/C17.lean) needs
  `1 ≤ min_length`.  `C17_digest_mem_iff_spec_all` has no hypothesis: with
  `min_length = 0` the result additionally contains the empty peptide exactly when
  `len(sequence)` occurs twice in the list of sites (`endDup`).
* **Defaults.**  `mokapot.digest(sequence)` is the `[KR]`, 0 missed cleavages,
  6..50 residues, no clipping, fully enzymatic digest.
* **General patterns.**  Everything again for patterns that consume several
  residues and/or carry a positive or negative look-ahead on a (negated) class
  (`Model/DigestPat.lean`), for every width `w ≥ 1`, together with a declarative
  characterisation of the matches `re.finditer` is modelled to report.
-/
namespace Mk

/-! ## all length bounds -/

/-- **C17 main theorem, all bounds**: no hypothesis on `mc`, `lo`, `hi`. -/
theorem C17_digest_mem_iff_spec_all (e : Enzyme) (seq : List Char) (mc lo hi : Nat) (clip semi : Bool)
    (p : Pep) :
    p ∈ digest e seq mc lo hi clip semi ↔ DigestSpec0 e seq mc lo hi clip semi p :=
  mem_digest_iff_spec0 e seq mc lo hi clip semi p

/-- the enumeration used by the driver op `digestspec0` is `DigestSpec0` -/
theorem C17_specList0_mem_iff_spec (e : Enzyme) (seq : List Char) (mc lo hi : Nat) (clip semi : Bool)
    (p : Pep) :
    p ∈ specList0 e seq mc lo hi clip semi ↔ DigestSpec0 e seq mc lo hi clip semi p :=
  mem_specList0 e seq mc lo hi clip semi p

/-- for `min_length ≥ 1` the two specifications coincide -/
theorem C17_spec0_eq_spec (e : Enzyme) (seq : List Char) (mc lo hi : Nat) (clip semi : Bool)
    (hlo : 1 ≤ lo) (p : Pep) :
    DigestSpec0 e seq mc lo hi clip semi p ↔ DigestSpec e seq mc lo hi clip semi p := by
  unfold DigestSpec0
  constructor
  · rintro (h | ⟨h, -, -⟩)
    · exact h
    · omega
  · exact Or.inl

/-- `min_length = 0`: the empty peptide is returned whenever the last residue is a
match end (or the sequence is empty) — whatever the other parameters -/
theorem C17_digest_empty_peptide (e : Enzyme) (seq : List Char) (mc hi : Nat) (clip semi : Bool)
    (h : endDup e seq = true) : [] ∈ digest e seq mc 0 hi clip semi := by
  rw [C17_digest_mem_iff_spec_all]
  exact Or.inr ⟨rfl, rfl, h⟩

/-- `min_length = 0`, no clipping: the empty peptide is returned *only* then -/
theorem C17_digest_empty_peptide_iff (e : Enzyme) (seq : List Char) (mc lo hi : Nat) (semi : Bool) :
    [] ∈ digest e seq mc lo hi false semi ↔ lo = 0 ∧ endDup e seq = true := by
  rw [C17_digest_mem_iff_spec_all]
  unfold DigestSpec0 DigestSpec
  constructor
  · rintro (⟨a, b, ⟨hab, hbn, -⟩, h | ⟨h, -⟩ | ⟨-, k, k1, k2, k3, h | h⟩⟩ | ⟨h1, -, h3⟩)
    · have := congrArg List.length h
      rw [slice_length] at this; simp at this; omega
    · cases h
    · have := congrArg List.length h
      rw [slice_length] at this; simp at this; omega
    · have := congrArg List.length h
      rw [slice_length] at this; simp at this; omega
    · exact ⟨h1, h3⟩
  · rintro ⟨h1, h3⟩
    exact Or.inr ⟨h1, rfl, h3⟩

/-! ## the entry point's defaults -/

/-- `mokapot.digest(sequence)` = tryptic (`[KR]`, no proline rule), fully
enzymatic, no missed cleavage, 6 to 50 residues -/
theorem C17_digestDefault_spec (seq : List Char) (p : Pep) :
    p ∈ digestDefault seq ↔
      ∃ a b, Enzymatic ⟨['K', 'R'], []⟩ seq 0 6 50 a b ∧ p = slice seq a b := by
  unfold digestDefault
  rw [C17_digest_mem_iff_spec_all]
  unfold DigestSpec0 DigestSpec
  simp

/-! ## general fixed-width patterns: what `re.finditer` is modelled to report -/

/-- reading of `bodyRest`: the consumed residues are in their classes, position by position -/
theorem C17_bodyRest_iff (ks : List ResClass) (s r : List Char) :
    bodyRest ks s = some r ↔ ∃ body, s = body ++ r ∧ List.Forall₂ (fun k c => k.has c = true) ks body := by
  induction ks generalizing s with
  | nil =>
    simp only [bodyRest, Option.some.injEq]
    constructor
    · rintro rfl; exact ⟨[], rfl, List.Forall₂.nil⟩
    · rintro ⟨body, rfl, h⟩; cases h; rfl
  | cons k ks ih =>
    cases s with
    | nil =>
      simp only [bodyRest]
      constructor
      · intro h; cases h
      · rintro ⟨body, h1, h2⟩
        cases h2 with
        | cons _ _ => simp at h1
    | cons c s =>
      simp only [bodyRest]
      constructor
      · intro h
        split at h
        · rename_i hk
          obtain ⟨body, rfl, hb⟩ := (ih s).mp h
          exact ⟨c :: body, rfl, List.Forall₂.cons hk hb⟩
        · cases h
      · rintro ⟨body, h1, h2⟩
        cases h2 with
        | cons hk hb =>
          rename_i c' body'
          simp only [List.cons_append, List.cons.injEq] at h1
          obtain ⟨rfl, rfl⟩ := h1
          rw [if_pos hk]
          exact (ih _).mpr ⟨body', rfl, hb⟩

/-- the pattern matches at position `s`: the sequence is `pre ++ body ++ rest`
with `|pre| = s`, the residues of `body` in the consumed classes one by one, and
the look-ahead holding on the first residue of `rest` (at the end of the sequence a
negative look-ahead holds, a positive one fails) -/
theorem C17_matchAt_iff (e : EnzymeP) (seq : List Char) (s : Nat) :
    matchAt e seq s = true ↔
      ∃ pre body rest, seq = pre ++ body ++ rest ∧ pre.length = s
        ∧ List.Forall₂ (fun k c => k.has c = true) (e.first :: e.more) body
        ∧ (rest.head?.any e.la.has) = e.laPos := by
  unfold matchAt matchHere
  constructor
  · intro h
    cases hb : bodyRest (e.first :: e.more) (seq.drop s) with
    | none => rw [hb] at h; simp at h
    | some r =>
      rw [hb] at h
      simp only [Option.any_some, lookOk, beq_iff_eq] at h
      obtain ⟨body, h1, h2⟩ := (C17_bodyRest_iff _ _ _).mp hb
      have hlen : s ≤ seq.length := by
        apply Decidable.byContradiction
        intro hn
        rw [List.drop_eq_nil_of_le (by omega)] at h1
        cases h2 with
        | cons _ _ => simp at h1
      refine ⟨seq.take s, body, r, ?_, ?_, h2, h⟩
      · rw [List.append_assoc, ← h1, List.take_append_drop]
      · rw [List.length_take]; omega
  · rintro ⟨pre, body, rest, rfl, rfl, h2, h3⟩
    have hd : (pre ++ body ++ rest).drop pre.length = body ++ rest := by
      rw [List.append_assoc, List.drop_left]
    rw [hd, (C17_bodyRest_iff _ _ _).mpr ⟨body, rfl, h2⟩]
    simp only [Option.any_some, lookOk, beq_iff_eq]
    exact h3

/-- the match starts reported by the scan are *leftmost maximal non-overlapping*:
each is a match, two are at least one width apart, and wherever the pattern
matches a reported match begins at most `width − 1` positions earlier -/
theorem C17_finditer_leftmost (e : EnzymeP) (seq : List Char) :
    LeftmostMatches e seq (fun s => isEndP e seq (s + e.width) = true) :=
  leftmostMatches_matchEndsP e seq

/-- … and this determines them: any set of positions with these three properties
is the set of reported match starts -/
theorem C17_finditer_unique (e : EnzymeP) (seq : List Char) (Starts : Nat → Prop)
    (h : LeftmostMatches e seq Starts) (s : Nat) :
    Starts s ↔ isEndP e seq (s + e.width) = true :=
  leftmostMatches_unique e seq _ _ h (leftmostMatches_matchEndsP e seq) s

/-- for a one-residue pattern (width 1) every match is reported -/
theorem C17_finditer_width_one (e : EnzymeP) (seq : List Char) (hw : e.more = []) (p : Nat) :
    isEndP e seq (p + 1) = true ↔ matchAt e seq p = true := by
  have hw1 : e.width = 1 := by unfold EnzymeP.width; rw [hw]; rfl
  have h := C17_finditer_leftmost e seq
  rw [hw1] at h
  constructor
  · exact h.sound p
  · intro hm
    obtain ⟨t, ht, h1, h2⟩ := h.leftmost p hm
    have : t = p := by omega
    subst this; exact ht

/-- a reported match end lies within the sequence, one width after a match -/
theorem C17_isEndP_sound (e : EnzymeP) (seq : List Char) (p : Nat) (h : isEndP e seq p = true) :
    e.width ≤ p ∧ p ≤ seq.length ∧ matchAt e seq (p - e.width) = true :=
  isEndP_sound e seq p h

/-- `_cleavage_sites` returns exactly the cleavage positions -/
theorem C17_sitesP_spec (e : EnzymeP) (seq : List Char) (p : Nat) :
    p ∈ cleavageSitesP e seq ↔ p ≤ seq.length ∧ isSiteP e seq p = true := by
  unfold cleavageSitesP isSiteP
  simp only [List.mem_cons, List.mem_append, List.not_mem_nil, or_false, ← isEndP_iff,
    Bool.or_eq_true, beq_iff_eq]
  constructor
  · rintro (h | h | h)
    · subst h; exact ⟨Nat.zero_le _, Or.inl (Or.inl rfl)⟩
    · exact ⟨(isEndP_sound e seq p h).2.1, Or.inr h⟩
    · subst h; exact ⟨Nat.le_refl _, Or.inl (Or.inr rfl)⟩
  · rintro ⟨-, (h | h) | h⟩
    · exact Or.inl h
    · exact Or.inr (Or.inr h)
    · exact Or.inr (Or.inl h)

/-- the sites come in increasing order (strictly, up to the final `len(seq)`) -/
theorem C17_sitesP_sorted (e : EnzymeP) (seq : List Char) :
    ∃ inner, cleavageSitesP e seq = inner ++ [seq.length] ∧ inner.Pairwise (· < ·)
      ∧ (∀ x ∈ inner, x ≤ seq.length) ∧ inner.head? = some 0 := by
  refine ⟨(List.range (seq.length + 1)).filter (innerSiteP e seq), cleavageSitesP_eq e seq, ?_, ?_, ?_⟩
  · exact List.Pairwise.filter _ List.pairwise_lt_range
  · intro x hx
    simp only [List.mem_filter, List.mem_range] at hx
    omega
  · rw [List.range_succ_eq_map, List.filter_cons]
    simp [innerSiteP]

/-! ## general patterns: the digest is exactly the specification (all bounds) -/

/-- **C17 main theorem for general patterns**, no hypothesis on the bounds -/
theorem C17_digestP_mem_iff_spec (e : EnzymeP) (seq : List Char) (mc lo hi : Nat) (clip semi : Bool)
    (p : Pep) :
    p ∈ digestP e seq mc lo hi clip semi ↔ DigestSpecP e seq mc lo hi clip semi p :=
  mem_digestP_iff_spec e seq mc lo hi clip semi p

/-- the enumeration used by the driver op `digestspecp` is the specification -/
theorem C17_specListP_mem_iff_spec (e : EnzymeP) (seq : List Char) (mc lo hi : Nat) (clip semi : Bool)
    (p : Pep) :
    p ∈ specListP e seq mc lo hi clip semi ↔ DigestSpecP e seq mc lo hi clip semi p :=
  mem_specListP e seq mc lo hi clip semi p

/-- the patterns of Props/C17.lean are the width-1 instance with a negative
look-ahead on a plain class: same list of peptides, insertion order included -/
theorem C17_digestP_generalises (e : Enzyme) (seq : List Char) (mc lo hi : Nat) (clip semi : Bool) :
    digestP e.toP seq mc lo hi clip semi = digest e seq mc lo hi clip semi :=
  digestP_toP e seq mc lo hi clip semi

/-- every returned peptide is a contiguous substring of the protein -/
theorem C17_digestP_substring (e : EnzymeP) (seq : List Char) (mc lo hi : Nat) (clip semi : Bool) (p : Pep)
    (h : p ∈ digestP e seq mc lo hi clip semi) : ∃ pre suf, seq = pre ++ p ++ suf := by
  obtain ⟨pre, suf, h⟩ := cleave_infix seq _ mc lo hi semi clip p h
  exact ⟨pre, suf, h.symm⟩

/-- every returned peptide respects the length bounds -/
theorem C17_digestP_length_bounds (e : EnzymeP) (seq : List Char) (mc lo hi : Nat) (clip semi : Bool)
    (p : Pep) (h : p ∈ digestP e seq mc lo hi clip semi) : lo ≤ p.length ∧ p.length ≤ hi := by
  unfold digestP at h
  rw [mem_cleave] at h
  obtain ⟨i, d, s, t, -, -, -, -, hp⟩ := h
  rw [mem_pepsOf] at hp
  obtain ⟨h1, h2, hp | ⟨-, -, -, c4, hp⟩ | ⟨-, k, k1, k2, k3, hp | hp⟩⟩ := hp
  · subst hp; exact ⟨h1, h2⟩
  · subst hp; rw [List.length_drop]; omega
  · subst hp; rw [List.length_drop]; omega
  · subst hp; rw [List.length_take]; omega

/-- all relaxations at once: more missed cleavages, wider bounds, semi, clip -/
theorem C17_digestP_mono (e : EnzymeP) (seq : List Char) (mc mc' lo hi lo' hi' : Nat)
    (clip clip' semi semi' : Bool) (hmc : mc ≤ mc') (hlo : lo' ≤ lo) (hhi : hi ≤ hi')
    (hsemi : semi = true → semi' = true) (hclip : clip = true → clip' = true)
    (p : Pep) (hp : p ∈ digestP e seq mc lo hi clip semi) :
    p ∈ digestP e seq mc' lo' hi' clip' semi' :=
  cleave_mono seq _ mc mc' lo hi lo' hi' semi semi' clip clip' p hmc hlo hhi hsemi hclip hp

/-! ## Non-vacuity and evaluation tests -/

def kOnly : Enzyme := ⟨['K'], []⟩

/-- `min_length = 0` and a C-terminal cleavage residue: the empty peptide is in the
specification … -/
example : DigestSpec0 kOnly ['A', 'K'] 0 0 5 false false [] := Or.inr ⟨rfl, rfl, by decide⟩
/-- … and not when the last residue does not cleave -/
example : endDup kOnly ['K', 'A'] = false := by decide

/-- `[KR][^P]`: two consumed residues, the second in a negated class -/
def krNotP : EnzymeP := ⟨⟨false, ['K', 'R']⟩, [⟨true, ['P']⟩], false, ⟨false, []⟩⟩
/-- `KK`: matches can not overlap -/
def kk : EnzymeP := ⟨⟨false, ['K']⟩, [⟨false, ['K']⟩], false, ⟨false, []⟩⟩
/-- `.(?=D)`: Asp-N style, positive look-ahead -/
def aspN : EnzymeP := ⟨⟨true, []⟩, [], true, ⟨false, ['D']⟩⟩

/-- a non-trivial peptide of the specification for a width-2 pattern: `AKA` =
seq[0:3] of `AKAKPA` (the match `KA` ends at 3; `KP` is no match) -/
example : DigestSpecP krNotP ['A', 'K', 'A', 'K', 'P', 'A'] 0 1 6 false false ['A', 'K', 'A'] :=
  Or.inl ⟨0, 3, by decide, Or.inl (by decide)⟩

/-- a hypothesis-satisfying instance of `LeftmostMatches` other than the scan
itself: `KKK` against `KK` has the single match start 0 -/
example : LeftmostMatches kk ['K', 'K', 'K'] (fun s => s = 0) := by
  refine ⟨?_, ?_, ?_⟩
  · rintro s rfl; decide
  · rintro s t rfl rfl h; omega
  · intro s hs
    refine ⟨0, rfl, Nat.zero_le _, ?_⟩
    have := matchAt_lt kk _ s hs
    simp [EnzymeP.width, kk] at this ⊢
    omega

-- evaluation tests (compiler-evaluated: *tests*, not theorems)
#guard cleavageSitesP krNotP "AKAKPA".toList == [0, 3, 6]
#guard cleavageSitesP kk "KKKAKK".toList == [0, 2, 6, 6]
#guard cleavageSitesP aspN "ADKDD".toList == [0, 1, 3, 4, 5]
#guard cleavageSitesP (Enzyme.toP ⟨['K', 'R'], ['P']⟩) "MKPAKRAAK".toList == [0, 5, 6, 9, 9]
#guard digestP kk "KKKAKK".toList 0 1 9 false false == ["KK".toList, "KAKK".toList]
#guard (digest kOnly "AK".toList 0 0 5 false false).contains []
#guard (specList0 kOnly "AK".toList 0 0 5 false false).contains []
#guard !(specList0 kOnly "KA".toList 0 0 5 false false).contains []
#guard (digestP aspN "MADKDD".toList 1 0 4 true true).all
  (fun p => (specListP aspN "MADKDD".toList 1 0 4 true true).contains p)
#guard (specListP aspN "MADKDD".toList 1 0 4 true true).all
  (fun p => (digestP aspN "MADKDD".toList 1 0 4 true true).contains p)
#guard digestDefault "AAAAAKAAAAAAAR".toList == ["AAAAAK".toList, "AAAAAAAR".toList]

end Mk
