import MokapotVerif.Lemmas.FitFull
import MokapotVerif.Props.C12Scores
/-!
# C12, second audit pass — from the DataFrame to the trained model and back to a prediction

Property theorems only.  `Props/C12.lean` / `C12Scores.lean` speak about a row matrix, a list of
stored names, a `transform` and a `score` that nothing ties together.  Here `Model.fit` starts from
the DataFrame (`fitFull`: which columns are features and in which order, `self.features`, the
*fitted* scaler) and `Model.predict` is the prediction of the trained **object** that `fit` left
behind (`predictFull`).  This closes (see `GAPS-C12.md`, second pass):

* the binding of stored names and training-matrix columns (the seeded change "feature order frame vs
  names" was outside the model);
* "the learned model **and its predictions** do not depend on row order or on the shuffle switch",
  end to end, scaler included (the scaler's `fit` was not modelled);
* "prediction matches features by name" for the prediction dataset's own `feature_columns` order and
  physical column order, against the names stored *by that fit*.

Unbounded in the number of PSMs, columns, features, iterations; any estimator, any scaler.
-/
namespace Mk.Fit
variable {α γ θ ν σ : Type}

/-- **Stored names and training columns are bound pairwise.**  After a successful `Model.fit`:
`self.features` is the dataset's feature-name list (the `feature_columns` given, else the
non-declared columns in frame order); every stored name is a column of the DataFrame; the scaler was
fitted on, and the estimator trained on the scaled rows of, the matrix whose `j`-th column is the
DataFrame column **called** `features[j]` — whatever the physical position of that column; the
`direction` name was resolved against the same list; the run is the `fitModel` of
`C12_fit_pairs_aligned` … on exactly that matrix, and it ended `ok`. -/
theorem C12_full_features_bound [DecidableEq ν] (sc : Scaler α σ) (est : Est (List α) α θ) (le : α → α → Bool)
    (thr : Rat) (cfg : FullCfg ν) (th0 : θ) (frame : List (ν × List α)) (used : List ν) (fc : Option (List ν))
    (targets : List Bool) (o : FullOut ν σ θ α) (h : fitFull sc est le thr cfg th0 frame used fc targets = some o)
    (t : Trained ν σ θ) (ht : o.model = some t) :
    t.features = featureNames (frame.map (·.1)) used fc ∧
    (∀ nm ∈ t.features, (lookupCol frame nm).isSome = true) ∧
    t.scaler = sc.fit (rowsOf targets.length (t.features.filterMap (lookupCol frame))) ∧
    (∃ dir, dirIndex t.features cfg.direction = some dir ∧
      o.out = fitModel est le thr (cfg.toCfg dir) th0
        (sc.transform t.scaler (rowsOf targets.length (t.features.filterMap (lookupCol frame))))
        (t.features.filterMap (lookupCol frame)) targets) ∧
    o.out.status = .ok ∧ o.out.theta = some t.theta := by
  obtain ⟨h1, h2, h3, dir, h4, h5, h6⟩ := fitFull_inv sc est le thr cfg th0 frame used fc targets o h t ht
  refine ⟨h1, h2, h3, ⟨dir, h4, h5⟩, ?_, h6⟩
  have := (fitModel_theta_iff est le thr (cfg.toCfg dir) th0
    (sc.transform t.scaler (rowsOf targets.length (t.features.filterMap (lookupCol frame))))
    (t.features.filterMap (lookupCol frame)) targets).mp
  rw [← h5] at this
  exact this (by rw [h6]; rfl)

/-- a model exists exactly when `fit` ended `ok` (an aborted `fit` leaves no trained model) -/
theorem C12_full_model_iff_ok [DecidableEq ν] (sc : Scaler α σ) (est : Est (List α) α θ) (le : α → α → Bool)
    (thr : Rat) (cfg : FullCfg ν) (th0 : θ) (frame : List (ν × List α)) (used : List ν) (fc : Option (List ν))
    (targets : List Bool) (o : FullOut ν σ θ α) (h : fitFull sc est le thr cfg th0 frame used fc targets = some o) :
    o.model.isSome = true ↔ o.out.status = .ok := by
  unfold fitFull at h
  split at h
  · simp only [Option.some.injEq] at h; subst h; simp
  split at h
  · simp only [Option.some.injEq] at h; subst h; simp
  cases hff : featureFrame frame (featureNames (frame.map (·.1)) used fc) with
  | none => rw [hff] at h; simp at h
  | some feats =>
    rw [hff] at h
    simp only [Option.bind_some] at h
    cases hd : dirIndex (feats.map (·.1)) cfg.direction with
    | none => rw [hd] at h; simp at h
    | some dir =>
      rw [hd] at h
      simp only [Option.map_some, Option.some.injEq] at h
      subst h
      simp only [fitFullCore, Option.isSome_map]
      exact fitModel_theta_iff _ _ _ _ _ _ _ _

/-- **Only the named columns matter.**  Two presentations of a dataset with the same ordered
feature-name list and the same column under each of those names give the same `Model.fit` —
the physical position of the feature columns, metadata columns standing between them, further
unused columns, and whether the list was given or inferred, are all irrelevant. -/
theorem C12_full_presentation_irrelevant [DecidableEq ν] (sc : Scaler α σ) (est : Est (List α) α θ)
    (le : α → α → Bool) (thr : Rat) (cfg : FullCfg ν) (th0 : θ) (frame frame' : List (ν × List α))
    (used used' : List ν) (fc fc' : Option (List ν)) (targets : List Bool)
    (hnames : featureNames (frame'.map (·.1)) used' fc' = featureNames (frame.map (·.1)) used fc)
    (hlook : ∀ nm ∈ featureNames (frame.map (·.1)) used fc, lookupCol frame' nm = lookupCol frame nm) :
    fitFull sc est le thr cfg th0 frame' used' fc' targets = fitFull sc est le thr cfg th0 frame used fc targets :=
  fitFull_congr sc est le thr cfg th0 frame frame' used used' fc fc' targets hnames hlook

/-- the case of the seeded change: with `feature_columns` given, any rearrangement of the DataFrame's
columns (distinct names) leaves `Model.fit` — stored names, scaler, every training set, learned
state — unchanged -/
theorem C12_full_frame_order_irrelevant [DecidableEq ν] (sc : Scaler α σ) (est : Est (List α) α θ)
    (le : α → α → Bool) (thr : Rat) (cfg : FullCfg ν) (th0 : θ) (frame frame' : List (ν × List α))
    (hperm : frame'.Perm frame) (hnd : (frame.map (·.1)).Nodup) (used : List ν) (names : List ν)
    (targets : List Bool) :
    fitFull sc est le thr cfg th0 frame' used (some names) targets
      = fitFull sc est le thr cfg th0 frame used (some names) targets :=
  fitFull_congr sc est le thr cfg th0 frame frame' used used (some names) (some names) targets rfl
    (fun nm _ => lookupCol_perm hperm hnd nm)

/-- **Train → predict, same columns.**  Take the model object a successful `fit` produced and let it
predict on *any* presentation of the training table — another physical column order, another
order (or inference) of `feature_columns`, further non-feature columns — as long as the feature
names are the stored names as a set and each of them names the same column: the result is, PSM by
PSM, the score the trained estimator gives to the very row it was trained on (stored scaler state,
stored column order).  No hypothesis on estimator or scaler. -/
theorem C12_full_train_predict_consistent [DecidableEq ν] (sc : Scaler α σ) (est : Est (List α) α θ)
    (le : α → α → Bool) (thr : Rat) (cfg : FullCfg ν) (th0 : θ) (frame : List (ν × List α)) (used : List ν)
    (fc : Option (List ν)) (targets : List Bool) (o : FullOut ν σ θ α)
    (h : fitFull sc est le thr cfg th0 frame used fc targets = some o) (t : Trained ν σ θ) (ht : o.model = some t)
    (frame2 : List (ν × List α)) (used2 : List ν) (fc2 : Option (List ν))
    (hset : ∀ x, x ∈ featureNames (frame2.map (·.1)) used2 fc2 ↔ x ∈ t.features)
    (hsame : ∀ nm ∈ t.features, lookupCol frame2 nm = lookupCol frame nm) :
    predictFull sc est.score (some t) targets.length frame2 used2 fc2
      = some (.ok (trainingScores sc est.score t targets.length (t.features.filterMap (lookupCol frame)))) := by
  obtain ⟨_, hall, _⟩ := fitFull_inv sc est le thr cfg th0 frame used fc targets o h t ht
  unfold predictFull trainingScores
  simp only [Option.map_some, Option.getD_some]
  cases hff : featureFrame frame2 (featureNames (frame2.map (·.1)) used2 fc2) with
  | none =>
    exfalso
    apply (featureFrame_eq_none frame2 _).mp hff
    intro nm hnm
    rw [hsame nm ((hset nm).mp hnm)]
    exact hall nm ((hset nm).mp hnm)
  | some feats2 =>
    simp only [Option.map_some, predictScaled]
    rw [selectByName_featureFrame t.features _ frame2 feats2 hff hset]
    have : t.features.filterMap (lookupCol frame2) = t.features.filterMap (lookupCol frame) :=
      List.filterMap_congr (fun nm hm => hsame nm hm)
    rw [this]
    rfl

/-- **Prediction by name, for the trained object.**  Any trained model gives the same answer (scores,
or the same refusal) on two presentations of a dataset that have the same columns (a rearranged
DataFrame, distinct names) and the same *set* of feature names — whatever the order of either
`feature_columns` list. -/
theorem C12_full_predict_by_name [DecidableEq ν] (sc : Scaler α σ) (score : θ → List α → α)
    (m : Option (Trained ν σ θ)) (n : Nat) (frame2 frame3 : List (ν × List α)) (hperm : frame2.Perm frame3)
    (hnd : (frame3.map (·.1)).Nodup) (used2 used3 : List ν) (fc2 fc3 : Option (List ν))
    (hset : ∀ x, x ∈ featureNames (frame2.map (·.1)) used2 fc2 ↔ x ∈ featureNames (frame3.map (·.1)) used3 fc3) :
    predictFull sc score m n frame2 used2 fc2 = predictFull sc score m n frame3 used3 fc3 := by
  cases m with
  | none => rfl
  | some t =>
    have hlook : ∀ nm, lookupCol frame2 nm = lookupCol frame3 nm := fun nm => lookupCol_perm hperm hnd nm
    unfold predictFull
    simp only [Option.map_some, Option.getD_some]
    cases h2 : featureFrame frame2 (featureNames (frame2.map (·.1)) used2 fc2) with
    | none =>
      have h3 : featureFrame frame3 (featureNames (frame3.map (·.1)) used3 fc3) = none := by
        rw [featureFrame_eq_none] at h2 ⊢
        intro hx
        apply h2
        intro nm hnm
        rw [hlook nm]
        exact hx nm ((hset nm).mp hnm)
      rw [h3]
    | some feats2 =>
      have h3 : ∃ feats3, featureFrame frame3 (featureNames (frame3.map (·.1)) used3 fc3) = some feats3 := by
        cases h3 : featureFrame frame3 (featureNames (frame3.map (·.1)) used3 fc3) with
        | some f => exact ⟨f, rfl⟩
        | none =>
          exfalso
          apply (featureFrame_eq_none frame3 _).mp h3
          intro nm hnm
          rw [← hlook nm]
          exact ((featureFrame_eq_some frame2 _ feats2).mp h2).1 nm ((hset nm).mpr hnm)
      obtain ⟨feats3, h3⟩ := h3
      rw [h3]
      simp only [Option.map_some, predictScaled, Bool.true_eq_false, if_false]
      by_cases hs : ∀ x, x ∈ featureNames (frame2.map (·.1)) used2 fc2 ↔ x ∈ t.features
      · have hs3 : ∀ x, x ∈ featureNames (frame3.map (·.1)) used3 fc3 ↔ x ∈ t.features :=
          fun x => (hset x).symm.trans (hs x)
        rw [selectByName_featureFrame t.features _ frame2 feats2 h2 hs,
          selectByName_featureFrame t.features _ frame3 feats3 h3 hs3]
        have : t.features.filterMap (lookupCol frame2) = t.features.filterMap (lookupCol frame3) :=
          List.filterMap_congr (fun nm _ => hlook nm)
        rw [this]
      · have hs3 : ¬ ∀ x, x ∈ featureNames (frame3.map (·.1)) used3 fc3 ↔ x ∈ t.features :=
          fun hx => hs (fun x => (hset x).trans (hx x))
        have e2 : selectByName t.features feats2 = none := by
          rw [selectByName_none_iff, featureFrame_fst frame2 _ feats2 h2]; exact hs
        have e3 : selectByName t.features feats3 = none := by
          rw [selectByName_none_iff, featureFrame_fst frame3 _ feats3 h3]; exact hs3
        rw [e2, e3]

/-- an untrained model (no object left behind by `fit`) refuses to predict, whatever the dataset -/
theorem C12_full_untrained_refuses [DecidableEq ν] (sc : Scaler α σ) (score : θ → List α → α) (n : Nat)
    (frame : List (ν × List α)) (used : List ν) (fc : Option (List ν)) :
    predictFull sc score (none : Option (Trained ν σ θ)) n frame used fc = some (.error .notFitted) := rfl

/-- **`Model.fit` from the DataFrame, any input row order, shuffle on or off.**  Present the same
PSMs in another row order `p` (every column of the DataFrame and the target flags permuted together),
with any shuffle switch / draw on either side.  For an estimator whose `fit` ignores the order of
its examples and a scaler that is fitted on column statistics and transforms row by row: the
outcome is the same, the **trained object is the same** (stored names, scaler state, estimator
state) and corresponding `fit` calls receive the same multiset of (scaled row, class) pairs. -/
theorem C12_full_row_order_invariant [DecidableEq ν] (sc : Scaler α σ) (hrow : RowWise sc)
    (hsfit : ScalerFitPermInvariant sc) (est : Est (List α) α θ) (hfit : PermInvariant est) (le : α → α → Bool)
    (hle : TotalPre le) (thr : Rat) (cfg1 cfg2 : FullCfg ν) (hit : cfg1.maxIter = cfg2.maxIter)
    (hov : cfg1.override = cfg2.override) (hdir : cfg1.direction = cfg2.direction) (th0 : θ)
    (frame : List (ν × List α)) (used : List ν) (fc : Option (List ν)) (targets : List Bool) (p : List Nat)
    (hp : p.Perm (List.range targets.length)) (hlen : ∀ c ∈ frame, c.2.length = targets.length)
    (hp1 : cfg1.perm.Perm (List.range targets.length)) (hp2 : cfg2.perm.Perm (List.range targets.length)) :
    (fitFull sc est le thr cfg1 th0 (permuteRows frame p) used fc (gather targets p) = none ↔
      fitFull sc est le thr cfg2 th0 frame used fc targets = none) ∧
    ∀ o1 o2, fitFull sc est le thr cfg1 th0 (permuteRows frame p) used fc (gather targets p) = some o1 →
      fitFull sc est le thr cfg2 th0 frame used fc targets = some o2 →
      o1.out.status = o2.out.status ∧ o1.model = o2.model ∧ List.Forall₂ List.Perm o1.out.trace o2.out.trace := by
  obtain ⟨row, hrow⟩ := hrow
  have hgl : (gather targets p).length = targets.length := by
    rw [gather_length targets p (perm_range_lt hp)]; simpa using hp.length_eq
  unfold fitFull
  rw [all_gather targets p hp, all_gather targets p hp, permuteRows_names, featureFrame_permuteRows]
  split
  · refine ⟨by simp, ?_⟩
    intro o1 o2 e1 e2
    simp only [Option.some.injEq] at e1 e2
    subst e1; subst e2
    exact ⟨rfl, rfl, List.Forall₂.nil⟩
  split
  · refine ⟨by simp, ?_⟩
    intro o1 o2 e1 e2
    simp only [Option.some.injEq] at e1 e2
    subst e1; subst e2
    exact ⟨rfl, rfl, List.Forall₂.nil⟩
  cases hff : featureFrame frame (featureNames (frame.map (·.1)) used fc) with
  | none => exact ⟨by simp, by intro o1 o2 e1; simp at e1⟩
  | some feats =>
    simp only [Option.map_some, Option.bind_some, permuteRows_names, ← hdir]
    cases hd : dirIndex (feats.map (·.1)) cfg1.direction with
    | none => exact ⟨by simp, by intro o1 o2 e1; simp at e1⟩
    | some dir =>
      refine ⟨by simp, ?_⟩
      intro o1 o2 e1 e2
      simp only [Option.map_some, Option.some.injEq] at e1 e2
      subst e1; subst e2
      -- the columns of the feature frame have one entry per PSM
      have hcols : ∀ c ∈ feats.map (·.2), c.length = targets.length := by
        intro c hc
        rw [featureFrame_snd frame _ feats hff, List.mem_filterMap] at hc
        obtain ⟨nm, _, hnm⟩ := hc
        exact hlen (nm, c) (lookupCol_mem frame nm c hnm)
      have hsnd : (permuteRows feats p).map (·.2) = (feats.map (·.2)).map (fun c => gather c p) := by
        unfold permuteRows; rw [List.map_map, List.map_map]; rfl
      have hraw : rowsOf (gather targets p).length ((feats.map (·.2)).map (fun c => gather c p))
          = gather (rowsOf targets.length (feats.map (·.2))) p := by
        rw [hgl]; exact rowsOf_gather targets.length _ hcols p hp
      have hRlen : (rowsOf targets.length (feats.map (·.2))).length = targets.length := rowsOf_length _ _
      have hsame : sc.fit (gather (rowsOf targets.length (feats.map (·.2))) p)
          = sc.fit (rowsOf targets.length (feats.map (·.2))) :=
        hsfit _ _ (gather_perm _ p (by rw [hRlen]; exact hp))
      simp only [fitFullCore, permuteRows_names, hsnd, hraw, hsame, hrow]
      rw [← gather_map]
      generalize hR : (rowsOf targets.length (feats.map (·.2))).map
        (row (sc.fit (rowsOf targets.length (feats.map (·.2))))) = R
      have hRl : R.length = targets.length := by rw [← hR, List.length_map, hRlen]
      obtain ⟨a1, a2, a3⟩ := C12_fitModel_row_order_invariant est hfit le hle thr (cfg1.toCfg dir) (cfg2.toCfg dir) hit hov
        rfl th0 R (feats.map (·.2)) targets p hRl hcols (by rw [hRl]; exact hp) (by rw [hRl]; exact hp1)
        (by rw [hRl]; exact hp2)
      refine ⟨a1, ?_, a3⟩
      rw [a2]

/-- **… and so are its predictions.**  The models trained on two row orders of the same table (any
shuffle switches / draws) answer every prediction request identically: scores on any dataset, in
any column arrangement, or the same refusal.  This is the sentence "the learned model and its
predictions do not depend on row order or on the shuffle switch" end to end, scaler included. -/
theorem C12_full_predictions_order_invariant [DecidableEq ν] (sc : Scaler α σ) (hrow : RowWise sc)
    (hsfit : ScalerFitPermInvariant sc) (est : Est (List α) α θ) (hfit : PermInvariant est) (le : α → α → Bool)
    (hle : TotalPre le) (thr : Rat) (cfg1 cfg2 : FullCfg ν) (hit : cfg1.maxIter = cfg2.maxIter)
    (hov : cfg1.override = cfg2.override) (hdir : cfg1.direction = cfg2.direction) (th0 : θ)
    (frame : List (ν × List α)) (used : List ν) (fc : Option (List ν)) (targets : List Bool) (p : List Nat)
    (hp : p.Perm (List.range targets.length)) (hlen : ∀ c ∈ frame, c.2.length = targets.length)
    (hp1 : cfg1.perm.Perm (List.range targets.length)) (hp2 : cfg2.perm.Perm (List.range targets.length))
    (o1 o2 : FullOut ν σ θ α)
    (h1 : fitFull sc est le thr cfg1 th0 (permuteRows frame p) used fc (gather targets p) = some o1)
    (h2 : fitFull sc est le thr cfg2 th0 frame used fc targets = some o2)
    (n : Nat) (frame' : List (ν × List α)) (used' : List ν) (fc' : Option (List ν)) :
    predictFull sc est.score o1.model n frame' used' fc' = predictFull sc est.score o2.model n frame' used' fc' := by
  rw [((C12_full_row_order_invariant sc hrow hsfit est hfit le hle thr cfg1 cfg2 hit hov hdir th0 frame used fc targets p
    hp hlen hp1 hp2).2 o1 o2 h1 h2).2.1]

/-! ## Non-vacuity: concrete inputs meeting every hypothesis used above; evaluation tests (`#guard` = compiled tests) -/

/-- a scaler with a data-dependent state that is a column statistic (the number of rows whose first entry is
positive) and a row-by-row transform (subtract it everywhere) -/
def cntScaler : Scaler Int Int := ⟨fun M => (M.countP (fun r => 0 < r.headD 0) : Nat), fun s M => M.map (fun r => r.map (· - s))⟩

example : RowWise cntScaler := ⟨fun s r => r.map (· - s), fun _ _ => rfl⟩
example : ScalerFitPermInvariant cntScaler := by
  intro M M' h
  simp only [cntScaler, h.countP_eq]

/-- an order-insensitive estimator on feature rows: the state counts the positives seen, the score of a row is
the state times the row sum -/
def cntEstL : Est (List Int) Int Int := ⟨fun th s => th + s.countP (·.2), fun th r => th * r.sum⟩

example : PermInvariant cntEstL := by
  intro th a b h
  simp only [cntEstL, h.countP_eq]

/-- four PSMs T T D T; a DataFrame with a metadata column between two feature columns -/
def exFrame : List (String × List Int) := [("pep", []), ("b", [5, -1, 3, 4]), ("t", []), ("a", [1, 2, 3, 4])]
def exTargets : List Bool := [true, true, false, true]
def exCfg : FullCfg String := ⟨true, [2, 0, 3, 1], 2, true, none⟩

-- hypotheses of `C12_full_row_order_invariant`
example : ([3, 1, 0, 2] : List Nat).Perm (List.range exTargets.length) := by decide
example : ∀ c ∈ [("b", [5, -1, 3, 4]), ("a", [(1 : Int), 2, 3, 4])], c.2.length = exTargets.length := by decide
example : exCfg.perm.Perm (List.range exTargets.length) := by decide
-- hypotheses `hset` / `hsame` of `C12_full_train_predict_consistent` for a frame with the columns swapped
example : ∀ x : Nat, x ∈ featureNames [9, 1, 0] [9] none ↔ x ∈ [0, 1] := by
  intro x
  have : featureNames [9, 1, 0] [9] none = [1, 0] := by decide
  rw [this]
  simp only [List.mem_cons, List.not_mem_nil, or_false]
  exact Or.comm
example : ∀ nm ∈ [0, 1], lookupCol [((1 : Nat), [(3 : Int), 4]), (0, [5, 6])] nm = lookupCol [(0, [5, 6]), (1, [3, 4])] nm := by
  decide
example : ([(1, [(3 : Int), 4]), ((0 : Nat), [5, 6])] : List (Nat × List Int)).Perm [(0, [5, 6]), (1, [3, 4])] := by decide
example : (([(0, [5, 6]), (1, [3, 4])] : List (Nat × List Int)).map (·.1)).Nodup := by decide

-- `fit` with the features named in an order that is not the frame's: the stored names are the given list,
-- the scaler and the estimator see the columns in that order
#guard ((fitFull cntScaler cntEstL leI (3/4) exCfg 0 exFrame ["pep", "t"] (some ["a", "b"]) exTargets).bind (·.model)).map
    (fun t => (t.features, t.scaler, t.theta)) == some (["a", "b"], 4, 6)
-- inferred features: frame order
#guard ((fitFull cntScaler cntEstL leI (3/4) exCfg 0 exFrame ["pep", "t"] none exTargets).bind (·.model)).map
    (fun t => t.features) == some ["b", "a"]
-- the training sets hold the scaled rows in stored-name order (a, b), each with the class of its own PSM
#guard ((fitFull cntScaler cntEstL leI (3/4) exCfg 0 exFrame ["pep", "t"] (some ["a", "b"]) exTargets).map (·.out.trace))
    == some [[([-1, -1], false), ([-3, 1], true), ([0, 0], true), ([-2, -5], true)],
      [([-1, -1], false), ([-3, 1], true), ([0, 0], true), ([-2, -5], true)]]
-- prediction of that object on the same table with the columns elsewhere and listed the other way round
#guard (match predictFull cntScaler cntEstL.score (some ⟨["a", "b"], 4, 5⟩) 4
      [("a", [1, 2, 3, 4]), ("zz", []), ("b", [5, -1, 3, 4])] ["zz"] (some ["b", "a"]) with
    | some (.ok s) => s == [-10, -35, -10, 0]
    | _ => false)
#guard (match predictFull cntScaler cntEstL.score (some ⟨["a", "b"], 4, 5⟩) 4 exFrame ["pep", "t"] none with
    | some (.ok s) => s == [-10, -35, -10, 0]
    | _ => false)
-- another feature set / an untrained model / a missing column
#guard (match predictFull cntScaler cntEstL.score (some ⟨["a", "b"], 4, 5⟩) 4 exFrame ["pep", "t"] (some ["a"]) with
    | some (.error .featMismatch) => true
    | _ => false)
#guard (match predictFull cntScaler cntEstL.score (none : Option (Trained String Int Int)) 4 exFrame ["pep", "t"] none with
    | some (.error .notFitted) => true
    | _ => false)
#guard (predictFull cntScaler cntEstL.score (some ⟨["a", "b"], 4, 5⟩) 4 exFrame ["pep", "t"] (some ["a", "q"])).isNone
-- `direction` by name; a name that is not a feature is the `KeyError`
#guard (fitFull cntScaler cntEstL leI (3/4) { exCfg with direction := some "a" } 0 exFrame ["pep", "t"] none exTargets).isSome
#guard (fitFull cntScaler cntEstL leI (3/4) { exCfg with direction := some "pep" } 0 exFrame ["pep", "t"] none exTargets).isNone
#guard dirIndex ["b", "a"] (some "a") == some (some 1)

end Mk.Fit
