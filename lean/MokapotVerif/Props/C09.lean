import MokapotVerif.Lemmas.FsRunProg
/-!
# C09 — Results independent of leftovers of earlier runs (property theorems)

"The results of a successful run are a function of its inputs and options only: files left in
the destination or input directory by an earlier run that failed, was interrupted at any
point, or used other inputs or chunking never alter them, and the user's input file is never
replaced by content that mixes in such leftovers.  After a successful confidence assignment no
intermediate file of that run remains in the destination directory."

The initial directory `fs` is universally quantified in every theorem: whatever any sequence
of earlier complete, failed or interrupted runs (with any inputs, chunk sizes, prefixes) left
behind is *some* `fs`.  `C09_after_any_earlier_runs` spells this reading out.

Residue (not covered by these theorems, by correspondence only): that the real run performs
exactly the operation list `confidenceProg` / `cliProg` (strace comparison in the harness),
and OS-level atomicity inside one write.
-/
namespace Mk.FsRun

/-! ## the general principle -/

/-- A program that passes the syntactic check `wellInit known` (it truncates or unlinks every
file before it reads, appends to or moves it, and never globs) computes the same outputs, and
leaves the same content in every file it has initialised, from any two directories that agree
on the names `known` at the start. -/
theorem C09_exec_independent_known (known : List Name) (prog : List Op)
    (hw : wellInit known prog = true) (fs₁ fs₂ : FS) (outs : Outs)
    (ha : ∀ n ∈ known, FS.get fs₁ n = FS.get fs₂ n) :
    (exec fs₁ outs prog).2 = (exec fs₂ outs prog).2 ∧
      ∀ n ∈ knownAfter known prog,
        FS.get (exec fs₁ outs prog).1 n = FS.get (exec fs₂ outs prog).1 n :=
  exec_agree known prog hw fs₁ fs₂ outs ha

/-- the same with nothing known at the start: the two directories are arbitrary -/
theorem C09_exec_independent (prog : List Op) (hw : wellInit [] prog = true)
    (fs₁ fs₂ : FS) (outs : Outs) :
    (exec fs₁ outs prog).2 = (exec fs₂ outs prog).2 ∧
      ∀ n ∈ knownAfter [] prog,
        FS.get (exec fs₁ outs prog).1 n = FS.get (exec fs₂ outs prog).1 n :=
  exec_agree [] prog hw fs₁ fs₂ outs (fun _ h => absurd h (by simp))

/-! ## `assign_confidence` -/

section confidence
variable (k nl : Nat) (decoys : Bool) (hdr data lvhdr lvdata res resd : Nat → Outs → List Nat)

/-- the operation list of `assign_confidence` passes the check, for every number of chunks and
levels, with or without decoys, whatever is written -/
theorem C09_confidence_wellInit :
    wellInit [] (confidenceProg k nl decoys hdr data lvhdr lvdata res resd) = true :=
  wellInit_confidenceProg k nl decoys hdr data lvhdr lvdata res resd []

/-- for any two initial directories: the values read by the run (the merged chunk files, the
level files — hence everything computed from them) are the same, every `targets.<level>` file
has the same final content, and so has every `decoys.<level>` file when decoys are written -/
theorem C09_results_fs_independent (fs₁ fs₂ : FS) (outs : Outs) :
    let prog := confidenceProg k nl decoys hdr data lvhdr lvdata res resd
    (exec fs₁ outs prog).2 = (exec fs₂ outs prog).2 ∧
    (∀ l, l < nl → FS.get (exec fs₁ outs prog).1 (.target l)
        = FS.get (exec fs₂ outs prog).1 (.target l)) ∧
    (decoys = true → ∀ l, l < nl → FS.get (exec fs₁ outs prog).1 (.decoy l)
        = FS.get (exec fs₂ outs prog).1 (.decoy l)) := by
  intro prog
  obtain ⟨h1, h2⟩ := C09_exec_independent prog
    (C09_confidence_wellInit k nl decoys hdr data lvhdr lvdata res resd) fs₁ fs₂ outs
  refine ⟨h1, ?_, ?_⟩
  · intro l hl
    exact h2 _ (target_mem_knownAfter k nl decoys hdr data lvhdr lvdata res resd [] hl)
  · intro hd l hl
    exact h2 _ (decoy_mem_knownAfter k nl decoys hdr data lvhdr lvdata res resd [] hl hd)

/-- the result files exist after the run (so the equalities above are not `none = none`) -/
theorem C09_results_exist (fs : FS) (outs : Outs) :
    let prog := confidenceProg k nl decoys hdr data lvhdr lvdata res resd
    (∀ l, l < nl → (FS.get (exec fs outs prog).1 (.target l)).isSome = true) ∧
    (decoys = true → ∀ l, l < nl → (FS.get (exec fs outs prog).1 (.decoy l)).isSome = true) := by
  intro prog
  refine ⟨?_, ?_⟩
  · intro l hl
    apply exec_present fs outs prog (.target l) false (fun h => absurd h (by simp))
    exact present_of_trunc k nl decoys hdr data lvhdr lvdata res resd false _ (hdr l)
      ⟨fun _ h => Name.noConfusion h, fun _ h => Name.noConfusion h⟩
      (mem_confidenceProg_target k nl decoys hdr data lvhdr lvdata res resd hl)
  · intro hd l hl
    apply exec_present fs outs prog (.decoy l) false (fun h => absurd h (by simp))
    exact present_of_trunc k nl decoys hdr data lvhdr lvdata res resd false _ (hdr l)
      ⟨fun _ h => Name.noConfusion h, fun _ h => Name.noConfusion h⟩
      (mem_confidenceProg_decoy k nl decoys hdr data lvhdr lvdata res resd hl hd)

/-- after the run none of *this run's* intermediates exists, whatever the initial directory:
no chunk file `scores_metadata_i` with `i < k`, no level file of a level `l < nl`.
(A stale `scores_metadata_j` with `j ≥ k` of an earlier run is not removed — and, by
`C09_stale_chunk_untouched_and_unread`, not used either.) -/
theorem C09_no_intermediates_remain (fs : FS) (outs : Outs) :
    let fs' := (exec fs outs (confidenceProg k nl decoys hdr data lvhdr lvdata res resd)).1
    (∀ i, i < k → FS.get fs' (.chunk i) = none) ∧ (∀ l, l < nl → FS.get fs' (.level l) = none) := by
  intro fs'
  refine ⟨?_, ?_⟩
  · intro i hi
    exact exec_absent fs outs _ (.chunk i) false (fun h => absurd h (by simp))
      (absent_chunk k nl decoys hdr data lvhdr lvdata res resd false hi)
  · intro l hl
    exact exec_absent fs outs _ (.level l) false (fun h => absurd h (by simp))
      (absent_level k nl decoys hdr data lvhdr lvdata res resd false hl)

/-- frame: every file that is not a chunk file `i < k`, a level file or a result file of a
level `l < nl` of this run is left exactly as it was — in particular the user's input file,
`<input>.tsv`, every unrelated file and every result file of another prefix -/
theorem C09_confidence_frame (fs : FS) (outs : Outs) (n : Name)
    (h1 : ∀ i, i < k → n ≠ .chunk i)
    (h2 : ∀ l, l < nl → n ≠ .level l ∧ n ≠ .target l ∧ n ≠ .decoy l) :
    FS.get (exec fs outs (confidenceProg k nl decoys hdr data lvhdr lvdata res resd)).1 n
      = FS.get fs n := by
  apply exec_frame
  intro hw
  rcases writes_confidenceProg k nl decoys hdr data lvhdr lvdata res resd hw with
    ⟨i, hi, h⟩ | ⟨l, hl, h | ⟨_, h⟩ | h⟩
  · exact h1 i hi h
  · exact (h2 l hl).2.1 h
  · exact (h2 l hl).2.2 h
  · exact (h2 l hl).1 h

/-- the user's input file is not touched by `assign_confidence` -/
theorem C09_confidence_input_untouched (fs : FS) (outs : Outs) :
    FS.get (exec fs outs (confidenceProg k nl decoys hdr data lvhdr lvdata res resd)).1 .input
      = FS.get fs .input :=
  C09_confidence_frame k nl decoys hdr data lvhdr lvdata res resd fs outs .input
    (fun _ _ h => Name.noConfusion h)
    (fun _ _ => ⟨fun h => Name.noConfusion h, fun h => Name.noConfusion h,
      fun h => Name.noConfusion h⟩)

/-- a stale chunk file `scores_metadata_j` with `j ≥ k` (an earlier run used more chunks):
it is still there with the same content after the run, and whether it is there, and with
which content, changes neither the values read nor any result file -/
theorem C09_stale_chunk_untouched_and_unread (fs : FS) (outs : Outs) (j : Nat) (hj : k ≤ j)
    (stale : List Nat) :
    let prog := confidenceProg k nl decoys hdr data lvhdr lvdata res resd
    let dirty := FS.set fs (.chunk j) stale
    FS.get (exec dirty outs prog).1 (.chunk j) = some stale ∧
    (exec dirty outs prog).2 = (exec (FS.del fs (.chunk j)) outs prog).2 ∧
    (∀ l, l < nl → FS.get (exec dirty outs prog).1 (.target l)
        = FS.get (exec (FS.del fs (.chunk j)) outs prog).1 (.target l)) ∧
    (decoys = true → ∀ l, l < nl → FS.get (exec dirty outs prog).1 (.decoy l)
        = FS.get (exec (FS.del fs (.chunk j)) outs prog).1 (.decoy l)) := by
  intro prog dirty
  refine ⟨?_, C09_results_fs_independent k nl decoys hdr data lvhdr lvdata res resd _ _ outs⟩
  rw [C09_confidence_frame k nl decoys hdr data lvhdr lvdata res resd dirty outs (.chunk j)
    (fun i hi h => by cases h; omega)
    (fun _ _ => ⟨fun h => Name.noConfusion h, fun h => Name.noConfusion h,
      fun h => Name.noConfusion h⟩)]
  exact get_set_same _ _ _

/-- the reading of "any initial directory" used throughout: start from any directory `fs₀`,
let any sequence of earlier runs execute — each an arbitrary operation list (any inputs,
chunking, prefixes; not necessarily well-initialised) cut off after an arbitrary number of
operations (`take m`: interrupted or failed at that point; `m ≥ length`: completed) — and then
run `assign_confidence`: values read and result files are those of a run in the empty
directory -/
theorem C09_after_any_earlier_runs (fs₀ : FS) (outs₀ outs : Outs)
    (earlier : List (List Op × Nat)) :
    let prog := confidenceProg k nl decoys hdr data lvhdr lvdata res resd
    let debris := (exec fs₀ outs₀ (earlier.flatMap (fun r => r.1.take r.2))).1
    (exec debris outs prog).2 = (exec [] outs prog).2 ∧
    (∀ l, l < nl → FS.get (exec debris outs prog).1 (.target l)
        = FS.get (exec [] outs prog).1 (.target l)) ∧
    (decoys = true → ∀ l, l < nl → FS.get (exec debris outs prog).1 (.decoy l)
        = FS.get (exec [] outs prog).1 (.decoy l)) := by
  intro prog debris
  exact C09_results_fs_independent k nl decoys hdr data lvhdr lvdata res resd debris [] outs

end confidence

/-! ## the CLI `verify_pin` step -/

/-- the CLI step reads nothing but the user's input before initialising it -/
theorem C09_cli_wellInit (conv : Outs → List Nat) : wellInit [.input] (cliProg conv) = true := by
  simp [cliProg, wellInit, okStep, knownStep]

/-- the content moved over the user's input file is the conversion of what was read from that
file and nothing else, whatever `<input>.tsv` contained before (or whether it existed), and
`<input>.tsv` does not exist afterwards -/
theorem C09_input_not_mixed (conv : Outs → List Nat) (fs : FS) :
    FS.get (exec fs [] (cliProg conv)).1 .input = some (conv [FS.content fs .input]) ∧
    FS.get (exec fs [] (cliProg conv)).1 .inputTsv = none := by
  simp [cliProg, exec, step, get_moveFs, FS.content, get_set]

/-- the same after any outputs `outs` accumulated before the step -/
theorem C09_input_not_mixed_outs (conv : Outs → List Nat) (fs : FS) (outs : Outs) :
    FS.get (exec fs outs (cliProg conv)).1 .input
        = some (conv (outs ++ [FS.content fs .input])) ∧
    FS.get (exec fs outs (cliProg conv)).1 .inputTsv = none := by
  simp [cliProg, exec, step, get_moveFs, FS.content, get_set]

/-- two directories with the same input file give the same converted input -/
theorem C09_cli_independent (conv : Outs → List Nat) (fs₁ fs₂ : FS) (outs : Outs)
    (h : FS.get fs₁ .input = FS.get fs₂ .input) :
    (exec fs₁ outs (cliProg conv)).2 = (exec fs₂ outs (cliProg conv)).2 ∧
    FS.get (exec fs₁ outs (cliProg conv)).1 .input
      = FS.get (exec fs₂ outs (cliProg conv)).1 .input := by
  obtain ⟨h1, h2⟩ := C09_exec_independent_known [.input] (cliProg conv) (C09_cli_wellInit conv)
    fs₁ fs₂ outs (by intro n hn; simp only [List.mem_singleton] at hn; subst hn; exact h)
  exact ⟨h1, h2 .input (by simp [cliProg, knownAfter, knownStep])⟩

/-! ## the check has teeth: the old programs are rejected by it -/

theorem C09_glob_rejected (k nl : Nat) (decoys : Bool)
    (hdr data lvhdr lvdata res resd : Nat → Outs → List Nat) (known : List Name) :
    wellInit known (confidenceProgGlob k nl decoys hdr data lvhdr lvdata res resd) = false := by
  unfold confidenceProgGlob
  rw [wellInit_append, wellInit_append, wellInit_append]
  simp [phase3Glob, wellInit, okStep]

theorem C09_cli_append_rejected (conv : Outs → List Nat) :
    wellInit [.input] (cliProgAppend conv) = false := by
  simp [cliProgAppend, wellInit, okStep, knownStep]

/-! ## non-vacuity: concrete runs -/

/-- a directory full of debris: stale chunk files (one of them of this run's index range),
a half-written level file, old result files, shadowed duplicates -/
def dirtyFs : FS :=
  [(.chunk 7, [666]), (.chunk 0, [667]), (.level 0, [668]), (.target 0, [669]),
   (.decoy 1, [670]), (.other "x", [5]), (.chunk 0, [671])]

-- two chunks, two levels, decoys: outputs = chunk 0, chunk 1, level 0, level 1
#guard (exec [] [] (demoProg 2 2 true)).2 = [[100], [101], [2, 100, 101], [2, 100, 101]]
#guard (exec dirtyFs [] (demoProg 2 2 true)).2 = (exec [] [] (demoProg 2 2 true)).2
#guard FS.get (exec dirtyFs [] (demoProg 2 2 true)).1 (.target 0) = some [1, 1002, 1100, 1101]
#guard FS.get (exec dirtyFs [] (demoProg 2 2 true)).1 (.decoy 1) = some [1, 1002, 1100, 1101]
#guard FS.get (exec dirtyFs [] (demoProg 2 2 true)).1 (.chunk 0) = none
#guard FS.get (exec dirtyFs [] (demoProg 2 2 true)).1 (.level 0) = none
#guard FS.get (exec dirtyFs [] (demoProg 2 2 true)).1 (.chunk 7) = some [666]
#guard FS.get (exec dirtyFs [] (demoProg 2 2 true)).1 (.other "x") = some [5]
#guard (exec [] [] (demoProg 2 2 true)).1 =
  [(.target 0, [1, 1002, 1100, 1101]), (.decoy 0, [1, 1002, 1100, 1101]),
   (.target 1, [1, 1002, 1100, 1101]), (.decoy 1, [1, 1002, 1100, 1101])]
#guard wellInit [] (demoProg 3 2 false) = true
#guard wellInit [] (demoProgGlob 3 2 false) = false
-- the old program does read the stale chunk file
#guard (exec dirtyFs [] (demoProgGlob 2 2 true)).2 ≠ (exec [] [] (demoProgGlob 2 2 true)).2
-- CLI step: a stale `<input>.tsv` is overwritten, not extended
#guard FS.get (exec [(.input, [10, 20]), (.inputTsv, [99])] [] (cliProg demoConv)).1 .input
  = some [11, 21]
#guard FS.get (exec [(.input, [10, 20]), (.inputTsv, [99])] [] (cliProgAppend demoConv)).1 .input
  = some [99, 11, 21]

/-- kernel-checked instance of the hypotheses of `C09_stale_chunk_untouched_and_unread` -/
example : FS.get dirtyFs (.chunk 7) = some [666] ∧ 2 ≤ 7 := by decide

end Mk.FsRun
