import MokapotVerif.Lemmas.FallbackFull
import MokapotVerif.Props.C07Tail
/-!
# C07 (second extension) — the safety net for every source of the compared scores, and the
direction down to the PEP estimator

`Props/C07Tail.lean` proves the end-to-end specification for the per-fold scores (or zeros).
`brew` compares and replaces in exactly the same way when the scores are those of the original
model after a `reset` (a pretrained model got worse by re-training), the ensemble mean
(`ensemble=True`), or the scores of a list of trained models used as they are.  The theorems below
state the safety net for *every* such source (the tail over arbitrary compared scores, then the
source selection of the code), the behaviour exactly at the boundary `feat_total = pred_total`,
how `reset` arises, and that the scores handed to the PEP estimator are higher-is-better in the
returned direction.  Gap analysis: `GAPS-C07.md`, section "Second pass".
-/
namespace Mk.Fallback
open Mk

/-! ### the tail over arbitrary compared scores -/

/-- the decision keeps the compared scores when nothing beats their count (in particular at
equality: the comparison is strict) -/
theorem decide_useModel_of_le (ms : List FoldModel) (pred : Nat)
    (h : ms.all (·.override) = true ∨ ∀ m ∈ ms, m.featPass ≤ pred) : decide ms pred = .useModel := by
  by_cases hov : ms.all (·.override) = true
  · simp [decide, hov]
  · have hov' : ms.all (·.override) = false := by simpa using hov
    rcases h with h | h
    · exact absurd h hov
    · cases hd : decide ms pred with
      | useModel => rfl
      | useFeature f d =>
        exfalso
        obtain ⟨m, hm, _, _, hgt, _⟩ := C07_fallback_returns_best_feature ms pred f d hd
        have := h m hm
        omega

/-- **End-to-end specification for any compared scores**: whatever the comparison-and-replacement
step of `brew` returns for compared scores `sc` satisfies `TailSpecG`. -/
theorem C07_tailG_spec (ms : List FoldModel) (thr : Rat) (colls : List Coll) (sc : List (List Int))
    (out : List (List Int) × List Bool) (h : brewTailG ms thr colls sc = some out) :
    TailSpecG ms thr colls sc out := by
  have h := brewTailG_some ms thr colls sc out h
  subst h
  unfold TailSpecG
  by_cases hov : ms.all (·.override) = true
  · left
    rw [decide_useModel_of_le ms _ (Or.inl hov)]
    exact ⟨rfl, Or.inl hov⟩
  · have hov' : ms.all (·.override) = false := by simpa using hov
    cases hd : decide ms (totalAccepted thr colls sc) with
    | useModel =>
      left
      refine ⟨rfl, Or.inr ?_⟩
      exact C07_never_silently_worse ms _ hov' hd
    | useFeature f d =>
      right
      obtain ⟨m, hm, hf, hdsc, hgt, hmax⟩ := C07_fallback_returns_best_feature ms _ f d hd
      exact ⟨hov', m, hm, hmax, hgt, by simp [returnOfG, hf, hdsc]⟩

/-- **The safety net for every source** (`reset`, `ensemble`, per fold, zeros — as `brew` selects
it): the returned pair satisfies the specification with the selected scores as compared scores. -/
theorem C07_full_spec (reset ens : Bool) (ms : List FoldModel) (thr : Rat) (colls : List Coll)
    (src : Sources) (out : List (List Int) × List Bool)
    (h : brewFull reset ens ms thr colls src = some out) :
    TailSpecG ms thr colls (brewScores reset ens ms colls src) out :=
  C07_tailG_spec ms thr colls _ out h

/-- **Never silently worse, for every source.**  Unless every model forces its use, either the
returned scores accept at `thr` at least as many genuine targets as every fold model's `feat_pass`,
or the result is, for every collection, the column of the best feature of a model with the largest
`feat_pass`, with that feature's direction. -/
theorem C07_full_never_silently_worse (reset ens : Bool) (ms : List FoldModel) (thr : Rat)
    (colls : List Coll) (src : Sources) (out : List (List Int) × List Bool)
    (hov : ms.all (·.override) = false) (h : brewFull reset ens ms thr colls src = some out) :
    (∀ m ∈ ms, m.featPass ≤ totalAccepted thr colls out.1) ∨
    (∃ m ∈ ms, (∀ m' ∈ ms, m'.featPass ≤ m.featPass) ∧
      out = (colls.map (featColumn m.bestFeat), colls.map (fun _ => m.desc))) := by
  rcases C07_full_spec reset ens ms thr colls src out h with ⟨_, hc⟩ | ⟨_, m, hm, hmax, _, hout⟩
  · rcases hc with hc | hc
    · rw [hov] at hc; cases hc
    · exact Or.inl hc
  · exact Or.inr ⟨m, hm, hmax, hout⟩

/-- the compared scores come back only if they are not beaten (any source) -/
theorem C07_full_falls_back_when_beaten (reset ens : Bool) (ms : List FoldModel) (thr : Rat)
    (colls : List Coll) (src : Sources) (out : List (List Int) × List Bool)
    (hov : ms.all (·.override) = false) (h : brewFull reset ens ms thr colls src = some out)
    (hbeaten : ∃ m ∈ ms, totalAccepted thr colls (brewScores reset ens ms colls src) < m.featPass) :
    ∃ m ∈ ms, (∀ m' ∈ ms, m'.featPass ≤ m.featPass) ∧
      out = (colls.map (featColumn m.bestFeat), colls.map (fun _ => m.desc)) := by
  rcases C07_full_spec reset ens ms thr colls src out h with ⟨hout, hc⟩ | ⟨_, m, hm, hmax, _, hout⟩
  · rcases hc with hc | hc
    · rw [hov] at hc; cases hc
    · obtain ⟨m, hm, hlt⟩ := hbeaten
      have := hc m hm
      rw [hout] at this
      dsimp only at this
      omega
  · exact ⟨m, hm, hmax, hout⟩

/-- **The boundary.**  The comparison is strict: when no fold model's `feat_pass` exceeds the
count of the compared scores — equality included — the compared scores are returned, all marked
higher-is-better (any source). -/
theorem C07_full_kept_unless_beaten (reset ens : Bool) (ms : List FoldModel) (thr : Rat)
    (colls : List Coll) (src : Sources) (hok : labelsOk colls = true)
    (hle : ∀ m ∈ ms, m.featPass ≤ totalAccepted thr colls (brewScores reset ens ms colls src)) :
    brewFull reset ens ms thr colls src
      = some (brewScores reset ens ms colls src, colls.map (fun _ => true)) := by
  unfold brewFull
  rw [brewTailG_unfold ms thr colls _ hok, decide_useModel_of_le ms _ (Or.inr hle)]
  rfl

/-- … and one more accepted target in training than the compared scores accept is enough for the
fallback: `feat_pass = pred_total + 1` for a model with the largest `feat_pass`. -/
theorem C07_full_falls_back_one_above (reset ens : Bool) (ms : List FoldModel) (thr : Rat)
    (colls : List Coll) (src : Sources) (hok : labelsOk colls = true)
    (hov : ms.all (·.override) = false) (m : FoldModel) (hm : m ∈ ms)
    (hone : m.featPass = totalAccepted thr colls (brewScores reset ens ms colls src) + 1) :
    ∃ m' ∈ ms, (∀ m'' ∈ ms, m''.featPass ≤ m'.featPass) ∧
      brewFull reset ens ms thr colls src
        = some (colls.map (featColumn m'.bestFeat), colls.map (fun _ => m'.desc)) := by
  have hsome : brewFull reset ens ms thr colls src = some _ := brewTailG_unfold ms thr colls _ hok
  obtain ⟨m', hm', hmax, hout⟩ :=
    C07_full_falls_back_when_beaten reset ens ms thr colls src _ hov hsome ⟨m, hm, by omega⟩
  exact ⟨m', hm', hmax, by rw [hsome, hout]⟩

/-- a forced model is returned whatever the source and the counts -/
theorem C07_full_forced_returned (reset ens : Bool) (ms : List FoldModel) (thr : Rat)
    (colls : List Coll) (src : Sources) (hov : ms.all (·.override) = true) (hok : labelsOk colls = true) :
    brewFull reset ens ms thr colls src
      = some (brewScores reset ens ms colls src, colls.map (fun _ => true)) := by
  unfold brewFull
  rw [brewTailG_unfold ms thr colls _ hok, decide_useModel_of_le ms _ (Or.inl hov)]
  rfl

/-! ### the source selection -/

/-- which scores are compared (brew.py:198-252): after a `reset` the original model's, whatever
the fold models look like; otherwise zeros as soon as one fold model is untrained — also with
`ensemble=True` —; otherwise the ensemble mean or the per-fold scores -/
theorem C07_full_source (ens : Bool) (ms : List FoldModel) (colls : List Coll) (src : Sources) :
    brewScores true ens ms colls src = src.resetScores ∧
    (ms.all (·.trained) = false → brewScores false ens ms colls src = colls.map zerosLike) ∧
    (ms.all (·.trained) = true → brewScores false true ms colls src = src.ensembleScores) ∧
    (ms.all (·.trained) = true → brewScores false false ms colls src = colls.map (·.modelScores)) := by
  refine ⟨brewScores_reset ens ms colls src, brewScores_untrained ens ms colls src,
    brewScores_ensemble ms colls src, ?_⟩
  intro h
  simp [brewScores, h]

/-- the model of `Props/C07Tail.lean` is the instance without `reset` and `ensemble`, and its
specification is the instance of `TailSpecG` -/
theorem C07_full_extends_tail (ms : List FoldModel) (thr : Rat) (colls : List Coll) (src : Sources)
    (out : List (List Int) × List Bool) :
    brewFull false false ms thr colls src = brewTail ms thr colls ∧
    (TailSpecG ms thr colls (tailScores ms colls) out ↔ TailSpec ms thr colls out) := by
  constructor
  · unfold brewFull
    rw [brewScores_plain, brewTail_eq_G]
  · rfl

/-- **Training failed, also with `ensemble=True`.**  If some fold model is untrained (and there was
no `reset`), the user does not force the model, some fold's best feature accepted a target, and in
no collection the undifferentiated list passes the threshold, the result is the best feature's
column and direction for every collection. -/
theorem C07_full_training_failed_falls_back (ens : Bool) (ms : List FoldModel) (thr : Rat)
    (colls : List Coll) (src : Sources)
    (hov : ms.all (·.override) = false) (hun : ms.all (·.trained) = false)
    (hok : labelsOk colls = true) (hpass : ∃ m ∈ ms, 0 < m.featPass)
    (hfdr : ∀ c ∈ colls, thr < min (fdrRaw (c.labels.countP isTargetRaw) (c.labels.countP (fun l => !isTargetRaw l))) 1) :
    ∃ m ∈ ms, (∀ m' ∈ ms, m'.featPass ≤ m.featPass) ∧
      brewFull false ens ms thr colls src
        = some (colls.map (featColumn m.bestFeat), colls.map (fun _ => m.desc)) := by
  have h0 : totalAccepted thr colls (brewScores false ens ms colls src) = 0 := by
    rw [brewScores_untrained ens ms colls src hun]; exact totalAccepted_zeros thr colls hfdr
  obtain ⟨m0, hm0, hpos⟩ := hpass
  have hsome : brewFull false ens ms thr colls src = some _ := brewTailG_unfold ms thr colls _ hok
  obtain ⟨m, hm, hmax, hout⟩ :=
    C07_full_falls_back_when_beaten false ens ms thr colls src _ hov hsome ⟨m0, hm0, by omega⟩
  exact ⟨m, hm, hmax, by rw [hsome, hout]⟩

/-! ### how `reset` arises and what a pretrained model reports -/

/-- `reset` is set exactly when some fold re-trained an already trained model and `fit` reported
"performs worse"; then (and only then, among the failed fits) the fold model still counts as
trained -/
theorem C07_reset_iff (runs : List FitRun) :
    (anyReset runs = true ↔ ∃ r ∈ runs, r.pretrained = true ∧ r.worse = true) ∧
    (∀ r ∈ runs, fitTrained r = false ↔ (r.pretrained = false ∧ r.worse = true)) := by
  constructor
  · unfold anyReset fitReset
    simp only [List.any_eq_true, Bool.and_eq_true]
    constructor
    · rintro ⟨r, hr, hw, hp⟩; exact ⟨r, hr, hp, hw⟩
    · rintro ⟨r, hr, hp, hw⟩; exact ⟨r, hr, hw, hp⟩
  · intro r _
    unfold fitTrained
    cases r.pretrained <;> cases r.worse <;> simp

/-- a model that was not trained before never causes a `reset` (a failed fit leaves it untrained:
the zeros of brew.py:250-252), and a list of trained models (no fit at all) neither -/
theorem C07_no_reset_without_pretrained_failure (runs : List FitRun)
    (h : ∀ r ∈ runs, r.pretrained = false ∨ r.worse = false) : anyReset runs = false := by
  cases hr : anyReset runs with
  | false => rfl
  | true =>
    obtain ⟨r, hmem, hp, hw⟩ := (C07_reset_iff runs).1.mp hr
    rcases h r hmem with h | h
    · rw [hp] at h; cases h
    · rw [hw] at h; cases h

/-- a pretrained model reports the count of its *own* scores as `feat_pass` and carries the feature
and direction of its earlier training: these are what the comparison and the fallback of `brew` use -/
theorem C07_pretrained_attrs_spec (f : Nat) (d : Bool) (n : Nat) :
    (pretrainedAttrs f d n).1 = f ∧ (pretrainedAttrs f d n).2.1 = n ∧ (pretrainedAttrs f d n).2.2 = d :=
  ⟨rfl, rfl, rfl⟩

/-! ### the Boolean evaluated by the driver -/

theorem C07_tailSpecGX_iff (ms : List FoldModel) (thr : Rat) (colls : List Coll) (sc : List (List Int))
    (out : List (List Int) × List Bool) :
    tailSpecGX ms thr colls sc out = true ↔ TailSpecG ms thr colls sc out := by
  have hX : totalAcceptedX thr colls = totalAccepted thr colls := by
    funext scores
    unfold totalAcceptedX totalAccepted collAccepted
    simp only [accepted_eq_spec leUp leUp_totalPre]
  unfold tailSpecGX tailSpecGWith TailSpecG
  rw [hX]
  simp only [Bool.or_eq_true, Bool.and_eq_true, beq_iff_eq, List.all_eq_true, List.any_eq_true,
    decide_eq_true_eq, Bool.not_eq_true', ← and_assoc]

/-! ### the direction down to the PEP estimator -/

/-- **The PEP estimator is handed higher-is-better scores in the returned direction**: for a score
column of direction `desc` given to `assign_confidence`, the scores that reach the PEP estimator
(entry flip of confidence.py:643-649, then `scores * (desc * 2 - 1)` of confidence.py:421, anchored as 412-417) are
the ranking scores — the column itself when higher is better, its negation when lower is better. -/
theorem C07_pep_input_honours_direction (desc : Bool) (col : List Int) :
    pepScores desc col = rankColumn desc col := by
  unfold pepScores pepInput entryFlip rankColumn rankScore
  cases desc <;> simp

/-- … so a row gets a PEP-estimator input at least as high as another's exactly when it is at least
as good in the feature's own direction (low values first for a lower-is-better feature) -/
theorem C07_pep_input_order (desc : Bool) (col : List Int) (i j : Nat)
    (hi : i < col.length) (hj : j < col.length) :
    ((pepScores desc col).getD i 0 ≤ (pepScores desc col).getD j 0) ↔ leDir desc col[i] col[j] = true := by
  rw [C07_pep_input_honours_direction, rankColumn_eq]
  have h1 : (col.map (rankScore desc)).getD i 0 = rankScore desc col[i] := by
    simp [List.getD, hi]
  have h2 : (col.map (rankScore desc)).getD j 0 = rankScore desc col[j] := by
    simp [List.getD, hj]
  rw [h1, h2]
  unfold rankScore leDir
  cases desc <;> simp

/-! ### non-vacuity and executable checks -/

def exSrc : Sources := { resetScores := [[9, 8, 5, 4, 1]], ensembleScores := [[1, 2, 3, 4, 5]] }

-- exColl: labels 1 1 −1 1 −1, features [5,4,3,2,1] and [1,2,9,3,8], fold-model scores [1,2,3,4,5]
-- reset: the original model's scores accept 2 genuine targets at 1/2 … not beaten by feat_pass 2, beaten by 3
#guard brewFull true false [⟨2, 0, true, false, true⟩] (1/2) [exColl] exSrc == some ([[9, 8, 5, 4, 1]], [true])
#guard brewFull true true (exMs true) (1/2) [exColl] exSrc == some ([[1, 2, 9, 3, 8]], [false])
#guard totalAccepted (1/2) [exColl] exSrc.resetScores == 2
-- ensemble with an untrained fold model: zeros are compared, the feature is returned
#guard brewFull false true (exMs false) (1/2) [exColl] exSrc == some ([[1, 2, 9, 3, 8]], [false])
#guard tailSpecGX (exMs true) (1/2) [exColl] exSrc.resetScores ([[1, 2, 9, 3, 8]], [false])
#guard !tailSpecGX (exMs true) (1/2) [exColl] exSrc.resetScores ([[9, 8, 5, 4, 1]], [true])
#guard pepScores false [3, -1, 4] == [-3, 1, -4]
#guard anyReset [⟨true, false⟩, ⟨true, true⟩] && !anyReset [⟨false, true⟩, ⟨true, false⟩]

-- hypotheses of `C07_full_kept_unless_beaten` at equality, and of `C07_full_falls_back_one_above`
example : labelsOk [exColl] = true ∧
    (∀ m ∈ [(⟨2, 0, true, false, true⟩ : FoldModel)],
      m.featPass ≤ totalAccepted (1/2) [exColl] (brewScores true false [⟨2, 0, true, false, true⟩] [exColl] exSrc)) ∧
    (⟨2, 0, true, false, true⟩ : FoldModel).featPass
      = totalAccepted (1/2) [exColl] (brewScores true false [⟨2, 0, true, false, true⟩] [exColl] exSrc) := by
  decide +kernel

example : (exMs true).all (·.override) = false ∧ (⟨3, 1, false, false, true⟩ : FoldModel) ∈ exMs true ∧
    (⟨3, 1, false, false, true⟩ : FoldModel).featPass
      = totalAccepted (1/2) [exColl] (brewScores true false (exMs true) [exColl] exSrc) + 1 := by
  decide +kernel

-- hypotheses of `C07_full_training_failed_falls_back` with `ensemble=True`
example : (exMs false).all (·.override) = false ∧ (exMs false).all (·.trained) = false ∧
    labelsOk [exColl] = true ∧ (∃ m ∈ exMs false, 0 < m.featPass) := by
  decide +kernel

end Mk.Fallback
