import MokapotVerif.Lemmas.PepxmlOpts
import MokapotVerif.Props.C20
/-!
# C20 (continued) — the options of `read_pepxml`

`exclude_features`, `open_modification_bin_size` and the feature list handed to the
`LinearPsmDataset` (`to_df=False`).  Property theorems only.  `readPepxmlX` is the
model of the code with the options threaded through (`Model/Pepxml.lean`, last
section); the statements say what the options may and may not change about the PSMs of
`Props/C20.lean`.
-/
namespace Mk
open Pepxml

/-! ## the options change neither acceptance nor the PSMs -/

/-- whatever the options, `read_pepxml` rejects exactly the same inputs with the same error, and
otherwise post-processes the same concatenated frame of PSMs as the default call -/
theorem C20_options_same_frame (pfx : Str) (excl : List String) (bin : Option Rat) (files : List File) :
    ∃ r : Except Err Frame, readPepxml pfx files = r.map postProcess ∧
      readPepxmlX pfx excl bin files = r.map (postProcessX excl bin) :=
  ⟨readFrame pfx files, readPepxml_eq_readFrame pfx files, readPepxmlX_eq_readFrame pfx excl bin files⟩

/-- same errors -/
theorem C20_options_same_errors (pfx : Str) (excl : List String) (bin : Option Rat) (files : List File)
    (e : Err) : readPepxmlX pfx excl bin files = .error e ↔ readPepxml pfx files = .error e := by
  rw [readPepxml_eq_readFrame, readPepxmlX_eq_readFrame]
  cases readFrame pfx files with
  | error e' => simp [Except.map]
  | ok fr => simp [Except.map]

/-- **every hit still becomes exactly one PSM**: with any excluded features and any bin size the
rows of the returned table are, in document order over all files, the PSMs of all search hits
(scan, charge, retention time, masses, data file, modified peptide, proteins, label as in
`Props/C20.lean`); the bin size only attaches a tag to each of them -/
theorem C20_options_psms (pfx : Str) (excl : List String) (bin : Option Rat) (runss : List (List Run))
    (hne : runss ≠ []) (h : ∀ runs ∈ runss, hitsOfRuns runs ≠ 0) (hp : ¬ hasPercolatorScore runss) :
    ∃ t, readPepxmlX pfx excl bin (runss.map File.doc) = .ok t ∧
      t.rows.map (·.row) = (runss.flatMap hitContexts).map (psmOf pfx) ∧
      (∀ o ∈ t.rows, o.tag.isSome = bin.isSome) := by
  obtain ⟨t0, ht0, hrows, _⟩ := C20_files_concatenated pfx runss hne h hp
  rw [readPepxml_eq_readFrame] at ht0
  rw [readPepxmlX_eq_readFrame]
  cases hr : readFrame pfx (runss.map File.doc) with
  | error e => rw [hr] at ht0; cases ht0
  | ok fr =>
    rw [hr] at ht0
    have ht : postProcess fr = t0 := Except.ok.inj ht0
    refine ⟨postProcessX excl bin fr, rfl, ?_, ?_⟩
    · rw [postProcessX_rows, ← hrows, ← ht]; rfl
    · intro o ho
      simp only [postProcessX, tagRows, List.mem_map] at ho
      obtain ⟨r, _, rfl⟩ := ho
      cases bin <;> rfl

/-- with nothing excluded and no bin size the extended reader's table is the default table
(cells embedded, no tags), provided no dict key is the name of a fixed column -/
theorem C20_default_options_agree (fr : Frame) (hfix : ∀ k ∈ fr.cols, k ∉ fixedCols) :
    (postProcessX [] none fr).feats = (postProcess fr).feats.map liftCol ∧
    (postProcessX [] none fr).rows = fr.rows.map (fun r => { row := r, tag := none }) :=
  postProcessX_default fr hfix

/-! ## `exclude_features` -/

/-- **column by column**: the table has the same columns in the same order as the default table;
every column that is not excluded (and not a fixed column) holds exactly the default table's
cells — excluding one feature never changes another, nor does the bin size -/
theorem C20_exclude_columnwise (excl : List String) (bin : Option Rat) (fr : Frame) :
    List.Forall₂ (fun kc kx => kx.1 = kc.1 ∧ (kc.1 ∉ nonfeatCols excl → kx.2 = kc.2.map XV.fv))
      (postProcess fr).feats (postProcessX excl bin fr).feats := by
  have h := postProcessX_columnwise excl bin fr
  exact forall₂_imp' _ _ (fun kc kx hh => ⟨hh.1, fun hn => hh.2 ((isFeat_iff excl kc.1).mpr hn)⟩) _ _ h

/-- same column names, same order, whatever is excluded -/
theorem C20_exclude_keeps_columns (excl : List String) (bin : Option Rat) (fr : Frame) :
    (postProcessX excl bin fr).feats.map (·.1) = (postProcess fr).feats.map (·.1) := by
  rw [postProcessX_names, featNames_eq]

/-- **an excluded search score stays as written**: the column of an excluded score name holds,
for the PSM of every hit, the value text of the hit's last score of that name (the optional
attribute of that name, or nothing, if the hit has no such score) — no log transform -/
theorem C20_excluded_score_verbatim (pfx : Str) (excl : List String) (bin : Option Rat)
    (ctxs : List (Run × Spectrum × Hit)) (cols : List String) (k : String)
    (hk : k ∈ cols) (hx : k ∈ excl) (hnm : k ≠ "num_matched_peptides") :
    (k, ctxs.map (fun c => XV.cell (((specScore c.2.2 k).map Cell.text).or ((initFeats c.2.2).lookup k))))
      ∈ (postProcessX excl bin { cols := cols, rows := ctxs.map (psmOf pfx) }).feats := by
  have hf : isFeat excl k = false := by
    rw [Bool.eq_false_iff, Ne, isFeat_iff]
    simp [nonfeatCols, hx]
  have := postProcessX_excluded excl bin { cols := cols, rows := ctxs.map (psmOf pfx) } k hk hf hnm
  simp only [List.map_map] at this
  have he : ((fun r : Row => XV.cell (r.feats.lookup k)) ∘ psmOf pfx)
      = (fun c => XV.cell (((specScore c.2.2 k).map Cell.text).or ((initFeats c.2.2).lookup k))) := by
    funext c
    simp only [Function.comp_apply]
    rw [C20_scores_become_features]
  rw [he] at this
  exact this

/-- **the feature list of the dataset** (`to_df=False`): the columns of the table in order, without
the excluded ones; never a fixed column -/
theorem C20_dataset_feature_columns (excl : List String) (bin : Option Rat) (fr : Frame) :
    (postProcessX excl bin fr).featCols
        = ((postProcessX excl bin fr).feats.map (·.1)).filter (fun k => !(nonfeatCols excl).contains k) ∧
    (∀ k, k ∈ (postProcessX excl bin fr).featCols ↔
        k ∈ (postProcess fr).feats.map (·.1) ∧ k ∉ fixedCols ∧ k ∉ excl) := by
  constructor
  · rw [postProcessX_featCols, postProcessX_names]; rfl
  · intro k
    rw [postProcessX_featCols, List.mem_filter, isFeat_iff, featNames_eq]
    simp [nonfeatCols]

/-- transformed columns are exactly the feature columns: a column is left untouched iff its name
is excluded (or fixed) -/
theorem C20_feature_iff_not_excluded (excl : List String) (k : String) :
    isFeat excl k = true ↔ k ∉ fixedCols ∧ k ∉ excl := by
  rw [isFeat_iff]; simp [nonfeatCols]

/-! ## `open_modification_bin_size` -/

/-- **the bin of a PSM contains its mass difference**: for a bin size `b > 0`, the index computed
for a mass difference `md` of the table is a valid index into `np.arange(lo, hi + b, b)`
(`0 ≤ i < len`), `bins[i] ≤ md < bins[i] + b`, and it is the only such index -/
theorem C20_openmod_bin_contains (b : Rat) (hb : 0 < b) (mds : List Rat) (md : Rat) (hm : md ∈ mds) :
    0 ≤ binIdx (minRat mds) b md ∧ binIdx (minRat mds) b md < nBins (minRat mds) (maxRat mds) b ∧
    binStart (minRat mds) b (binIdx (minRat mds) b md) ≤ md ∧
    md < binStart (minRat mds) b (binIdx (minRat mds) b md) + b ∧
    ∀ j : Int, binStart (minRat mds) b j ≤ md → md < binStart (minRat mds) b j + b →
      j = binIdx (minRat mds) b md := by
  obtain ⟨h1, h2⟩ := binIdx_spec (minRat mds) b md hb
  have hstep : ∀ j : Int, binStart (minRat mds) b (j + 1) = binStart (minRat mds) b j + b := by
    intro j; unfold binStart; push_cast; ring
  refine ⟨binIdx_nonneg _ b md hb (minRat_le mds md hm), binIdx_lt_nBins _ _ b md hb (le_maxRat mds md hm),
    h1, by rw [← hstep]; exact h2, ?_⟩
  intro j hj1 hj2
  exact binIdx_unique _ b md hb j hj1 (by rw [hstep]; exact hj2)

/-- **the tag is the centre of that bin**, rounded to four decimals: it differs from the PSM's
mass difference by at most half a bin (plus the rounding) -/
theorem C20_openmod_tag_close (b : Rat) (hb : 0 < b) (mds : List Rat) (md : Rat) :
    ratAbs (md - openModTag b mds md) ≤ b / 2 + 1 / 20000 :=
  openModTag_close b mds md hb

/-- tags are monotone in the mass difference; PSMs with the same mass difference get the same tag,
PSMs whose mass differences are at least one bin size apart get different bins -/
theorem C20_openmod_monotone (b : Rat) (hb : 0 < b) (mds : List Rat) (x y : Rat) :
    (x ≤ y → openModTag b mds x ≤ openModTag b mds y) ∧
    (x + b ≤ y → binIdx (minRat mds) b x < binIdx (minRat mds) b y) := by
  refine ⟨openModTag_mono b mds x y hb, ?_⟩
  intro hxy
  obtain ⟨hx1, hx2⟩ := binIdx_spec (minRat mds) b x hb
  obtain ⟨hy1, hy2⟩ := binIdx_spec (minRat mds) b y hb
  by_contra hlt
  have hle : binIdx (minRat mds) b y ≤ binIdx (minRat mds) b x := by omega
  have hq : ((binIdx (minRat mds) b y : Int) : Rat) ≤ (binIdx (minRat mds) b x : Rat) := by exact_mod_cast hle
  unfold binStart at hx1 hy2
  push_cast at hy2
  have := mul_le_mul_of_nonneg_right hq hb.le
  linarith

/-- the tag of every row of the returned table is the tag of its own mass difference among the
mass differences of all rows; without a bin size no row is tagged; the feature columns do not
depend on the bin size -/
theorem C20_openmod_rows (excl : List String) (bin : Option Rat) (fr : Frame) :
    (postProcessX excl bin fr).rows
      = fr.rows.map (fun r => ORow.mk r
          (bin.map (fun b => openModTag b (fr.rows.map (fun r' => r'.expMass - r'.calcMass))
                                (r.expMass - r.calcMass)))) ∧
    (postProcessX excl bin fr).feats = (postProcessX excl none fr).feats := by
  constructor
  · simp only [postProcessX, tagRows]
    rfl
  · rfl

end Mk

/-! ## non-vacuity and evaluation tests -/

namespace Mk.Pepxml

section ExamplesOpts

#guard String.ofList defaultPrefix == "decoy_"

-- hypotheses of `C20_default_options_agree` are satisfiable: the keys of the example PSMs
example : ∀ k ∈ (frameOf (fileRows ['d', '_'] [pxRun])).cols, k ∉ fixedCols := by decide

-- hypotheses of `C20_excluded_score_verbatim` / `C20_openmod_*`
example : "xcorr" ∈ (frameOf (fileRows ['d', '_'] [pxRun])).cols ∧ "xcorr" ∈ ["xcorr", "nope"] := by decide
example : (0 : Rat) < 1 / 100 ∧ (1 / 2 : Rat) ∈ [1 / 2, 49 / 100, 1] := by decide +kernel

-- the run of t1 in the harness notes: mass differences 0.50, 0.49, 1.00
#guard openModTag (1/100) [1/2, 49/100, 1] (49/100) == 99/200       -- 0.495
#guard openModTag (1/100) [1/2, 49/100, 1] (1/2) == 101/200         -- 0.505 (exact arithmetic)
#guard openModTag (1/2) [1/2, 49/100, 1] (1/2) == 37/50             -- 0.74
#guard openModTag (1/2) [1/2, 49/100, 1] 1 == 31/25                 -- 1.24
#guard nBins (49/100) 1 (1/2) == 3
#guard roundHalfEven (5/2) == 2 && roundHalfEven (7/2) == 4 && roundHalfEven (-5/2) == -2
#guard round4 (123456/1000000) == 1235/10000

-- hypotheses of theorems of `Props/C20.lean` that had `#guard`s only
-- `C20_peptide_modified`: a hit with exactly one `modification_info`, ascending in-range positions
example : modLists exHit = [[⟨7, "357.2579".toList⟩]] := rfl
example : modsOk exHit.peptide [⟨7, "357.2579".toList⟩] := by
  refine ⟨by simp, ?_⟩
  intro m hm
  simp only [List.mem_singleton] at hm
  subst hm
  decide
-- `C20_insert_mods_strip`: no `]` in the masses, no bracket in the peptide
example : (∀ m ∈ exMods, ']' ∉ m.mass) ∧ (∀ c ∈ "PEPTIDEK".toList, c ≠ '[' ∧ c ≠ ']') := by decide
-- `C20_score_columns`: a table is returned, hit 0 has the score `xcorr`
example : ∃ t, readPepxml ['d', '_'] ([[pxRun]].map File.doc) = .ok t :=
  ⟨_, rfl⟩
example : (([[pxRun]].flatMap hitContexts)[0]?).map (·.2.2.peptide) = some pxHit.peptide ∧
    "xcorr" ∈ (scoresOf pxHit).map (·.1) ∧ "xcorr" ≠ "num_matched_peptides" := by
  refine ⟨rfl, by decide, by decide⟩

def exFrame : Frame := frameOf (fileRows "rev_".toList [exRun])

#guard (postProcessX ["hyperscore", "charge_2", "nope", "scan"] none exFrame).featCols
  == ["missed_cleavages", "ntt", "expect", "mass_diff", "abs_mz_diff", "charge_3"]
#guard (postProcessX [] none exFrame).featCols
  == ["missed_cleavages", "ntt", "hyperscore", "expect", "mass_diff", "abs_mz_diff", "charge_2", "charge_3"]
#guard (postProcessX ["expect"] (some (1/2)) exFrame).rows.map (·.tag) == [some (5/4), some (5/4), some (-667/4)]

end ExamplesOpts

end Mk.Pepxml
