import MokapotVerif.Props.C03
import MokapotVerif.Props.C14
/-!
# C03 ∘ C14 — the competition theorems with the *real* k-way merge plugged in

`C03_psm_level_spec` assumes that the merged stream is *some* best-first arrangement of the
chunk files.  Here that hypothesis is discharged for the model of `utils.merge_sort`
(`Merge.kmerge`, C14): whatever it does with equal heads, its output qualifies.
-/
namespace Mk

/-- "`b` is at least as good as `a`" on rows -/
def rowLe (a b : Row) : Bool := decide (a.score ≤ b.score)

theorem rowLe_totalPre : TotalPre rowLe := by
  constructor
  · intro a b; simp only [rowLe, decide_eq_true_eq]; exact le_total _ _
  · intro a b c; simp only [rowLe, decide_eq_true_eq]; exact le_trans

theorem sortedRows_iff_nonIncr (l : List Row) : SortedRows l ↔ Merge.NonIncr rowLe l := by
  unfold SortedRows Merge.NonIncr rowLe
  simp

/-- every temporary chunk file is sorted best-first -/
theorem chunkFile_sorted (dedup : Bool) (ch f : List Row) (h : IsChunkFile dedup ch f) : SortedRows f := by
  obtain ⟨s, _, hs, rfl⟩ := h
  unfold chunkFile
  split
  · exact SortedRows.sublist (dedupFirst_sublist _ _ _) hs
  · exact hs

/-- **End to end with the modelled merge**: for every table, every chunk size `c ≥ 1` and
every tie arrangement inside the chunk files, if `merge_sort` returns (`some merged`: no chunk
file is empty), the PSM level computed from *its* output holds exactly one highest-scoring
unmodified row per spectrum of the input table, best first. -/
theorem C03_psm_level_spec_with_kmerge (c : Nat) (hc : 0 < c) (rows : List Row)
    (files : List (List Row)) (hfiles : List.Forall₂ (IsChunkFile true) (chunksOf c rows) files)
    (merged : List Row) (hm : Merge.kmerge rowLe files = some merged) :
    LevelSpec Row.spec rows (psmLevel true merged) := by
  have hperm := Merge.C14_kmerge_perm rowLe files merged hm
  have hsorted : SortedRows merged := by
    rw [sortedRows_iff_nonIncr]
    apply Merge.C14_kmerge_sorted rowLe rowLe_totalPre files merged _ hm
    intro xs hxs
    obtain ⟨ch, _, hcf⟩ := forall₂_mem_right hfiles xs hxs
    exact (sortedRows_iff_nonIncr xs).mp (chunkFile_sorted true ch xs hcf)
  exact C03_psm_level_spec c hc rows files hfiles merged hperm hsorted

/-- the same for de-duplication switched off: the PSM level is the whole table -/
theorem C03_no_dedup_keeps_all_with_kmerge (c : Nat) (hc : 0 < c) (rows : List Row)
    (files : List (List Row)) (hfiles : List.Forall₂ (IsChunkFile false) (chunksOf c rows) files)
    (merged : List Row) (hm : Merge.kmerge rowLe files = some merged) :
    (psmLevel false merged).Perm rows ∧ SortedRows (psmLevel false merged) := by
  have hperm := Merge.C14_kmerge_perm rowLe files merged hm
  have hsorted : SortedRows merged := by
    rw [sortedRows_iff_nonIncr]
    apply Merge.C14_kmerge_sorted rowLe rowLe_totalPre files merged _ hm
    intro xs hxs
    obtain ⟨ch, _, hcf⟩ := forall₂_mem_right hfiles xs hxs
    exact (sortedRows_iff_nonIncr xs).mp (chunkFile_sorted false ch xs hcf)
  exact C03_no_dedup_keeps_all c hc rows files hfiles merged hperm hsorted

end Mk
