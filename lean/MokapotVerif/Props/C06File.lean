import MokapotVerif.Lemmas.PepsFile
import MokapotVerif.Props.C06
/-!
# C06 (extension) — every estimator offered, the default pipelines, the result files

Property theorems only (definitions: `Model/PepsFile.lean`; gap analysis: `GAPS-C06.md`).

* "for every PEP estimator offered": one theorem over the dispatch table
  `PEP_ALGORITHM` (`C06_every_pep_estimator`), the entry point with its default
  argument and its `KeyError` (`C06_pep_entry_point`).
* "the alternative q-value estimators": the *default* pipeline of
  `qvalues_from_peps` (PEPs from `hist_nnls`: no hypothesis at all is needed for the
  shape, the clip and the running maximum do the work) and `qvalues_from_counts` with
  its factor computed from the labels (`pi0 ≥ 0` is the only hypothesis).
* "the PEP column of every result file is aligned with its row": the chunked writer
  is independent of the chunk size, every level row is written once, to the file
  of its label, in level order, with the PEP of its own score.
-/
namespace Mk
open Peps

/-! ## the dispatch tables -/

/-- `PEP_ALGORITHM` knows exactly four names; anything else is a `KeyError`; the default
argument of `peps_from_scores` selects `qvality`; only `qvality_bin` runs the binary. -/
theorem C06_pep_dispatch_table (name : List Char) :
    (pepAlgOfName name = none ↔ name ∉ [nmQvality, nmQvalityBin, nmKdeNnls, nmHistNnls]) ∧
    pepAlgOfArg none = some PepAlg.qvality ∧
    pepAlgOfName nmQvality = some PepAlg.qvality ∧ pepAlgOfName nmQvalityBin = some PepAlg.qvalityBin ∧
    pepAlgOfName nmKdeNnls = some PepAlg.kdeNnls ∧ pepAlgOfName nmHistNnls = some PepAlg.histNnls ∧
    (∀ a, pepAlgUsesBinary a = true ↔ a = PepAlg.qvalityBin) := by
  refine ⟨?_, by decide, by decide, by decide, by decide, by decide, ?_⟩
  · unfold pepAlgOfName
    by_cases h1 : name = nmQvality
    · subst h1; decide
    · by_cases h2 : name = nmQvalityBin
      · subst h2; decide
      · by_cases h3 : name = nmKdeNnls
        · subst h3; decide
        · by_cases h4 : name = nmHistNnls
          · subst h4; decide
          · simp [h1, h2, h3, h4]
  · intro a
    cases a <;> simp [pepAlgUsesBinary]

/-- `QVALUE_ALGORITHM` knows exactly three names; the default of `qvalues_from_scores` is `tdc`
(the subject of C01). -/
theorem C06_qvalue_dispatch_table (name : List Char) :
    (qAlgOfName name = none ↔ name ∉ [nmTdc, nmFromPeps, nmFromCounts]) ∧
    qAlgOfArg none = some QAlg.tdc ∧ qAlgOfName nmTdc = some QAlg.tdc ∧
    qAlgOfName nmFromPeps = some QAlg.fromPeps ∧ qAlgOfName nmFromCounts = some QAlg.fromCounts := by
  refine ⟨?_, by decide, by decide, by decide, by decide⟩
  unfold qAlgOfName
  by_cases h1 : name = nmTdc
  · subst h1; decide
  · by_cases h2 : name = nmFromPeps
    · subst h2; decide
    · by_cases h3 : name = nmFromCounts
      · subst h3; decide
      · simp [h1, h2, h3]

/- `PepKernelOK a g k xs` (Lemmas/PepsFile.lean) is the kernel hypothesis of table entry `a`: qvality
(either version) returns the response `g` at the descending scores, `g` non-increasing with values in
`[0,1]`; the NNLS estimators have a non-negative NNLS solution. -/

/-- **every PEP estimator offered**: whichever entry of `PEP_ALGORITHM` is selected, for every
arrangement `ys` of the data set and every admissible `argsort`, the result (when there is one)
is `ys.map` of ONE function of the score — fixed by the kernel outputs, not by the arrangement —
and has the shape of C06: one PEP per PSM, in `[0,1]`, never decreasing as the score worsens. -/
theorem C06_every_pep_estimator (a : PepAlg) (g : Rat → Rat) (k : Kern) (xs : List Psm)
    (hK : PepKernelOK a g k xs) (ys : List Psm) (hperm : ys.Perm xs) (ind : List Nat)
    (hind : ValidArgsort ys ind) (r : List Rat) (hr : pepsOfAlg a k ys ind = some r) :
    r = ys.map (fun y => pepFunOfAlg a g k y.1) ∧ Shape 0 (some 1) (ys.map (·.1)) r := by
  cases a with
  | qvality =>
    obtain ⟨hq, hanti, hrange⟩ := hK.1 (Or.inl rfl)
    simp only [pepsOfAlg, Option.some.injEq] at hr
    subst hr
    exact ⟨C06_qvality_wrapper_aligned k.qv g xs hq ys hperm ind hind,
      C06_qvality_wrapper_shape k.qv g xs hq hanti hrange ys hperm ind hind⟩
  | qvalityBin =>
    obtain ⟨hq, hanti, hrange⟩ := hK.1 (Or.inr rfl)
    simp only [pepsOfAlg, Option.some.injEq] at hr
    subst hr
    exact ⟨C06_qvality_wrapper_aligned k.qv g xs hq ys hperm ind hind,
      C06_qvality_wrapper_shape k.qv g xs hq hanti hrange ys hperm ind hind⟩
  | kdeNnls =>
    have hd := hK.2 (Or.inl rfl)
    simp only [pepsOfAlg, Option.some.injEq] at hr
    subst hr
    exact ⟨(C06_interp_pointwise k.es k.d ys).1, C06_kde_nnls_shape k.es k.d _ hd⟩
  | histNnls =>
    have hd := hK.2 (Or.inr rfl)
    simp only [pepsOfAlg] at hr
    exact ⟨(C06_interp_pointwise k.es k.d ys).2 r hr, C06_hist_nnls_shape k.es k.d _ hd r hr⟩

/-- **the entry point** `peps_from_scores(scores, targets[, pep_algorithm])`: it answers exactly
when the name (or the default) is in the table and the estimator produced values, with that
estimator's result; an unknown name is a `KeyError`. -/
theorem C06_pep_entry_point (arg : Option (List Char)) (k : Kern) (xs : List Psm) (ind : List Nat) :
    (∀ r, pepsFromScoresOf arg k xs ind = .ok r ↔
      ∃ a, pepAlgOfArg arg = some a ∧ pepsOfAlg a k xs ind = some r) ∧
    (pepsFromScoresOf arg k xs ind = .error "KeyError" ↔ pepAlgOfArg arg = none) ∧
    pepsFromScoresOf none k xs ind = pepsFromScoresOf (some nmQvality) k xs ind := by
  unfold pepsFromScoresOf
  refine ⟨?_, ?_, rfl⟩
  · intro r
    cases h : pepAlgOfArg arg with
    | none => simp [Option.elim]
    | some a =>
      cases h2 : pepsOfAlg a k xs ind with
      | none => simp [Option.elim, h2]
      | some r' => simp [Option.elim, h2]
  · cases h : pepAlgOfArg arg with
    | none => simp [Option.elim]
    | some a =>
      cases h2 : pepsOfAlg a k xs ind with
      | none => simp [Option.elim, h2]
      | some r' => simp [Option.elim, h2]

/-! ## default pipelines of the alternative q-value estimators -/

/-- **from_peps, default pipeline, shape**: with no PEPs handed in, the code takes those of
`hist_nnls`.  With NO hypothesis on the kernel outputs `(es, d)` (the final clip of `hist_nnls`
and the running maximum of `qvalues_from_peps` do the work) and for *any* `ind`: one q-value
per PSM, in `[0,1]` — a mean of PEPs is a probability —, never decreasing as the score worsens,
equal for equal scores. -/
theorem C06_from_peps_default_shape (es d : List Rat) (xs : List Psm)
    (ind : List Nat) (r : List Rat) (hr : fromPepsHistOf es d xs ind = some r) :
    Shape 0 (some 1) (xs.map (·.1)) r := by
  unfold fromPepsHistOf at hr
  cases hh : histNnlsOf es d (xs.map (·.1)) with
  | none => rw [hh] at hr; cases hr
  | some peps =>
    rw [hh] at hr
    simp only [Option.bind_some] at hr
    have hpeps := histNnlsOf_some es d _ peps hh
    have hent : ∀ e ∈ takeIdx ((0, false), 0) (xs.zip peps) ind, 0 ≤ e.2 ∧ e.2 ≤ 1 := by
      intro e he
      rcases mem_takeIdx _ _ _ _ he with hm | rfl
      · have := mem_zip_snd hm
        rw [hpeps] at this
        obtain ⟨s, _, hs⟩ := List.mem_map.mp this
        rw [← hs]
        exact histPepFun_range es d s
      · exact ⟨le_refl _, by norm_num⟩
    unfold fromPepsOf at hr
    split at hr
    · cases hr
    · rename_i hne
      cases hr
      have hne' : ((takeIdx ((0, false), 0) (xs.zip peps) ind).filter isTgt).isEmpty = false := by
        simpa using hne
      apply shape_map 0 (some 1) (interp (pepKnots _))
      · intro a b hab
        exact interp_anti _ (pepKnots_anti _) hab
      · intro a
        refine ⟨interp_nonneg _ a (pepKnots_nonneg _ (fun e he => (hent e he).1)), ?_⟩
        intro h hh'
        cases hh'
        exact interp_le _ (pepKnots_ne_nil _ hne') 1 a (pepKnots_le 1 _ (fun e he => (hent e he).2))

/-- **from_peps, default pipeline, alignment**: for every arrangement `ys` of the data set and
every admissible `argsort`, the `i`-th q-value is `interp (pepKnots sx)` at the `i`-th PSM's own
score, `sx` being any descending arrangement of the data set with the `hist_nnls` PEPs of the
kernel outputs `(es, d)` — one function of the score for all input orders.  Hypothesis: there
is a target (since the repair 835a908 the `hist_nnls` PEPs always exist; the former hypothesis
`pep_est[0] ≠ 0` is gone). -/
theorem C06_from_peps_default_perm_equivariant (es d : List Rat) (xs ys : List Psm)
    (hperm : ys.Perm xs) (ind : List Nat) (hind : ValidArgsort ys ind)
    (htgt : ∃ x ∈ xs, x.2 = true)
    (sx : List (Psm × Rat)) (hsx : sx.Perm (xs.map (fun x => (x, histPepFun es d x.1))))
    (h1 : sx.Pairwise (fun a b => b.1.1 ≤ a.1.1)) :
    fromPepsHistOf es d ys ind = some (ys.map (fun y => interp (pepKnots sx) y.1)) := by
  unfold fromPepsHistOf
  have hh : histNnlsOf es d (ys.map (·.1)) = some ((ys.map (·.1)).map (histPepFun es d)) := by
    rfl
  rw [hh]
  simp only [Option.bind_some]
  have hz : ys.zip ((ys.map (·.1)).map (histPepFun es d)) = ys.map (fun y => (y, histPepFun es d y.1)) := by
    rw [List.map_map]
    exact zip_map_self ys (fun y => histPepFun es d y.1)
  apply C06_from_peps_perm_equivariant (histPepFun es d) xs ys hperm sx _ hsx ?_ h1 ?_ htgt
  · rw [← hz]
    apply takeIdx_perm
    have : (ys.zip ((ys.map (·.1)).map (histPepFun es d))).length = ys.length := by simp
    rw [this]
    exact hind.1
  · exact takeIdx_zip_sorted ys _ (by simp) ind hind

/-- the factor `pi0 · #T/#D` of `qvalues_from_counts` depends on the multiset of labels only,
and is `≥ 0` when `pi0` is -/
theorem C06_counts_factor (pi0 : Rat) (xs ys : List Psm) (hperm : ys.Perm xs) :
    countsFactor pi0 ys = countsFactor pi0 xs ∧ (0 ≤ pi0 → 0 ≤ countsFactor pi0 xs) := by
  constructor
  · unfold countsFactor numTargets numDecoys
    rw [(hperm.filter _).length_eq, (hperm.filter _).length_eq]
  · intro h
    unfold countsFactor
    exact mul_nonneg h (div_nonneg (by exact_mod_cast Nat.zero_le _) (by exact_mod_cast Nat.zero_le _))

/-- **from_counts with its own factor, shape**: for `pi0 ≥ 0` (the only kernel value) and *any*
`ind`, one q-value `≥ 0` per PSM, never decreasing as the score worsens, equal for equal scores. -/
theorem C06_from_counts_pi0_shape (pi0 : Rat) (hpi : 0 ≤ pi0) (xs : List Psm) (ind : List Nat)
    (r : List Rat) (hr : fromCountsPi0Of pi0 xs ind = some r) : Shape 0 none (xs.map (·.1)) r := by
  unfold fromCountsPi0Of at hr
  split at hr
  · cases hr
  · exact C06_from_counts_shape _ ((C06_counts_factor pi0 xs xs (List.Perm.refl _)).2 hpi) _ _ r hr

/-- **from_counts with its own factor, alignment when no target ties with a decoy** -/
theorem C06_from_counts_pi0_perm_equivariant_no_td_ties (pi0 : Rat) (xs ys : List Psm)
    (hperm : ys.Perm xs) (ind : List Nat) (hind : ValidArgsort ys ind) (hdec : numDecoys xs ≠ 0)
    (sx : List Psm) (hsx : sx.Perm xs) (h1 : sx.Pairwise (fun a b => b.1 ≤ a.1))
    (hnt : ∀ a ∈ xs, ∀ b ∈ xs, a.1 = b.1 → a.2 = b.2) (htop : (sx.headD (0, false)).2 = true) :
    fromCountsPi0Of pi0 ys ind
      = some (ys.map (fun y => interp (countKnots (countsFactor pi0 xs) sx) y.1)) := by
  unfold fromCountsPi0Of
  have hd : numDecoys ys = numDecoys xs := by
    unfold numDecoys
    exact (hperm.filter _).length_eq
  rw [if_neg (by rw [hd]; exact hdec), (C06_counts_factor pi0 xs ys hperm).1]
  exact C06_from_counts_perm_equivariant_no_td_ties _ xs ys hperm sx _ hsx
    (takeIdx_perm (0, false) ys ind hind.1) h1 (takeIdx_psm_sorted ys ind hind) hnt htop

/-- **every alternative q-value estimator offered** (`from_peps`, `from_counts`; `tdc` is C01):
from `pi0 ≥ 0` alone, one non-negative q-value per PSM, never decreasing as the
score worsens, equal for equal scores — whatever `np.argsort` does with ties. -/
theorem C06_every_alt_qvalue_estimator (a : QAlg) (k : Kern) (pi0 : Rat) (hpi : 0 ≤ pi0) (xs : List Psm) (ind : List Nat) (r : List Rat)
    (hr : altQvaluesOfAlg a k pi0 xs ind = some r) : Shape 0 none (xs.map (·.1)) r := by
  cases a with
  | tdc => simp [altQvaluesOfAlg] at hr
  | fromPeps =>
    have h := C06_from_peps_default_shape k.es k.d xs ind r hr
    exact ⟨h.length, fun v hv => ⟨(h.range v hv).1, fun _ hh => by cases hh⟩, h.antitone⟩
  | fromCounts => exact C06_from_counts_pi0_shape pi0 hpi xs ind r hr

/-! ## result files -/

/-- **the chunk size is invisible**: for every chunk size `c ≥ 1` (`CONFIDENCE_CHUNK_SIZE`) the
chunked writer — level rows, q-values, PEPs and labels each cut into chunks of `c` and zipped —
writes to `targets.<level>` exactly the target rows of the level, in level order, each with the
q-value and the PEP of its own position; likewise `decoys.<level>`, which exists iff `decoys`. -/
theorem C06_write_confidences_chunk_independent (c : Nat) (hc : 1 ≤ c) (decoys : Bool)
    (rows : List LRow) (qs ps : List Rat) (hq : qs.length = rows.length) (hp : ps.length = rows.length) :
    writeConfidences c decoys (rows.map (fun r => (r.id, r.score))) qs ps (rows.map (fun r => r.target))
      = some (fileSpec true rows qs ps, if decoys then some (fileSpec false rows qs ps) else none) :=
  writeConfidences_level c hc decoys rows qs ps hq hp

/-- the level loop, when the PEP estimator returns one value per row and the `peps_error` gate
does not fire: the files are the declarative ones, for every chunk size -/
theorem C06_level_files_spec (c : Nat) (hc : 1 ≤ c) (decoys desc pepsError : Bool)
    (Q : List Psm → List Rat) (P : List Psm → PepCall) (rows : List LRow) (peps : List Rat)
    (hQ : (Q (levelPsms rows)).length = rows.length)
    (hP : P (signedPsms desc rows) = PepCall.ok peps) (hlen : peps.length = rows.length)
    (hgate : (pepsError && peps.all (fun p => decide (p = 1))) = false) :
    levelFiles c decoys desc pepsError Q P rows
      = .ok (fileSpec true rows (Q (levelPsms rows)) peps,
             if decoys then some (fileSpec false rows (Q (levelPsms rows)) peps) else none) := by
  unfold levelFiles
  rw [hP]
  simp only [levelPeps, Except.bind, pepsErrorGate, hgate, Bool.false_eq_true, if_false]
  rw [writeConfidences_level c hc decoys rows _ peps hQ hlen]
  rfl

/-- **each PSM receives one row** (`decoys = True`): the identifiers in `targets.<level>` followed
by those in `decoys.<level>` are the level's identifiers, each once; the targets file holds
exactly the target rows in level order. -/
theorem C06_result_files_partition (rows : List LRow) (qs ps : List Rat)
    (hq : qs.length = rows.length) (hp : ps.length = rows.length) :
    ((fileSpec true rows qs ps ++ fileSpec false rows qs ps).map (·.id)).Perm (rows.map (·.id)) ∧
    (fileSpec true rows qs ps).map (·.id) = (rows.filter (fun r => r.target == true)).map (·.id) ∧
    (fileSpec false rows qs ps).map (·.id) = (rows.filter (fun r => r.target == false)).map (·.id) := by
  have hfst : (rows.zip (qs.zip ps)).map Prod.fst = rows :=
    List.map_fst_zip (by simp [List.length_zip, hq, hp])
  have hside : ∀ keep : Bool, (fileSpec keep rows qs ps).map (·.id)
      = (rows.filter (fun r => r.target == keep)).map (·.id) := by
    intro keep
    unfold fileSpec
    rw [List.map_map]
    conv_rhs => rw [← hfst]
    rw [List.filter_map, List.map_map]
    rfl
  refine ⟨?_, hside true, hside false⟩
  rw [List.map_append, hside true, hside false, ← List.map_append]
  apply List.Perm.map
  have hfun : (fun r : LRow => r.target == false) = (fun r => !(r.target == true)) := by
    funext r
    cases r.target <;> rfl
  rw [hfun]
  exact List.filter_append_perm _ rows

/-- **the PEP column is aligned with its row**: if the estimator returns, for the (signed) level
scores, `F` of each score — which `C06_every_pep_estimator` guarantees for every table entry and
every arrangement —, then every row of either result file carries `F` of its own (signed) score. -/
theorem C06_result_file_pep_of_own_score (keep desc : Bool) (F : Rat → Rat) (rows : List LRow)
    (qs : List Rat) (o : ORow)
    (ho : o ∈ fileSpec keep rows qs ((signedPsms desc rows).map (fun x => F x.1))) :
    o.pep = F (o.score * signOf desc) ∧ ∃ r ∈ rows, r.target = keep ∧ r.id = o.id ∧ r.score = o.score := by
  obtain ⟨i, hi, hq, hp, hk, rfl⟩ := mem_fileSpec ho
  refine ⟨?_, rows[i], List.getElem_mem hi, hk, rfl, rfl⟩
  simp [signedPsms]

/-- **the PEP column of a result file has the shape of C06** (`desc = True`, the only value
`assign_confidence` passes on): for an estimator response `F` that is non-increasing with values
in `[0,1]`, the column is in `[0,1]`, never decreases as the file's score worsens, and rows with
equal scores carry equal PEPs. -/
theorem C06_result_file_pep_column_shape (keep : Bool) (F : Rat → Rat)
    (hanti : ∀ a b, a ≤ b → F b ≤ F a) (hrange : ∀ a, 0 ≤ F a ∧ F a ≤ 1) (rows : List LRow) (qs : List Rat) :
    Shape 0 (some 1)
      ((fileSpec keep rows qs ((signedPsms true rows).map (fun x => F x.1))).map (·.score))
      ((fileSpec keep rows qs ((signedPsms true rows).map (fun x => F x.1))).map (·.pep)) := by
  have h : (fileSpec keep rows qs ((signedPsms true rows).map (fun x => F x.1))).map (·.pep)
      = ((fileSpec keep rows qs ((signedPsms true rows).map (fun x => F x.1))).map (·.score)).map F := by
    rw [List.map_map]
    apply List.map_congr_left
    intro o ho
    have := (C06_result_file_pep_of_own_score keep true F rows qs o ho).1
    simpa [signOf] using this
  rw [h]
  apply shape_map 0 (some 1) F hanti
  intro a
  refine ⟨(hrange a).1, ?_⟩
  intro h' hh
  cases hh
  exact (hrange a).2

/-- the `SystemExit("… no decoy hits available for PEP calculation …")` branch: every row is
written with PEP 0 (a constant in `[0,1]`); any other exit or exception is passed on. -/
theorem C06_level_no_decoys_fallback (c : Nat) (hc : 1 ≤ c) (decoys desc : Bool)
    (Q : List Psm → List Rat) (P : List Psm → PepCall) (rows : List LRow)
    (hQ : (Q (levelPsms rows)).length = rows.length) :
    (P (signedPsms desc rows) = PepCall.exitNoDecoys →
      levelFiles c decoys desc false Q P rows
        = .ok (fileSpec true rows (Q (levelPsms rows)) (List.replicate rows.length 0),
               if decoys then some (fileSpec false rows (Q (levelPsms rows)) (List.replicate rows.length 0))
               else none)) ∧
    (∀ keep, ∀ o ∈ fileSpec keep rows (Q (levelPsms rows)) (List.replicate rows.length 0), o.pep = 0) ∧
    (P (signedPsms desc rows) = PepCall.exitOther →
      levelFiles c decoys desc false Q P rows = .error "SystemExit") ∧
    (P (signedPsms desc rows) = PepCall.raised →
      levelFiles c decoys desc false Q P rows = .error "raised") := by
  refine ⟨?_, ?_, ?_, ?_⟩
  · intro hP
    unfold levelFiles
    rw [hP]
    simp only [levelPeps, Except.bind, pepsErrorGate, Bool.false_and, Bool.false_eq_true, if_false]
    rw [writeConfidences_level c hc decoys rows _ _ hQ (by simp)]
    rfl
  · intro keep o ho
    obtain ⟨i, hi, hq, hp, _, rfl⟩ := mem_fileSpec ho
    simp
  · intro hP
    unfold levelFiles
    rw [hP]
    rfl
  · intro hP
    unfold levelFiles
    rw [hP]
    rfl

/-- the `peps_error` gate: with the option set the level raises `ValueError` exactly when every
PEP equals 1 (including the level without rows); without the option it never fires. -/
theorem C06_level_peps_error_gate (pepsError : Bool) (peps : List Rat) :
    (pepsErrorGate pepsError peps = .error "ValueError" ↔ (pepsError = true ∧ ∀ p ∈ peps, p = 1)) ∧
    (pepsErrorGate false peps = .ok peps) := by
  constructor
  · unfold pepsErrorGate
    by_cases h : (pepsError && peps.all (fun p => decide (p = 1))) = true
    · simp only [h, if_true, true_iff]
      simpa using h
    · simp only [h, Bool.false_eq_true, if_false, reduceCtorEq, false_iff]
      intro hh
      apply h
      simpa using hh
  · simp [pepsErrorGate]

/-! ## Non-vacuity -/

/-- the hypotheses of `C06_every_pep_estimator` are met for every table entry: the sorting kernel
of `Props/C06.lean` with the response `clip 0 1 (1 - x)`, a non-negative NNLS solution -/
example (a : PepAlg) (xs : List Psm) :
    PepKernelOK a (fun x => clip 0 1 (1 - x))
      { qv := fun ts ds => ((ts ++ ds).mergeSort (fun p q => decide (q ≤ p))).map (fun x => clip 0 1 (1 - x)),
        es := [0, 1, 2], d := [1/4, 1/4, 1/2] } xs := by
  refine ⟨fun _ => ⟨?_, fun p q h => clip_mono 0 1 (by linarith),
    fun p => ⟨le_clip 0 1 _ (by norm_num), clip_le 0 1 _⟩⟩, fun _ => by decide +kernel⟩
  intro ts ds _ _ s hs hsorted
  have hm := List.pairwise_mergeSort (le := fun a b : Rat => decide (b ≤ a))
    (fun a b c h1 h2 => by simp only [decide_eq_true_eq] at *; exact le_trans h2 h1)
    (fun a b => by rcases le_total a b with h | h <;> simp [h]) (ts ++ ds)
  have : (ts ++ ds).mergeSort (fun a b => decide (b ≤ a)) = s := by
    apply sorted_unique (fun x : Rat => x)
    · exact (List.mergeSort_perm _ _).trans hs.symm
    · exact hm.imp (fun h => by simpa using h)
    · exact hsorted
    · intro a _ b _ h; exact h
  simp only [this]

/-- hypotheses of the default from_peps pipeline on concrete data: PEPs exist, a target exists,
`[1, 0]` is the admissible argsort of the scores `(1, 2)` -/
example : (revCumsum [(1 : Rat) / 8, 1 / 8, 1 / 4]).headD 0 ≠ 0 ∧
    (∃ x ∈ [((1 : Rat), true), (2, false)], x.2 = true) ∧
    ValidArgsort [((1 : Rat), true), (2, false)] [1, 0] := by
  refine ⟨by decide +kernel, ⟨(1, true), by simp, rfl⟩, ?_, ?_⟩
  · decide
  · decide +kernel

/-- hypotheses of the from_counts alignment theorems on concrete data: decoys exist, no target
ties with a decoy, the top-ranked PSM of the descending arrangement is a target -/
example : numDecoys [((2 : Rat), true), (1, false)] ≠ 0 ∧
    (∀ a ∈ [((2 : Rat), true), (1, false)], ∀ b ∈ [((2 : Rat), true), (1, false)], a.1 = b.1 → a.2 = b.2) ∧
    (([((2 : Rat), true), (1, false)] : List Psm).headD (0, false)).2 = true ∧
    ValidArgsort [((2 : Rat), true), (1, false)] [0, 1] := by
  refine ⟨by decide, by decide +kernel, rfl, by decide, by decide +kernel⟩

/-- a level on which the gate does not fire and the estimator answers row by row -/
example : levelFiles 2 true true true (fun xs => xs.map (fun _ => 0))
      (fun xs => PepCall.ok (xs.map (fun x => clip 0 1 (1 - x.1 / 4))))
      [⟨7, 3, true⟩, ⟨8, 2, false⟩, ⟨9, 1, true⟩]
    = .ok ([⟨7, 3, 0, 1/4⟩, ⟨9, 1, 0, 3/4⟩], some [⟨8, 2, 0, 1/2⟩]) := by
  decide +kernel

-- evaluation tests (compiler-evaluated: *tests*, not theorems)
#guard pepAlgOfArg none == some PepAlg.qvality
#guard pepAlgOfArg (some "hist_nnls".toList) == some PepAlg.histNnls
#guard pepAlgOfArg (some "hist".toList) == none
#guard qAlgOfArg none == some QAlg.tdc
#guard fromPepsHistOf [0, 1, 2] [1/8, 1/8, 1/4] [(2, true), (0, true), (1, false), (1, true)] [0, 2, 3, 1]
    == some [1/4, 7/12, 3/8, 3/8]
#guard fromCountsPi0Of (1/2) [(3, true), (1, false), (2, true), (0, true)] [0, 2, 1, 3] == some [0, 3/4, 0, 3/4]
#guard fromCountsPi0Of 1 [(3, true), (1, true)] [0, 1] == none
#guard writeConfidences 2 false [(7, 3), (8, 2), (9, 1)] [0, 0, 0] [1/4, 1/2, 3/4] [true, false, true]
    == some ([⟨7, 3, 0, 1/4⟩, ⟨9, 1, 0, 3/4⟩], none)
-- a PEP sequence one chunk short: `zip` stops, the last row is silently not written
#guard writeConfidences 2 true [(7, 3), (8, 2), (9, 1)] [0, 0, 0] [1/4, 1/2] [true, false, true]
    == some ([⟨7, 3, 0, 1/4⟩], some [⟨8, 2, 0, 1/2⟩])
-- a chunk of PEPs shorter than its chunk of rows: pandas raises
#guard writeConfidences 2 true [(7, 3), (8, 2), (9, 1), (6, 0)] [0, 0, 0, 0] [1/4, 1/2, 3/4] [true, false, true, true]
    == none

end Mk
