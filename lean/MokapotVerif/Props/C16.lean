import MokapotVerif.Lemmas.GroupingSpec
/-!
# C16 — Protein grouping is a maximal-subset grouping with a consistent peptide map

Property theorems only.  Setting of every theorem:

* `entries` — the FASTA entries after digestion, `(name, peptide set)` in file
  order, any number of entries; `protsOf entries` are those with at least one
  peptide.  Hypothesis `WF (protsOf entries)`: distinct names, peptide sets
  duplicate-free (they are Python sets).
* `srt` — *any* arrangement of these proteins by decreasing number of peptides
  (whatever a stable or unstable sort does with ties, whatever the order of
  the FASTA entries was).
* `enum` — *any* enumeration order of the set `matches` at every step (hash
  seed / set iteration order): `∀ n s, (enum n s).Perm s`.
* `isDecoy`, `mkDecoy` — arbitrary (the code uses `startswith(prefix)` and
  `prefix + name`).
* `o` — the result, `readFastaOf … = some o` (`none` is the `ValueError` for a
  FASTA without target proteins).

A group is a pair `(k, S)`: `k` the member names in the order of the
`", "`-joined group name, `S` its peptide set.
-/
namespace Mk.Grouping
variable {α β : Type} [DecidableEq α] [DecidableEq β]

/-- hub: the final `grouped` dict is a maximal-subset grouping and the two peptide
dicts are its consistent peptide maps -/
theorem C16_result_meets_spec (isDecoy : α → Bool) (mkDecoy : α → α)
    (enum : Nat → List (GKey α) → List (GKey α)) (henum : ∀ n s, (enum n s).Perm s)
    (entries srt : List (Prot α β)) (hwf : WF (protsOf entries))
    (hperm : srt.Perm (protsOf entries))
    (hsorted : srt.Pairwise (fun a b => b.2.length ≤ a.2.length))
    (o : Out α β) (ho : readFastaOf isDecoy mkDecoy enum entries srt = some o) :
    IsGrouping (protsOf entries) o.groups ∧
      IsPeptideMap (protsOf entries) o.groups o.peptideMap o.shared := by
  obtain ⟨h1, h2, _, _, h5⟩ := readFastaOf_eq_some _ _ _ _ _ _ ho
  obtain ⟨hG, hP, _⟩ := run_inv enum henum entries srt hwf hperm hsorted
  have hgrp : IsGrouping (protsOf entries) (finalSt enum entries srt).grouped :=
    isGrouping_of_GI hG (fun e => hperm.mem_iff)
  rw [h1, h2, h5]
  exact ⟨hgrp, isPeptideMap_of_PI hwf hgrp hP (finalSt_keys enum entries srt)⟩

section
set_option linter.unusedSectionVars false
variable (isDecoy : α → Bool) (mkDecoy : α → α)
  (enum : Nat → List (GKey α) → List (GKey α)) (henum : ∀ n s, (enum n s).Perm s)
  (entries srt : List (Prot α β)) (hwf : WF (protsOf entries))
  (hperm : srt.Perm (protsOf entries))
  (hsorted : srt.Pairwise (fun a b => b.2.length ≤ a.2.length))
  (o : Out α β) (ho : readFastaOf isDecoy mkDecoy enum entries srt = some o)
include henum hwf hperm hsorted ho

/-- every protein that yields at least one peptide belongs to a protein group -/
theorem C16_every_protein_grouped (q : α) (Sq : List β) (hq : (q, Sq) ∈ entries) (hne : Sq ≠ []) :
    ∃ k S, (k, S) ∈ o.groups ∧ q ∈ k :=
  (C16_result_meets_spec isDecoy mkDecoy enum henum entries srt hwf hperm hsorted o ho).1.covered q Sq
    ((mem_protsOf _ _).mpr ⟨hq, hne⟩)

/-- each group's peptide set is that of one of its members — namely of the first
name in the group name -/
theorem C16_group_set_is_member_set (k : GKey α) (S : List β) (hk : (k, S) ∈ o.groups) :
    ∃ q, k.head? = some q ∧ (q, S) ∈ entries := by
  obtain ⟨_, _, _, _, h5⟩ := readFastaOf_eq_some _ _ _ _ _ _ ho
  obtain ⟨hG, _, _⟩ := run_inv enum henum entries srt hwf hperm hsorted
  rw [h5] at hk
  obtain ⟨q, hq1, hq2⟩ := hG.founder k S hk
  exact ⟨q, hq1, ((mem_protsOf _ _).mp (hperm.mem_iff.mp hq2)).1⟩

/-- each group's peptide set contains the peptides of all its members (and every
member is a protein of the FASTA, listed once) -/
theorem C16_members_subsets (k : GKey α) (S : List β) (hk : (k, S) ∈ o.groups) :
    k.Nodup ∧ ∀ q ∈ k, ∃ Sq, (q, Sq) ∈ entries ∧ Sq ⊆ S := by
  have h := (C16_result_meets_spec isDecoy mkDecoy enum henum entries srt hwf hperm hsorted o ho).1
  refine ⟨h.member_nodup k S hk, ?_⟩
  intro q hq
  obtain ⟨Sq, h1, h2⟩ := (h.members k S hk q).mp hq
  exact ⟨Sq, ((mem_protsOf _ _).mp h1).1, h2⟩

/-- maximal-subset grouping: a group contains *every* protein whose peptide set lies
inside the group's -/
theorem C16_members_exact (k : GKey α) (S : List β) (hk : (k, S) ∈ o.groups)
    (q : α) (Sq : List β) (hq : (q, Sq) ∈ entries) (hne : Sq ≠ []) : q ∈ k ↔ Sq ⊆ S := by
  have h := (C16_result_meets_spec isDecoy mkDecoy enum henum entries srt hwf hperm hsorted o ho).1
  have hqP : (q, Sq) ∈ protsOf entries := (mem_protsOf _ _).mpr ⟨hq, hne⟩
  rw [h.members k S hk q]
  constructor
  · rintro ⟨Sq', h1, h2⟩
    have : Sq' = Sq := val_unique _ hwf.names _ _ _ h1 hqP
    subst this; exact h2
  · intro hsub; exact ⟨Sq, hqP, hsub⟩

/-- no group's peptide set is contained in another group's (in particular no two
groups have the same peptide set, and group names are distinct) -/
theorem C16_no_group_contained (k1 : GKey α) (S1 : List β) (k2 : GKey α) (S2 : List β)
    (h1 : (k1, S1) ∈ o.groups) (h2 : (k2, S2) ∈ o.groups) (hsub : S1 ⊆ S2) :
    k1 = k2 ∧ S1 = S2 := by
  have h := (C16_result_meets_spec isDecoy mkDecoy enum henum entries srt hwf hperm hsorted o ho).1
  have e := h.anti k1 S1 k2 S2 h1 h2 hsub
  subst e
  exact ⟨rfl, val_unique _ h.keys_nodup _ _ _ h1 h2⟩

/-- the group peptide sets are exactly the maximal peptide sets of the FASTA:
(a) no protein's set strictly contains a group's set, (b) every protein whose
set is maximal founds — up to the enumeration of the set — a group -/
theorem C16_groups_are_the_maximal_sets :
    (∀ k S, (k, S) ∈ o.groups → ∀ q Sq, (q, Sq) ∈ entries → S ⊆ Sq → Sq ⊆ S) ∧
    (∀ q Sq, (q, Sq) ∈ entries → Sq ≠ [] →
      (∀ q' Sq', (q', Sq') ∈ entries → Sq ⊆ Sq' → Sq' ⊆ Sq) →
      ∃ k S, (k, S) ∈ o.groups ∧ q ∈ k ∧ ∀ p, p ∈ S ↔ p ∈ Sq) := by
  have h := (C16_result_meets_spec isDecoy mkDecoy enum henum entries srt hwf hperm hsorted o ho).1
  constructor
  · intro k S hk q Sq hq hsub
    obtain ⟨f, _, hf⟩ := h.founder k S hk
    have hSne : S ≠ [] := (hwf.peps f S hf).1
    have hSqne : Sq ≠ [] := by
      intro h0; rw [h0] at hsub
      cases S with
      | nil => exact hSne rfl
      | cons a t => simpa using hsub (List.mem_cons_self)
    have hqP : (q, Sq) ∈ protsOf entries := (mem_protsOf _ _).mpr ⟨hq, hSqne⟩
    obtain ⟨k', S', hk', hqk'⟩ := h.covered q Sq hqP
    obtain ⟨Sq', h1, h2⟩ := (h.members k' S' hk' q).mp hqk'
    have e : Sq' = Sq := val_unique _ hwf.names _ _ _ h1 hqP
    subst e
    have hkk : k = k' := h.anti k S k' S' hk hk' (fun p hp => h2 (hsub hp))
    subst hkk
    have e2 : S' = S := val_unique _ h.keys_nodup _ _ _ hk' hk
    subst e2
    exact h2
  · intro q Sq hq hne hmax
    have hqP : (q, Sq) ∈ protsOf entries := (mem_protsOf _ _).mpr ⟨hq, hne⟩
    obtain ⟨k, S, hk, hqk⟩ := h.covered q Sq hqP
    obtain ⟨Sq', h1, h2⟩ := (h.members k S hk q).mp hqk
    have e : Sq' = Sq := val_unique _ hwf.names _ _ _ h1 hqP
    subst e
    obtain ⟨f, _, hf⟩ := h.founder k S hk
    have h3 : S ⊆ Sq' := hmax f S ((mem_protsOf _ _).mp hf).1 h2
    exact ⟨k, S, hk, hqk, fun p => ⟨fun hp => h3 hp, fun hp => h2 hp⟩⟩

/-- each peptide recorded as unique maps to the single group that contains it, and
every peptide contained in exactly one group is recorded so -/
theorem C16_unique_iff_one_group (p : β) (k : GKey α) :
    (p, k) ∈ o.peptideMap ↔
      (∃ S, (k, S) ∈ o.groups ∧ p ∈ S) ∧ ∀ k' S', (k', S') ∈ o.groups → p ∈ S' → k' = k :=
  (C16_result_meets_spec isDecoy mkDecoy enum henum entries srt hwf hperm hsorted o ho).2.unique_iff p k

/-- exactly the peptides contained in two or more groups are recorded as shared -/
theorem C16_shared_iff_two_or_more (p : β) :
    p ∈ o.shared.map (·.1) ↔
      ∃ k1 S1 k2 S2, (k1, S1) ∈ o.groups ∧ (k2, S2) ∈ o.groups ∧ k1 ≠ k2 ∧ p ∈ S1 ∧ p ∈ S2 :=
  (C16_result_meets_spec isDecoy mkDecoy enum henum entries srt hwf hperm hsorted o ho).2.shared_iff p

/-- the value recorded for a shared peptide lists, once each, exactly the groups that
contain it -/
theorem C16_shared_lists_all_groups (p : β) (ks : List (GKey α)) (h : (p, ks) ∈ o.shared) :
    ks.Nodup ∧ ∀ k, k ∈ ks ↔ ∃ S, (k, S) ∈ o.groups ∧ p ∈ S :=
  (C16_result_meets_spec isDecoy mkDecoy enum henum entries srt hwf hperm hsorted o ho).2.shared_all p ks h

/-- every peptide of the FASTA is recorded in exactly one of the two dicts, once, and
nothing else is recorded -/
theorem C16_every_peptide_recorded_once :
    (o.peptideMap.map (·.1) ++ o.shared.map (·.1)).Nodup ∧
    ∀ p, (p ∈ o.peptideMap.map (·.1) ∨ p ∈ o.shared.map (·.1)) ↔ ∃ q S, (q, S) ∈ entries ∧ p ∈ S := by
  have h := (C16_result_meets_spec isDecoy mkDecoy enum henum entries srt hwf hperm hsorted o ho).2
  refine ⟨h.keys_nodup, ?_⟩
  intro p
  rw [h.recorded p]
  constructor
  · rintro ⟨q, S, hq, hp⟩; exact ⟨q, S, ((mem_protsOf _ _).mp hq).1, hp⟩
  · rintro ⟨q, S, hq, hp⟩
    refine ⟨q, S, (mem_protsOf _ _).mpr ⟨hq, ?_⟩, hp⟩
    intro h0; simp only at h0; rw [h0] at hp; simp at hp

/-- each target protein (with peptides) is paired with the equally named prefixed
decoy, and nothing else is in the map -/
theorem C16_decoy_pairing (t d : α) :
    (t, d) ∈ o.proteinMap ↔
      (∃ S, (t, S) ∈ entries ∧ S ≠ []) ∧ isDecoy t = false ∧ d = mkDecoy t := by
  obtain ⟨_, _, h3, _, _⟩ := readFastaOf_eq_some _ _ _ _ _ _ ho
  rw [h3, buildProteins_eq entries hwf, mem_decoyMap]
  constructor
  · rintro ⟨⟨S, hS⟩, h1, h2⟩; exact ⟨⟨S, (mem_protsOf _ _).mp hS⟩, h1, h2⟩
  · rintro ⟨⟨S, hS⟩, h1, h2⟩; exact ⟨⟨S, (mem_protsOf _ _).mpr hS⟩, h1, h2⟩

/-- `has_decoys` is set iff the prefixed name of some target is itself a protein -/
theorem C16_has_decoys_iff :
    o.hasDecoys = true ↔ ∃ t S S', (t, S) ∈ protsOf entries ∧ isDecoy t = false ∧
      (mkDecoy t, S') ∈ protsOf entries := by
  obtain ⟨_, _, _, h4, _⟩ := readFastaOf_eq_some _ _ _ _ _ _ ho
  rw [h4, buildProteins_eq entries hwf, hasDecoys_iff]

end

/-- the loop never raises: on a well-formed input, in every run, each `grouped.pop(match)`
finds its key and each `peptides[pep].remove(match)` finds its element (no `KeyError`),
so the total `filter` / `erase` of the model never silently default -/
theorem C16_no_keyerror (enum : Nat → List (GKey α) → List (GKey α)) (henum : ∀ n s, (enum n s).Perm s)
    (entries srt : List (Prot α β)) (hwf : WF (protsOf entries))
    (hperm : srt.Perm (protsOf entries))
    (hsorted : srt.Pairwise (fun a b => b.2.length ≤ a.2.length)) :
    groupGoSafe enum ⟨[], pepmap0 entries⟩ srt = true :=
  (run_inv enum henum entries srt hwf hperm hsorted).2.2

/-- `read_fasta` refuses (ValueError) exactly the FASTA files without a target
protein that has peptides -/
theorem C16_rejects_iff_only_decoys (isDecoy : α → Bool) (mkDecoy : α → α)
    (enum : Nat → List (GKey α) → List (GKey α)) (entries srt : List (Prot α β))
    (hwf : WF (protsOf entries)) :
    readFastaOf isDecoy mkDecoy enum entries srt = none ↔
      ∀ q S, (q, S) ∈ entries → S ≠ [] → isDecoy q = true := by
  rw [readFastaOf_eq_none_iff, buildProteins_eq entries hwf]
  constructor
  · intro h q S hq hne; exact h q S ((mem_protsOf _ _).mpr ⟨hq, hne⟩)
  · intro h q S hq; exact h q S ((mem_protsOf _ _).mp hq).1 ((mem_protsOf _ _).mp hq).2

/-- **order / hash independence**: two runs on the same proteins — entries in any
order, each peptide set enumerated in any order, ties of the size sort broken in
any way, the match sets iterated in any order — produce the same groups as sets
of (member set, peptide set), the same unique-peptide map up to the order of
names inside a group name, the same shared peptides with the same groups, and
the same target/decoy pairing.  (Apply it twice for the converse directions.) -/
theorem C16_order_independent (isDecoy : α → Bool) (mkDecoy : α → α)
    (enum enum' : Nat → List (GKey α) → List (GKey α))
    (henum : ∀ n s, (enum n s).Perm s) (henum' : ∀ n s, (enum' n s).Perm s)
    (entries entries' srt srt' : List (Prot α β))
    (hwf : WF (protsOf entries)) (hwf' : WF (protsOf entries'))
    (hsame : SameInput (protsOf entries) (protsOf entries'))
    (hperm : srt.Perm (protsOf entries)) (hperm' : srt'.Perm (protsOf entries'))
    (hsorted : srt.Pairwise (fun a b => b.2.length ≤ a.2.length))
    (hsorted' : srt'.Pairwise (fun a b => b.2.length ≤ a.2.length))
    (o o' : Out α β) (ho : readFastaOf isDecoy mkDecoy enum entries srt = some o)
    (ho' : readFastaOf isDecoy mkDecoy enum' entries' srt' = some o') :
    SameGroups o.groups o'.groups ∧
    (∀ p k, (p, k) ∈ o.peptideMap → ∃ k', (p, k') ∈ o'.peptideMap ∧ ∀ q, q ∈ k ↔ q ∈ k') ∧
    (∀ p, p ∈ o.shared.map (·.1) → p ∈ o'.shared.map (·.1)) ∧
    (∀ p ks ks', (p, ks) ∈ o.shared → (p, ks') ∈ o'.shared →
      ∀ k ∈ ks, ∃ k' ∈ ks', ∀ q, q ∈ k ↔ q ∈ k') ∧
    (∀ t d, (t, d) ∈ o.proteinMap → (t, d) ∈ o'.proteinMap) := by
  obtain ⟨hg, hm⟩ := C16_result_meets_spec isDecoy mkDecoy enum henum entries srt hwf hperm hsorted o ho
  obtain ⟨hg', hm'⟩ :=
    C16_result_meets_spec isDecoy mkDecoy enum' henum' entries' srt' hwf' hperm' hsorted' o' ho'
  have hsg := isGrouping_unique hwf hwf' hsame hg hg'
  refine ⟨hsg, unique_equiv hsg hg hg' hm hm', shared_equiv hsg hg hg' hm hm',
    shared_groups_equiv hsg hm hm', ?_⟩
  intro t d htd
  obtain ⟨_, _, h3, _, _⟩ := readFastaOf_eq_some _ _ _ _ _ _ ho
  obtain ⟨_, _, h3', _, _⟩ := readFastaOf_eq_some _ _ _ _ _ _ ho'
  rw [h3, buildProteins_eq entries hwf, mem_decoyMap] at htd
  rw [h3', buildProteins_eq entries' hwf', mem_decoyMap]
  obtain ⟨⟨S, hS⟩, h1, h2⟩ := htd
  obtain ⟨S', hS', _⟩ := hsame.1 t S hS
  exact ⟨⟨S', hS'⟩, h1, h2⟩

/-- the executable model run by the driver (`readFasta`: stable sorts as in the code,
sets enumerated in insertion order) is one instance of the quantified runs, so
every theorem above applies to it -/
theorem C16_executable_model_is_instance (isDecoy : α → Bool) (mkDecoy : α → α)
    (entries : List (Prot α β)) (hwf : WF (protsOf entries)) :
    readFasta isDecoy mkDecoy entries =
        readFastaOf isDecoy mkDecoy (fun _ s => s) entries (sortProteins (buildProteins entries)) ∧
      (sortProteins (buildProteins entries)).Perm (protsOf entries) ∧
      (sortProteins (buildProteins entries)).Pairwise (fun a b => b.2.length ≤ a.2.length) ∧
      ∀ (n : Nat) (s : List (GKey α)), ((fun _ s => s : Nat → List (GKey α) → List (GKey α)) n s).Perm s := by
  refine ⟨rfl, ?_, sortProteins_sorted _, fun _ _ => List.Perm.refl _⟩
  rw [buildProteins_eq entries hwf]
  exact sortProteins_perm _

/-- the executable declarative specification used by the harness as the oracle
(`specGroups`: the distinct maximal peptide sets with all proteins inside them;
`specUnique` / `specShared`: peptides in exactly one / in several of them) itself
meets the relational specification — for every well-formed input a
maximal-subset grouping exists -/
theorem C16_spec_functions_meet_spec (P : List (Prot α β)) (hwf : WF P) :
    IsGrouping P (specGroups P) ∧ IsPeptideMap P (specGroups P) (specUnique P) (specShared P) :=
  ⟨specGroups_isGrouping P hwf, spec_isPeptideMap P hwf _ (specGroups_isGrouping P hwf)⟩

/-- the result of every run equals the directly evaluated specification: same groups
as sets, same unique-peptide map (up to the order of names in a group name), same
shared peptides -/
theorem C16_agrees_with_executable_spec (isDecoy : α → Bool) (mkDecoy : α → α)
    (enum : Nat → List (GKey α) → List (GKey α)) (henum : ∀ n s, (enum n s).Perm s)
    (entries srt : List (Prot α β)) (hwf : WF (protsOf entries))
    (hperm : srt.Perm (protsOf entries))
    (hsorted : srt.Pairwise (fun a b => b.2.length ≤ a.2.length))
    (o : Out α β) (ho : readFastaOf isDecoy mkDecoy enum entries srt = some o) :
    SameGroups o.groups (specGroups (protsOf entries)) ∧
    (∀ p k, (p, k) ∈ o.peptideMap →
      ∃ k', (p, k') ∈ specUnique (protsOf entries) ∧ ∀ q, q ∈ k ↔ q ∈ k') ∧
    (∀ p k', (p, k') ∈ specUnique (protsOf entries) →
      ∃ k, (p, k) ∈ o.peptideMap ∧ ∀ q, q ∈ k' ↔ q ∈ k) ∧
    (∀ p, p ∈ o.shared.map (·.1) ↔ p ∈ (specShared (protsOf entries)).map (·.1)) := by
  obtain ⟨hg, hm⟩ := C16_result_meets_spec isDecoy mkDecoy enum henum entries srt hwf hperm hsorted o ho
  obtain ⟨hg', hm'⟩ := C16_spec_functions_meet_spec (protsOf entries) hwf
  have hsame : SameInput (protsOf entries) (protsOf entries) := SameInput.of_perm (List.Perm.refl _)
  have hsg := isGrouping_unique hwf hwf hsame hg hg'
  exact ⟨hsg, unique_equiv hsg hg hg' hm hm', unique_equiv hsg.symm hg' hg hm' hm,
    fun p => ⟨shared_equiv hsg hg hg' hm hm' p, shared_equiv hsg.symm hg' hg hm' hm p⟩⟩

/-! ## Non-vacuity and evaluation tests -/

/-- a concrete well-formed FASTA: A ⊋ B, C overlaps A in peptide 3, `d_A` is A's decoy
and has B's peptide set -/
def exEntries : List (Prot String Nat) :=
  [("B", [1]), ("A", [1, 2, 3]), ("C", [3, 4]), ("d_A", [1]), ("E", [])]

def exDecoy (s : String) : Bool := s.startsWith "d_"
def exMk (s : String) : String := "d_" ++ s

example : WF (protsOf exEntries) := by
  constructor
  · decide
  · intro q S h
    simp only [protsOf, exEntries] at h
    simp at h
    rcases h with ⟨_, rfl⟩ | ⟨_, rfl⟩ | ⟨_, rfl⟩ | ⟨_, rfl⟩ <;> simp

example : (sortProteins (buildProteins exEntries)).Perm (protsOf exEntries) ∧
    (sortProteins (buildProteins exEntries)).Pairwise (fun a b => b.2.length ≤ a.2.length) :=
  ⟨by rw [show buildProteins exEntries = protsOf exEntries from by decide]; exact sortProteins_perm _,
   sortProteins_sorted _⟩

/-- the same structure with numeric names (decoy of `n` is `n + 100`), on which every
hypothesis of the theorems is checked by the kernel -/
def exN : List (Prot Nat Nat) := [(2, [1]), (1, [1, 2, 3]), (3, [3, 4]), (101, [1]), (5, [])]
def exNsrt : List (Prot Nat Nat) := [(1, [1, 2, 3]), (3, [3, 4]), (101, [1]), (2, [1])]
def exNdecoy (n : Nat) : Bool := decide (100 ≤ n)
def exNmk (n : Nat) : Nat := n + 100

example : WF (protsOf exN) := by
  constructor
  · decide
  · intro q S h
    have : (q, S) ∈ [((2 : Nat), [(1 : Nat)]), (1, [1, 2, 3]), (3, [3, 4]), (101, [1])] := h
    simp at this
    rcases this with ⟨_, rfl⟩ | ⟨_, rfl⟩ | ⟨_, rfl⟩ | ⟨_, rfl⟩ <;> simp
example : exNsrt.Perm (protsOf exN) := by decide
example : exNsrt.Pairwise (fun a b => b.2.length ≤ a.2.length) := by decide
example : ∀ (n : Nat) (s : List (GKey Nat)), ((fun _ s => s.reverse : Nat → List (GKey Nat) → List (GKey Nat)) n s).Perm s :=
  fun _ s => List.reverse_perm s
example : (readFastaOf exNdecoy exNmk (fun _ s => s.reverse) exN exNsrt).isSome = true := by decide
example : (readFastaOf exNdecoy exNmk (fun _ s => s.reverse) exN exNsrt).map (·.groups) =
    some [([3], [3, 4]), ([1, 101, 2], [1, 2, 3])] := by decide
example : SameInput (protsOf exN) (protsOf [(101, [1]), (3, [4, 3]), (1, [3, 1, 2]), (2, [1])]) :=
  sameInput_of_sameInputB (by decide)

-- evaluation tests (compiler-evaluated: *tests*, not theorems)
#guard (readFasta exDecoy exMk exEntries).map (·.groups) ==
  some [(["C"], [3, 4]), (["A", "B", "d_A"], [1, 2, 3])]
#guard (readFasta exDecoy exMk exEntries).map (·.peptideMap) ==
  some [(1, ["A", "B", "d_A"]), (2, ["A", "B", "d_A"]), (4, ["C"])]
#guard (readFasta exDecoy exMk exEntries).map (·.shared) == some [(3, [["C"], ["A", "B", "d_A"]])]
#guard (readFasta exDecoy exMk exEntries).map (·.proteinMap) ==
  some [("B", "d_B"), ("A", "d_A"), ("C", "d_C")]
#guard (readFasta exDecoy exMk exEntries).map (·.hasDecoys) == some true
#guard (readFasta exDecoy exMk [("d_A", [1])]).isNone
-- a protein can belong to two groups: B ⊆ A and B ⊆ C
#guard (readFasta exDecoy exMk [("A", [1, 2]), ("C", [1, 3]), ("B", [1])]).map (·.groups) ==
  some [(["A", "B"], [1, 2]), (["C", "B"], [1, 3])]
-- reversed enumeration of the match set: same groups, other dict order
#guard (readFastaOf exDecoy exMk (fun _ s => s.reverse) [("A", [1, 2]), ("C", [1, 3]), ("B", [1])]
    [("A", [1, 2]), ("C", [1, 3]), ("B", [1])]).map (·.groups) ==
  some [(["C", "B"], [1, 3]), (["A", "B"], [1, 2])]
-- the declarative spec evaluated directly
#guard specGroups (protsOf exEntries) == [(["B", "A", "d_A"], [1, 2, 3]), (["C"], [3, 4])]
#guard specUnique (protsOf exEntries) == [(1, ["B", "A", "d_A"]), (2, ["B", "A", "d_A"]), (4, ["C"])]
#guard specShared (protsOf exEntries) == [(3, [["B", "A", "d_A"], ["C"]])]

end Mk.Grouping
