import MokapotVerif.Lemmas.TdcFdrSum
import MokapotVerif.Lemmas.TdcFdrLink
import MokapotVerif.Props.C04
/-!
# C04 (FDR part) — finite-sample FDR bound of target-decoy competition with the "+1" correction
-/
namespace Mk.Tdc

/-! ## Stage 1 — TESTS (brute force, not proofs): the bound holds for every ranking with
`n ≤ 6` items and `a ∈ {1/2, 1/3, 1/10}` -/
#guard (List.range 7).all fun n => (allKinds n).all fun ks =>
  [(1/2 : Rat), 1/3, 1/10].all fun a => decide (sumFDP a ks ≤ a * 2 ^ nulls ks)
-- the bound is not vacuous: some ranking has a positive expected FDP
#guard sumFDP (1/2) [.trueTarget, .trueTarget, .trueTarget, .null] == 1/4
#guard (allKinds 6).any fun ks => decide (0 < sumFDP (1/2) ks)

/-! TEST (the statement has teeth): without the "+1" — accept the largest prefix with
`D ≤ a · T` — the bound is violated already by the ranking `[null, null]` at `a = 1/3`. -/
def Test.okNo1 (a : Rat) (L : List (Kind × Bool)) (p : Nat) : Bool :=
  decide (((Dc L p : Nat) : Rat) ≤ a * ((Tc L p : Nat) : Rat)) && decide (0 < Tc L p)
def Test.fdpNo1 (a : Rat) (L : List (Kind × Bool)) : Rat :=
  let P := Nat.findGreatest (fun p => Test.okNo1 a L p = true) L.length
  if P = 0 then 0 else ((Vc L P : Nat) : Rat) / ((Tc L P : Nat) : Rat)
#guard decide (((allBools 2).map (fun ω => Test.fdpNo1 (1/3) (lab [.null, .null] ω))).sum > (1/3) * 2 ^ 2)

open Finset

/-! ## Stage 2 -/

/-- **Stage 2** — at the accepted prefix, `V/T ≤ a · V/(1+D)` (because `D+1 ≤ a·T` there);
holds for every labelled ranking and every `a`. -/
theorem C04_fdp_le_mul_mdp (a : Rat) (L : List (Kind × Bool)) : FDP a L ≤ a * MDP a L :=
  FDP_le_mul_MDP a L

/-! ## Stage 3 -/

/-- **Stage 3** — `Σ_{v=0}^{m} C(m,v) · v/(m−v+1) = 2^m − 1`. -/
theorem C04_binomial_identity (m : Nat) :
    (∑ v ∈ range (m + 1), ((m.choose v : Nat) : Rat) * (((v : Nat) : Rat) / ((m - v + 1 : Nat) : Rat)))
      = 2 ^ m - 1 :=
  sum_choose_mul_div m

/-! ## Stage 4 -/

/-- **Stage 4** — optional stopping in elementary form.  `W rs v d` lists the `C(v+d, v)`
labelled versions of the worst-first ranking `rs` with `v` null-targets and `d` null-decoys;
`stopG a valM R` is `V/(1+D)` at the accepted prefix of the worst-first labelled ranking `R`.
Their sum is at most `C(v+d, v) · v/(d+1)`, the value obtained by never stopping early. -/
theorem C04_optional_stopping (a : Rat) (rs : List Kind) (v d : Nat) (h : v + d = nulls rs) :
    ((W rs v d).map (stopG a valM)).sum
      ≤ (((v + d).choose v : Nat) : Rat) * (((v : Nat) : Rat) / ((d + 1 : Nat) : Rat)) := by
  rw [choose_mul_eq_Bnd]; exact sum_stop_le_Bnd a rs v d h

/-- `Σ_ω V(P ω)/(1 + D(P ω)) ≤ 2^m − 1` over all `2^m` outcomes, for every ranking and every `a`
(no sign condition on `a` is needed here). -/
theorem C04_tdc_sum_mdp_le (ks : List Kind) (a : Rat) :
    (∑ ω : Fin (nulls ks) → Bool, MDP a (lab ks (List.ofFn ω))) ≤ 2 ^ nulls ks - 1 := by
  rw [sum_ofFn_eq (nulls ks) (fun ω => MDP a (lab ks ω)), sum_allBools_lab ks (MDP a)]
  have h1 : (allLab ks).map (MDP a) = (allLab ks).map (fun L => stopG a valM L.reverse) :=
    List.map_congr_left (fun L _ => MDP_eq_stopG a L)
  rw [h1, sum_allLab_reverse ks (stopG a valM), sum_allLab_eq_sum_W]
  have hn : nulls ks.reverse = nulls ks := by simp [nulls]
  rw [hn]
  have hle : ∀ v ∈ range (nulls ks + 1),
      ((W ks.reverse v (nulls ks - v)).map (stopG a valM)).sum ≤ ((Bnd v (nulls ks - v) : Nat) : Rat) := by
    intro v hv
    have hv' : v < nulls ks + 1 := Finset.mem_range.mp hv
    exact sum_stop_le_Bnd a ks.reverse v (nulls ks - v) (by rw [hn]; omega)
  refine le_trans (Finset.sum_le_sum hle) (le_of_eq ?_)
  have h2 : (((∑ v ∈ range (nulls ks + 1), Bnd v (nulls ks - v)) + 1 : Nat) : Rat)
      = ((2 ^ nulls ks : Nat) : Rat) := by rw [sum_Bnd]
  push_cast at h2
  linarith

/-! ## Stage 5 -/

/-- **Finite-sample FDR bound of target-decoy competition with the "+1" correction, fixed
ranking, i.i.d. fair null labels.**  For every ranking `ks` (any length, any interleaving of
true targets and nulls) and every level `a > 0`, the sum of the false discovery proportion of
the accepted prefix over all `2^m` equally likely labelings of the `m` nulls is at most
`a · 2^m`; i.e. `E[FDP] ≤ a`. -/
theorem C04_tdc_fdr_fixed_ranking (ks : List Kind) (a : Rat) (ha : 0 < a) :
    (∑ ω : Fin (nulls ks) → Bool, FDP a (lab ks (List.ofFn ω))) ≤ a * 2 ^ nulls ks := by
  have h1 : (∑ ω : Fin (nulls ks) → Bool, FDP a (lab ks (List.ofFn ω)))
      ≤ ∑ ω : Fin (nulls ks) → Bool, a * MDP a (lab ks (List.ofFn ω)) :=
    Finset.sum_le_sum (fun ω _ => FDP_le_mul_MDP a _)
  rw [← Finset.mul_sum] at h1
  have h2 := C04_tdc_sum_mdp_le ks a
  have h3 : a * (∑ ω : Fin (nulls ks) → Bool, MDP a (lab ks (List.ofFn ω)))
      ≤ a * (2 ^ nulls ks - 1) := mul_le_mul_of_nonneg_left h2 ha.le
  have h4 : a * (2 ^ nulls ks - 1) ≤ a * 2 ^ nulls ks := by
    rw [mul_sub]; linarith
  linarith

/-- the same as an expectation: the average FDP over the `2^m` outcomes is at most `a`
(in fact at most `a · (1 − 2^{-m})`). -/
theorem C04_tdc_expected_fdp_le (ks : List Kind) (a : Rat) (ha : 0 < a) :
    (∑ ω : Fin (nulls ks) → Bool, FDP a (lab ks (List.ofFn ω))) / 2 ^ nulls ks ≤ a := by
  have hpos : (0 : Rat) < 2 ^ nulls ks := by positivity
  rw [div_le_iff₀ hpos]
  exact C04_tdc_fdr_fixed_ranking ks a ha

/-! ## Link to the q-value formula of C01 -/

/-- **Link lemma.**  For a strict best-first ranking (no tied scores; any total preorder `le`,
e.g. distinct integers in either direction) and `a < 1`, the set accepted at `q ≤ a` by the
C01 defining formula `qSpec` is exactly the first `Pstop a xs` items — the prefix whose FDP
`C04_tdc_fdr_fixed_ranking` bounds. -/
theorem C04_accepted_is_prefix {α : Type} (le : α → α → Bool) (hle : TotalPre le)
    (xs : List (α × Bool)) (hs : StrictBestFirst le xs) (a : Rat) (ha : a < 1) :
    acceptedAt le xs a = xs.take (Pstop a xs) :=
  filter_qSpec_eq_take le hle xs hs a ha

/-- consequently the accepted targets / decoys are the `Tc` / `Dc` of that prefix -/
theorem C04_accepted_prefix_counts {α : Type} (le : α → α → Bool) (hle : TotalPre le)
    (xs : List (α × Bool)) (hs : StrictBestFirst le xs) (a : Rat) (ha : a < 1) :
    (acceptedAt le xs a).countP (fun x => x.2) = Tc xs (Pstop a xs) ∧
    (acceptedAt le xs a).countP (fun x => !x.2) = Dc xs (Pstop a xs) := by
  rw [C04_accepted_is_prefix le hle xs hs a ha]
  exact ⟨rfl, rfl⟩

/-! non-vacuity of the link lemma's hypotheses, and a concrete instance (tests) -/
example : StrictBestFirst (leInt true) [(5, true), (4, true), (3, true), (2, false), (1, true)] := by
  simp [StrictBestFirst, leInt]
#guard acceptedAt (leInt true) [(5, true), (4, false), (3, true), (2, true), (1, true), (0, false)] (1/2)
  == [(5, true), (4, false), (3, true), (2, true), (1, true)]
#guard Pstop (1/2) [((5 : Int), true), (4, false), (3, true), (2, true), (1, true), (0, false)] == 5

end Mk.Tdc
