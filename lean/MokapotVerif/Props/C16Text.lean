import MokapotVerif.Lemmas.GroupingText
import MokapotVerif.Props.C16Str
/-!
# C16, third extension — from the file contents on; key order of `protein_map`; calls in one process

(gap analysis: `gaps/GAPS-C16.md`, "Third pass")

* **A.** the statement begins "After reading a FASTA file": the theorems so far begin at the parsed
  `(name, sequence)` entries.  Here the input is the *declarative* description of FASTA files of
  C18 (`FastaRec`: `>name[ description]`, any number of sequence lines, blank lines, final line
  ends; each file with its own newline convention; any number of files) and the model is
  `readFastaTextOf`, `read_fasta` as a function of the decoded file contents.  No hypothesis
  about the reader remains.
* **B.** `protein_map` is filled in ascending order of the number of peptides (stable).
* **C.** the result of a call does not depend on the calls made before it in the interpreter.
-/
namespace Mk.Grouping
open Mk.Decoys
variable {α β : Type} [DecidableEq α] [DecidableEq β]

/-! ## A. from the file contents -/

/-- the proteins a laid-out FASTA input denotes: `(name, concatenated sequence lines)` of every
record of every file, in file and record order -/
abbrev entriesOf (fss : List (Eol × List FastaRec)) : List (List Char × List Char) :=
  (fss.flatMap (·.2)).map FastaRec.entry

/-- the bytes of the files -/
abbrev filesOf (fss : List (Eol × List FastaRec)) : List (List Char) :=
  fss.map (fun p => encodeEol p.1 (fastaFileText p.2))

/-- **`read_fasta` on FASTA files is `read_fasta` on the proteins they denote**: for every
laid-out input (any number ≥ 1 of non-empty files, records with or without description,
sequences over any number of lines, blank lines, final line ends, `\n` / `\r\n` / `\r`), every
prefix, digest, tie order and set iteration order, the reader raises no `IndexError` and the
run is the run from the parsed entries -/
theorem C16_fasta_text_is_entries (pre : List Char)
    (enum : Nat → List (GKey (List Char)) → List (GKey (List Char))) (dig : List Char → List β)
    (fss : List (Eol × List FastaRec)) (hne : fss ≠ [])
    (hfile : ∀ p ∈ fss, p.2 ≠ []) (hok : ∀ p ∈ fss, ∀ r ∈ p.2, RecOK r)
    (srt : List (Prot (List Char) β)) :
    readFastaTextOf pre enum dig (filesOf fss) srt =
      some (readFastaSeqOf (isDecoyPre pre) (mkDecoyPre pre) enum dig (entriesOf fss) srt) := by
  unfold readFastaTextOf filesOf entriesOf
  rw [parseFastaR_fasta_input fss hne hfile hok]
  rfl

/-- **the property from the file contents on**: under the same hypotheses, when the names of
the records that yield a peptide are distinct, `read_fasta` either refuses the input with the
`ValueError` — exactly when every protein with a peptide carries the decoy prefix — or returns
a maximal-subset grouping of the proteins with peptides, with its consistent peptide maps; every
record whose sequence yields a peptide is in a group; a peptide is recorded iff the digest of
some record's sequence contains it; and the target/decoy map pairs exactly the unprefixed
proteins with `prefix + name` -/
theorem C16_from_fasta_text_meets_spec (pre : List Char)
    (enum : Nat → List (GKey (List Char)) → List (GKey (List Char))) (henum : ∀ n s, (enum n s).Perm s)
    (dig : List Char → List β)
    (fss : List (Eol × List FastaRec)) (hne : fss ≠ [])
    (hfile : ∀ p ∈ fss, p.2 ≠ []) (hok : ∀ p ∈ fss, ∀ r ∈ p.2, RecOK r)
    (srt : List (Prot (List Char) β))
    (hnames : (((entriesOf fss).filter (fun e => !(dig e.2).isEmpty)).map (·.1)).Nodup)
    (hperm : srt.Perm (protsOf (digestEntries dig (entriesOf fss))))
    (hsorted : srt.Pairwise (fun a b => b.2.length ≤ a.2.length)) :
    ∃ r, readFastaTextOf pre enum dig (filesOf fss) srt = some r ∧
      (r = none ↔ ∀ q seq, (q, seq) ∈ entriesOf fss → dig seq ≠ [] → pre <+: q) ∧
      ∀ o, r = some o →
        IsGrouping (protsOf (digestEntries dig (entriesOf fss))) o.groups ∧
        IsPeptideMap (protsOf (digestEntries dig (entriesOf fss))) o.groups o.peptideMap o.shared ∧
        (∀ q seq, (q, seq) ∈ entriesOf fss → dig seq ≠ [] → ∃ k S, (k, S) ∈ o.groups ∧ q ∈ k) ∧
        (∀ p, (p ∈ o.peptideMap.map (·.1) ∨ p ∈ o.shared.map (·.1)) ↔
          ∃ q seq, (q, seq) ∈ entriesOf fss ∧ p ∈ dig seq) ∧
        (∀ t d, (t, d) ∈ o.proteinMap ↔
          (∃ seq, (t, seq) ∈ entriesOf fss ∧ dig seq ≠ []) ∧ ¬ pre <+: t ∧ d = pre ++ t) := by
  refine ⟨_, C16_fasta_text_is_entries pre enum dig fss hne hfile hok srt, ?_, ?_⟩
  · unfold readFastaSeqOf
    rw [C16_rejects_iff_only_decoys _ _ _ _ _ (wf_digestEntries dig _ hnames)]
    constructor
    · intro h q seq hq hd
      have := h q (toSet (dig seq))
        (by unfold digestEntries; exact List.mem_map.mpr ⟨(q, seq), hq, rfl⟩)
        (by intro h0; exact hd (toSet_eq_nil.mp h0))
      simpa [isDecoyPre] using this
    · intro h q S hq hS
      unfold digestEntries at hq
      obtain ⟨⟨q', seq⟩, hm, he⟩ := List.mem_map.mp hq
      simp only [Prod.mk.injEq] at he
      obtain ⟨rfl, rfl⟩ := he
      have := h q' seq hm (by intro h0; apply hS; rw [h0]; rfl)
      simpa [isDecoyPre] using this
  · intro o ho
    obtain ⟨hg, hm, hcov, hrec⟩ := C16_from_sequences_meets_spec (isDecoyPre pre) (mkDecoyPre pre) enum henum
      dig (entriesOf fss) srt hnames hperm hsorted o ho
    refine ⟨hg, hm, hcov, hrec, ?_⟩
    intro t d
    rw [C16_prefix_decoy_pairing pre enum (digestEntries dig (entriesOf fss)) srt
      (wf_digestEntries dig _ hnames) o ho t d]
    constructor
    · rintro ⟨⟨S, hS, hne'⟩, h2⟩
      refine ⟨?_, h2⟩
      unfold digestEntries at hS
      obtain ⟨⟨q', seq⟩, hm', he⟩ := List.mem_map.mp hS
      simp only [Prod.mk.injEq] at he
      obtain ⟨rfl, rfl⟩ := he
      exact ⟨seq, hm', by intro h0; apply hne'; rw [h0]; rfl⟩
    · rintro ⟨⟨seq, hs, hd⟩, h2⟩
      refine ⟨⟨toSet (dig seq), ?_, ?_⟩, h2⟩
      · unfold digestEntries; exact List.mem_map.mpr ⟨(t, seq), hs, rfl⟩
      · intro h0; exact hd (toSet_eq_nil.mp h0)

/-- **with the digest of C17, from the file contents on**: for `Mk.digest` with any enzyme and
options (`1 ≤ min_length`) a peptide is recorded by `read_fasta` iff the enzyme rules
(`DigestSpec`) allow it for the concatenated sequence lines of some record, and a record with
such a peptide is in a group whose peptide set contains all its peptides -/
theorem C16_from_fasta_text_digest_spec (pre : List Char)
    (enum : Nat → List (GKey (List Char)) → List (GKey (List Char))) (henum : ∀ n s, (enum n s).Perm s)
    (e : Enzyme) (mc lo hi : Nat) (clip semi : Bool) (hlo : 1 ≤ lo)
    (fss : List (Eol × List FastaRec)) (hne : fss ≠ [])
    (hfile : ∀ p ∈ fss, p.2 ≠ []) (hok : ∀ p ∈ fss, ∀ r ∈ p.2, RecOK r)
    (srt : List (Prot (List Char) Pep))
    (hnames : (((entriesOf fss).filter (fun x => !(digest e x.2 mc lo hi clip semi).isEmpty)).map (·.1)).Nodup)
    (hperm : srt.Perm (protsOf (digestEntries (fun s => digest e s mc lo hi clip semi) (entriesOf fss))))
    (hsorted : srt.Pairwise (fun a b => b.2.length ≤ a.2.length))
    (o : Out (List Char) Pep)
    (ho : readFastaTextOf pre enum (fun s => digest e s mc lo hi clip semi) (filesOf fss) srt = some (some o)) :
    (∀ p, (p ∈ o.peptideMap.map (·.1) ∨ p ∈ o.shared.map (·.1)) ↔
      ∃ p' ∈ fss, ∃ r ∈ p'.2, DigestSpec e r.lines.flatten mc lo hi clip semi p) ∧
    (∀ p' ∈ fss, ∀ r ∈ p'.2, (∃ p, DigestSpec e r.lines.flatten mc lo hi clip semi p) →
      ∃ k S, (k, S) ∈ o.groups ∧ r.name ∈ k ∧ ∀ p, DigestSpec e r.lines.flatten mc lo hi clip semi p → p ∈ S) := by
  rw [C16_fasta_text_is_entries pre enum _ fss hne hfile hok srt] at ho
  have ho' := Option.some.inj ho
  obtain ⟨h1, h2⟩ := C16_from_sequences_digest_spec (isDecoyPre pre) (mkDecoyPre pre) enum henum e mc lo hi
    clip semi hlo (entriesOf fss) srt hnames hperm hsorted o ho'
  have hmem : ∀ q seq, (q, seq) ∈ entriesOf fss ↔ ∃ p' ∈ fss, ∃ r ∈ p'.2, q = r.name ∧ seq = r.lines.flatten := by
    intro q seq
    simp only [entriesOf, List.mem_map, List.mem_flatMap, FastaRec.entry, Prod.mk.injEq]
    constructor
    · rintro ⟨r, ⟨p', hp', hr⟩, rfl, rfl⟩; exact ⟨p', hp', r, hr, rfl, rfl⟩
    · rintro ⟨p', hp', r, hr, rfl, rfl⟩; exact ⟨r, ⟨p', hp', hr⟩, rfl, rfl⟩
  constructor
  · intro p
    rw [h1 p]
    constructor
    · rintro ⟨q, seq, hq, hp⟩
      obtain ⟨p', hp', r, hr, rfl, rfl⟩ := (hmem q seq).mp hq
      exact ⟨p', hp', r, hr, hp⟩
    · rintro ⟨p', hp', r, hr, hp⟩
      exact ⟨r.name, r.lines.flatten, (hmem _ _).mpr ⟨p', hp', r, hr, rfl, rfl⟩, hp⟩
  · intro p' hp' r hr hex
    exact h2 r.name r.lines.flatten ((hmem _ _).mpr ⟨p', hp', r, hr, rfl, rfl⟩) hex

/-- **the layout of the files does not matter**: two laid-out inputs that denote the same
proteins — other wrapping of the sequences, other descriptions, blank lines, newline
conventions, another split into files, records in another order — read with the same options
(and any tie / set iteration orders) give the same groups as sets, the same unique-peptide map
up to the order of names in a group name, the same shared peptides and the same pairing -/
theorem C16_fasta_text_layout_independent (pre : List Char)
    (enum enum' : Nat → List (GKey (List Char)) → List (GKey (List Char)))
    (henum : ∀ n s, (enum n s).Perm s) (henum' : ∀ n s, (enum' n s).Perm s)
    (dig : List Char → List β)
    (fss fss' : List (Eol × List FastaRec)) (hne : fss ≠ []) (hne' : fss' ≠ [])
    (hfile : ∀ p ∈ fss, p.2 ≠ []) (hok : ∀ p ∈ fss, ∀ r ∈ p.2, RecOK r)
    (hfile' : ∀ p ∈ fss', p.2 ≠ []) (hok' : ∀ p ∈ fss', ∀ r ∈ p.2, RecOK r)
    (hsame : (entriesOf fss).Perm (entriesOf fss'))
    (srt srt' : List (Prot (List Char) β))
    (hnames : (((entriesOf fss).filter (fun e => !(dig e.2).isEmpty)).map (·.1)).Nodup)
    (hperm : srt.Perm (protsOf (digestEntries dig (entriesOf fss))))
    (hperm' : srt'.Perm (protsOf (digestEntries dig (entriesOf fss'))))
    (hsorted : srt.Pairwise (fun a b => b.2.length ≤ a.2.length))
    (hsorted' : srt'.Pairwise (fun a b => b.2.length ≤ a.2.length))
    (o o' : Out (List Char) β)
    (ho : readFastaTextOf pre enum dig (filesOf fss) srt = some (some o))
    (ho' : readFastaTextOf pre enum' dig (filesOf fss') srt' = some (some o')) :
    SameGroups o.groups o'.groups ∧
    (∀ p k, (p, k) ∈ o.peptideMap → ∃ k', (p, k') ∈ o'.peptideMap ∧ ∀ q, q ∈ k ↔ q ∈ k') ∧
    (∀ p, p ∈ o.shared.map (·.1) → p ∈ o'.shared.map (·.1)) ∧
    (∀ t d, (t, d) ∈ o.proteinMap → (t, d) ∈ o'.proteinMap) := by
  rw [C16_fasta_text_is_entries pre enum dig fss hne hfile hok srt] at ho
  rw [C16_fasta_text_is_entries pre enum' dig fss' hne' hfile' hok' srt'] at ho'
  exact C16_from_sequences_order_independent (isDecoyPre pre) (mkDecoyPre pre) enum enum' henum henum' dig
    (entriesOf fss) (entriesOf fss') srt srt' hnames hsame hperm hperm' hsorted hsorted' o o'
    (Option.some.inj ho) (Option.some.inj ho')

/-- the executable model behind the driver op `grouptext` is an instance of the quantified runs -/
theorem C16_fasta_text_executable_is_instance (pre : List Char) (rev : Bool) (dig : List Char → List β)
    (fss : List (Eol × List FastaRec)) (hne : fss ≠ [])
    (hfile : ∀ p ∈ fss, p.2 ≠ []) (hok : ∀ p ∈ fss, ∀ r ∈ p.2, RecOK r)
    (hnames : (((entriesOf fss).filter (fun e => !(dig e.2).isEmpty)).map (·.1)).Nodup) :
    readFastaText pre rev dig (filesOf fss) =
        readFastaTextOf pre (fun _ s => if rev then s.reverse else s) dig (filesOf fss)
          (sortProteins (buildProteins (digestEntries dig (entriesOf fss)))) ∧
      (sortProteins (buildProteins (digestEntries dig (entriesOf fss)))).Perm
        (protsOf (digestEntries dig (entriesOf fss))) ∧
      (sortProteins (buildProteins (digestEntries dig (entriesOf fss)))).Pairwise
        (fun a b => b.2.length ≤ a.2.length) ∧
      readFastaTextSafe rev dig (filesOf fss) = true := by
  obtain ⟨h1, h2, h3⟩ := C16_from_sequences_executable_is_instance (isDecoyPre pre) (mkDecoyPre pre) rev dig
    (entriesOf fss) hnames
  refine ⟨?_, h2, h3, ?_⟩
  · unfold readFastaText readFastaTextOf filesOf
    rw [parseFastaR_fasta_input fss hne hfile hok]
    simp only [Option.map_some]
    rw [h1]
  · unfold readFastaTextSafe filesOf
    rw [parseFastaR_fasta_input fss hne hfile hok]
    simp only [Option.map_some, Option.getD_some]
    unfold readFastaSeqSafe
    exact C16_no_keyerror _ (fun n s => by split <;> simp [List.reverse_perm]) _ _
      (wf_digestEntries dig _ hnames) h2 h3

/-- a file that is a bare `>` is refused with the reader's `IndexError` (`entry[0]` of a record
without a line) whatever the options; an empty file holds no record and is refused with the
`ValueError` (no target protein) -/
theorem C16_fasta_text_degenerate_files (pre : List Char)
    (enum : Nat → List (GKey (List Char)) → List (GKey (List Char))) (dig : List Char → List β)
    (srt : List (Prot (List Char) β)) :
    readFastaTextOf pre enum dig [['>']] srt = none ∧ readFastaTextOf pre enum dig [[]] srt = some none := by
  refine ⟨?_, ?_⟩ <;> rfl

/-! ## B. key order of `protein_map` -/

omit [DecidableEq α] [DecidableEq β] in
/-- **`protein_map` lists the targets in ascending order of their number of peptides, ties in
FASTA order**: the dict `read_fasta` hands to `Proteins(protein_map=…)` has the items of the
model's `proteinMap` (so every pairing theorem applies to it), its keys are the targets of the
stably sorted `proteins` dict, their sizes ascend, and two targets whose sizes ascend in dict
order keep that order -/
theorem C16_protein_map_key_order (isDecoy : α → Bool) (mkDecoy : α → α) (P : List (Prot α β)) :
    decoyMapOrdered isDecoy mkDecoy P = (targetsInOrder isDecoy P).map (fun e => (e.1, mkDecoy e.1)) ∧
    (decoyMapOrdered isDecoy mkDecoy P).Perm (decoyMap isDecoy mkDecoy P) ∧
    (targetsInOrder isDecoy P).Perm (P.filter (fun e => !isDecoy e.1)) ∧
    (targetsInOrder isDecoy P).Pairwise (fun a b => a.2.length ≤ b.2.length) ∧
    (∀ a b, [a, b].Sublist P → isDecoy a.1 = false → isDecoy b.1 = false → a.2.length ≤ b.2.length →
      [a, b].Sublist (targetsInOrder isDecoy P)) := by
  refine ⟨rfl, decoyMap_perm isDecoy mkDecoy (sortAsc_perm P), (sortAsc_perm P).filter _,
    (sortAsc_sorted P).filter _, ?_⟩
  intro a b hab ha hb hle
  have h := (sortAsc_stable P a b hab hle).filter (fun e => !isDecoy e.1)
  simpa [targetsInOrder, ha, hb] using h

/-- … and for a run of `read_fasta`: the ordered dict is a rearrangement of `Out.proteinMap` -/
theorem C16_protein_map_ordered_of_run (isDecoy : α → Bool) (mkDecoy : α → α)
    (enum : Nat → List (GKey α) → List (GKey α)) (entries srt : List (Prot α β)) (o : Out α β)
    (ho : readFastaOf isDecoy mkDecoy enum entries srt = some o) :
    (decoyMapOrdered isDecoy mkDecoy (buildProteins entries)).Perm o.proteinMap := by
  unfold readFastaOf at ho
  split at ho
  · cases ho
  · cases ho
    exact decoyMap_perm isDecoy mkDecoy (sortAsc_perm _)

/-! ## C. calls in one interpreter -/

/-- **no call leaves a trace**: in a process that issues any sequence of `read_fasta` calls
(any files, any options), every call returns what it returns when it is the only call of a
fresh interpreter -/
theorem C16_call_sequence_history_free (rev : Bool) (calls : List FastaCall) :
    runProcess (fastaStep rev) () calls = calls.map (readFastaCall rev) :=
  runProcess_stateless (readFastaCall rev) () calls

/-- … in particular the call issued after any history `hist` (e.g. the same files read with
one digest option changed) returns the result of its *own* options -/
theorem C16_call_after_any_history (rev : Bool) (hist : List FastaCall) (c : FastaCall) :
    (runProcess (fastaStep rev) () (hist ++ [c])).getLast? = some (readFastaCall rev c) := by
  rw [C16_call_sequence_history_free]
  simp

/-- **every call of a process meets the property for its own options**: whatever was read or
digested before, a call on laid-out FASTA files (distinct names among the records that yield a
peptide under *this call's* options) returns a result, and when it is not the only-decoys
refusal it is a maximal-subset grouping, with consistent peptide maps, of the proteins as
digested with this call's options -/
theorem C16_every_call_meets_spec_of_its_own_options (rev : Bool) (hist : List FastaCall)
    (fss : List (Eol × List FastaRec)) (hne : fss ≠ [])
    (hfile : ∀ p ∈ fss, p.2 ≠ []) (hok : ∀ p ∈ fss, ∀ r ∈ p.2, RecOK r)
    (e : Enzyme) (mc lo hi : Nat) (clip semi : Bool) (pre : List Char)
    (hnames : (((entriesOf fss).filter (fun x => !(digest e x.2 mc lo hi clip semi).isEmpty)).map (·.1)).Nodup) :
    ∃ r, (runProcess (fastaStep rev) () (hist ++ [⟨filesOf fss, e, mc, clip, lo, hi, semi, pre⟩])).getLast?
        = some (some r) ∧
      ∀ o, r = some o →
        IsGrouping (protsOf (digestEntries (fun s => digest e s mc lo hi clip semi) (entriesOf fss))) o.groups ∧
        IsPeptideMap (protsOf (digestEntries (fun s => digest e s mc lo hi clip semi) (entriesOf fss)))
          o.groups o.peptideMap o.shared := by
  rw [C16_call_after_any_history]
  obtain ⟨h1, h2, h3, _⟩ := C16_fasta_text_executable_is_instance pre rev
    (fun s => digest e s mc lo hi clip semi) fss hne hfile hok hnames
  obtain ⟨r, hr, _, hspec⟩ := C16_from_fasta_text_meets_spec pre (fun _ s => if rev then s.reverse else s)
    (fun n s => by split <;> simp [List.reverse_perm]) (fun s => digest e s mc lo hi clip semi) fss hne hfile hok
    _ hnames h2 h3
  refine ⟨r, ?_, fun o ho => ⟨(hspec o ho).1, (hspec o ho).2.1⟩⟩
  unfold readFastaCall
  simp only
  rw [h1, hr]

/-! ## Non-vacuity -/

/-- two files: the first stored with `\r\n`, a record with a description and a sequence over two
lines with a blank line between; the second with a record without sequence and a final line end -/
def exRecA : FastaRec := ⟨"A".toList, some "first > protein".toList, ["ACK".toList, [], "DEK".toList]⟩
def exRecD : FastaRec := ⟨"d_A".toList, none, ["DEK".toList]⟩
def exRecB : FastaRec := ⟨"B".toList, some "x".toList, ["ACKA".toList, "CK".toList, []]⟩
def exRecE : FastaRec := ⟨"E".toList, none, []⟩
def exFss : List (Eol × List FastaRec) := [(Eol.crlf, [exRecA, exRecD]), (Eol.lf, [exRecB, exRecE])]

example : RecOK exRecA := by unfold RecOK exRecA NameOK BreakFree SeqOK FastaRec.header descText; decide
example : RecOK exRecD := by unfold RecOK exRecD NameOK BreakFree SeqOK FastaRec.header descText; decide
example : RecOK exRecB := by unfold RecOK exRecB NameOK BreakFree SeqOK FastaRec.header descText; decide
example : RecOK exRecE := by unfold RecOK exRecE NameOK BreakFree SeqOK FastaRec.header descText; decide
example : exFss ≠ [] ∧ ∀ p ∈ exFss, p.2 ≠ [] := by decide
example : entriesOf exFss = exFasta := by decide
example : (((entriesOf exFss).filter (fun e => !(exDig e.2).isEmpty)).map (·.1)).Nodup := by decide
-- the same proteins in another layout: one file, other record order, other wrapping
def exFss' : List (Eol × List FastaRec) :=
  [(Eol.cr, [⟨"B".toList, none, ["ACKACK".toList]⟩, exRecE, ⟨"d_A".toList, some "y".toList, ["D".toList, "EK".toList]⟩,
             ⟨"A".toList, none, ["ACKDEK".toList, []]⟩])]
example : (entriesOf exFss).Perm (entriesOf exFss') := by decide
-- the hypotheses of `C16_protein_map_key_order`'s stability clause: two targets, sizes ascending
example : [(("B" : String), [1]), ("A", [1, 2])].Sublist [(("B" : String), [1]), ("d_B", [1]), ("A", [1, 2])] := by
  decide

/-- all fields of a result, for the evaluation tests -/
def exShow (r : Option (Option (Out (List Char) (List Char)))) :=
  r.map (fun r => r.map (fun o => (o.peptideMap, o.shared, o.proteinMap, o.hasDecoys, o.groups)))

-- evaluation tests (compiler-evaluated: *tests*, not theorems)
#guard String.ofList (encodeEol Eol.crlf (fastaFileText [exRecA, exRecD])) ==
  ">A first > protein\r\nACK\r\n\r\nDEK\r\n>d_A\r\nDEK"
#guard (readFastaText "d_".toList false exDig (filesOf exFss)).map (fun r => r.map (fun o =>
    o.groups.map (fun g => (g.1.map String.ofList, g.2.map String.ofList)))) ==
  some (some [(["A", "d_A", "B"], ["ACK", "DEK"])])
#guard exShow (readFastaText "d_".toList false exDig (filesOf exFss)) ==
  exShow (some (readFastaSeq (isDecoyPre "d_".toList) (mkDecoyPre "d_".toList) false exDig exFasta))
#guard (readFastaText "d_".toList true exDig (filesOf exFss')).map (fun r => r.map (fun o =>
    o.groups.map (fun g => (g.1.map String.ofList, g.2.map String.ofList)))) ==
  some (some [(["A", "B", "d_A"], ["ACK", "DEK"])])
#guard exShow (readFastaText [] false exDig (filesOf exFss)) == some none            -- empty prefix: ValueError
#guard exShow (readFastaText "d_".toList false exDig [[]]) == some none                -- empty file: no record, ValueError
#guard (readFastaText "d_".toList false exDig [">".toList]).isNone                    -- bare `>`: IndexError
#guard exShow (readFastaText "d_".toList false exDig ["\n\n>A\nACK".toList, [], ">d_A\nACK".toList]) ==
  exShow (readFastaText "d_".toList false exDig [">A\nACK\n>d_A\nACK".toList])      -- leading blank lines, an empty file
#guard exShow (readFastaText "d_".toList false exDig [">\n".toList]) == some none     -- `>` + line end: protein "" without peptides
-- `protein_map` in dict order: B (1 peptide… here 1 distinct) before A? sizes: A = {ACK, DEK}, B = {ACK}
#guard (decoyMapOrdered (isDecoyPre "d_".toList) (mkDecoyPre "d_".toList)
    (buildProteins (digestEntries exDig exFasta))).map (fun e => (String.ofList e.1, String.ofList e.2)) ==
  [("B", "d_B"), ("A", "d_A")]
#guard (decoyMap (isDecoyPre "d_".toList) (mkDecoyPre "d_".toList)
    (buildProteins (digestEntries exDig exFasta))).map (fun e => (String.ofList e.1, String.ofList e.2)) ==
  [("A", "d_A"), ("B", "d_B")]
-- two calls that differ in `clip_nterm_methionine` only, either order: each returns its own result
def exCall (clip : Bool) : FastaCall := ⟨[">P\nMACKDEK\n>Q\nACK\n".toList], ⟨['K'], []⟩, 0, clip, 1, 50, false, "d_".toList⟩
#guard (runProcess (fastaStep false) () [exCall false, exCall true, exCall false]).map exShow ==
  [exShow (readFastaCall false (exCall false)), exShow (readFastaCall false (exCall true)), exShow (readFastaCall false (exCall false))]
#guard (readFastaCall false (exCall false)).map (fun r => r.map (fun o => o.groups.map (fun g => g.1.map String.ofList)))
  == some (some [["P"], ["Q"]])
#guard (readFastaCall false (exCall true)).map (fun r => r.map (fun o => o.groups.map (fun g => g.1.map String.ofList)))
  == some (some [["P", "Q"]])

end Mk.Grouping
