import MokapotVerif.Lemmas.FsRunSized
import MokapotVerif.Props.C09Ext
/-!
# C09 (second extension) — chunk files written vs chunk files merged; the SQLite result database

The statement is that of `Props/C09.lean`.  Two parts of the anchored mechanism that the earlier
models do not contain:

* `create_sorted_file_iterator` (confidence.py:826-881) builds the list of chunk-file paths — the
  files merged by `merge_sort` and unlinked in the `finally` block — from the chunks of the
  **score array**, but writes a chunk file only for every element of
  `zip(file_iterator, scores_slices, scores_metadata_paths)`, i.e. at most one per chunk of the
  **table**.  `Model/FsRunSized.lean` keeps the two numbers apart (`collOpsKW`, `runOpsKW`,
  `assignOpsSized`).  With as many score chunks as table chunks everything proved in
  `Props/C09Ext.lean` carries over (`C09_sized_*`).  With more score chunks the code used to merge
  files it had not written — **finding F4** (repaired in /repo by f8287a0): `FileNotFoundError` in a
  clean directory, next to a stale `scores_metadata_<i>` a successful run with the stale rows
  merged into every result file.  The repaired code refuses such a call before it reads anything
  (`C09_sized_accepts_iff`, `C09_sized_refused_*`), so that whatever `assignOpsSized` accepts is
  independent of the initial directory without any hypothesis on sizes
  (`C09_sized_results_fs_independent`); the loop before the repair is kept as a rejected program
  (`C09_short_table_*`, `Mutants/FsRunSized.lean`).
* `sqlite_path=` (confidence.py:101-170, 448-459): the results go to a database (a declared
  input, like result files under `append_to_output_file=True`) and the text result files, which
  the run has initialised, are unlinked — they are intermediates of such a run (`C09_sql_*`).
-/
namespace Mk.FsRun

/-! ## as many score chunks as table chunks: the earlier theorems apply -/

section sized
variable (prot : Bool) (nl : Nat) (decoys : Bool)

/-- a collection that writes as many chunk files as it merges is a collection of the earlier
model, operation by operation -/
theorem C09_sized_full_is_coll (init : Bool) (c : Coll) :
    collOpsKW prot nl decoys init c c.k = collOps prot nl decoys init c := rfl

/-- … and so is a whole run -/
theorem C09_sized_run_is_run (req seen : Bool) (cs : List (Coll × Nat))
    (h : ∀ e ∈ cs, e.2 = e.1.k) :
    runOpsKW prot nl decoys req seen cs = runOps prot nl decoys req seen (cs.map (·.1)) :=
  runOpsKW_eq_runOps prot nl decoys req seen cs h

/-- number of chunk files written = number merged exactly when the score array has no more
chunks than the table (`zip` stops at the shorter) -/
theorem C09_written_eq_merged_iff (nrows nscores c : Nat) :
    writtenCount nrows nscores c = chunkCount nscores c ↔
      chunkCount nscores c ≤ chunkCount nrows c :=
  writtenCount_eq_iff nrows nscores c

/-- the ordinary call — one score per row — writes what it merges and never meets the
`ValueError` of `DataFrame.assign`, for every table size and every chunk size -/
theorem C09_equal_lengths_fit (n c : Nat) :
    lensAgree n n c = true ∧ writtenCount n n c = chunkCount n c :=
  ⟨lensAgree_self n c, by unfold writtenCount; omega⟩

/-- the repaired loop completes exactly when every collection wrote as many chunk files as it
has score chunks, and then it is the loop of the earlier model -/
theorem C09_sized_checked_completes_iff (req seen : Bool) (cs : List (Coll × Nat)) :
    (runOpsChecked prot nl decoys req seen cs).2 = true ↔ ∀ e ∈ cs, e.2 = e.1.k :=
  ⟨runOpsChecked_true prot nl decoys req seen cs,
    fun h => by rw [runOpsChecked_complete prot nl decoys req seen cs h]⟩

theorem C09_sized_checked_is_run (req seen : Bool) (cs : List (Coll × Nat))
    (h : ∀ e ∈ cs, e.2 = e.1.k) :
    (runOpsChecked prot nl decoys req seen cs).1 = runOps prot nl decoys req seen (cs.map (·.1)) := by
  rw [runOpsChecked_complete prot nl decoys req seen cs h]

/-- sizes: every entry wrote what it merges iff no collection has more score chunks than table
chunks -/
theorem C09_sizedEntries_full_iff (chunk : Nat) (mk : Option Nat → Nat → Coll)
    (hmk : ∀ p k, (mk p k).k = k) (ss : List SizedColl) :
    (∀ e ∈ ss.map (sizedEntry chunk mk), e.2 = e.1.k) ↔ sizesFit chunk ss = true := by
  simp only [List.mem_map, sizesFit, List.all_eq_true, decide_eq_true_eq]
  constructor
  · intro h s hs
    have := h _ ⟨s, hs, rfl⟩
    simp only [sizedEntry, hmk] at this
    exact (writtenCount_eq_iff _ _ _).mp this
  · rintro h e ⟨s, hs, rfl⟩
    simp only [sizedEntry, hmk]
    exact (writtenCount_eq_iff _ _ _).mpr (h s hs)

/-- **which calls are accepted**: `proteins` needs a peptide level, every written chunk gets a
score slice of its own length, and no collection has more score chunks than table chunks -/
theorem C09_sized_accepts_iff (req : Bool) (chunk : Nat) (mk : Option Nat → Nat → Coll)
    (hmk : ∀ p k, (mk p k).k = k) (ss : List SizedColl) :
    (assignOpsSized prot nl decoys req chunk mk ss).isSome = true ↔
      (prot = true → 2 ≤ nl) ∧ (∀ s ∈ ss, lensAgree s.nrows s.nscores chunk = true) ∧
        sizesFit chunk ss = true := by
  unfold assignOpsSized
  have hfit := C09_sizedEntries_full_iff chunk mk hmk ss
  have hc := C09_sized_checked_completes_iff prot nl decoys req false (ss.map (sizedEntry chunk mk))
  cases hg : (prot && decide (nl < 2))
  · have hp : prot = true → 2 ≤ nl := by
      intro hpt
      simp only [hpt, Bool.true_and, decide_eq_false_iff_not] at hg
      omega
    simp only [Bool.false_eq_true, if_false]
    cases hl : (ss.all fun s => lensAgree s.nrows s.nscores chunk)
    · simp only [Bool.false_eq_true, if_false, Option.isSome_none, false_iff]
      intro h
      have := List.all_eq_true.mpr h.2.1
      rw [hl] at this
      exact absurd this (by simp)
    · have hl' : ∀ s ∈ ss, lensAgree s.nrows s.nscores chunk = true := List.all_eq_true.mp hl
      simp only [if_true]
      cases hr : (runOpsChecked prot nl decoys req false (ss.map (sizedEntry chunk mk))).2
      · simp only [Bool.false_eq_true, if_false, Option.isSome_none, false_iff]
        intro h
        have := hc.mpr (hfit.mpr h.2.2)
        rw [hr] at this
        exact absurd this (by simp)
      · simp only [if_true, Option.isSome_some, true_iff]
        exact ⟨hp, hl', hfit.mp (hc.mp hr)⟩
  · simp only [if_true, Option.isSome_none, Bool.false_eq_true, false_iff]
    intro h
    simp only [Bool.and_eq_true, decide_eq_true_eq] at hg
    have := h.1 hg.1
    omega

/-- an accepted call is the call of the earlier model (same operation list) -/
theorem C09_sized_is_assign (req : Bool) (chunk : Nat) (mk : Option Nat → Nat → Coll)
    (hmk : ∀ p k, (mk p k).k = k) (ss : List SizedColl) (prog : List Op)
    (h : assignOpsSized prot nl decoys req chunk mk ss = some prog) :
    assignOps prot nl decoys req (ss.map (fun s => mk s.pfx (chunkCount s.nscores chunk)))
      = some prog := by
  have hacc := (C09_sized_accepts_iff prot nl decoys req chunk mk hmk ss).mp (by rw [h]; rfl)
  have hfull := (C09_sizedEntries_full_iff chunk mk hmk ss).mpr hacc.2.2
  unfold assignOpsSized at h
  unfold assignOps
  split
  · rename_i hg
    simp [hg] at h
  · rename_i hg
    have hall : (ss.all fun s => lensAgree s.nrows s.nscores chunk) = true := by
      rw [List.all_eq_true]; exact hacc.2.1
    simp only [hg, Bool.false_eq_true, if_false, hall, if_true,
      runOpsChecked_complete prot nl decoys req false _ hfull] at h
    rw [← h]
    simp [List.map_map, Function.comp_def, sizedEntry]

/-- **whatever the call accepts** gives the same values read and the same result files from any two
initial directories: no hypothesis on table sizes, score lengths, chunk size, prefixes, levels or
the protein level is left -/
theorem C09_sized_results_fs_independent (chunk : Nat) (mk : Option Nat → Nat → Coll)
    (hmk : ∀ p k, (mk p k).k = k ∧ (mk p k).pfx = p) (ss : List SizedColl)
    (prog : List Op) (h : assignOpsSized prot nl decoys false chunk mk ss = some prog)
    (fs₁ fs₂ : FS) (outs : Outs) :
    (exec fs₁ outs prog).2 = (exec fs₂ outs prog).2 ∧
    (∀ s ∈ ss, ∀ l, l < nlp prot nl → FS.get (exec fs₁ outs prog).1 (targetOf s.pfx l)
        = FS.get (exec fs₂ outs prog).1 (targetOf s.pfx l)) ∧
    (decoys = true → ∀ s ∈ ss, ∀ l, l < nlp prot nl →
      FS.get (exec fs₁ outs prog).1 (decoyOf s.pfx l)
        = FS.get (exec fs₂ outs prog).1 (decoyOf s.pfx l)) := by
  have h' := C09_sized_is_assign prot nl decoys false chunk mk (fun p k => (hmk p k).1) ss prog h
  obtain ⟨h1, h2, h3⟩ := C09_assign_results_fs_independent prot nl decoys _ prog h' fs₁ fs₂ outs
  refine ⟨h1, ?_, ?_⟩
  · intro s hs l hl
    have := h2 (mk s.pfx (chunkCount s.nscores chunk)) (List.mem_map.mpr ⟨s, hs, rfl⟩) l hl
    rwa [(hmk _ _).2] at this
  · intro hd s hs l hl
    have := h3 hd (mk s.pfx (chunkCount s.nscores chunk)) (List.mem_map.mpr ⟨s, hs, rfl⟩) l hl
    rwa [(hmk _ _).2] at this

/-! ## the refusal (confidence.py:873-881) -/

/-- a collection that is refused has read nothing and appended to nothing: it only truncated its
result and chunk files and unlinked the chunk files again — no leftover can have reached anything -/
theorem C09_sized_refused_reads_nothing (init : Bool) (c : Coll) (kw : Nat) {op : Op}
    (h : op ∈ refusedCollOps prot nl decoys init c kw) :
    (∃ n f, op = .trunc n f) ∨ (∃ n, op = .unlink n) :=
  ops_refusedCollOps prot nl decoys init c kw h

/-- … and none of the chunk files it wrote remains -/
theorem C09_sized_refused_no_chunk_remains (init : Bool) (c : Coll) (kw : Nat) (fs : FS)
    (outs : Outs) (i : Nat) (hi : i < kw) :
    FS.get (exec fs outs (refusedCollOps prot nl decoys init c kw)).1 (chunkOf c.pfx i) = none :=
  exec_absent fs outs _ _ false (fun h => absurd h (by simp))
    (absent_refusedCollOps_chunk prot nl decoys init c kw false hi)

/-- the first collection with fewer chunk files written than score chunks ends the call -/
theorem C09_sized_refused_at_first_short (req seen : Bool) (c : Coll) (kw : Nat) (hk : kw ≠ c.k)
    (rest : List (Coll × Nat)) :
    runOpsChecked prot nl decoys req seen ((c, kw) :: rest)
      = (refusedCollOps prot nl decoys (!(req || (seen && c.pfx.isNone))) c kw, false) := by
  simp [runOpsChecked, hk]

/-! ## the loop before the repair of F4: more score chunks than table chunks were merged -/

/-- **Fewer chunk files written than merged**: the operation list fails the check — the merge
reads `scores_metadata_<kw>` of this collection's prefix, which this run has not written —
whatever else the run does afterwards (`rest`), for every number of levels, with or without the
protein level, unless that very file name is already known (e.g. unlinked by an earlier
collection of the same call). -/
theorem C09_short_table_rejected (init : Bool) (c : Coll) (kw : Nat) (hk : kw < c.k)
    (known : List Name) (hn : chunkOf c.pfx kw ∉ known) (rest : List Op) :
    wellInit known (collOpsKW prot nl decoys init c kw ++ rest) = false :=
  wellInit_collOpsKW_short prot nl decoys init c known kw hk hn rest

/-- for the whole call, when the first collection is short -/
theorem C09_short_first_collection_rejected (req : Bool) (c : Coll) (kw : Nat) (hk : kw < c.k)
    (rest : List (Coll × Nat)) :
    wellInit [] (runOpsKW prot nl decoys req false ((c, kw) :: rest)) = false := by
  simp only [runOpsKW]
  exact wellInit_collOpsKW_short prot nl decoys _ c [] kw hk (by simp) _

/-- **what the merge then reads is the leftover itself**: up to the merge of chunk file `i`
(`kw ≤ i < c.k`) the run has not written that file, so the value it reads there is exactly the
content the initial directory holds under that name (`[]` when there is none — the real run
raises `FileNotFoundError` then) -/
theorem C09_short_table_reads_leftover (init : Bool) (c : Coll) (kw i : Nat) (hi : kw ≤ i)
    (fs : FS) (outs : Outs) :
    (exec fs outs (kwHead prot nl decoys init c kw ++ [Op.read (chunkOf c.pfx i)])).2
      = (exec fs outs (kwHead prot nl decoys init c kw)).2 ++ [FS.content fs (chunkOf c.pfx i)] :=
  exec_read_unwritten fs outs _ _ (not_written_before_merge prot nl decoys init c kw i hi)

/-- `kwHead` is the beginning of the collection's operation list, and it contains the read of
every merged chunk file -/
theorem C09_short_table_head (init : Bool) (c : Coll) (kw : Nat) :
    collOpsKW prot nl decoys init c kw
        = kwHead prot nl decoys init c kw ++ kwTail prot nl decoys c ∧
      ∀ i, i < c.k → Op.read (chunkOf c.pfx i) ∈ kwHead prot nl decoys init c kw := by
  refine ⟨collOpsKW_split prot nl decoys init c kw, ?_⟩
  intro i hi
  simp only [kwHead, List.mem_append]
  exact Or.inr (Or.inr (mem_xphase3 _ hi))

/-- … and the run deletes every merged file, its own or not: a stale `scores_metadata_<i>` that
was read is gone afterwards -/
theorem C09_short_table_deletes_leftover (init : Bool) (c : Coll) (kw : Nat) (fs : FS)
    (outs : Outs) (i : Nat) (hi : i < c.k) :
    FS.get (exec fs outs (collOpsKW prot nl decoys init c kw)).1 (chunkOf c.pfx i) = none :=
  exec_absent fs outs _ _ false (fun h => absurd h (by simp))
    (absent_collOpsKW_chunk prot nl decoys init c kw false hi)

/-- **when it happens**: a table whose row count is a multiple of the chunk size (`q` full
chunks) with a score array that is longer by at least one entry — no written chunk gets a
score slice of another length (so nothing raises before the merge), `q` files are written and
more than `q` are merged -/
theorem C09_short_when_multiple_and_longer (c q nscores : Nat) (hc : 0 < c) (h : q * c < nscores) :
    lensAgree (q * c) nscores c = true ∧ writtenCount (q * c) nscores c = q ∧
      q < chunkCount nscores c :=
  multiple_longer_short c q nscores hc h

/-- before the repair the call was not refused in that situation: the code went on to merge -/
theorem C09_short_call_was_not_refused (req : Bool) (mk : Option Nat → Nat → Coll) (p : Option Nat)
    (c q nscores : Nat) (hc : 0 < c) (h : q * c < nscores) (hp : prot = true → 2 ≤ nl) :
    (assignOpsSizedOld prot nl decoys req c mk [⟨p, q * c, nscores⟩]).isSome = true := by
  unfold assignOpsSizedOld
  have hg : (prot && decide (nl < 2)) = false := by
    cases prot
    · rfl
    · have := hp rfl
      simp; omega
  simp [hg, (multiple_longer_short c q nscores hc h).1]

/-- the repaired call refuses it -/
theorem C09_short_call_refused (req : Bool) (mk : Option Nat → Nat → Coll)
    (hmk : ∀ p k, (mk p k).k = k) (p : Option Nat) (c q nscores : Nat) (hc : 0 < c)
    (h : q * c < nscores) :
    assignOpsSized prot nl decoys req c mk [⟨p, q * c, nscores⟩] = none := by
  have hiff := C09_sized_accepts_iff prot nl decoys req c mk hmk [⟨p, q * c, nscores⟩]
  cases hs : assignOpsSized prot nl decoys req c mk [⟨p, q * c, nscores⟩] with
  | none => rfl
  | some prog =>
    exfalso
    have hfit := (hiff.mp (by rw [hs]; rfl)).2.2
    simp only [sizesFit, List.all_cons, List.all_nil, Bool.and_true, decide_eq_true_eq] at hfit
    have h1 := (multiple_longer_short c q nscores hc h).2.2
    rw [chunkCount_mul c q hc] at hfit
    omega

end sized

/-! ## the SQLite result database -/

section sql
variable (nl : Nat) (decoys : Bool) (db : Name) (c : Coll)

/-- with the database as the only declared input the operation list passes the check -/
theorem C09_sql_wellInit : wellInit [db] (collOpsSql nl decoys db c) = true :=
  wellInit_collOpsSql nl decoys db c [db] (by simp)

/-- two directories that hold the same database (same content, or none in both) give the same
values read and the same database afterwards, whatever else they contain: stale chunk, level and
text result files of earlier runs never reach it -/
theorem C09_sql_results_fs_independent (fs₁ fs₂ : FS) (outs : Outs)
    (h : FS.get fs₁ db = FS.get fs₂ db) :
    let prog := collOpsSql nl decoys db c
    (exec fs₁ outs prog).2 = (exec fs₂ outs prog).2 ∧
      FS.get (exec fs₁ outs prog).1 db = FS.get (exec fs₂ outs prog).1 db := by
  intro prog
  obtain ⟨h1, h2⟩ := exec_agree [db] prog (C09_sql_wellInit nl decoys db c) fs₁ fs₂ outs
    (by intro n hn; simp only [List.mem_singleton] at hn; subst hn; exact h)
  exact ⟨h1, h2 db (mem_knownAfter_of_mem _ _ (by simp))⟩

/-- after a successful run with a database nothing of the run remains in the destination
directory: no chunk file, no level file and **no text result file** (initialised by the run,
then unlinked — they are intermediates here), whatever the directory held before -/
theorem C09_sql_no_files_remain (hdb : DbApart db) (fs : FS) (outs : Outs) :
    let fs' := (exec fs outs (collOpsSql nl decoys db c)).1
    (∀ i, i < c.k → FS.get fs' (chunkOf c.pfx i) = none) ∧
    (∀ l, l < nl → FS.get fs' (.level l) = none ∧ FS.get fs' (targetOf c.pfx l) = none ∧
      (decoys = true → FS.get fs' (decoyOf c.pfx l) = none)) := by
  intro fs'
  refine ⟨?_, ?_⟩
  · intro i hi
    exact exec_absent fs outs _ _ false (fun h => absurd h (by simp))
      (absent_collOpsSql_chunk nl decoys db c hdb false hi)
  · intro l hl
    refine ⟨?_, ?_, ?_⟩
    · exact exec_absent fs outs _ _ false (fun h => absurd h (by simp))
        (absent_collOpsSql_of_unlink nl decoys db c _ (fun h => hdb.2.1 l h.symm) false
          (mem_sqlPhase6_unlink_level decoys db hl))
    · exact exec_absent fs outs _ _ false (fun h => absurd h (by simp))
        (absent_collOpsSql_of_unlink nl decoys db c _ (fun h => hdb.2.2.1 _ l h.symm) false
          (mem_sqlPhase6_unlink_target decoys db hl))
    · intro hd
      exact exec_absent fs outs _ _ false (fun h => absurd h (by simp))
        (absent_collOpsSql_of_unlink nl decoys db c _ (fun h => hdb.2.2.2 _ l h.symm) false
          (mem_sqlPhase6_unlink_decoy decoys db hl hd))

/-- frame: everything that is neither the database nor a chunk, level or result file of this
collection is left as it was -/
theorem C09_sql_frame (fs : FS) (outs : Outs) (n : Name) (hn : n ≠ db)
    (h1 : ∀ i, i < c.k → n ≠ chunkOf c.pfx i)
    (h2 : ∀ l, l < nl → n ≠ .level l ∧ n ≠ targetOf c.pfx l ∧ n ≠ decoyOf c.pfx l) :
    FS.get (exec fs outs (collOpsSql nl decoys db c)).1 n = FS.get fs n := by
  apply exec_frame
  intro hw
  rcases writes_collOpsSql nl decoys db c hw with h | ⟨i, hi, h⟩ | ⟨l, hl, h | ⟨_, h⟩ | h⟩
  · exact hn h
  · exact h1 i hi h
  · exact (h2 l hl).2.1 h
  · exact (h2 l hl).2.2 h
  · exact (h2 l hl).1 h

/-- the database is never truncated, unlinked or moved: it is only appended to (statements on
existing tables) -/
theorem C09_sql_db_only_appended (hdb : DbApart db) {op : Op} (h : op ∈ collOpsSql nl decoys db c)
    (hw : db ∈ writesOp op) : ∃ f, op = .append db f := by
  simp only [collOpsSql, List.mem_append] at h
  rcases h with h | h | h | h | h | h
  · exfalso
    obtain ⟨l, _, h' | ⟨_, h'⟩⟩ := writes_xphase1 _ _ _ _ ((mem_writes_iff _ _).mpr ⟨op, h, hw⟩)
    · exact hdb.2.2.1 _ _ h'
    · exact hdb.2.2.2 _ _ h'
  · exfalso
    obtain ⟨i, _, h'⟩ := writes_xphase2 _ _ _ ((mem_writes_iff _ _).mpr ⟨op, h, hw⟩)
    exact hdb.1 _ _ h'
  · exfalso
    have : db ∈ writes (xphase3 c.pfx c.k) := (mem_writes_iff _ _).mpr ⟨op, h, hw⟩
    simp [writes_xphase3] at this
  · exfalso
    obtain ⟨l, _, h'⟩ := writes_phase4 nl c.lvhdr c.lvdata ((mem_writes_iff _ _).mpr ⟨op, h, hw⟩)
    exact hdb.2.1 _ h'
  · exfalso
    obtain ⟨i, _, h'⟩ := writes_xphase5 _ _ ((mem_writes_iff _ _).mpr ⟨op, h, hw⟩)
    exact hdb.1 _ _ h'
  · obtain ⟨l, _, h' | h' | h' | ⟨_, h'⟩ | h'⟩ := mem_sqlPhase6 decoys db h <;> subst h' <;>
      simp only [writesOp, List.mem_singleton, List.not_mem_nil] at hw
    · exact ⟨_, rfl⟩
    · exact absurd hw (hdb.2.2.1 _ _)
    · exact absurd hw (hdb.2.2.2 _ _)
    · exact absurd hw (hdb.2.1 _)

end sql

/-! ## non-vacuity and tests -/

/-- leftovers of an earlier run that needed three chunk files, next to old result files -/
def dirtyFsSized : FS :=
  [(.chunk 2, [666]), (.chunk 0, [667]), (.level 0, [668]), (.target 0, [669]), (dbName, [7])]

-- two chunk files written, three merged: the stale third one is read, reaches the results and is
-- deleted; in the empty directory the "file" read is missing
#guard (exec dirtyFsSized [] (demoRunKW false 2 true false [(none, 3, 2)])).2
  = [[100], [101], [666], [2, 100, 101, 666], [2, 100, 101, 666]]
#guard (exec [] [] (demoRunKW false 2 true false [(none, 3, 2)])).2
  = [[100], [101], [], [2, 100, 101], [2, 100, 101]]
#guard FS.get (exec dirtyFsSized [] (demoRunKW false 2 true false [(none, 3, 2)])).1 (.chunk 2) = none
#guard wellInit [] (demoRunKW false 2 true false [(none, 3, 2)]) = false
#guard wellInit [] (demoRunKW false 2 true false [(none, 3, 3)]) = true
#guard exec dirtyFsSized [] (demoRunKW false 2 true false [(none, 3, 3), (some 0, 1, 1)])
  = exec dirtyFsSized [] (demoRun false 2 true false [(none, 3), (some 0, 1)])
-- sizes: 10 rows in chunks of 5, 12 scores: 2 files written, 3 merged, no length mismatch
#guard chunkCount 10 5 = 2 && chunkCount 12 5 = 3 && writtenCount 10 12 5 = 2 && lensAgree 10 12 5
-- 8 rows, 12 scores: the second chunk has 3 rows and 5 scores: `ValueError`, the call is refused
#guard lensAgree 8 12 5 = false && (demoAssignSized false 2 true false 5 [⟨none, 8, 12⟩]).isNone
#guard (demoAssignSizedOld false 2 true false 5 [⟨none, 10, 12⟩]).isSome
#guard (demoAssignSized false 2 true false 5 [⟨none, 10, 12⟩]).isNone
-- the refused call: first collection complete, the second one stops after removing its two chunk files
#guard (demoRunChecked false 1 false false 5 [⟨some 0, 3, 3⟩, ⟨none, 10, 12⟩]).2 = false
#guard (exec dirtyFsSized [] (demoRunChecked false 1 false false 5 [⟨some 0, 3, 3⟩, ⟨none, 10, 12⟩]).1).1
  = [(.chunk 2, [666]), (.target 0, [1]), (dbName, [7]), (.ptarget 0 0, [1, 1002, 1100])]
#guard (demoAssignSized false 2 true false 5 [⟨none, 10, 10⟩, ⟨some 0, 3, 3⟩]).map (exec dirtyFsSized [])
  = (demoAssign false 2 true false [(none, 2), (some 0, 1)]).map (exec dirtyFsSized [])
#guard (List.range 40).all fun n => (List.range 7).all fun c =>
  chunkCount n (c + 1) = ((List.range n).filter (fun i => i % (c + 1) = 0)).length
-- the database run: stale files do not reach the database, no text result file remains
#guard (exec dirtyFsSized [] (demoSql 2 true none 2)).2 = (exec [(dbName, [7])] [] (demoSql 2 true none 2)).2
#guard FS.get (exec dirtyFsSized [] (demoSql 2 true none 2)).1 dbName
  = some [7, 1002, 1100, 1101, 1002, 1100, 1101]
#guard (exec dirtyFsSized [] (demoSql 2 true none 2)).1
  = [(.chunk 2, [666]), (dbName, [7, 1002, 1100, 1101, 1002, 1100, 1101])]
#guard wellInit [dbName] (demoSql 2 true (some 1) 3) = true
#guard wellInit [] (demoSql 2 true none 1) = false   -- the database itself is an input

/-- kernel-checked instances of the hypotheses: a short collection, sizes of the finding, a
database apart from the run's names, equal databases in two different directories -/
example : (2 : Nat) < (demoColl none 3).k ∧ chunkOf (demoColl none 3).pfx 2 ∉ ([] : List Name) := by
  decide
example : (0 : Nat) < 5 ∧ 2 * 5 < 12 := by decide
example : sizesFit 5 [⟨none, 10, 10⟩, ⟨some 0, 3, 3⟩] = true ∧
    (∀ s ∈ [(⟨none, 10, 10⟩ : SizedColl), ⟨some 0, 3, 3⟩], lensAgree s.nrows s.nscores 5 = true) := by
  decide
example : (demoAssignSized false 2 true false 5 [⟨none, 10, 10⟩, ⟨some 0, 3, 3⟩]).isSome = true := by
  decide
example : DbApart dbName := dbApart_dbName
example : FS.get dirtyFsSized dbName = FS.get [(dbName, [7])] dbName := by decide

end Mk.FsRun
