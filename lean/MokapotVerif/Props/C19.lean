import MokapotVerif.Lemmas.PinTsvMisc
/-!
# C19 — PIN → rectangular TSV conversion is lossless, order-preserving and idempotent

Property theorems only.  `sepC` is the column separator (any character but the
newline; `'\t'` in mokapot), `sepP` the protein separator (any string; `":"` in
mokapot).  A `PinDoc` is an abstract PIN file: header columns with a `Proteins`
column at any position, an optional DefaultDirection line, rows with any
number ≥ 1 of protein fields, optional whitespace padding around every line,
with or without trailing newline.  `renderPin` is its text, `specTable` the
rectangular table the conversion has to produce, `renderTsv` that table as
text.  `d.wf sepC` is the (decidable) well-formedness predicate of
`Model/PinTsv.lean`; what the code does outside it is listed at the end.
-/
namespace Mk

/-! ## one line -/

/-- `convert_line_pin_to_tsv` on a split line: with `|pre|` fields before the
protein column, `k ≥ 1` proteins and `|post|` fields after it, the result is
`pre ++ [proteins joined] ++ post` — wherever the protein column stands, for
any number of proteins and of other columns. -/
theorem C19_convert_spec (sepP : Str) (pre prots post : List Str) (hne : prots ≠ []) :
    convertFields sepP (pre ++ prots ++ post) pre.length (pre.length + 1 + post.length)
      = pre ++ [joinWith sepP prots] ++ post :=
  convertFields_spec sepP pre prots post hne

/-- a line that already has exactly `nCol` fields is left unchanged -/
theorem C19_convert_rectangular_id (sepP : Str) (fs : List Str) (idx : Nat) (h : idx < fs.length) :
    convertFields sepP fs idx fs.length = fs := by
  have e : fs = fs.take idx ++ [fs[idx]] ++ fs.drop (idx + 1) := by
    rw [List.append_assoc, List.singleton_append, List.getElem_cons_drop, List.take_append_drop]
  have hl : (fs.take idx).length = idx := by rw [List.length_take]; omega
  have hn : fs.length = (fs.take idx).length + 1 + (fs.drop (idx + 1)).length := by
    rw [hl, List.length_drop]; omega
  have := convertFields_spec sepP (fs.take idx) [fs[idx]] (fs.drop (idx + 1)) (by simp)
  rw [← e, hl] at this
  rw [hl] at hn
  rw [← hn] at this
  simpa [joinWith, ← e] using this

/-- the same on text: the padded PIN line of a well-formed row is converted to
the joined rectangular line (non-protein fields unchanged, proteins joined) -/
theorem C19_convert_line_spec (sepC : Char) (sepP : Str) (idx nCol : Nat) (r : PinRow)
    (h : rowOk sepC idx nCol r = true) :
    convertLine sepC sepP idx nCol (strip (r.line sepC)) = joinWith [sepC] (r.pre ++ [joinWith sepP r.prots] ++ r.post) :=
  ((rowOk_iff sepC idx nCol r).mp h).convertLine sepP

/-! ## whole files -/

/-- **main theorem**: converting the text of a well-formed PIN document yields
exactly the text of its rectangular table — same header, one line per PSM in
the original order, proteins joined, DefaultDirection line dropped. -/
theorem C19_pin_to_tsv_spec (sepC : Char) (sepP : Str) (d : PinDoc) (h : d.wf sepC = true) :
    pinToTsv sepC sepP (renderPin sepC d) = .ok (renderTsv sepC sepP d) :=
  ((wf_iff sepC d).mp h).pinToTsv sepP

/-- lossless and order-preserving, read from the output alone: splitting the
output into lines and fields gives back the header columns followed by, for
every PSM in the original order, its fields with the proteins joined. -/
theorem C19_output_table (sepC : Char) (sepP : Str) (d : PinDoc) (h : d.wf sepC = true)
    (hp : sepPOk sepC sepP = true) :
    ∃ out, pinToTsv sepC sepP (renderPin sepC d) = .ok out ∧
      parseTable sepC out = d.cols :: d.rows.map (fun r => r.pre ++ [joinWith sepP r.prots] ++ r.post) := by
  have hw := (wf_iff sepC d).mp h
  exact ⟨_, hw.pinToTsv sepP, parseTable_renderTable (hw.tableOk sepP hp) hw.sep⟩

/-- the header line is preserved (up to the surrounding whitespace `strip`
removes): the first output line is the stripped first input line, i.e. the
header columns joined by the separator -/
theorem C19_header_preserved (sepC : Char) (sepP : Str) (d : PinDoc) (h : d.wf sepC = true) :
    ∃ out, pinToTsv sepC sepP (renderPin sepC d) = .ok out ∧
      (pyLines out).head? = (pyLines (renderPin sepC d)).head?.map (fun l => strip l ++ ['\n']) ∧
      (pyLines out).head? = some (joinWith [sepC] d.cols ++ ['\n']) := by
  have hw := (wf_iff sepC d).mp h
  refine ⟨_, hw.pinToTsv sepP, ?_, hw.out_head sepP⟩
  rw [hw.out_head sepP, hw.in_head]
  simp only [Option.map_some, strip_append_nl, hw.strip_header]

/-- one output line per PSM, in the original order: the output has
`1 + #rows` lines and line `i+1` holds the fields of row `i`, proteins joined -/
theorem C19_rows_order_count (sepC : Char) (sepP : Str) (d : PinDoc) (h : d.wf sepC = true)
    (hp : sepPOk sepC sepP = true) :
    ∃ out, pinToTsv sepC sepP (renderPin sepC d) = .ok out ∧
      (pyLines out).length = 1 + d.rows.length ∧
      ∀ i (hi : i < d.rows.length),
        (parseTable sepC out)[i + 1]? = some (d.rows[i].pre ++ [joinWith sepP d.rows[i].prots] ++ d.rows[i].post) := by
  obtain ⟨out, h1, h2⟩ := C19_output_table sepC sepP d h hp
  refine ⟨out, h1, ?_, ?_⟩
  · have : (parseTable sepC out).length = (pyLines out).length := by simp [parseTable]
    rw [← this, h2]; simp; omega
  · intro i hi
    rw [h2]; simp [hi]

/-- whatever the input text: when the conversion succeeds, it writes the header
and then one line per further input line in order, except a second line that
starts with `DefaultDirection` -/
theorem C19_line_count_any_input (sepC : Char) (sepP : Str) (ls out : List Str)
    (h : pinToTsvLines sepC sepP ls = .ok out) :
    out.length + (if ((ls[1]?.map (fun l => isDD (strip l))).getD false) then 1 else 0) = ls.length :=
  pinToTsvLines_length sepC sepP ls out h

/-- an optional DefaultDirection line is dropped: the output is the same
with and without it -/
theorem C19_default_direction_dropped (sepC : Char) (sepP : Str) (d : PinDoc) (x : Str)
    (h1 : ({ d with dd := some x } : PinDoc).wf sepC = true) (h0 : ({ d with dd := none } : PinDoc).wf sepC = true) :
    pinToTsv sepC sepP (renderPin sepC { d with dd := some x })
      = pinToTsv sepC sepP (renderPin sepC { d with dd := none }) := by
  rw [C19_pin_to_tsv_spec sepC sepP _ h1, C19_pin_to_tsv_spec sepC sepP _ h0]
  rfl

/-- the output is recognised as a valid TSV by `is_valid_tsv` -/
theorem C19_output_valid (sepC : Char) (sepP : Str) (d : PinDoc) (h : d.wf sepC = true)
    (hp : sepPOk sepC sepP = true) (hf : firstTsvRowOk sepC sepP d = true) :
    ∃ out, pinToTsv sepC sepP (renderPin sepC d) = .ok out ∧ isValid sepC out = .ok true :=
  ⟨_, C19_pin_to_tsv_spec sepC sepP d h, ((wf_iff sepC d).mp h).output_valid sepP hp hf⟩

/-- converting the output again changes nothing -/
theorem C19_convert_idempotent (sepC : Char) (sepP : Str) (d : PinDoc) (h : d.wf sepC = true)
    (hp : sepPOk sepC sepP = true) (hf : firstTsvRowOk sepC sepP d = true) :
    ∃ out, pinToTsv sepC sepP (renderPin sepC d) = .ok out ∧ pinToTsv sepC sepP out = .ok out := by
  have hw := (wf_iff sepC d).mp h
  refine ⟨_, hw.pinToTsv sepP, ?_⟩
  have := (hw.converted sepP hp hf).pinToTsv sepP
  rwa [renderPin_converted, renderTsv_converted] at this

/-! ## the validity test, for every text -/

/-- `is_valid_tsv` raises (`StopIteration`) exactly on files with fewer than two
lines and otherwise answers the declarative criterion -/
theorem C19_valid_eq_spec (sepC : Char) (text : Str) :
    isValid sepC text =
      if (pyLines text).length < 2 then .error .stopIteration else .ok (validSpecB sepC (pyLines text)) :=
  isValidLines_spec sepC (pyLines text)

/-- a file is reported valid exactly when it has a second line, that line does
not start with `DefaultDirection`, and every line has as many fields
(= separators + 1) as the header line -/
theorem C19_valid_iff_rectangular_and_no_dd (sepC : Char) (text : Str) :
    isValid sepC text = .ok true ↔
      ∃ hdr l2 more, pyLines text = hdr :: l2 :: more ∧ isDD l2 = false ∧
        ∀ l ∈ l2 :: more, l.count sepC + 1 = hdr.count sepC + 1 := by
  rw [C19_valid_eq_spec]
  cases hl : pyLines text with
  | nil => simp
  | cons hdr r =>
    cases r with
    | nil => simp
    | cons l2 more =>
      have : ¬ ((hdr :: l2 :: more).length < 2) := by simp
      rw [if_neg this]
      simp only [validSpecB, List.length_cons, List.tail_cons, List.head?_cons, Option.map_some,
        Option.getD_some, List.headD_cons, Except.ok.injEq, Bool.and_eq_true, decide_eq_true_eq,
        Bool.not_eq_true', List.all_eq_true, beq_iff_eq, List.cons.injEq, Nat.add_right_cancel_iff]
      constructor
      · rintro ⟨⟨_, h2⟩, h3⟩
        exact ⟨hdr, l2, more, ⟨rfl, rfl, rfl⟩, h2, h3⟩
      · rintro ⟨hdr', l2', more', ⟨rfl, rfl, rfl⟩, h2, h3⟩
        exact ⟨⟨by omega, h2⟩, h3⟩

/-- the number of fields `len(line.split(sep))` is the number of separators plus one -/
theorem C19_field_count (sepC : Char) (line : Str) : nFields sepC line = line.count sepC + 1 :=
  nFields_eq_count sepC line

/-! ## the CLI verify step (mokapot.py:61-73) -/

/-- after the verify step the file is a valid TSV — untouched if it already was
one, replaced by its conversion otherwise — and running the step again
changes nothing -/
theorem C19_verify_step (d : PinDoc) (h : d.wf '\t' = true) (hf : firstTsvRowOk '\t' [':'] d = true) :
    ∃ out, verifyStep (renderPin '\t' d) = .ok out ∧ isValid '\t' out = .ok true ∧
      verifyStep out = .ok out ∧
      ((isValid '\t' (renderPin '\t' d) = .ok true ∧ out = renderPin '\t' d) ∨
       (isValid '\t' (renderPin '\t' d) = .ok false ∧ out = renderTsv '\t' [':'] d)) := by
  obtain ⟨out, h1, h2, h3⟩ := ((wf_iff '\t' d).mp h).verifyStep hf
  refine ⟨out, h1, h2, ?_, h3⟩
  simp [verifyStep, h2, Except.bind]

/-! ## Non-vacuity and evaluation tests -/

/-- the example of the module docstring, with a DefaultDirection line, padding
and the protein column in the middle -/
def exDoc : PinDoc :=
  { hpadL := [], cols := ["SpecId".toList, "Label".toList, "Proteins".toList, "Peptide".toList], hpadR := [' '],
    dd := some "DefaultDirection\t-\t-".toList,
    rows := [
      { padL := [], pre := ["t_1".toList, "1".toList], prots := ["sp|A".toList, "sp|B".toList, "sp|C".toList],
        post := ["K.SEFLVR.E".toList], padR := ['\r'] },
      { padL := [' '], pre := ["t_2".toList, "-1".toList], prots := ["sp|D".toList],
        post := ["R.HTALGPR.S".toList], padR := [] }],
    trailingNl := false }

#guard exDoc.wf '\t'
#guard sepPOk '\t' [':']
#guard firstTsvRowOk '\t' [':'] exDoc
#guard String.ofList (renderPin '\t' exDoc) =
  "SpecId\tLabel\tProteins\tPeptide \nDefaultDirection\t-\t-\nt_1\t1\tsp|A\tsp|B\tsp|C\tK.SEFLVR.E\r\n t_2\t-1\tsp|D\tR.HTALGPR.S"
#guard (pinToTsv '\t' [':'] (renderPin '\t' exDoc)).toOption.map String.ofList =
  some "SpecId\tLabel\tProteins\tPeptide\nt_1\t1\tsp|A:sp|B:sp|C\tK.SEFLVR.E\nt_2\t-1\tsp|D\tR.HTALGPR.S\n"
#guard (isValid '\t' (renderPin '\t' exDoc)).toOption = some false
#guard (isValid '\t' (renderTsv '\t' [':'] exDoc)).toOption = some true
#guard (verifyStep (renderPin '\t' exDoc)).toOption = some (renderTsv '\t' [':'] exDoc)
-- header-only file, missing Proteins column, short row (negative slice bound, as in Python)
#guard (pinToTsv '\t' [':'] "a\tProteins\n".toList).toOption = none
#guard (pinToTsv '\t' [':'] "a\tb\nc\td\n".toList).toOption = none
#guard (pinToTsv '\t' [':'] "a\tb\tProteins\nx\n".toList).toOption.map String.ofList = some "a\tb\tProteins\nx\t\n"
#guard convertFields [':'] ["a".toList, "b".toList, "c".toList, "d".toList] 1 2 = ["a".toList, "b:c:d".toList]
#guard convertFields [':'] ["a".toList, "b".toList, "c".toList, "d".toList] 0 3 = ["a:b".toList, "c".toList, "d".toList]

/-- the hypotheses of the theorems are satisfiable by a non-trivial document -/
example : ∃ d : PinDoc, d.wf '\t' = true ∧ sepPOk '\t' [':'] = true ∧ firstTsvRowOk '\t' [':'] d = true ∧
    d.dd.isSome = true ∧ 2 ≤ d.rows.length ∧ (∃ r ∈ d.rows, 3 ≤ r.prots.length ∧ r.post ≠ []) :=
  ⟨{ hpadL := [], cols := [['I'], proteinsName, ['P']], hpadR := [' '], dd := some ddName,
     rows := [{ padL := [], pre := [['a']], prots := [['x'], ['y'], ['z']], post := [['p']], padR := ['\r'] },
              { padL := [' '], pre := [['b']], prots := [['w']], post := [['q']], padR := [] }],
     trailingNl := false }, by decide⟩

end Mk
