import MokapotVerif.Lemmas.PinTsvFiles
/-!
# C19 — PIN → rectangular TSV conversion is lossless, order-preserving and idempotent

Property theorems only.  `sepC` is the column separator (any character but the
newline; `'\t'` in mokapot), `sepP` the protein separator (any string; `":"` in
mokapot).  A `PinDoc` is an abstract PIN file: header columns with a `Proteins`
column at any position, an optional DefaultDirection line, rows with any
number ≥ 1 of protein fields — every field may be empty or blank, also the first
and the last one of a line —, lines optionally ending with carriage returns
(`"\r\n"` texts from a source that does not translate newlines), with or
without trailing newline.  `renderPin` is its text, `specTable` the
rectangular table the conversion has to produce, `renderTsv` that table as
text.  `d.wf sepC` is the (decidable) well-formedness predicate of
`Model/PinTsv.lean`; what the code does outside it is listed at the end.
-/
namespace Mk

/-! ## one line -/

/-- `convert_line_pin_to_tsv` on a split line: with `|pre|` fields before the
protein column, `k ≥ 1` proteins and `|post|` fields after it, the result is
`pre ++ [proteins joined] ++ post` — wherever the protein column stands, for
any number of proteins and of other columns. -/
theorem C19_convert_spec (sepP : Str) (pre prots post : List Str) (hne : prots ≠ []) :
    convertFields sepP (pre ++ prots ++ post) pre.length (pre.length + 1 + post.length)
      = pre ++ [joinWith sepP prots] ++ post :=
  convertFields_spec sepP pre prots post hne

/-- a line that already has exactly `nCol` fields is left unchanged -/
theorem C19_convert_rectangular_id (sepP : Str) (fs : List Str) (idx : Nat) (h : idx < fs.length) :
    convertFields sepP fs idx fs.length = fs := by
  have e : fs = fs.take idx ++ [fs[idx]] ++ fs.drop (idx + 1) := by
    rw [List.append_assoc, List.singleton_append, List.getElem_cons_drop, List.take_append_drop]
  have hl : (fs.take idx).length = idx := by rw [List.length_take]; omega
  have hn : fs.length = (fs.take idx).length + 1 + (fs.drop (idx + 1)).length := by
    rw [hl, List.length_drop]; omega
  have := convertFields_spec sepP (fs.take idx) [fs[idx]] (fs.drop (idx + 1)) (by simp)
  rw [← e, hl] at this
  rw [hl] at hn
  rw [← hn] at this
  simpa [joinWith, ← e] using this

/-- the same on text: the PIN line of a well-formed row (fields possibly empty,
also at either end) is converted to the joined rectangular line (non-protein
fields unchanged, proteins joined) -/
theorem C19_convert_line_spec (sepC : Char) (sepP : Str) (idx nCol : Nat) (r : PinRow)
    (h : rowOk sepC idx nCol r = true) (hs : isEol sepC = false) :
    convertLine sepC sepP idx nCol (chomp (r.line sepC)) = joinWith [sepC] (r.pre ++ [joinWith sepP r.prots] ++ r.post) :=
  ((rowOk_iff sepC idx nCol r).mp h).convertLine hs sepP

/-! ## whole files -/

/-- **main theorem**: converting the text of a well-formed PIN document yields
exactly the text of its rectangular table — same header, one line per PSM in
the original order, proteins joined, DefaultDirection line dropped. -/
theorem C19_pin_to_tsv_spec (sepC : Char) (sepP : Str) (d : PinDoc) (h : d.wf sepC = true) :
    pinToTsv sepC sepP (renderPin sepC d) = .ok (renderTsv sepC sepP d) :=
  ((wf_iff sepC d).mp h).pinToTsv sepP

/-- lossless and order-preserving, read from the output alone: splitting the
output into lines and fields gives back the header columns followed by, for
every PSM in the original order, its fields with the proteins joined. -/
theorem C19_output_table (sepC : Char) (sepP : Str) (d : PinDoc) (h : d.wf sepC = true)
    (hp : sepPOk sepC sepP = true) :
    ∃ out, pinToTsv sepC sepP (renderPin sepC d) = .ok out ∧
      parseTable sepC out = d.cols :: d.rows.map (fun r => r.pre ++ [joinWith sepP r.prots] ++ r.post) := by
  have hw := (wf_iff sepC d).mp h
  exact ⟨_, hw.pinToTsv sepP, parseTable_renderTable (hw.tableOk sepP hp) hw.sep⟩

/-- the header line is preserved (up to the line terminator `chomp`
removes): the first output line is the first input line, i.e. the
header columns joined by the separator -/
theorem C19_header_preserved (sepC : Char) (sepP : Str) (d : PinDoc) (h : d.wf sepC = true) :
    ∃ out, pinToTsv sepC sepP (renderPin sepC d) = .ok out ∧
      (pyLines out).head? = (pyLines (renderPin sepC d)).head?.map (fun l => chomp l ++ ['\n']) ∧
      (pyLines out).head? = some (joinWith [sepC] d.cols ++ ['\n']) := by
  have hw := (wf_iff sepC d).mp h
  refine ⟨_, hw.pinToTsv sepP, ?_, hw.out_head sepP⟩
  rw [hw.out_head sepP, hw.in_head]
  simp only [Option.map_some, chomp_append_nl, hw.strip_header]

/-- one output line per PSM, in the original order: the output has
`1 + #rows` lines and line `i+1` holds the fields of row `i`, proteins joined -/
theorem C19_rows_order_count (sepC : Char) (sepP : Str) (d : PinDoc) (h : d.wf sepC = true)
    (hp : sepPOk sepC sepP = true) :
    ∃ out, pinToTsv sepC sepP (renderPin sepC d) = .ok out ∧
      (pyLines out).length = 1 + d.rows.length ∧
      ∀ i (hi : i < d.rows.length),
        (parseTable sepC out)[i + 1]? = some (d.rows[i].pre ++ [joinWith sepP d.rows[i].prots] ++ d.rows[i].post) := by
  obtain ⟨out, h1, h2⟩ := C19_output_table sepC sepP d h hp
  refine ⟨out, h1, ?_, ?_⟩
  · have : (parseTable sepC out).length = (pyLines out).length := by simp [parseTable]
    rw [← this, h2]; simp; omega
  · intro i hi
    rw [h2]; simp [hi]

/-- whatever the input text: when the conversion succeeds, it writes the header
and then one line per further input line in order, except a second line that
starts with `DefaultDirection` -/
theorem C19_line_count_any_input (sepC : Char) (sepP : Str) (ls out : List Str)
    (h : pinToTsvLines sepC sepP ls = .ok out) :
    out.length + (if ((ls[1]?.map (fun l => isDD (chomp l))).getD false) then 1 else 0) = ls.length :=
  pinToTsvLines_length sepC sepP ls out h

/-- an optional DefaultDirection line is dropped: the output is the same
with and without it -/
theorem C19_default_direction_dropped (sepC : Char) (sepP : Str) (d : PinDoc) (x : Str)
    (h1 : ({ d with dd := some x } : PinDoc).wf sepC = true) (h0 : ({ d with dd := none } : PinDoc).wf sepC = true) :
    pinToTsv sepC sepP (renderPin sepC { d with dd := some x })
      = pinToTsv sepC sepP (renderPin sepC { d with dd := none }) := by
  rw [C19_pin_to_tsv_spec sepC sepP _ h1, C19_pin_to_tsv_spec sepC sepP _ h0]
  rfl

/-- the output is recognised as a valid TSV by `is_valid_tsv` -/
theorem C19_output_valid (sepC : Char) (sepP : Str) (d : PinDoc) (h : d.wf sepC = true)
    (hp : sepPOk sepC sepP = true) (hf : firstTsvRowOk sepC sepP d = true) :
    ∃ out, pinToTsv sepC sepP (renderPin sepC d) = .ok out ∧ isValid sepC out = .ok true :=
  ⟨_, C19_pin_to_tsv_spec sepC sepP d h, ((wf_iff sepC d).mp h).output_valid sepP hp hf⟩

/-- converting the output again changes nothing -/
theorem C19_convert_idempotent (sepC : Char) (sepP : Str) (d : PinDoc) (h : d.wf sepC = true)
    (hp : sepPOk sepC sepP = true) (hf : firstTsvRowOk sepC sepP d = true)
    (he : tsvEdgeOk sepP d = true) :
    ∃ out, pinToTsv sepC sepP (renderPin sepC d) = .ok out ∧ pinToTsv sepC sepP out = .ok out := by
  have hw := (wf_iff sepC d).mp h
  refine ⟨_, hw.pinToTsv sepP, ?_⟩
  have := (hw.converted sepP hp hf he).pinToTsv sepP
  rwa [renderPin_converted, renderTsv_converted] at this

/-! ## the validity test, for every text -/

/-- `is_valid_tsv` raises (`StopIteration`) exactly on files with fewer than two
lines and otherwise answers the declarative criterion -/
theorem C19_valid_eq_spec (sepC : Char) (text : Str) :
    isValid sepC text =
      if (pyLines text).length < 2 then .error .stopIteration else .ok (validSpecB sepC (pyLines text)) :=
  isValidLines_spec sepC (pyLines text)

/-- a file is reported valid exactly when it has a second line, that line does
not start with `DefaultDirection`, and every line has as many fields
(= separators + 1) as the header line -/
theorem C19_valid_iff_rectangular_and_no_dd (sepC : Char) (text : Str) :
    isValid sepC text = .ok true ↔
      ∃ hdr l2 more, pyLines text = hdr :: l2 :: more ∧ isDD l2 = false ∧
        ∀ l ∈ l2 :: more, l.count sepC + 1 = hdr.count sepC + 1 := by
  rw [C19_valid_eq_spec]
  cases hl : pyLines text with
  | nil => simp
  | cons hdr r =>
    cases r with
    | nil => simp
    | cons l2 more =>
      have : ¬ ((hdr :: l2 :: more).length < 2) := by simp
      rw [if_neg this]
      simp only [validSpecB, List.length_cons, List.tail_cons, List.head?_cons, Option.map_some,
        Option.getD_some, List.headD_cons, Except.ok.injEq, Bool.and_eq_true, decide_eq_true_eq,
        Bool.not_eq_true', List.all_eq_true, beq_iff_eq, List.cons.injEq, Nat.add_right_cancel_iff]
      constructor
      · rintro ⟨⟨_, h2⟩, h3⟩
        exact ⟨hdr, l2, more, ⟨rfl, rfl, rfl⟩, h2, h3⟩
      · rintro ⟨hdr', l2', more', ⟨rfl, rfl, rfl⟩, h2, h3⟩
        exact ⟨⟨by omega, h2⟩, h3⟩

/-- the number of fields `len(line.split(sep))` is the number of separators plus one -/
theorem C19_field_count (sepC : Char) (line : Str) : nFields sepC line = line.count sepC + 1 :=
  nFields_eq_count sepC line

/-! ## the CLI verify step (mokapot.py:61-73) -/

/-- after the verify step the file is a valid TSV — untouched if it already was
one, replaced by its conversion otherwise — and running the step again
changes nothing -/
theorem C19_verify_step (d : PinDoc) (h : d.wf '\t' = true) (hf : firstTsvRowOk '\t' [':'] d = true) :
    ∃ out, verifyStep (renderPin '\t' d) = .ok out ∧ isValid '\t' out = .ok true ∧
      verifyStep out = .ok out ∧
      ((isValid '\t' (renderPin '\t' d) = .ok true ∧ out = renderPin '\t' d) ∨
       (isValid '\t' (renderPin '\t' d) = .ok false ∧ out = renderTsv '\t' [':'] d)) := by
  obtain ⟨out, h1, h2, h3⟩ := ((wf_iff '\t' d).mp h).verifyStep hf
  refine ⟨out, h1, h2, ?_, h3⟩
  simp [verifyStep, h2, Except.bind]

/-! ## extension: rectangular output, the header helper, stored files, the tool, several files -/

/-- the output is a *rectangular* table: every line of it has exactly as many
fields as the header has columns (no further hypothesis on the first row) -/
theorem C19_output_rectangular (sepC : Char) (sepP : Str) (d : PinDoc) (h : d.wf sepC = true)
    (hp : sepPOk sepC sepP = true) :
    ∃ out, pinToTsv sepC sepP (renderPin sepC d) = .ok out ∧
      ∀ row ∈ parseTable sepC out, row.length = d.cols.length := by
  obtain ⟨out, h1, h2⟩ := C19_output_table sepC sepP d h hp
  have hw := (wf_iff sepC d).mp h
  refine ⟨out, h1, ?_⟩
  intro row hrow
  rw [h2] at hrow
  simp only [List.mem_cons, List.mem_map] at hrow
  rcases hrow with rfl | ⟨r, hr, rfl⟩
  · rfl
  · exact (hw.rows r hr).tsvFields_length sepP

/-- `parse_pin_header_columns` on the header line (with or without its terminator)
of a well-formed document: `n_col` is the number of header columns and
`idx_protein_col` the position of the *first* column named `Proteins` -/
theorem C19_header_cols_spec (sepC : Char) (d : PinDoc) (h : d.wf sepC = true) :
    ∃ n idx, parseHeaderCols sepC (d.headerLine sepC) = .ok (n, idx) ∧
      parseHeaderCols sepC (chomp (d.headerLine sepC)) = .ok (n, idx) ∧
      n = d.cols.length ∧ idx < n ∧ d.cols[idx]? = some proteinsName ∧
      ∀ j, j < idx → d.cols[j]? ≠ some proteinsName := by
  have hw := (wf_iff sepC d).mp h
  have hlt : d.cols.idxOf proteinsName < d.cols.length := List.idxOf_lt_length_of_mem hw.proteins
  refine ⟨_, _, hw.parseHeaderCols, ?_, rfl, hlt, ?_, fun j hj => getElem?_ne_of_lt_idxOf _ _ j hj⟩
  · rw [parseHeaderCols_strip sepC _ (by rw [hw.strip_header, hw.chomp_cols])]
    exact hw.parseHeaderCols
  · rw [List.getElem?_eq_getElem hlt, List.getElem_idxOf hlt]

/-- `pin_to_valid_tsv` obtains `n_col`/`idx_protein_col` from that helper, for every input -/
theorem C19_conversion_uses_header_cols (sepC : Char) (sepP : Str) (header : Str) (rest : List Str) :
    pinAfterHeader sepC sepP header rest =
      (parseHeaderCols sepC header).bind
        (fun p => (pinBody sepC sepP p.2 p.1 rest).map (fun out => (header ++ ['\n']) :: out)) :=
  pinAfterHeader_eq_parseHeaderCols sepC sepP header rest

/-- reading a stored PIN file in text mode: a well-formed document without
carriage returns inside, stored with `"\n"`, `"\r\n"` or `"\r"` line ends, is
handed to the program as its `'\n'`-terminated PIN text -/
theorem C19_universal_newlines (sepC : Char) (d : PinDoc) (h : d.wf sepC = true) (hc : d.noCR = true)
    (hs : sepC ≠ '\r') (t : Str) (ht : t ∈ lineTerminators) :
    univNl (renderPinT sepC t d) = renderPin sepC d :=
  ((wf_iff sepC d).mp h).read_file ((noCR_iff d).mp hc) hs t ht

/-- the command line tool `python -m mokapot.parsers.pin_to_tsv`: the output
file holds exactly the rectangular table of the document — for the separators
given on the command line, whatever the line ends of the input file, and
whatever the output file held before -/
theorem C19_tool_main_spec (sepC : Char) (sepP : Str) (d : PinDoc) (h : d.wf sepC = true) (hc : d.noCR = true)
    (hs : sepC ≠ '\r') (t : Str) (ht : t ∈ lineTerminators) (old : Str) :
    toolMain (some sepC) (some sepP) (renderPinT sepC t d) old = .ok (renderTsv sepC sepP d) :=
  ((wf_iff sepC d).mp h).toolMain ((noCR_iff d).mp hc) hs sepP t ht old

/-- without the options the tool uses a tab and `":"` -/
theorem C19_tool_main_defaults (d : PinDoc) (h : d.wf '\t' = true) (hc : d.noCR = true)
    (t : Str) (ht : t ∈ lineTerminators) (old : Str) :
    toolMain none none (renderPinT '\t' t d) old = .ok (renderTsv '\t' [':'] d) :=
  ((wf_iff '\t' d).mp h).toolMain ((noCR_iff d).mp hc) (by decide) [':'] t ht old

/-- the verify step on a stored file (any of the three line ends): afterwards
the file reads as a valid TSV — its stored characters untouched if it already
did, replaced by the conversion otherwise — and a second run changes nothing -/
theorem C19_verify_step_file (d : PinDoc) (h : d.wf '\t' = true) (hc : d.noCR = true)
    (hf : firstTsvRowOk '\t' [':'] d = true) (t : Str) (ht : t ∈ lineTerminators) :
    ∃ out, verifyStepFile (renderPinT '\t' t d) = .ok out ∧ isValid '\t' (univNl out) = .ok true ∧
      verifyStepFile out = .ok out ∧
      ((isValid '\t' (renderPin '\t' d) = .ok true ∧ out = renderPinT '\t' t d) ∨
       (isValid '\t' (renderPin '\t' d) = .ok false ∧ out = renderTsv '\t' [':'] d)) :=
  ((wf_iff '\t' d).mp h).verifyStepFile ((noCR_iff d).mp hc) hf t ht

/-- on a text without carriage returns the file form of the step is the text form `verifyStep` -/
theorem C19_verify_step_file_eq (x : Str) (h : '\r' ∉ x) : verifyStepFile x = verifyStep x :=
  verifyStepFile_of_noCR x h

/-- several PSM files, for all inputs: the step succeeds with contents `outs`
exactly when there is one result per file, in the order given, and result `i`
is what the step on file `i` alone yields — no file is skipped, none
influences another -/
theorem C19_verify_files_each (files outs : List Str) :
    verifyFiles true files = .ok outs ↔
      outs.length = files.length ∧
      ∀ i (h1 : i < files.length) (h2 : i < outs.length), verifyStepFile files[i] = .ok outs[i] := by
  simp only [verifyFiles, if_true]
  exact verifyFilesLoop_ok_iff files outs

/-- with `--verify_pin` switched off nothing is touched -/
theorem C19_verify_files_off (files : List Str) : verifyFiles false files = .ok files := rfl

/-- several well-formed PIN files (any line ends): after the step every one of
them reads as a valid TSV, each is either untouched (already valid) or the
conversion of itself, and running the step again changes nothing -/
theorem C19_verify_files_docs (t : Str) (ht : t ∈ lineTerminators) (ds : List PinDoc)
    (h : ∀ d ∈ ds, d.wf '\t' = true ∧ d.noCR = true ∧ firstTsvRowOk '\t' [':'] d = true) :
    ∃ outs, verifyFiles true (ds.map (renderPinT '\t' t)) = .ok outs ∧ outs.length = ds.length ∧
      verifyFiles true outs = .ok outs ∧
      ∀ i (h1 : i < ds.length) (h2 : i < outs.length),
        isValid '\t' (univNl outs[i]) = .ok true ∧
        ((isValid '\t' (renderPin '\t' ds[i]) = .ok true ∧ outs[i] = renderPinT '\t' t ds[i]) ∨
         (isValid '\t' (renderPin '\t' ds[i]) = .ok false ∧ outs[i] = renderTsv '\t' [':'] ds[i])) := by
  induction ds with
  | nil => exact ⟨[], rfl, rfl, rfl, fun i h1 => absurd h1 (by simp)⟩
  | cons d ds ih =>
    obtain ⟨outs, e1, e2, e3, e4⟩ := ih (fun x hx => h x (by simp [hx]))
    obtain ⟨hw, hc, hf⟩ := h d (by simp)
    obtain ⟨o, o1, o2, o3, o4⟩ := C19_verify_step_file d hw hc hf t ht
    simp only [verifyFiles, if_true] at e1 e3
    refine ⟨o :: outs, ?_, by simp [e2], ?_, ?_⟩
    · simp only [verifyFiles, if_true, List.map_cons, verifyFilesLoop, o1, Except.bind, e1, Except.map]
    · simp only [verifyFiles, if_true, verifyFilesLoop, o3, Except.bind, e3, Except.map]
    · intro i h1 h2
      cases i with
      | zero => exact ⟨o2, o4⟩
      | succ j => simpa using e4 j (by simpa using h1) (by simpa using h2)

/-! ## Non-vacuity and evaluation tests -/

/-- the example of the module docstring, with a DefaultDirection line, CRLF line
ends, the protein column in the middle, an EMPTY FIRST field in one row and an
EMPTY LAST field in the other (the shapes the old `strip()` destroyed) -/
def exDoc : PinDoc :=
  { hpadL := [], cols := ["SpecId".toList, "Label".toList, "Proteins".toList, "Peptide".toList], hpadR := ['\r'],
    dd := some "DefaultDirection\t-\t-".toList,
    rows := [
      { padL := [], pre := ["".toList, "1".toList], prots := ["sp|A".toList, "sp|B".toList, "sp|C".toList],
        post := ["K.SEFLVR.E".toList], padR := ['\r'] },
      { padL := [], pre := [" t_2".toList, "-1".toList], prots := ["sp|D".toList, "".toList],
        post := ["".toList], padR := [] }],
    trailingNl := false }

#guard exDoc.wf '\t'
#guard sepPOk '\t' [':']
#guard firstTsvRowOk '\t' [':'] exDoc && tsvEdgeOk [':'] exDoc
#guard String.ofList (renderPin '\t' exDoc) =
  "SpecId\tLabel\tProteins\tPeptide\r\nDefaultDirection\t-\t-\n\t1\tsp|A\tsp|B\tsp|C\tK.SEFLVR.E\r\n t_2\t-1\tsp|D\t\t"
#guard (pinToTsv '\t' [':'] (renderPin '\t' exDoc)).toOption.map String.ofList =
  some "SpecId\tLabel\tProteins\tPeptide\n\t1\tsp|A:sp|B:sp|C\tK.SEFLVR.E\n t_2\t-1\tsp|D:\t\n"
#guard (isValid '\t' (renderPin '\t' exDoc)).toOption = some false
#guard (isValid '\t' (renderTsv '\t' [':'] exDoc)).toOption = some true
#guard (verifyStep (renderPin '\t' exDoc)).toOption = some (renderTsv '\t' [':'] exDoc)
-- header-only file, missing Proteins column, short row (negative slice bound, as in Python)
#guard (pinToTsv '\t' [':'] "a\tProteins\n".toList).toOption = none
#guard (pinToTsv '\t' [':'] "a\tb\nc\td\n".toList).toOption = none
#guard (pinToTsv '\t' [':'] "a\tb\tProteins\nx\n".toList).toOption.map String.ofList = some "a\tb\tProteins\nx\t\n"
#guard convertFields [':'] ["a".toList, "b".toList, "c".toList, "d".toList] 1 2 = ["a".toList, "b:c:d".toList]
#guard convertFields [':'] ["a".toList, "b".toList, "c".toList, "d".toList] 0 3 = ["a:b".toList, "c".toList, "d".toList]

/-- the hypotheses of the theorems are satisfiable by a non-trivial document -/
example : ∃ d : PinDoc, d.wf '\t' = true ∧ sepPOk '\t' [':'] = true ∧ firstTsvRowOk '\t' [':'] d = true ∧
    tsvEdgeOk [':'] d = true ∧ d.dd.isSome = true ∧ 2 ≤ d.rows.length ∧ (∃ r ∈ d.rows, 3 ≤ r.prots.length ∧ r.post ≠ []) :=
  ⟨{ hpadL := [], cols := [['I'], proteinsName, ['P']], hpadR := ['\r'], dd := some ddName,
     rows := [{ padL := [], pre := [[]], prots := [['x'], ['y'], ['z']], post := [['p']], padR := ['\r'] },
              { padL := [], pre := [[' ', 'b']], prots := [['w']], post := [[]], padR := [] }],
     trailingNl := false }, by decide⟩

/-- a document with an inner duplicate `Proteins` column, stored with `"\r\n"` line ends -/
def exDocCrlf : PinDoc :=
  { hpadL := [], cols := [" Id".toList, "Proteins".toList, "Proteins".toList], hpadR := [],
    dd := none,
    rows := [{ padL := [], pre := ["a".toList], prots := ["P".toList, "Q".toList], post := ["x ".toList], padR := [] }],
    trailingNl := true }

/-- an already rectangular document: the verify step leaves it alone -/
def exDocValid : PinDoc :=
  { hpadL := [], cols := ["Id".toList, "Proteins".toList], hpadR := [], dd := none,
    rows := [{ padL := [], pre := ["a".toList], prots := ["P".toList], post := [], padR := [] }],
    trailingNl := true }

#guard exDocCrlf.wf '\t' && exDocCrlf.noCR && firstTsvRowOk '\t' [':'] exDocCrlf
#guard exDoc.noCR == false   -- the first example has a '\r' before its line ends
#guard String.ofList (renderPinT '\t' ['\r', '\n'] exDocCrlf) = " Id\tProteins\tProteins\r\na\tP\tQ\tx \r\n"
#guard univNl (renderPinT '\t' ['\r', '\n'] exDocCrlf) = renderPin '\t' exDocCrlf
#guard univNl (renderPinT '\t' ['\r'] exDocCrlf) = renderPin '\t' exDocCrlf
#guard String.ofList (univNl "a\r\n\rb\n\n\r".toList) = "a\n\nb\n\n\n"
#guard (parseHeaderCols '\t' (exDocCrlf.headerLine '\t')).toOption = some (3, 1)
#guard (parseHeaderCols '\t' "a\tb".toList).toOption = none
#guard (toolMain none none (renderPinT '\t' ['\r'] exDocCrlf) "old".toList).toOption.map String.ofList
  = some " Id\tProteins\tProteins\na\tP:Q\tx \n"
#guard (toolMain (some ',') (some ['|']) "Proteins,b\r\nP,Q,R,1\r\n".toList []).toOption.map String.ofList
  = some "Proteins,b\nP|Q|R,1\n"
#guard (verifyFiles true [renderPinT '\t' ['\r', '\n'] exDocCrlf, renderPin '\t' exDocValid,
                          renderPinT '\t' ['\r', '\n'] exDocValid]).toOption
  = some [renderTsv '\t' [':'] exDocCrlf, renderPin '\t' exDocValid, renderPinT '\t' ['\r', '\n'] exDocValid]
#guard (verifyFiles true [renderPin '\t' exDocValid, "Proteins\n".toList]).toOption = none
#guard (verifyFiles false ["Proteins\n".toList]).toOption = some ["Proteins\n".toList]

/-- the hypotheses of the file theorems are satisfiable (protein column in the
middle, two proteins, blanks at the edges of a line, a duplicate header name), every terminator is one -/
example : exDocCrlf.wf '\t' = true ∧ exDocCrlf.noCR = true ∧ firstTsvRowOk '\t' [':'] exDocCrlf = true ∧
    ['\r', '\n'] ∈ lineTerminators ∧ ['\r'] ∈ lineTerminators ∧ ['\n'] ∈ lineTerminators := by decide

/-- both branches of the verify step occur: an invalid file is converted, a valid one is kept -/
example : isValid '\t' (renderPin '\t' exDocCrlf) = .ok false ∧ isValid '\t' (renderPin '\t' exDocValid) = .ok true ∧
    exDocValid.wf '\t' = true ∧ exDocValid.noCR = true ∧ firstTsvRowOk '\t' [':'] exDocValid = true :=
  ⟨by rfl, by rfl, by decide, by decide, by decide⟩

/-- `C19_default_direction_dropped`: both of its hypotheses hold for one document -/
example : ∃ (d : PinDoc) (x : Str), ({ d with dd := some x } : PinDoc).wf '\t' = true ∧
    ({ d with dd := none } : PinDoc).wf '\t' = true ∧ d.rows ≠ [] :=
  ⟨exDocCrlf, ddName, by decide⟩

end Mk
