import MokapotVerif.Lemmas.PinTsvPass2
import MokapotVerif.Props.C19
/-!
# C19, second extension — write sequence, files on disk when the code raises,
# document-level validity, losslessness read backwards

Property theorems only (gap analysis: `GAPS-C19.md`, section "Second pass").  Notation as in
`Props/C19.lean`.  New here:

* `pinToTsvWrites` — `pin_to_valid_tsv` as the sequence of `f_out.write` calls made until it
  returns or raises; `toolMainFs`, `verifyStepFs`, `verifyFilesFs` — the files on disk after the
  command line tool / the CLI verify step, *also when they raise*, next to a stale `<pin>.tsv`;
* `docValidSpec d` — "no DefaultDirection line and one protein per row", the validity criterion
  of the statement read off the abstract document instead of the raw lines;
* `unfoldRow` — the inverse of the folding of one row.
-/
namespace Mk

/-! ## `pin_to_valid_tsv` write by write -/

/-- for every input: the function returns after the writes `out` exactly when the first model
succeeds with `out` — the two models of `pin_to_valid_tsv` agree -/
theorem C19_writes_agree (sepC : Char) (sepP : Str) (ls out : List Str) :
    pinToTsvWrites sepC sepP ls = (out, none) ↔ pinToTsvLines sepC sepP ls = .ok out :=
  (pinToTsvWrites_ok sepC sepP ls out).symm

/-- for every input: when the function raises, it has written nothing (empty input) or
exactly the stripped header line — never a part of the body -/
theorem C19_writes_on_error (sepC : Char) (sepP : Str) (ls : List Str) (e : PinErr)
    (h : pinToTsvLines sepC sepP ls = .error e) :
    pinToTsvWrites sepC sepP ls = ((ls.head?.map (fun l => chomp l ++ ['\n'])).toList, some e) :=
  pinToTsvWrites_error sepC sepP ls e h

/-- a well-formed document is written line by line: one `write` for the header, then one per
PSM in the original order, each holding exactly one rectangular line and its newline; the
DefaultDirection line causes no write -/
theorem C19_writes_one_per_line (sepC : Char) (sepP : Str) (d : PinDoc) (h : d.wf sepC = true) :
    pinToTsvWrites sepC sepP (pyLines (renderPin sepC d))
      = ((specTable sepP d).map (fun row => joinWith [sepC] row ++ ['\n']), none) :=
  (pinToTsvWrites_ok sepC sepP _ _).mp (((wf_iff sepC d).mp h).pinToTsvLines sepP)

/-! ## the command line tool, also when it raises -/

/-- for every input: the tool returns with output file content `o` exactly when the first
model of the tool says so (whatever the output file held before, or if it did not exist) -/
theorem C19_tool_fs_ok (sepC : Option Char) (sepP : Option Str) (raw : Str) (old : Option Str) (o : Str) :
    toolMainFs sepC sepP raw old = (o, none) ↔ toolMain sepC sepP raw (old.getD []) = .ok o := by
  rw [toolMain_eq]
  unfold toolMainFs
  cases hl : pinToTsvLines (sepC.getD '\t') (sepP.getD [':']) (pyLines (univNl raw)) with
  | ok w =>
    rw [(pinToTsvWrites_ok _ _ _ w).mp hl]
    simp [Except.map]
  | error e =>
    rw [pinToTsvWrites_error _ _ _ e hl]
    simp [Except.map]

/-- for every input: when the tool raises, the output file exists and is empty (no input line)
or holds just the header line — old content is gone, no PSM line has been written -/
theorem C19_tool_fs_error (sepC : Option Char) (sepP : Option Str) (raw : Str) (old : Option Str) (e : PinErr)
    (h : toolMain sepC sepP raw (old.getD []) = .error e) :
    toolMainFs sepC sepP raw old
      = (((pyLines (univNl raw)).head?.map (fun l => chomp l ++ ['\n'])).getD [], some e) := by
  rw [toolMain_eq] at h
  unfold toolMainFs
  cases hl : pinToTsvLines (sepC.getD '\t') (sepP.getD [':']) (pyLines (univNl raw)) with
  | ok w => rw [hl] at h; simp [Except.map] at h
  | error e' =>
    rw [hl] at h
    simp only [Except.map, Except.error.injEq] at h
    subst h
    rw [pinToTsvWrites_error _ _ _ e' hl]
    cases (pyLines (univNl raw)).head? <;> simp

/-! ## the CLI verify step on disk, also when it raises -/

/-- for every stored file and every stale `<pin>.tsv`: when the step does not raise, the PIN
file is what the first model says, and the temporary file is gone after a conversion —
a stale one is left alone only when the file was already valid -/
theorem C19_verify_fs_ok (raw : Str) (old : Option Str) (h : (verifyStepFs raw old).2 = none) :
    verifyStepFile raw = .ok (verifyStepFs raw old).1.pin ∧
    (verifyStepFs raw old).1.tsv = (if (isValid '\t' (univNl raw)).toOption = some true then old else none) := by
  cases hv : isValid '\t' (univNl raw) with
  | error e => rw [(verifyStepFs_invalid_error raw old e hv).1] at h; cases h
  | ok b =>
    cases b with
    | true =>
      obtain ⟨h1, h2⟩ := verifyStepFs_valid raw old hv
      rw [h1, h2]; simp [Except.toOption]
    | false =>
      cases hw : pinToTsvLines '\t' [':'] (pyLines (univNl raw)) with
      | ok w =>
        obtain ⟨h1, h2⟩ := verifyStepFs_converted raw old w hv hw
        rw [h1, h2]; simp [Except.toOption]
      | error e => rw [(verifyStepFs_convert_error raw old e hv hw).1] at h; cases h

/-- the step raises on disk exactly when the first model raises, with the same exception -/
theorem C19_verify_fs_error (raw : Str) (old : Option Str) (e : PinErr) :
    (verifyStepFs raw old).2 = some e ↔ verifyStepFile raw = .error e := by
  cases hv : isValid '\t' (univNl raw) with
  | error e' =>
    obtain ⟨h1, h2⟩ := verifyStepFs_invalid_error raw old e' hv
    rw [h1, h2]; simp
  | ok b =>
    cases b with
    | true =>
      obtain ⟨h1, h2⟩ := verifyStepFs_valid raw old hv
      rw [h1, h2]; simp
    | false =>
      cases hw : pinToTsvLines '\t' [':'] (pyLines (univNl raw)) with
      | ok w =>
        obtain ⟨h1, h2⟩ := verifyStepFs_converted raw old w hv hw
        rw [h1, h2]; simp
      | error e' =>
        obtain ⟨h1, h2⟩ := verifyStepFs_convert_error raw old e' hv hw
        rw [h1, h2]; simp

/-- **the input is never damaged**: whenever the step raises, the stored PIN file still holds
exactly the characters it held before (at worst a `<pin>.tsv` with the header is left behind) -/
theorem C19_verify_fs_error_keeps_input (raw : Str) (old : Option Str) (e : PinErr)
    (h : (verifyStepFs raw old).2 = some e) :
    (verifyStepFs raw old).1.pin = raw ∧
    ((verifyStepFs raw old).1.tsv = old ∨
     (verifyStepFs raw old).1.tsv = some (((pyLines (univNl raw)).head?.map (fun l => chomp l ++ ['\n'])).getD [])) := by
  cases hv : isValid '\t' (univNl raw) with
  | error e' => rw [(verifyStepFs_invalid_error raw old e' hv).1]; simp
  | ok b =>
    cases b with
    | true => rw [(verifyStepFs_valid raw old hv).1] at h; cases h
    | false =>
      cases hw : pinToTsvLines '\t' [':'] (pyLines (univNl raw)) with
      | ok w => rw [(verifyStepFs_converted raw old w hv hw).1] at h; cases h
      | error e' => rw [(verifyStepFs_convert_error raw old e' hv hw).1]; simp

/-- a well-formed stored document never makes the step raise, whatever `<pin>.tsv` holds -/
theorem C19_verify_fs_docs (d : PinDoc) (h : d.wf '\t' = true) (hc : d.noCR = true)
    (hf : firstTsvRowOk '\t' [':'] d = true) (t : Str) (ht : t ∈ lineTerminators) (old : Option Str) :
    (verifyStepFs (renderPinT '\t' t d) old).2 = none := by
  obtain ⟨out, h1, _⟩ := C19_verify_step_file d h hc hf t ht
  cases hs : (verifyStepFs (renderPinT '\t' t d) old).2 with
  | none => rfl
  | some e =>
    have := (C19_verify_fs_error _ old e).mp hs
    rw [h1] at this; cases this

/-- one result per file, with and without the option -/
theorem C19_verify_files_fs_length (b : Bool) (files : List (Str × Option Str)) :
    (verifyFilesFs b files).1.length = files.length := by
  unfold verifyFilesFs
  split
  · exact verifyFilesFsLoop_length files
  · simp

/-- several files on disk, for all inputs: file `i` is treated exactly as the step on it alone
would — provided the step raised on none of the files before it; otherwise the loop has been
aborted and file `i` (and its `<pin>.tsv`) is untouched -/
theorem C19_verify_files_fs_each (files : List (Str × Option Str)) (i : Nat) (hi : i < files.length) :
    ((∀ f ∈ files.take i, (verifyStepFs f.1 f.2).2 = none) →
      (verifyFilesFs true files).1[i]? = some (verifyStepFs files[i].1 files[i].2).1) ∧
    ((∃ f ∈ files.take i, (verifyStepFs f.1 f.2).2 ≠ none) →
      (verifyFilesFs true files).1[i]? = some (untouchedFs files[i])) := by
  simp only [verifyFilesFs, if_true]
  induction files generalizing i with
  | nil => simp at hi
  | cons f fs ih =>
    cases i with
    | zero =>
      refine ⟨fun _ => ?_, fun ⟨g, hg, _⟩ => by simp at hg⟩
      simp only [verifyFilesFsLoop]
      split <;> simp
    | succ j =>
      have hj : j < fs.length := by simpa using hi
      obtain ⟨ih1, ih2⟩ := ih j hj
      simp only [List.take_succ_cons, List.mem_cons, forall_eq_or_imp, exists_eq_or_imp,
        List.getElem_cons_succ]
      constructor
      · rintro ⟨h0, hrest⟩
        simp only [verifyFilesFsLoop, h0, Option.isNone_none, if_true, List.getElem?_cons_succ]
        exact ih1 hrest
      · intro hex
        simp only [verifyFilesFsLoop]
        by_cases h0 : (verifyStepFs f.1 f.2).2 = none
        · simp only [h0, Option.isNone_none, if_true, List.getElem?_cons_succ]
          rcases hex with hex | hex
          · exact absurd h0 hex
          · exact ih2 hex
        · have : (verifyStepFs f.1 f.2).2.isNone = false := by
            cases hh : (verifyStepFs f.1 f.2).2 with
            | none => exact absurd hh h0
            | some _ => rfl
          simp only [this, Bool.false_eq_true, if_false, List.getElem?_cons_succ, List.getElem?_map,
            List.getElem?_eq_getElem hj, Option.map_some]

/-- the whole step raises exactly when the step on some file does -/
theorem C19_verify_files_fs_raises (files : List (Str × Option Str)) :
    (verifyFilesFs true files).2 = none ↔ ∀ f ∈ files, (verifyStepFs f.1 f.2).2 = none := by
  simp only [verifyFilesFs, if_true]
  induction files with
  | nil => simp [verifyFilesFsLoop]
  | cons f fs ih =>
    simp only [verifyFilesFsLoop, List.mem_cons, forall_eq_or_imp]
    cases hh : (verifyStepFs f.1 f.2).2 with
    | none => simpa using ih
    | some e => simp

/-- with `--verify_pin` switched off no path is touched -/
theorem C19_verify_files_fs_off (files : List (Str × Option Str)) :
    verifyFilesFs false files = (files.map untouchedFs, none) := rfl

/-! ## the validity criterion at document level -/

/-- **`is_valid_tsv` on a well-formed PIN document** (padding free of the column separator):
the answer read off the document — every PSM lists exactly one protein, and the line after
the header is not recognised as a DefaultDirection line *by the unstripped test of
`is_valid_tsv`* (`ddAccepted`: no such line, or one that is preceded by whitespace and happens
to have as many fields as the header) -/
theorem C19_valid_doc (sepC : Char) (d : PinDoc) (h : d.wf sepC = true) (hp : d.padsFree sepC = true) :
    isValid sepC (renderPin sepC d) = .ok (ddAccepted sepC d && d.rectangular) :=
  ((wf_iff sepC d).mp h).isValid_doc hp

/-- … hence, when the DefaultDirection line (if any) starts with the word: the document is
reported valid **exactly when it has no DefaultDirection line and all its lines have as many
fields as the header** — the clause of the statement, derived from the document -/
theorem C19_valid_doc_iff (sepC : Char) (d : PinDoc) (h : d.wf sepC = true) (hp : d.padsFree sepC = true)
    (hd : d.ddPlain = true) :
    isValid sepC (renderPin sepC d) = .ok (docValidSpec d) ∧
    (isValid sepC (renderPin sepC d) = .ok true ↔ d.dd = none ∧ ∀ r ∈ d.rows, r.prots.length = 1) := by
  have e : ddAccepted sepC d = d.dd.isNone := by
    unfold ddAccepted
    unfold PinDoc.ddPlain at hd
    cases hx : d.dd with
    | none => rfl
    | some x => rw [hx] at hd; simp at hd; simp [hd]
  have h1 : isValid sepC (renderPin sepC d) = .ok (docValidSpec d) := by
    rw [C19_valid_doc sepC d h hp, e]; rfl
  refine ⟨h1, ?_⟩
  rw [h1]
  simp only [docValidSpec, PinDoc.rectangular, Except.ok.injEq, Bool.and_eq_true, List.all_eq_true,
    beq_iff_eq, Option.isNone_iff_eq_none]

/-- the CLI verify step on such a document: the file is left alone exactly when it has no
DefaultDirection line and one protein per row, and is replaced by its rectangular table otherwise -/
theorem C19_verify_step_doc (d : PinDoc) (h : d.wf '\t' = true) (hp : d.padsFree '\t' = true)
    (hd : d.ddPlain = true) :
    verifyStep (renderPin '\t' d) = .ok (if docValidSpec d then renderPin '\t' d else renderTsv '\t' [':'] d) := by
  unfold verifyStep
  rw [(C19_valid_doc_iff '\t' d h hp hd).1]
  cases docValidSpec d
  · simpa [Except.bind] using C19_pin_to_tsv_spec '\t' [':'] d h
  · simp [Except.bind]

/-! ## lossless -/

/-- **the conversion loses nothing**: when no protein name contains the (one character)
protein separator, splitting the protein column of every output row at that separator gives
back, row by row and in order, exactly the fields of the PIN file — so two well-formed PIN
documents with the same output have the same fields -/
theorem C19_lossless (sepC p : Char) (d : PinDoc) (h : d.wf sepC = true) (hps : p ≠ sepC) (hpn : p ≠ '\n')
    (hfree : d.protsFree p = true) :
    ∃ out, pinToTsv sepC [p] (renderPin sepC d) = .ok out ∧
      (parseTable sepC out).tail.map (unfoldRow p (d.cols.idxOf proteinsName)) = d.rows.map PinRow.fields := by
  have hsp : sepPOk sepC [p] = true := by
    simp [sepPOk, fieldOk, Ne.symm hps, Ne.symm hpn]
  obtain ⟨out, h1, h2⟩ := C19_output_table sepC [p] d h hsp
  have hw := (wf_iff sepC d).mp h
  refine ⟨out, h1, ?_⟩
  rw [h2, List.tail_cons, List.map_map]
  apply List.map_congr_left
  intro r hr
  have hr' := hw.rows r hr
  have hfr : ∀ x ∈ r.prots, p ∉ x := by
    simp only [PinDoc.protsFree, List.all_eq_true, Bool.not_eq_true', List.contains_eq_mem,
      decide_eq_false_iff_not] at hfree
    exact hfree r hr
  simp only [Function.comp, unfoldRow, ← hr'.pre]
  have e1 : (r.pre ++ [joinWith [p] r.prots] ++ r.post).take r.pre.length = r.pre := by
    rw [List.append_assoc, List.take_left']; rfl
  have e2 : (r.pre ++ [joinWith [p] r.prots] ++ r.post).getD r.pre.length [] = joinWith [p] r.prots := by
    rw [List.append_assoc, List.getD_eq_getElem?_getD, List.getElem?_append_right (Nat.le_refl _)]
    simp
  have e3 : (r.pre ++ [joinWith [p] r.prots] ++ r.post).drop (r.pre.length + 1) = r.post := by
    have : r.pre.length + 1 = (r.pre ++ [joinWith [p] r.prots]).length := by simp
    rw [this, List.drop_left']; rfl
  rw [e1, e2, e3, splitOn_joinWith p r.prots hr'.prots hfr]
  rfl

/-! ## Non-vacuity and evaluation tests -/

/-- a line after the header that reads `DefaultDirection` only after a blank: since the converter no longer
strips blanks (`rstrip("\r\n")`), it is an ordinary row for the converter *and* for `is_valid_tsv` — the
two functions agree (before commit 750c44b the converter dropped it while the validity test kept it) -/
def exTextBlankDD : Str := "Id\tProteins\n DefaultDirection\t-\na\tP\n".toList

#guard (isValid '\t' exTextBlankDD).toOption = some true
#guard (pinToTsv '\t' [':'] exTextBlankDD).toOption = some exTextBlankDD
#guard exDoc.wf '\t' && exDoc.padsFree '\t' && exDoc.ddPlain && !docValidSpec exDoc
#guard exDocValid.wf '\t' && exDocValid.padsFree '\t' && exDocValid.ddPlain && docValidSpec exDocValid
#guard exDocCrlf.protsFree ':' && exDoc.protsFree ':'
-- tab padding is a column for `is_valid_tsv`: outside `padsFree`
#guard (isValid '\t' "Id\tProteins\na\tP\t\n".toList).toOption = some false
-- the writes
#guard (pinToTsvWrites '\t' [':'] (pyLines (renderPin '\t' exDoc))).1.map String.ofList
  = ["SpecId\tLabel\tProteins\tPeptide\n", "\t1\tsp|A:sp|B:sp|C\tK.SEFLVR.E\n", " t_2\t-1\tsp|D:\t\n"]
#guard pinToTsvWrites '\t' [':'] [] = ([], some .stopIteration)
#guard pinToTsvWrites '\t' [':'] [" a\tb \r\n".toList, "x\n".toList] = ([" a\tb \n".toList], some .assertion)
#guard pinToTsvWrites '\t' [':'] ["a\tProteins\n".toList] = (["a\tProteins\n".toList], some .stopIteration)
-- files on disk
#guard toolMainFs none none "a\tb\r\nc\r\n".toList (some "old".toList) = ("a\tb\n".toList, some .assertion)
#guard toolMainFs none none [] none = ([], some .stopIteration)
#guard verifyStepFs "a\tb\nc\n".toList (some "stale".toList) = ({ pin := "a\tb\nc\n".toList, tsv := some "a\tb\n".toList }, some .assertion)
#guard verifyStepFs "Proteins\n".toList (some "stale".toList) = ({ pin := "Proteins\n".toList, tsv := some "stale".toList }, some .stopIteration)
#guard verifyStepFs (renderPin '\t' exDocValid) (some "stale".toList) = ({ pin := renderPin '\t' exDocValid, tsv := some "stale".toList }, none)
#guard verifyStepFs (renderPinT '\t' ['\r', '\n'] exDocCrlf) (some "stale".toList) = ({ pin := renderTsv '\t' [':'] exDocCrlf, tsv := none }, none)
#guard (verifyFilesFs true [(renderPin '\t' exDocCrlf, none), ("a\tb\nc\n".toList, none), (renderPin '\t' exDocCrlf, some [])]).1
  = [{ pin := renderTsv '\t' [':'] exDocCrlf, tsv := none }, { pin := "a\tb\nc\n".toList, tsv := some "a\tb\n".toList },
     { pin := renderPin '\t' exDocCrlf, tsv := some [] }]
#guard unfoldRow ':' 1 ["a".toList, "P:Q".toList, "x".toList] = ["a".toList, "P".toList, "Q".toList, "x".toList]

/-- the hypotheses of the document-level validity theorems are satisfiable, with both answers -/
example : exDoc.wf '\t' = true ∧ exDoc.padsFree '\t' = true ∧ exDoc.ddPlain = true ∧ docValidSpec exDoc = false ∧
    exDocValid.wf '\t' = true ∧ exDocValid.padsFree '\t' = true ∧ exDocValid.ddPlain = true ∧
    docValidSpec exDocValid = true := by decide

/-- `C19_lossless`: hypotheses satisfiable with several proteins in a row -/
example : exDoc.wf '\t' = true ∧ exDoc.protsFree ':' = true ∧ (∃ r ∈ exDoc.rows, 3 ≤ r.prots.length) := by decide

/-- every branch of the step on disk occurs: raise in the validity test, valid file, conversion,
raise in the conversion -/
example : (verifyStepFs "Proteins\n".toList none).2 = some .stopIteration ∧
    (verifyStepFs (renderPin '\t' exDocValid) none).2 = none ∧
    (verifyStepFs (renderPin '\t' exDocCrlf) none).1.tsv = none ∧
    (verifyStepFs "a\tb\nc\n".toList none).2 = some .assertion := ⟨by rfl, by rfl, by rfl, by rfl⟩

end Mk
