import MokapotVerif.Lemmas.QvaluesKey
import MokapotVerif.Props.C01Arr
/-!
# C01 — the score array on its way into the sort: dtype cast, sort key, rescaling on the scores present

Property theorems only.  `Model/QvaluesKey.lean` adds what `tdc` does to the score array before it
ranks: integer dtypes are cast to float64 (`f64OfInt`: exact below 2^53, round-to-nearest-even
beyond; float32 / 2^24 until /repo 36ef8db — now the refuted variant `Mutants.cast_merges_above_2p24`), and the `argsort` is the *ascending* one on `-scores` (higher is better) or `scores`.
`tdcEntry` is `tdc` as called with the score dtype explicit.  All statements are for lists of
arbitrary length.
-/
namespace Mk
open Mk.Qv
variable {α β : Type}

/-- "do not change under a strictly monotone rescaling", at full strength: the map only has to
preserve the order between the scores that are *present* (this is what a cast such as
integer → float32 does, which is not strictly monotone on the whole type). -/
theorem C01_tdc_mono_on_invariant (le : α → α → Bool) (hle : TotalPre le)
    (le' : β → β → Bool) (hle' : TotalPre le') (f : α → β) (xs : List (α × Bool))
    (hf : ∀ a ∈ xs, ∀ b ∈ xs, le' (f a.1) (f b.1) = le a.1 b.1) :
    tdc le' (xs.map (fun x => (f x.1, x.2))) = tdc le xs := by
  rw [C01_tdc_eq_spec le hle, C01_tdc_eq_spec le' hle', List.map_map]
  apply List.map_congr_left
  intro x hx
  exact qSpec_map_on le le' f xs hf x hx

/-- … and so do the training labels derived from the q-values -/
theorem C01_labels_mono_on_invariant (le : α → α → Bool) (hle : TotalPre le)
    (le' : β → β → Bool) (hle' : TotalPre le') (f : α → β) (thr : Rat) (xs : List (α × Bool))
    (hf : ∀ a ∈ xs, ∀ b ∈ xs, le' (f a.1) (f b.1) = le a.1 b.1) :
    updateLabels le' thr (xs.map (fun x => (f x.1, x.2))) = updateLabels le thr xs := by
  unfold updateLabels
  rw [C01_tdc_mono_on_invariant le hle le' hle' f xs hf, List.zipWith_map_left]

/-- qvalues.py:110-113: the ascending `argsort` on `-scores` (`desc`) / on `scores` (`not desc`)
compares two rows exactly as the best-first order of the direction does. -/
theorem C01_sort_key_is_direction (desc : Bool) (a b : (Rat × Bool) × Nat) :
    keyLe desc a b = better (dirLe leqQ desc) a b := by
  rw [keyLe_eq_better]

/-- `tdc` from the key sort on, for *any* result of the ascending `argsort` on the key: the
defining formula of every row, in input order, in both directions. -/
theorem C01_key_any_argsort_eq_spec (desc : Bool) (xs : List (Rat × Bool))
    (sorted : List ((Rat × Bool) × Nat)) (hperm : sorted.Perm xs.zipIdx)
    (hs : sorted.Pairwise (fun a b => keyLe desc a b = true)) :
    tdcArrOf leqQ desc xs.length sorted = some (xs.map (fun x => qSpec (dirLe leqQ desc) xs x.1)) := by
  apply C01_pipeline_any_argsort_eq_spec leqQ leqQ_linear desc xs sorted hperm
  unfold SortedDesc
  rw [List.pairwise_map]
  rw [keyLe_eq_better] at hs
  exact hs

/-- … and for the executable instance (merge sort on the key) -/
theorem C01_key_pipeline_eq_spec (desc : Bool) (xs : List (Rat × Bool)) :
    tdcKeyArr desc xs = some (xs.map (fun x => qSpec (dirLe leqQ desc) xs x.1)) := by
  rw [tdcKeyArr_eq_tdc, C01_tdc_eq_spec _ (leqQ_linear.totalPre desc)]

/-- **float scores**: `tdc` as called returns a value exactly when the labels decode and the
lengths agree, and the value is the defining formula on the decoded rows. -/
theorem C01_entry_floats_eq_spec (desc : Bool) (xs : List Rat) (labels : LabelArr) (r : Option (List Rat)) :
    tdcEntry desc (.floats xs) labels = .ok r ↔
      ∃ bs, decodeLabels labels = some bs ∧ xs.length = bs.length ∧
        r = some ((xs.zip bs).map (fun x => qSpec (dirLe leqQ desc) (xs.zip bs) x.1)) := by
  unfold tdcEntry checkInput prepScores
  cases hd : decodeLabels labels with
  | none => simp [Option.elim, Except.map]
  | some bs =>
    simp only [Option.elim]
    by_cases hl : xs.length = bs.length
    · simp only [hl, if_true, Except.map, Except.ok.injEq, Option.some.injEq, exists_eq_left', true_and]
      rw [C01_key_pipeline_eq_spec]
      exact eq_comm
    · simp [hl, Except.map]

/-- the two refusals come before the cast and the sort, labels first, whatever the score dtype -/
theorem C01_entry_errors (desc : Bool) (scores : ScoreArr) (labels : LabelArr) :
    (decodeLabels labels = none → tdcEntry desc scores labels = .error .notBoolean) ∧
    (∀ bs, decodeLabels labels = some bs → scores.len ≠ bs.length →
      tdcEntry desc scores labels = .error .lengthMismatch) := by
  unfold tdcEntry checkInput
  rw [prepScores_length]
  constructor
  · intro h; simp [h, Option.elim, Except.map]
  · intro bs h hl; simp [h, hl, Option.elim, Except.map]

/-- qvalues.py:106-107: the float64 an integer below 2^53 becomes is the integer itself -/
theorem C01_f64_cast_exact_below_2p53 (x : Int) (h : x.natAbs < 2 ^ 53) : f64OfInt x = x :=
  f64OfInt_small h

/-- **integer scores** ("small-integer dtype"): whenever the float64 cast keeps the order of
the scores present (no two distinct scores merged), `tdc` returns the defining formula *of the
integers themselves*, in both directions — the cast and the negation of the cast values do no harm. -/
theorem C01_entry_ints_eq_spec (desc : Bool) (xs : List Int) (labels : LabelArr) (r : Option (List Rat))
    (hemb : ∀ a ∈ xs, ∀ b ∈ xs, (f64OfInt a ≤ f64OfInt b ↔ a ≤ b)) :
    tdcEntry desc (.ints xs) labels = .ok r ↔
      ∃ bs, decodeLabels labels = some bs ∧ xs.length = bs.length ∧
        r = some ((xs.zip bs).map (fun x => qSpec (dirLe leqZ desc) (xs.zip bs) x.1)) := by
  unfold tdcEntry checkInput prepScores
  cases hd : decodeLabels labels with
  | none => simp [Option.elim, Except.map]
  | some bs =>
    simp only [Option.elim, List.length_map]
    by_cases hl : xs.length = bs.length
    · simp only [hl, if_true, Except.map, Except.ok.injEq, Option.some.injEq, exists_eq_left', true_and]
      have hz : (xs.map (fun x => ((f64OfInt x : Int) : Rat))).zip bs
          = (xs.zip bs).map (fun x => (((f64OfInt x.1 : Int) : Rat), x.2)) := by
        rw [List.zip_map_left]
        apply List.map_congr_left
        intro x _
        rfl
      rw [hz, tdcKeyArr_eq_tdc,
        C01_tdc_mono_on_invariant (dirLe leqZ desc) (leqZ_linear.totalPre desc) (dirLe leqQ desc)
          (leqQ_linear.totalPre desc) (fun x => ((f64OfInt x : Int) : Rat)) (xs.zip bs),
        C01_tdc_eq_spec _ (leqZ_linear.totalPre desc)]
      · exact eq_comm
      · intro a ha b hb
        have ha' := (List.of_mem_zip ha).1
        have hb' := (List.of_mem_zip hb).1
        cases desc
        · simp only [dirLe, leqQ, leqZ, Bool.false_eq_true, if_false, decide_eq_decide, Int.cast_le]
          exact hemb b.1 hb' a.1 ha'
        · simp only [dirLe, leqQ, leqZ, if_true, decide_eq_decide, Int.cast_le]
          exact hemb a.1 ha' b.1 hb'
    · simp [hl, Except.map]

/-- … in particular for every integer score vector with magnitudes below 2^53 (all of int8 …
uint32 and every value of int64 / uint64 a double holds exactly) -/
theorem C01_entry_small_ints_eq_spec (desc : Bool) (xs : List Int) (labels : LabelArr) (r : Option (List Rat))
    (hsmall : ∀ a ∈ xs, a.natAbs < 2 ^ 53) :
    tdcEntry desc (.ints xs) labels = .ok r ↔
      ∃ bs, decodeLabels labels = some bs ∧ xs.length = bs.length ∧
        r = some ((xs.zip bs).map (fun x => qSpec (dirLe leqZ desc) (xs.zip bs) x.1)) := by
  apply C01_entry_ints_eq_spec
  intro a ha b hb
  rw [f64OfInt_small (hsmall a ha), f64OfInt_small (hsmall b hb)]

/-- training labels through the entry with float scores: exactly the targets with `q ≤ thr`
(q the defining formula) are +1, all decoys −1, every other target 0 -/
theorem C01_labels_entry_exact (desc : Bool) (thr : Rat) (xs : List Rat) (labels : LabelArr)
    (r : Option (List Int)) :
    updateLabelsEntry desc thr (.floats xs) labels = .ok r ↔
      ∃ bs, decodeLabels labels = some bs ∧ xs.length = bs.length ∧
        r = some ((xs.zip bs).map (fun x =>
          if x.2 = false then (-1 : Int)
          else if qSpec (dirLe leqQ desc) (xs.zip bs) x.1 ≤ thr then 1 else 0)) := by
  unfold updateLabelsEntry checkInput prepScores
  cases hd : decodeLabels labels with
  | none => simp [Option.elim, Except.map]
  | some bs =>
    simp only [Option.elim]
    by_cases hl : xs.length = bs.length
    · simp only [hl, if_true, Except.map, Except.ok.injEq, Option.some.injEq, exists_eq_left', true_and]
      have h := C01_labels_exact (dirLe leqQ desc) (leqQ_linear.totalPre desc) thr (xs.zip bs)
      unfold updateLabels at h
      rw [tdcKeyArr_eq_tdc, Option.map_some, h]
      exact eq_comm
    · simp [hl, Except.map]

/-- … and with integer scores whose cast keeps the order of the scores present: the labels of
the formula on the integers themselves -/
theorem C01_labels_entry_ints_exact (desc : Bool) (thr : Rat) (xs : List Int) (labels : LabelArr)
    (r : Option (List Int)) (hemb : ∀ a ∈ xs, ∀ b ∈ xs, (f64OfInt a ≤ f64OfInt b ↔ a ≤ b)) :
    updateLabelsEntry desc thr (.ints xs) labels = .ok r ↔
      ∃ bs, decodeLabels labels = some bs ∧ xs.length = bs.length ∧
        r = some ((xs.zip bs).map (fun x =>
          if x.2 = false then (-1 : Int)
          else if qSpec (dirLe leqZ desc) (xs.zip bs) x.1 ≤ thr then 1 else 0)) := by
  unfold updateLabelsEntry checkInput prepScores
  cases hd : decodeLabels labels with
  | none => simp [Option.elim, Except.map]
  | some bs =>
    simp only [Option.elim, List.length_map]
    by_cases hl : xs.length = bs.length
    · simp only [hl, if_true, Except.map, Except.ok.injEq, Option.some.injEq, exists_eq_left', true_and]
      have hz : (xs.map (fun x => ((f64OfInt x : Int) : Rat))).zip bs
          = (xs.zip bs).map (fun x => (((f64OfInt x.1 : Int) : Rat), x.2)) := by
        rw [List.zip_map_left]
        apply List.map_congr_left
        intro x _
        rfl
      have hf : ∀ a ∈ xs.zip bs, ∀ b ∈ xs.zip bs,
          dirLe leqQ desc ((f64OfInt a.1 : Int) : Rat) ((f64OfInt b.1 : Int) : Rat) = dirLe leqZ desc a.1 b.1 := by
        intro a ha b hb
        have ha' := (List.of_mem_zip ha).1
        have hb' := (List.of_mem_zip hb).1
        cases desc
        · simp only [dirLe, leqQ, leqZ, Bool.false_eq_true, if_false, decide_eq_decide, Int.cast_le]
          exact hemb b.1 hb' a.1 ha'
        · simp only [dirLe, leqQ, leqZ, if_true, decide_eq_decide, Int.cast_le]
          exact hemb a.1 ha' b.1 hb'
      have h1 := C01_labels_mono_on_invariant (dirLe leqZ desc) (leqZ_linear.totalPre desc) (dirLe leqQ desc)
        (leqQ_linear.totalPre desc) (fun x => ((f64OfInt x : Int) : Rat)) thr (xs.zip bs) hf
      have h2 := C01_labels_exact (dirLe leqZ desc) (leqZ_linear.totalPre desc) thr (xs.zip bs)
      rw [h2] at h1
      unfold updateLabels at h1
      rw [hz, tdcKeyArr_eq_tdc, Option.map_some, h1]
      exact eq_comm
    · simp [hl, Except.map]

/-! ## Non-vacuity -/

/-- the order-embedding hypothesis holds for a vector holding the extremes of int64 next to
small values (the cast is exact or rounds without merging), and fails once two distinct
scores above 2^53 round to one float64 -/
example :
    (∀ a ∈ [-(2 ^ 63 : Int), -128, 0, 255, 2 ^ 63 - 1], ∀ b ∈ [-(2 ^ 63 : Int), -128, 0, 255, 2 ^ 63 - 1],
      (f64OfInt a ≤ f64OfInt b ↔ a ≤ b)) ∧
    ¬ (∀ a ∈ [(2 ^ 53 + 1 : Int), 2 ^ 53], ∀ b ∈ [(2 ^ 53 + 1 : Int), 2 ^ 53], (f64OfInt a ≤ f64OfInt b ↔ a ≤ b)) := by
  decide +kernel

/-- an ascending arrangement on the key other than the stable one exists (ties in reversed
index order), for both directions -/
example : let xs : List (Rat × Bool) := [(4, true), (4, false), (5, true)]
    let sorted : List ((Rat × Bool) × Nat) := [((5, true), 2), ((4, false), 1), ((4, true), 0)]
    sorted.Perm xs.zipIdx ∧ sorted.Pairwise (fun a b => keyLe true a b = true) ∧
      sorted.reverse.Pairwise (fun a b => keyLe false a b = true) := by
  refine ⟨by decide, ?_, ?_⟩ <;> simp [keyLe, sortKey] <;> norm_num

-- evaluation tests (compiler-evaluated: *tests*, not theorems)
#guard tdcEntry true (.ints [0, 5, 3]) (.bools [false, true, true]) == .ok (some [1, 1/2, 1/2])
#guard tdcEntry true (.ints [-128, 5, 127]) (.ints [1, 0, 1]) == .ok (some [1, 1, 1])
#guard tdcEntry false (.ints [-128, 5, 127]) (.ints [1, 0, 1]) == .ok (some [1, 1, 1])
#guard tdcEntry true (.floats [5, 4, 4, 3]) (.floats [1, 1, 0, 1]) == .ok (some [2/3, 2/3, 2/3, 2/3])
-- integers beyond 2^24 stay apart (float64 cast since /repo 36ef8db); beyond 2^53 the cast merges distinct integers
#guard tdcEntry true (.ints [2 ^ 24 + 2, 2 ^ 24 + 1, 2 ^ 24]) (.bools [true, true, false]) == .ok (some [1/2, 1/2, 1])
#guard tdcEntry true (.ints [2 ^ 53 + 2, 2 ^ 53 + 1, 2 ^ 53]) (.bools [true, true, false]) == .ok (some [1, 1, 1])
#guard tdcEntry true (.floats [2 ^ 24 + 2, 2 ^ 24 + 1, 2 ^ 24]) (.bools [true, true, false]) == .ok (some [1/2, 1/2, 1])
#guard tdcEntry true (.ints [3, 2]) (.ints [1, 2]) == .error .notBoolean
#guard tdcEntry true (.ints [3, 2, 1]) (.ints [1, 0]) == .error .lengthMismatch
#guard updateLabelsEntry true (1/2) (.ints [5, 4, 3, 2, 1]) (.ints [1, 0, 1, 1, 0]) == .ok (some [0, -1, 0, 0, -1])

end Mk
