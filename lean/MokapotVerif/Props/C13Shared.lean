import MokapotVerif.Lemmas.TabularShared
/-!
# C13 (third pass) — reader objects over sources the caller keeps, used again and
again; the computed-column reader read without a column list

Property theorems only.  The property quantifies over *histories*: "concatenating
the chunks delivered by any reader equals reading the table in one piece" must hold
for the second use of a reader object as for the first, and for a reader whose
in-memory source is also read through other reader objects.  `Model/Tabular.lean`
makes that true by construction (readers are functions); the code does not: a whole
`read()` of a `DataFrameReader` hands out the caller's own frame, and
`ComputedTabularDataReader` writes a column into whatever frame it is handed.
`Model/TabularShared.lean` makes the caller's objects explicit (`Store`, `Handed`,
`EReader`, `setItem`, `runUses`); the theorems below show that in the code as it is
no write ever reaches a caller-held frame, so that every theorem of `Props/C13.lean`
about a reader holds at every point of every history.
-/
namespace Mk.Tabular
variable {β : Type}

/-- **Readers never write into the caller's frames.**  For every reader object
built from the package's classes (in-memory frames of the caller, files, renamed,
computed column, joined — any nesting), every store, every request: if `read`
answers, the caller's frames are exactly what they were, and the answer is one of
the caller's own objects only if the whole table (`columns=None`) was asked for. -/
theorem C13_readers_leave_sources_alone (e : EReader β) (h : Built e) (st : Store β)
    (cols : Option (List Name)) (p : Handed β × Store β) (hp : e.read st cols = some p) :
    p.2 = st ∧ (p.1.obj ≠ none → cols = none) :=
  built_quiet h st cols p hp

/-- **Histories.**  Any number of reader objects (sharing in-memory sources or not),
any sequence of calls `get_column_names` / `read(columns)` /
`get_chunked_data_iterator(c, columns)` on them, in any order: every call observes
exactly what the same call observes on the untouched sources, and afterwards the
caller's frames are what they were. -/
theorem C13_shared_reader_histories (es : List (EReader β)) (h : ∀ e ∈ es, Built e) (st : Store β)
    (prog : List (Nat × RUse)) :
    runUses es st prog = (prog.map (fun iu => (useE (readerAt es iu.1) st iu.2).1), st) :=
  runUses_quiet es (readerAt_quiet es (fun e he => built_quiet (h e he))) st prog

/-- looking at any store, a built reader object is a reader of `Model/Tabular.lean`
whose chunks concatenate to its `read` — so `C13_reader_chunked_eq_read` applies -/
theorem C13_shared_reader_chunkOK (e : EReader β) (h : Built e) (st : Store β) : ChunkOK (e.on st) :=
  built_chunkOK h st

/-- **Chunked reading equals whole reading at every point of every history.**  After
any history of calls on any of the reader objects, for every object `i`, chunk size
`c ≥ 1` and selection: if `read(columns)` now returns the frame `F`, the chunk
iterator now delivers exactly the consecutive chunks of `F` (same header, rows,
index labels). -/
theorem C13_chunks_eq_read_in_every_history (es : List (EReader β)) (h : ∀ e ∈ es, Built e) (st : Store β)
    (prog : List (Nat × RUse)) (i : Nat) (hi : i < es.length) (c : Nat) (hc : 1 ≤ c)
    (cols : Option (List Name)) (F : DF β) (o : Option Nat)
    (hF : (useE (readerAt es i) (runUses es st prog).2 (RUse.read cols)).1 = RObs.frame F o) :
    ∃ e, (useE (readerAt es i) (runUses es st prog).2 (RUse.chunked c cols)).1 = RObs.frames (splitDF e c F) := by
  rw [C13_shared_reader_histories es h st prog] at hF ⊢
  have hb : Built (readerAt es i) := by
    have : readerAt es i = es[i] := by simp [readerAt, List.getD, hi]
    rw [this]
    exact h _ (List.getElem_mem hi)
  simp only [useE, obsRead] at hF
  cases hr : (readerAt es i).read st cols with
  | none => simp [hr] at hF
  | some p =>
    simp only [hr, Option.elim_some, RObs.frame.injEq] at hF
    have hon : ((readerAt es i).on st).read cols = some F := by
      simp [EReader.on, hr, hF.1]
    obtain ⟨e, he⟩ := built_chunkOK hb st c hc cols F hon
    refine ⟨e, ?_⟩
    have he' : (readerAt es i).chunked st c cols = some (splitDF e c F) := he
    simp [useE, obsChunked, he']

/-- **The computed-column reader read without a column list** (FINDING-C13.md: the
class refused `columns=None` — `computedReader … none = none` — until c6f4cd0;
`computedReaderP` is the class as it is now).  It (i) answers every explicit
selection exactly as the class did before,
(ii) delivers chunks that concatenate to `read` for every selection *including*
`columns=None`, (iii) for `columns=None` returns the whole table extended by the
column, the function being applied to the complete rows, and (iv) over caller-held
sources leaves them alone. -/
theorem C13_computed_reader_all_columns (r : Reader β) (col : Name) (fn : Nat → Row β → β) :
    (∀ cs, (computedReaderP r col fn).read (some cs) = (computedReader r col fn).read (some cs)
        ∧ ∀ c, (computedReaderP r col fn).chunked c (some cs) = (computedReader r col fn).chunked c (some cs))
      ∧ (ChunkOK r → ChunkOK (computedReaderP r col fn))
      ∧ (∀ t, ReadsTable r t true → (computedReaderP r col fn).read none = some (addCol col fn t))
      ∧ (∀ e : EReader β, Quiet e → Quiet (computedPE e col fn)
          ∧ ∀ st, (computedPE e col fn).on st = computedReaderP (e.on st) col fn) :=
  ⟨computedReaderP_some r col fn, computedP_chunkOK r col fn, computedP_readNone r col fn,
   fun e he => ⟨computedPE_quiet e col fn he, computedPE_on e col fn⟩⟩

/-! ## Non-vacuity -/

def exTextFile : CsvFile Nat := ⟨["a", "b"], [[1, 2], [4, 5], [7, 8]]⟩
def exStore : Store Nat :=
  [⟨["d", "e"], [(5, [("d", 70), ("e", 1)]), (3, [("d", 71), ("e", 2)]), (8, [("d", 72), ("e", 3)])]⟩,
   ⟨["d", "e"], [(0, [("d", 70), ("e", 1)]), (1, [("d", 71), ("e", 2)]), (2, [("d", 72), ("e", 3)])]⟩]
def exSwap : List (Name × Name) := [("d", "e"), ("e", "d")]

/-- four reader objects over the caller's frames: a renamed one (swap map) with a
computed column (the class before c6f4cd0) on top over frame 0; a join of frame 1
with a text file; a renamed one (swap map) over frame 1 again; a computed column
(the class as it is, function of a cell) over frame 1, read without a column list -/
def exReaders : List (EReader Nat) :=
  [computedE (mappedE (srcE 0) exSwap) "k" (fun i _ => 10 * i),
   joinedE [srcE 1, mappedE (extE (csvReader exTextFile)) [("a", "A")]],
   mappedE (srcE 1) exSwap,
   computedPE (srcE 1) "k" (fun i r => 10 * i + (r.lookup "d").getD 0)]

example : ∀ e ∈ exReaders, Built e := by
  intro e he
  simp only [exReaders, List.mem_cons, List.mem_nil_iff, or_false] at he
  rcases he with rfl | rfl | rfl | rfl
  · exact Built.computedOld _ _ _ (Built.mapped _ _ (Built.src 0))
  · refine Built.joined _ ?_
    intro e he
    simp only [List.mem_cons, List.mem_nil_iff, or_false] at he
    rcases he with rfl | rfl
    · exact Built.src 1
    · exact Built.mapped _ _ (Built.ext _ (csvReader_chunkOK _))
  · exact Built.mapped _ _ (Built.src 1)
  · exact Built.computed _ _ _ (Built.src 1)

/-- a history that reads the shared frame whole through one object and in chunks
through the others, twice -/
def exHistory : List (Nat × RUse) :=
  [(2, RUse.read none), (1, RUse.read none), (0, RUse.read (some ["k", "d"])), (1, RUse.chunked 2 none),
   (2, RUse.chunked 2 none), (0, RUse.chunked 2 (some ["k", "d"])), (3, RUse.read none), (3, RUse.chunked 2 none),
   (2, RUse.read none), (0, RUse.names)]

#guard (runUses exReaders exStore exHistory).2 == exStore
#guard (runUses exReaders exStore exHistory).1.all (fun o => o != RObs.raised)
#guard (useE (readerAt exReaders 0) exStore (RUse.read (some ["k", "d"]))).1 ==
  RObs.frame ⟨["k", "d"], [(5, [("k", 50), ("d", 1)]), (3, [("k", 30), ("d", 2)]), (8, [("k", 80), ("d", 3)])]⟩ none
#guard (useE (readerAt exReaders 1) exStore (RUse.chunked 2 none)).1 ==
  RObs.frames [⟨["d", "e", "A", "b"], [(0, [("d", 70), ("e", 1), ("A", 1), ("b", 2)]),
                                        (1, [("d", 71), ("e", 2), ("A", 4), ("b", 5)])]⟩,
               ⟨["d", "e", "A", "b"], [(2, [("d", 72), ("e", 3), ("A", 7), ("b", 8)])]⟩]
#guard (useE (srcE 0) exStore (RUse.read none)).1 == RObs.frame (exStore.at 0) (some 0)
#guard (computedReaderP (frameReader (exStore.at 0)) "k" (fun i _ => 10 * i)).read none ==
  some (addCol "k" (fun i _ => 10 * i) (exStore.at 0))

/-- the hypothesis of `C13_chunks_eq_read_in_every_history` after `exHistory` -/
example : (useE (readerAt exReaders 2) (runUses exReaders exStore exHistory).2 (RUse.read none)).1
    = RObs.frame (renameDF exSwap (exStore.at 1)) none := by decide

example : ReadsTable (frameReader (exStore.at 0)) (exStore.at 0) true := frameReader_readsTable _
example : Quiet (srcE 0 : EReader Nat) := srcE_quiet 0

end Mk.Tabular
