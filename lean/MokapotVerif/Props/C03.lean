import MokapotVerif.Lemmas.Confidence
import MokapotVerif.Props.C01
/-!
# C03 — Competition and roll-up keep exactly the best PSM per spectrum / entity

All theorems hold for every table (`rows : List Row`, any length, any
multiplicities, any target/decoy mix, any number of roll-up level columns),
every chunk size `c ≥ 1`, every best-first arrangement inside each temporary
chunk file (ties in any order) and every best-first arrangement of the merged
stream (whatever the k-way merge does with equal heads; that the real merge
produces such an arrangement is C14).
-/
namespace Mk

/-- The streaming loop of `assign_confidence` writes exactly: at the PSM level the
first-seen row per spectrum of the merged stream (every row without
de-duplication), at every roll-up level the first-seen row per entity among the
rows *retained at the PSM level*. -/
theorem C03_scan_eq_levels (dedup : Bool) (n : Nat) (merged : List Row) :
    scan dedup n merged = (psmLevel dedup merged, (List.range n).map (rollupLevel dedup merged)) :=
  scan_eq_levels dedup n merged

/-- PSM level with de-duplication: exactly one row per distinct spectrum of the
*input table*, a highest-scoring one, rows unmodified, non-increasing score
order — for every chunk size and every tie arrangement (per-chunk
de-duplication included). -/
theorem C03_psm_level_spec (c : Nat) (hc : 0 < c) (rows : List Row) (files : List (List Row))
    (hfiles : List.Forall₂ (IsChunkFile true) (chunksOf c rows) files)
    (merged : List Row) (hperm : merged.Perm files.flatten) (hs : SortedRows merged) :
    LevelSpec Row.spec rows (psmLevel true merged) := by
  have hspec := dedupFirst_levelSpec Row.spec merged hs
  have hsub : ∀ f ∈ files, ∀ r ∈ f, r ∈ rows := by
    intro f hf r hr
    obtain ⟨ch, hch, s, hperm', _, rfl⟩ := forall₂_mem_right hfiles f hf
    have : r ∈ s := (dedupFirst_sublist Row.spec s []).subset (by simpa [chunkFile] using hr)
    have : r ∈ ch := hperm'.mem_iff.mp this
    rw [← chunksOf_flatten c hc rows]
    exact List.mem_flatten.mpr ⟨ch, hch, this⟩
  refine ⟨hspec.1, hspec.2.1, ?_, ?_⟩
  · intro r hr
    have : r ∈ files.flatten := hperm.mem_iff.mp (hspec.2.2.1 r hr)
    obtain ⟨f, hf, hrf⟩ := List.mem_flatten.mp this
    exact hsub f hf r hrf
  · intro r hr
    rw [← chunksOf_flatten c hc rows] at hr
    obtain ⟨ch, hch, hrch⟩ := List.mem_flatten.mp hr
    obtain ⟨f, hf, s, hperm', hss, rfl⟩ := forall₂_mem_left hfiles ch hch
    obtain ⟨o', ho', hk', hsc'⟩ :=
      dedupFirst_covers Row.spec s [] hss r (hperm'.mem_iff.mpr hrch) (by simp)
    have ho'm : o' ∈ merged :=
      hperm.mem_iff.mpr (List.mem_flatten.mpr ⟨_, hf, by simpa [chunkFile] using ho'⟩)
    obtain ⟨o, ho, hk, hsc⟩ := hspec.2.2.2 o' ho'm
    exact ⟨o, ho, hk.trans hk', le_trans hsc' hsc⟩

/-- De-duplication switched off: the PSM level holds *every* PSM of the table
(a permutation of the input), in non-increasing score order. -/
theorem C03_no_dedup_keeps_all (c : Nat) (hc : 0 < c) (rows : List Row) (files : List (List Row))
    (hfiles : List.Forall₂ (IsChunkFile false) (chunksOf c rows) files)
    (merged : List Row) (hperm : merged.Perm files.flatten) (hs : SortedRows merged) :
    (psmLevel false merged).Perm rows ∧ SortedRows (psmLevel false merged) := by
  refine ⟨?_, by simpa [psmLevel] using hs⟩
  simp only [psmLevel, Bool.false_eq_true, if_false]
  refine hperm.trans ?_
  rw [← chunksOf_flatten c hc rows]
  clear hperm hs
  generalize chunksOf c rows = chs at hfiles
  induction hfiles with
  | nil => simp
  | cons hab _ ih =>
    obtain ⟨s, hp, _, rfl⟩ := hab
    simp only [List.flatten_cons, chunkFile, Bool.false_eq_true, if_false]
    exact hp.append ih

/-- Every higher level (peptide, modified peptide, precursor, peptide group):
exactly one row per distinct entity among the rows retained at the PSM level,
a highest-scoring one, rows unmodified, non-increasing score order. -/
theorem C03_higher_level_spec (dedup : Bool) (merged : List Row) (hs : SortedRows merged) (l : Nat) :
    LevelSpec (fun r => r.key l) (psmLevel dedup merged) (rollupLevel dedup merged l) := by
  apply dedupFirst_levelSpec
  unfold psmLevel
  split
  · exact SortedRows.sublist (dedupFirst_sublist _ _ _) hs
  · exact hs

/-- rows are never modified: every row of every level file is an input row of the
merged stream (identifier, peptide, proteins, score of one and the same PSM) -/
theorem C03_rows_intact (dedup : Bool) (n : Nat) (merged : List Row) :
    (∀ r ∈ (scan dedup n merged).1, r ∈ merged) ∧
    (∀ lv ∈ (scan dedup n merged).2, ∀ r ∈ lv, r ∈ merged) := by
  rw [scan_eq_levels]
  have hpsm : ∀ r ∈ psmLevel dedup merged, r ∈ merged := by
    intro r hr
    unfold psmLevel at hr
    split at hr
    · exact (dedupFirst_sublist _ _ _).subset hr
    · exact hr
  refine ⟨hpsm, ?_⟩
  intro lv hlv r hr
  obtain ⟨l, _, rfl⟩ := List.mem_map.mp hlv
  exact hpsm r ((dedupFirst_sublist _ _ _).subset hr)

/-- the q-value column of a level file is the C01 formula evaluated on exactly the
rows of that level file -/
theorem C03_qvalues_are_C01 (rows : List Row) :
    levelQvalues rows = rows.map (fun r =>
      qSpec (leInt true) (rows.map (fun r => (r.score, r.target))) r.score) := by
  unfold levelQvalues
  have h := C01_tdc_eq_spec (leInt true) (leInt_totalPre true) (rows.map (fun r => (r.score, r.target)))
  have hle : (fun a b : Int => decide (a ≤ b)) = leInt true := by
    funext a b; simp [leInt]
  rw [hle, h, List.map_map]
  rfl

/-- targets go to `targets.<level>`, decoys to `decoys.<level>`: the two files
partition the level rows, order preserved, each row next to its own q-value -/
theorem C03_targets_decoys_partition (rows : List Row) :
    (splitTD rows).1.map Prod.fst = rows.filter (fun r => r.target) ∧
    (splitTD rows).2.map Prod.fst = rows.filter (fun r => !r.target) ∧
    (∀ p ∈ (splitTD rows).1 ++ (splitTD rows).2, p ∈ rows.zip (levelQvalues rows)) := by
  have hlen : (levelQvalues rows).length = rows.length := by
    rw [C03_qvalues_are_C01]; simp
  have hz : (rows.zip (levelQvalues rows)).map Prod.fst = rows :=
    List.map_fst_zip (by omega)
  refine ⟨?_, ?_, ?_⟩
  · simp only [splitTD]
    conv_rhs => rw [← hz]
    rw [List.filter_map]; rfl
  · simp only [splitTD]
    conv_rhs => rw [← hz]
    rw [List.filter_map]; rfl
  · intro p hp
    simp only [splitTD, List.mem_append, List.mem_filter] at hp
    rcases hp with h | h <;> exact h.1

/-- the stand-alone roll-up tool applies the same rule: every level of its output
has one row per entity of the merged result files, a highest-scoring one -/
theorem C03_rollup_tool_spec (n : Nat) (merged : List Row) (hs : SortedRows merged) :
    ∀ l, l < n → ∃ lv, (rollupTool n merged)[l]? = some lv ∧
      LevelSpec (fun r => r.key l) merged lv := by
  intro l hl
  refine ⟨dedupFirst (fun r => r.key l) [] merged, ?_, dedupFirst_levelSpec _ merged hs⟩
  simp [rollupTool, hl]

/-- With scores that are pairwise distinct, the level specification determines the
level file uniquely — hence the result is the same for every chunk size, every
tie arrangement and every merge order (the `chunk_invariant` clause of C05). -/
theorem C03_levelSpec_unique_tiefree (key : Row → Nat) (input out₁ out₂ : List Row)
    (hinj : ∀ a ∈ input, ∀ b ∈ input, a.score = b.score → a = b)
    (h₁ : LevelSpec key input out₁) (h₂ : LevelSpec key input out₂) : out₁ = out₂ := by
  have mem_of : ∀ (o₁ o₂ : List Row), LevelSpec key input o₁ → LevelSpec key input o₂ →
      ∀ r ∈ o₁, r ∈ o₂ := by
    intro o₁ o₂ g₁ g₂ r hr
    obtain ⟨r₂, hr₂, hk₂, hs₂⟩ := g₂.2.2.2 r (g₁.2.2.1 r hr)
    obtain ⟨r₁, hr₁, hk₁, hs₁⟩ := g₁.2.2.2 r₂ (g₂.2.2.1 r₂ hr₂)
    have : r₁ = r := by
      have hk : key r₁ = key r := hk₁.trans hk₂
      exact List.inj_on_of_nodup_map g₁.2.1 hr₁ hr hk
    subst this
    have : r₁.score = r₂.score := le_antisymm hs₂ hs₁
    have : r₁ = r₂ := hinj _ (g₁.2.2.1 _ hr₁) _ (g₂.2.2.1 _ hr₂) this
    rw [this]; exact hr₂
  have nd₁ : out₁.Nodup := List.Nodup.of_map _ h₁.2.1
  have nd₂ : out₂.Nodup := List.Nodup.of_map _ h₂.2.1
  have hperm : out₁.Perm out₂ :=
    (List.perm_ext_iff_of_nodup nd₁ nd₂).mpr (fun r => ⟨mem_of _ _ h₁ h₂ r, mem_of _ _ h₂ h₁ r⟩)
  -- two strictly decreasing arrangements of the same rows coincide
  have strict : ∀ (o : List Row), LevelSpec key input o →
      o.Pairwise (fun a b => b.score < a.score) := by
    intro o g
    have nd : o.Nodup := List.Nodup.of_map _ g.2.1
    have := g.1.and nd
    refine this.imp_of_mem ?_
    intro a b ha hb hab
    rcases lt_or_eq_of_le hab.1 with h | h
    · exact h
    · exact absurd (hinj _ (g.2.2.1 _ hb) _ (g.2.2.1 _ ha) h) (Ne.symm hab.2)
  exact List.Perm.eq_of_pairwise (le := fun a b => b.score < a.score)
    (fun a b _ _ hab hba => absurd (lt_trans hab hba) (lt_irrefl _)) (strict _ h₁) (strict _ h₂) hperm

/-! ## Non-vacuity and evaluation tests -/

def exRows : List Row :=
  [ ⟨0, 1, [10], true, 5⟩, ⟨1, 1, [11], true, 7⟩, ⟨2, 2, [10], false, 6⟩,
    ⟨3, 3, [11], true, 2⟩, ⟨4, 2, [12], true, 1⟩ ]

#guard (confidenceLevels 2 true 1 exRows).1.map (·.id) == [1, 2, 3]
#guard (confidenceLevels 2 true 1 exRows).2.map (fun l => l.map (·.id)) == [[1, 2]]
#guard (confidenceLevels 1 false 1 exRows).1.map (·.id) == [1, 2, 0, 3, 4]
#guard levelSpecB Row.spec exRows (confidenceLevels 2 true 1 exRows).1
#guard !levelSpecB Row.spec exRows [exRows[0]!, exRows[2]!, exRows[3]!]   -- not the best of spectrum 1

example : SortedRows [exRows[1]!, exRows[2]!, exRows[0]!] := by
  simp [SortedRows, exRows]

end Mk
