import MokapotVerif.Generated.FileOps
/-!
# C09 — obligations over the file-operation inventory regenerated from /repo on every run
-/
namespace Mk
open Mk.Generated

/-- call sites allowed to open a file for appending, each with the reason:
the CSV writer's `append_data` only ever follows `initialize` (truncation) in the same run —
`assign_confidence` initialises every level and result file before the first append unless the
caller explicitly asks to append to existing result files; `get_unique_peptides_from_psms` is
reachable from no entry point (unit test only). -/
def allowedAppend : List (String × String) :=
  [ ("mokapot/tabular_data.py", "append_data"),
    ("mokapot/confidence.py", "get_unique_peptides_from_psms") ]

/-- opened for appending (or with a mode the translator could not read) -/
def isAppend (op : FileOp) : Bool := op.append

/-- functions whose `glob` results feed results, with what they are allowed to match: the
roll-up tool globs its *declared inputs* (`*.targets.<level>s`, result files of earlier runs that
the user points it to) -/
def allowedGlob : List (String × String) := [ ("mokapot/brew_rollup.py", "do_rollup") ]

/-- **No temporary or result file is opened in append mode** outside the initialise-then-append
writer protocol (D7, D24 were violations of this rule). -/
theorem C09_no_stray_append :
    ∀ op ∈ fileOps, isAppend op = true → (op.file, op.func) ∈ allowedAppend := by decide

/-- **No glob feeds results except over declared inputs** (D6 was a violation: the sorted
chunk files were rediscovered with `glob("…scores_metadata_*")`). -/
theorem C09_no_result_glob :
    ∀ op ∈ fileOps, (op.kind == "glob" || op.kind == "glob-sorted") = true →
      (op.file, op.func) ∈ allowedGlob := by decide

/-- **No result depends on probing the directory** (`exists`, `is_file`, `listdir`, `iterdir`,
`stat` …): whether a file of a given name happens to be present is state left by earlier runs;
the code base has no such call, and a new one must be justified here. -/
def allowedProbe : List (String × String) := []

theorem C09_no_fs_probe :
    ∀ op ∈ fileOps, op.kind = "probe" → (op.file, op.func) ∈ allowedProbe := by decide

/-- the only place that replaces a user file by another file is the CLI verify step, and the
file moved there is opened with mode "w" (truncating) in the same function -/
theorem C09_move_source_truncated :
    ∀ op ∈ fileOps, op.kind = "move" →
      op.file = "mokapot/mokapot.py" ∧
      (fileOps.any (fun o => o.file == op.file && o.func == op.func && o.kind == "open" && o.mode == "w")) = true := by
  decide

/-- non-vacuity: the inventory contains writes, unlinks, globs and a move -/
theorem C09_inventory_nonvacuous :
    (fileOps.any (fun o => o.kind == "unlink")) = true ∧ (fileOps.any (fun o => o.kind == "move")) = true ∧
    (fileOps.any (fun o => isAppend o)) = true ∧ (fileOps.any (fun o => o.kind == "glob-sorted")) = true := by
  decide

/-- the rule has teeth: the pre-fix call sites are rejected -/
theorem C09_rule_rejects_old_sites :
    (("mokapot/mokapot.py", "main") ∈ allowedAppend) = False ∧
    (("mokapot/confidence.py", "create_sorted_file_iterator") ∈ allowedGlob) = False := by
  decide

end Mk
