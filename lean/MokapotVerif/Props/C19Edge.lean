import MokapotVerif.Props.C19Pass2
import MokapotVerif.Lemmas.PinTsvEdge
/-!
# C19, third pass — empty and blank fields at the edges of a line; converter and validity test agree

Property theorems only.  Since commit 750c44b of /repo (finding D49) `pin_to_valid_tsv` removes only
the line terminator of a line (`rstrip("\r\n")`, model `chomp`).  `PinDoc.wf` therefore no longer asks
anything of the first and last field of a line (they may be empty or blank — `Props/C19.lean`,
`Props/C19Pass2.lean` hold for such documents), and the two residues of the earlier passes disappear:
the document-level validity clause needs neither `padsFree` nor `ddPlain`, and the converter and
`is_valid_tsv` agree on what a DefaultDirection line is, for every text.
-/
namespace Mk

/-! ## one line, empty fields anywhere, every form of line end -/

/-- **every field unchanged wherever the protein column stands — empty and blank fields included, also
as first or last field of the line**: for any fields `pre`, `k ≥ 1` proteins, `post` (free of the
column separator and the newline, the last one not ending with a carriage return) and any of the line
ends `""`, `"\n"`, `"\r\n"`, the line as it reaches the converter is turned into
`pre ++ [proteins joined] ++ post`. -/
theorem C19_edge_line_kept (sepC : Char) (sepP : Str) (pre prots post : List Str) (e : Str)
    (hs : isEol sepC = false) (hne : prots ≠ [])
    (hf : ∀ f ∈ pre ++ prots ++ post, sepC ∉ f ∧ '\n' ∉ f)
    (hl : edgeOk (pre ++ prots ++ post) = true) (he : e ∈ lineEnds) :
    convertLine sepC sepP pre.length (pre.length + 1 + post.length)
        (chomp (joinWith [sepC] (pre ++ prots ++ post) ++ e))
      = joinWith [sepC] (pre ++ [joinWith sepP prots] ++ post) := by
  rw [chomp_pad _ e (lineEnds_eol e he)
    (joined_last_not_eol sepC _ hs (fun f hf' => (hf f hf').2) hl)]
  unfold convertLine
  have hne' : pre ++ prots ++ post ≠ [] := by
    cases hp : prots with
    | nil => exact absurd hp hne
    | cons a b => simp
  rw [splitOn_joinWith sepC _ hne' (fun f hf' => (hf f hf').1), convertFields_spec sepP pre prots post hne]

/-- the header line and every line that is not folded (as many fields as the header) is written back
as it is, minus carriage returns before its end: whatever blanks or empty fields it has -/
theorem C19_rectangular_line_kept (sepC : Char) (sepP : Str) (fs : List Str) (idx : Nat) (e : Str)
    (hs : isEol sepC = false) (hi : idx < fs.length)
    (hf : ∀ f ∈ fs, sepC ∉ f ∧ '\n' ∉ f) (hl : edgeOk fs = true) (he : e ∈ lineEnds) :
    convertLine sepC sepP idx fs.length (chomp (joinWith [sepC] fs ++ e)) = joinWith [sepC] fs := by
  rw [chomp_pad _ e (lineEnds_eol e he) (joined_last_not_eol sepC _ hs (fun f hf' => (hf f hf').2) hl)]
  unfold convertLine
  have hne : fs ≠ [] := by intro e'; subst e'; simp at hi
  rw [splitOn_joinWith sepC _ hne (fun f hf' => (hf f hf').1), C19_convert_rectangular_id sepP fs idx hi]

/-! ## converter and validity test agree on the DefaultDirection line, for every text -/

/-- the converter tests the line without its terminator, `is_valid_tsv` the raw line: same answer -/
theorem C19_dd_test_agrees (l : Str) : isDD (chomp l) = isDD l := isDD_chomp l

/-- whatever the file: the second line is dropped by the converter exactly when it starts with
`DefaultDirection`, and then `is_valid_tsv` reports the file invalid (so the CLI step converts it) -/
theorem C19_dropped_line_makes_invalid (sepC : Char) (sepP : Str) (idx nCol : Nat) (h l2 : Str)
    (more : List Str) :
    (secondOut sepC sepP idx nCol (chomp l2) = [] ↔ isDD l2 = true) ∧
    (isDD l2 = true → isValidLines sepC (h :: l2 :: more) = .ok false) := by
  constructor
  · unfold secondOut
    rw [isDD_chomp]
    cases isDD l2 <;> simp
  · intro hd
    simp [isValidLines, hd]

/-! ## the document-level clauses without the residues of the second pass -/

/-- a well-formed document has nothing around its lines that `is_valid_tsv` could take for a column,
and its DefaultDirection line starts with the word -/
theorem C19_wf_pads_free_dd_plain (sepC : Char) (d : PinDoc) (h : d.wf sepC = true) :
    d.padsFree sepC = true ∧ d.ddPlain = true := by
  have hw := (wf_iff sepC d).mp h
  constructor
  · simp only [PinDoc.padsFree, PinRow.padsFree, Bool.and_eq_true, Bool.not_eq_true',
      List.contains_eq_mem, decide_eq_false_iff_not, List.all_eq_true]
    refine ⟨⟨by rw [hw.hpadL]; simp, padOk_not_mem sepC _ hw.sepEol hw.hpadR⟩, fun r hr => ?_⟩
    have hr' := hw.rows r hr
    exact ⟨by rw [hr'.padL]; simp, padOk_not_mem sepC _ hw.sepEol hr'.padR⟩
  · unfold PinDoc.ddPlain
    cases hd : d.dd with
    | none => rfl
    | some x =>
      have := (hw.dd x hd).2
      rw [isDD_chomp] at this
      simp [this]

/-- **a PIN document is reported valid exactly when it has no DefaultDirection line and all its lines
have as many fields as the header** — for every well-formed document (no further hypothesis) -/
theorem C19_valid_doc_iff_full (sepC : Char) (d : PinDoc) (h : d.wf sepC = true) :
    isValid sepC (renderPin sepC d) = .ok (docValidSpec d) ∧
    (isValid sepC (renderPin sepC d) = .ok true ↔ d.dd = none ∧ ∀ r ∈ d.rows, r.prots.length = 1) :=
  C19_valid_doc_iff sepC d h (C19_wf_pads_free_dd_plain sepC d h).1 (C19_wf_pads_free_dd_plain sepC d h).2

/-- the CLI verify step on every well-formed document: left alone exactly when it has no
DefaultDirection line and one protein per row, replaced by its rectangular table otherwise -/
theorem C19_verify_step_doc_full (d : PinDoc) (h : d.wf '\t' = true) :
    verifyStep (renderPin '\t' d) = .ok (if docValidSpec d then renderPin '\t' d else renderTsv '\t' [':'] d) :=
  C19_verify_step_doc d h (C19_wf_pads_free_dd_plain '\t' d h).1 (C19_wf_pads_free_dd_plain '\t' d h).2

/-- **converting a file that is already valid changes nothing** (idempotence on every valid input,
not only on the converter's own output): a well-formed document without DefaultDirection line, one
protein per row, stored plainly, is reported valid and is converted to itself -/
theorem C19_valid_input_unchanged (sepC : Char) (sepP : Str) (d : PinDoc) (h : d.wf sepC = true)
    (hp : d.plain = true) (hv : docValidSpec d = true) :
    isValid sepC (renderPin sepC d) = .ok true ∧
    pinToTsv sepC sepP (renderPin sepC d) = .ok (renderPin sepC d) := by
  have hw := (wf_iff sepC d).mp h
  constructor
  · rw [(C19_valid_doc_iff_full sepC d h).1, hv]
  · rw [C19_pin_to_tsv_spec sepC sepP d h,
      renderTsv_of_plain_valid sepC sepP d hw.hpadL (fun r hr => (hw.rows r hr).padL) hp hv]

/-! ## Non-vacuity and evaluation tests -/

/-- the input of finding D49 and its variants: an empty LAST field after the protein column, an empty
FIRST field, a blank last field, an empty header-less edge; protein column in the middle -/
def exEdgeDoc : PinDoc :=
  { hpadL := [], cols := ["SpecId".toList, "Label".toList, "Proteins".toList, "Peptide".toList, "Note".toList],
    hpadR := [], dd := none,
    rows := [
      { padL := [], pre := ["a".toList, "1".toList], prots := ["P1".toList, "P2".toList],
        post := ["PEP".toList, "".toList], padR := [] },
      { padL := [], pre := ["".toList, "1".toList], prots := ["P3".toList],
        post := ["PEP".toList, " ".toList], padR := ['\r'] },
      { padL := [], pre := ["".toList, "".toList], prots := ["".toList, "".toList],
        post := ["".toList, "".toList], padR := [] }],
    trailingNl := true }

/-- an already valid file whose rows end with an empty field (the old code shifted its fields) -/
def exEdgeValid : PinDoc :=
  { hpadL := [], cols := ["SpecId".toList, "Label".toList, "Proteins".toList, "Peptide".toList, "Note".toList],
    hpadR := [], dd := none,
    rows := [{ padL := [], pre := ["a".toList, "1".toList], prots := ["P1".toList], post := ["PEP".toList, "".toList], padR := [] },
             { padL := [], pre := ["".toList, "".toList], prots := ["".toList], post := ["".toList, "".toList], padR := [] }],
    trailingNl := true }

#guard exEdgeDoc.wf '\t' && exEdgeDoc.edgeSensitive && firstTsvRowOk '\t' [':'] exEdgeDoc && tsvEdgeOk [':'] exEdgeDoc
#guard String.ofList (renderPin '\t' exEdgeDoc) =
  "SpecId\tLabel\tProteins\tPeptide\tNote\na\t1\tP1\tP2\tPEP\t\n\t1\tP3\tPEP\t \r\n\t\t\t\t\t\n"
#guard (pinToTsv '\t' [':'] (renderPin '\t' exEdgeDoc)).toOption.map String.ofList =
  some "SpecId\tLabel\tProteins\tPeptide\tNote\na\t1\tP1:P2\tPEP\t\n\t1\tP3\tPEP\t \n\t\t:\t\t\n"
#guard (isValid '\t' (renderPin '\t' exEdgeDoc)).toOption = some false
#guard (isValid '\t' (renderTsv '\t' [':'] exEdgeDoc)).toOption = some true
#guard exEdgeValid.wf '\t' && exEdgeValid.plain && docValidSpec exEdgeValid && exEdgeValid.edgeSensitive
#guard (pinToTsv '\t' [':'] (renderPin '\t' exEdgeValid)).toOption = some (renderPin '\t' exEdgeValid)
#guard chomp "a\tb\t \r\r\n".toList = "a\tb\t ".toList
#guard chomp " \t\n".toList = " \t".toList
#guard chomp "\r\n".toList = []

/-- the hypotheses of the document theorems hold for documents with empty first and last fields -/
example : exEdgeDoc.wf '\t' = true ∧ exEdgeDoc.edgeSensitive = true ∧ sepPOk '\t' [':'] = true ∧
    firstTsvRowOk '\t' [':'] exEdgeDoc = true ∧ tsvEdgeOk [':'] exEdgeDoc = true ∧
    (∃ r ∈ exEdgeDoc.rows, r.post.getLast? = some [] ∧ 2 ≤ r.prots.length) ∧
    (∃ r ∈ exEdgeDoc.rows, r.pre.head? = some []) := by decide

/-- `C19_valid_input_unchanged`: hypotheses satisfiable with an empty last field -/
example : exEdgeValid.wf '\t' = true ∧ exEdgeValid.plain = true ∧ docValidSpec exEdgeValid = true ∧
    exEdgeValid.edgeSensitive = true := by decide

/-- `C19_edge_line_kept`: the row of the finding, every line end -/
example : isEol '\t' = false ∧ edgeOk (["a".toList, "1".toList] ++ ["P1".toList, "P2".toList] ++ ["PEP".toList, []]) = true ∧
    lineEnds = [[], ['\n'], ['\r', '\n']] := by decide

end Mk
