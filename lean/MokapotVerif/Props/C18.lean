import MokapotVerif.Lemmas.DecoysDraws
/-!
# C18 — Generated decoys preserve length, composition and cleavage structure

Property theorems only.  `perms` is the family of permutations held by the
`perms` dict of `_shuffle_proteins` (one per interior length; any family of
permutations — "any RNG state"), `cut`/`block` describe the enzyme (residue
class with optional negative look-ahead; `noBlock` = plain residue class),
sequences and names are arbitrary lists, `w ≥ 1` is any wrap width (70 in the
code).  `shuffleLoop` is the model of the in-place Python loop and returns
`none` where Python would raise.

Modelling caveat (trusted): `chunks w` is `textwrap.wrap(seq, w)` only for
sequences without blanks and hyphens; the round-trip theorems themselves need
only what their hypotheses say (no line break and no `>` in a sequence).
-/
namespace Mk.Decoys

/-! helper definitions for the non-vacuity examples -/
def kr (c : Char) : Bool := c = 'K' || c = 'R'
/-- a drawn family: rotate by one (a genuine non-identity permutation for every n ≥ 2) -/
def rot (n : Nat) : List Nat := (List.range n).drop 1 ++ (List.range n).take 1

theorem rot_family : PermFamily rot := fun n => by
  unfold rot
  exact List.perm_append_comm.trans (by rw [List.take_append_drop])
variable {α : Type}

/-- The loop of `_shuffle_proteins` never raises and equals the peptide-wise
description, for *any* non-decreasing site list starting at 0 and bounded by the
sequence length. -/
theorem C18_decoy_model_eq_peptidewise {perms : Nat → List Nat} (hp : PermFamily perms)
    (sites : List Nat) (seq : List α) (hok : SitesOK seq.length (0 :: sites)) :
    shuffleLoop perms (0 :: sites) seq = some (specLoop perms (0 :: sites) seq) :=
  shuffleLoop_sites hp sites seq hok

/-- …in particular for the cleavage sites of the sequence under any enzyme of the class -/
theorem C18_decoy_defined {perms : Nat → List Nat} (hp : PermFamily perms) (cut block : α → Bool)
    (seq : List α) :
    shuffleLoop perms (cleavageSites cut block seq) seq
      = some (specLoop perms (cleavageSites cut block seq) seq) :=
  shuffleLoop_sites hp _ seq (cleavageSites_ok cut block seq)

/-- same length -/
theorem C18_decoy_length {perms : Nat → List Nat} (hp : PermFamily perms) (cut block : α → Bool)
    (seq out : List α) (h : shuffleLoop perms (cleavageSites cut block seq) seq = some out) :
    out.length = seq.length := by
  rw [C18_decoy_defined hp] at h; cases h
  exact specLoop_length hp _ _

/-- same residue composition: the decoy is a permutation of the target -/
theorem C18_decoy_perm {perms : Nat → List Nat} (hp : PermFamily perms) (cut block : α → Bool)
    (seq out : List α) (h : shuffleLoop perms (cleavageSites cut block seq) seq = some out) :
    out.Perm seq := by
  rw [C18_decoy_defined hp] at h; cases h
  exact specLoop_perm hp _ _

/-- …every residue occurs equally often -/
theorem C18_decoy_composition [BEq α] [LawfulBEq α] {perms : Nat → List Nat} (hp : PermFamily perms)
    (cut block : α → Bool) (seq out : List α)
    (h : shuffleLoop perms (cleavageSites cut block seq) seq = some out) (a : α) :
    out.count a = seq.count a :=
  (C18_decoy_perm hp cut block seq out h).count_eq a

/-- every enzymatic peptide (stretch between consecutive sites `sᵢ`, `sᵢ₊₁`) of the decoy is
the shuffled image of the same stretch of the target -/
theorem C18_decoy_peptidewise {perms : Nat → List Nat} (hp : PermFamily perms) (cut block : α → Bool)
    (seq out : List α) (h : shuffleLoop perms (cleavageSites cut block seq) seq = some out)
    (i : Nat) (hi : i + 1 < (cleavageSites cut block seq).length) :
    slice out (cleavageSites cut block seq)[i] (cleavageSites cut block seq)[i + 1]
      = shufflePeptide perms
          (slice seq (cleavageSites cut block seq)[i] (cleavageSites cut block seq)[i + 1]) := by
  rw [C18_decoy_defined hp] at h; cases h
  exact decoy_slice hp cut block seq i hi

/-- every enzymatic peptide keeps its own residues -/
theorem C18_decoy_peptide_perm {perms : Nat → List Nat} (hp : PermFamily perms) (cut block : α → Bool)
    (seq out : List α) (h : shuffleLoop perms (cleavageSites cut block seq) seq = some out)
    (i : Nat) (hi : i + 1 < (cleavageSites cut block seq).length) :
    (slice out (cleavageSites cut block seq)[i] (cleavageSites cut block seq)[i + 1]).Perm
      (slice seq (cleavageSites cut block seq)[i] (cleavageSites cut block seq)[i + 1]) := by
  rw [C18_decoy_peptidewise hp cut block seq out h i hi]
  exact shufflePeptide_perm hp _

/-- the first and the last residue of every (non-empty) enzymatic peptide stay in place -/
theorem C18_decoy_fixed_termini {perms : Nat → List Nat} (hp : PermFamily perms) (cut block : α → Bool)
    (seq out : List α) (h : shuffleLoop perms (cleavageSites cut block seq) seq = some out)
    (i : Nat) (hi : i + 1 < (cleavageSites cut block seq).length)
    (hne : (cleavageSites cut block seq)[i] < (cleavageSites cut block seq)[i + 1]) :
    out[(cleavageSites cut block seq)[i]]? = seq[(cleavageSites cut block seq)[i]]? ∧
    out[(cleavageSites cut block seq)[i + 1] - 1]? = seq[(cleavageSites cut block seq)[i + 1] - 1]? := by
  have hpw := C18_decoy_peptidewise hp cut block seq out h i hi
  have hlen := C18_decoy_length hp cut block seq out h
  have hb : (cleavageSites cut block seq)[i + 1] ≤ seq.length :=
    (cleavageSites_ok cut block seq).2 _ (List.getElem_mem _)
  constructor
  · rw [← slice_head? out _ _ hne, ← slice_head? seq _ _ hne, hpw, shufflePeptide_head?]
  · rw [← slice_getLast? out _ _ hne (hlen ▸ hb), ← slice_getLast? seq _ _ hne hb, hpw,
      shufflePeptide_getLast?]

/-- for a residue-class enzyme the cleavage sites of the decoy are those of the target -/
theorem C18_decoy_sites_eq {perms : Nat → List Nat} (hp : PermFamily perms) (cut : α → Bool)
    (seq out : List α) (h : shuffleLoop perms (cleavageSites cut noBlock seq) seq = some out) :
    cleavageSites cut noBlock out = cleavageSites cut noBlock seq := by
  rw [C18_decoy_defined hp] at h; cases h
  exact decoy_sites_eq hp cut seq

/-- with `reverse=True` the interior `(sᵢ+1 … sᵢ₊₁−1)` of every enzymatic peptide is exactly
reversed (whatever was drawn before: `permsOf true` ignores `drawn`) -/
theorem C18_decoy_reverse_interior (drawn : Nat → List Nat) (cut block : α → Bool)
    (seq out : List α)
    (h : shuffleLoop (permsOf true drawn) (cleavageSites cut block seq) seq = some out)
    (i : Nat) (hi : i + 1 < (cleavageSites cut block seq).length) :
    slice out ((cleavageSites cut block seq)[i] + 1) ((cleavageSites cut block seq)[i + 1] - 1)
      = (slice seq ((cleavageSites cut block seq)[i] + 1) ((cleavageSites cut block seq)[i + 1] - 1)).reverse := by
  have hp : PermFamily (permsOf true drawn) := revPerm_family
  have hpw := C18_decoy_peptidewise hp cut block seq out h i hi
  have hlen := C18_decoy_length hp cut block seq out h
  have hb : (cleavageSites cut block seq)[i + 1] ≤ seq.length :=
    (cleavageSites_ok cut block seq).2 _ (List.getElem_mem _)
  rw [← interior_slice out _ _ (hlen ▸ hb), ← interior_slice seq _ _ hb, hpw]
  exact shufflePeptide_interior_rev _

/-- one decoy per target, in the same order, named `prefix + name`, with the
peptide-wise shuffled sequence; `_shuffle_proteins` never raises -/
theorem C18_decoy_name {perms : Nat → List Nat} (hp : PermFamily perms) (pre : List Char)
    (cut block : Char → Bool) (ts : List (List Char × List Char)) :
    ∃ ds, shuffleProteins perms pre cut block ts = some ds ∧
      ds.map (·.1) = ts.map (fun t => pre ++ t.1) ∧
      ds.map (·.2) = ts.map (fun t => specLoop perms (cleavageSites cut block t.2) t.2) := by
  refine ⟨_, shuffleProteins_closed hp pre cut block ts, ?_, ?_⟩ <;>
    simp [List.map_map, Function.comp_def, decoySpec]

/-- concatenated mode: all targets unchanged ahead of the decoys; otherwise decoys only -/
theorem C18_concat_targets_first_unchanged {perms : Nat → List Nat} (hp : PermFamily perms)
    (pre : List Char) (cut block : Char → Bool) (ts : List (List Char × List Char)) :
    decoyEntries perms pre cut block true ts = some (ts ++ ts.map (decoySpec perms pre cut block)) ∧
    decoyEntries perms pre cut block false ts = some (ts.map (decoySpec perms pre cut block)) := by
  unfold decoyEntries
  rw [shuffleProteins_closed hp]
  exact ⟨rfl, rfl⟩

/-- re-reading a written file recovers every name and sequence, for every wrap width -/
theorem C18_fasta_roundtrip (w : Nat) (hw : 1 ≤ w) (es : List (List Char × List Char))
    (h : ∀ e ∈ es, NameOK e.1 ∧ SeqOK e.2) :
    parseFasta [renderFasta w es] = some es :=
  parseFasta_renderFasta_any w hw es h

/-- whatever the parser returns has names without blank/line break and sequences without
line break (so the only hypothesis left for a round trip is "no `>` inside a sequence") -/
theorem C18_parse_clean (files : List (List Char)) (ts : List (List Char × List Char))
    (h : parseFasta files = some ts) : ∀ t ∈ ts, NameOK t.1 ∧ BreakFree t.2 :=
  parseFasta_clean h

/-- `make_decoys` end to end: whenever the inputs parse, the output is written, and
re-reading it yields the targets (concatenated mode) followed by the decoys, each decoy
being `prefix + name` with the peptide-wise shuffled sequence. -/
theorem C18_make_decoys_reread {perms : Nat → List Nat} (hp : PermFamily perms) (pre : List Char)
    (hpre : NameOK pre) (cut block : Char → Bool) (concat : Bool) (w : Nat) (hw : 1 ≤ w)
    (files : List (List Char)) (ts : List (List Char × List Char))
    (hparse : parseFasta files = some ts) (hgt : ∀ t ∈ ts, '>' ∉ t.2) :
    ∃ out, makeDecoys perms pre cut block concat w files = some out ∧
      parseFasta [out] = some ((if concat then ts else []) ++ ts.map (decoySpec perms pre cut block)) := by
  have hclean := parseFasta_clean hparse
  have htOK : ∀ t ∈ ts, NameOK t.1 ∧ SeqOK t.2 := fun t ht =>
    ⟨(hclean t ht).1, fun c hc => ⟨(hclean t ht).2 c hc, fun h0 => hgt t ht (h0 ▸ hc)⟩⟩
  have hdOK : ∀ d ∈ ts.map (decoySpec perms pre cut block), NameOK d.1 ∧ SeqOK d.2 := by
    intro d hd
    obtain ⟨t, ht, rfl⟩ := List.mem_map.mp hd
    obtain ⟨hn, hs⟩ := htOK t ht
    constructor
    · intro c hc
      rcases List.mem_append.mp hc with hc | hc
      · exact hpre c hc
      · exact hn c hc
    · intro c hc
      exact hs c ((specLoop_perm hp _ _).mem_iff.mp hc)
  have hd := C18_concat_targets_first_unchanged hp pre cut block ts
  refine ⟨renderFasta w ((if concat then ts else []) ++ ts.map (decoySpec perms pre cut block)), ?_, ?_⟩
  · unfold makeDecoys
    rw [hparse]
    cases concat
    · simp [hd.2]
    · simp [hd.1]
  · apply parseFasta_renderFasta_any w hw
    · intro e he
      rcases List.mem_append.mp he with he | he
      · cases concat
        · simp at he
        · exact htOK e (by simpa using he)
      · exact hdOK e he

/-- the executable checker behind the driver op `spec-C18` (length, composition, fixed
termini, per-peptide composition, reversed interiors — for any enzyme of the class) accepts
every decoy the model can produce — so a `fail` on the implementation's output is a genuine
violation -/
theorem C18_spec_checker_sound [BEq α] [LawfulBEq α] {drawn : Nat → List Nat} (hp : PermFamily drawn)
    (reverse : Bool) (cut block : α → Bool) (seq out : List α)
    (h : shuffleLoop (permsOf reverse drawn) (cleavageSites cut block seq) seq = some out) :
    pepsOK cut block reverse seq out = true := by
  rw [C18_decoy_defined (permsOf_family reverse hp)] at h; cases h
  exact pepsOK_spec hp reverse cut block seq

/-- …and, for a residue-class enzyme, the checker that also demands identical cleavage sites -/
theorem C18_spec_checker_sound_sites [BEq α] [LawfulBEq α] {drawn : Nat → List Nat} (hp : PermFamily drawn)
    (reverse : Bool) (cut : α → Bool) (seq out : List α)
    (h : shuffleLoop (permsOf reverse drawn) (cleavageSites cut noBlock seq) seq = some out) :
    seqOK cut reverse seq out = true := by
  rw [C18_decoy_defined (permsOf_family reverse hp)] at h; cases h
  exact seqOK_spec hp reverse cut seq

/-! ## Arbitrary enzymes (`enzyme` is any regular expression)

The clauses that do not mention the enzyme class hold for every site list the regex engine
can produce: `sites` below is `[m.end() for m in enzyme_regex.finditer(seq)] + [len(seq)]`,
of which only `SitesOK` (non-decreasing, inside the sequence) is used. -/

/-- length and composition for any enzyme -/
theorem C18_any_enzyme_length_composition {perms : Nat → List Nat} (hp : PermFamily perms)
    (sites : List Nat) (seq out : List α) (hok : SitesOK seq.length (0 :: sites))
    (h : shuffleLoop perms (0 :: sites) seq = some out) :
    out.length = seq.length ∧ out.Perm seq := by
  rw [C18_decoy_model_eq_peptidewise hp sites seq hok] at h; cases h
  exact ⟨specLoop_length hp _ _, specLoop_perm hp _ _⟩

/-- every enzymatic peptide of the decoy is the shuffled image of the same stretch of the
target, for any enzyme -/
theorem C18_any_enzyme_peptidewise {perms : Nat → List Nat} (hp : PermFamily perms)
    (sites : List Nat) (seq out : List α) (hok : SitesOK seq.length (0 :: sites))
    (h : shuffleLoop perms (0 :: sites) seq = some out)
    (i : Nat) (hi : i + 1 < (0 :: sites).length) :
    slice out (0 :: sites)[i] (0 :: sites)[i + 1]
      = shufflePeptide perms (slice seq (0 :: sites)[i] (0 :: sites)[i + 1]) := by
  rw [C18_decoy_model_eq_peptidewise hp sites seq hok] at h; cases h
  exact decoy_slice_sites hp sites seq hok i hi

/-- first and last residue of every non-empty enzymatic peptide stay in place, for any enzyme -/
theorem C18_any_enzyme_fixed_termini {perms : Nat → List Nat} (hp : PermFamily perms)
    (sites : List Nat) (seq out : List α) (hok : SitesOK seq.length (0 :: sites))
    (h : shuffleLoop perms (0 :: sites) seq = some out)
    (i : Nat) (hi : i + 1 < (0 :: sites).length) (hne : (0 :: sites)[i] < (0 :: sites)[i + 1]) :
    out[(0 :: sites)[i]]? = seq[(0 :: sites)[i]]? ∧
    out[(0 :: sites)[i + 1] - 1]? = seq[(0 :: sites)[i + 1] - 1]? := by
  have hpw := C18_any_enzyme_peptidewise hp sites seq out hok h i hi
  have hlen := (C18_any_enzyme_length_composition hp sites seq out hok h).1
  have hb : (0 :: sites)[i + 1] ≤ seq.length := hok.2 _ (List.getElem_mem _)
  constructor
  · rw [← slice_head? out _ _ hne, ← slice_head? seq _ _ hne, hpw, shufflePeptide_head?]
  · rw [← slice_getLast? out _ _ hne (hlen ▸ hb), ← slice_getLast? seq _ _ hne hb, hpw,
      shufflePeptide_getLast?]

/-- with `reverse=True` every interior is exactly reversed, for any enzyme -/
theorem C18_any_enzyme_reverse_interior (drawn : Nat → List Nat)
    (sites : List Nat) (seq out : List α) (hok : SitesOK seq.length (0 :: sites))
    (h : shuffleLoop (permsOf true drawn) (0 :: sites) seq = some out)
    (i : Nat) (hi : i + 1 < (0 :: sites).length) :
    slice out ((0 :: sites)[i] + 1) ((0 :: sites)[i + 1] - 1)
      = (slice seq ((0 :: sites)[i] + 1) ((0 :: sites)[i + 1] - 1)).reverse := by
  have hp : PermFamily (permsOf true drawn) := revPerm_family
  have hpw := C18_any_enzyme_peptidewise hp sites seq out hok h i hi
  have hlen := (C18_any_enzyme_length_composition hp sites seq out hok h).1
  have hb : (0 :: sites)[i + 1] ≤ seq.length := hok.2 _ (List.getElem_mem _)
  rw [← interior_slice out _ _ (hlen ▸ hb), ← interior_slice seq _ _ hb, hpw]
  exact shufflePeptide_interior_rev _

/-- the sites of every regex the engine evaluates left to right are well-formed, and a
residue class with optional look-ahead is such an enzyme -/
theorem C18_any_enzyme_sites_ok {ends : List α → List Nat} (he : EndsOK ends) (seq : List α) :
    SitesOK seq.length (cleavageSitesOf ends seq) ∧
    ∀ cut block : α → Bool, EndsOK (matchEnds cut block 0) ∧
      cleavageSitesOf (matchEnds cut block 0) seq = cleavageSites cut block seq :=
  ⟨cleavageSitesOf_ok he seq, fun cut block => ⟨matchEnds_endsOK cut block, rfl⟩⟩

/-- the checker for explicit sites (driver op `spec-C18` with a site table) accepts every decoy
the model can produce -/
theorem C18_spec_checker_sound_any_enzyme [BEq α] [LawfulBEq α] {drawn : Nat → List Nat}
    (hp : PermFamily drawn) (reverse : Bool) (sites : List Nat) (seq out : List α)
    (hok : SitesOK seq.length (0 :: sites))
    (h : shuffleLoop (permsOf reverse drawn) (0 :: sites) seq = some out) :
    pepsOKAt (0 :: sites) reverse seq out = true := by
  rw [C18_decoy_model_eq_peptidewise (permsOf_family reverse hp) sites seq hok] at h; cases h
  exact pepsOKAt_spec hp reverse sites seq hok

/-! ## The `perms` dict and the random generator ("any RNG state", literally)

`rng k n` is what the `k`-th call of `np.random.permutation` made by this `make_decoys`
call returns for `np.arange(n)`; `makeDecoysS` threads the `perms` dict and the call counter
through the loops exactly like the code and also returns the number of calls made. -/

/-- **Refinement.** Running `make_decoys` with the dict threaded through gives exactly what the
stateless model gives under the final content of the dict — for every generator, enzyme and
previous content of the output file, including the runs that raise.  (So every theorem about
`makeDecoys`/`shuffleLoop` with a permutation family applies to the real data flow.) -/
theorem C18_draws_refine (reverse : Bool) (rng : Nat → Nat → List Nat) (pre : List Char)
    (ends : List Char → List Nat) (concat : Bool) (w : Nat) (old : Option (List Char))
    (files : List (List Char)) :
    (∀ ts, parseFasta files = some ts →
      makeDecoysS reverse rng pre ends concat w old files
        = (makeDecoysE (famOfDict reverse (stateAfterProteins reverse rng ends ts drawState0).1)
            pre ends concat w files).map
            (fun o => (o, (stateAfterProteins reverse rng ends ts drawState0).2))) ∧
    (parseFasta files = none → makeDecoysS reverse rng pre ends concat w old files = none) := by
  constructor
  · intro ts hparse
    unfold makeDecoysS makeDecoysE decoyEntriesE writeTrunc
    rw [hparse]
    simp only [Option.bind_some]
    rw [shuffleProteinsS_eq reverse rng pre ends ts drawState0 _ (DictExt.refl _)]
    cases shuffleProteinsE (famOfDict reverse (stateAfterProteins reverse rng ends ts drawState0).1)
        pre ends ts with
    | none => rfl
    | some d => cases concat <;> rfl
  · intro h
    unfold makeDecoysS
    rw [h]; rfl

/-- a generator that returns permutations leaves a permutation family in the dict — the
hypothesis `PermFamily` of all theorems above is what the code establishes -/
theorem C18_draws_family (reverse : Bool) {rng : Nat → Nat → List Nat} (hr : RngOK rng)
    (ends : List Char → List Nat) (ts : List (List Char × List Char)) :
    PermFamily (famOfDict reverse (stateAfterProteins reverse rng ends ts drawState0).1) :=
  famOfDict_family (stateAfterProteins_valid reverse hr ends ts drawState0 (dictValid_nil reverse))

/-- reversal: the dict denotes `np.flip(np.arange(n))` for every length and the generator is
never called, whatever it would return -/
theorem C18_draws_reverse (rng : Nat → Nat → List Nat) (ends : List Char → List Nat)
    (ts : List (List Char × List Char)) :
    famOfDict true (stateAfterProteins true rng ends ts drawState0).1 = revPerm ∧
    (stateAfterProteins true rng ends ts drawState0).2 = 0 := by
  constructor
  · apply famOfDict_reverse
    intro n p h
    -- validity in reversal mode needs nothing of the generator: `newPerm true` ignores it
    have key : ∀ (ps : List (List Char × List Char)) (st : DrawState),
        (∀ n p, st.1.lookup n = some p → p = revPerm n) →
        ∀ n p, (stateAfterProteins true rng ends ps st).1.lookup n = some p → p = revPerm n := by
      intro ps
      induction ps with
      | nil => intro st hv; exact hv
      | cons q ps ih =>
        intro st hv
        simp only [stateAfterProteins]
        apply ih
        have loop : ∀ (sites : List Nat) (st : DrawState),
            (∀ n p, st.1.lookup n = some p → p = revPerm n) →
            ∀ n p, (stateAfterLoop true rng sites st).1.lookup n = some p → p = revPerm n := by
          intro sites
          induction sites with
          | nil => intro st hv; exact hv
          | cons s tl ihs =>
            intro st hv
            cases tl with
            | nil => exact hv
            | cons e rest =>
              simp only [stateAfterLoop]
              apply ihs
              unfold stateAfterPair
              split
              · exact hv
              · intro m q' hm
                unfold permFor at hm
                cases hl : st.1.lookup (e - 1 - (s + 1)) with
                | some p0 => rw [hl] at hm; exact hv m q' hm
                | none =>
                  rw [hl] at hm
                  simp only [permForAux] at hm
                  by_cases hmn : m = e - 1 - (s + 1)
                  · subst hmn
                    rw [lookup_cons_eq] at hm
                    cases hm; rfl
                  · rw [lookup_cons_ne _ _ hmn] at hm
                    exact hv m q' hm
        exact loop _ st hv
    have := key ts drawState0 (by intro n p h; simp [drawState0] at h) n p h
    exact ⟨this ▸ revPerm_family n, fun _ => this⟩
  · exact stateAfterProteins_reverse_count rng ends ts drawState0

/-- one permutation per length: an entry of the dict is never replaced while the proteins of
a call are processed (`d` is the dict at any point, the final dict still maps `n` to `p`) -/
theorem C18_one_permutation_per_length (reverse : Bool) (rng : Nat → Nat → List Nat)
    (ends : List Char → List Nat) (ps : List (List Char × List Char)) (st : DrawState)
    (n : Nat) (p : List Nat) (h : st.1.lookup n = some p) :
    (stateAfterProteins reverse rng ends ps st).1.lookup n = some p :=
  stateAfterProteins_ext reverse rng ends ps st n p h

/-- the retry loop: at most 100 calls per new length; the permutation kept is the first drawn
one that is not the identity; it is the identity only if all 100 draws were -/
theorem C18_retry_loop (rng : Nat → Nat → List Nat) (n k : Nat) :
    k ≤ (newPerm false rng n k).2 ∧ (newPerm false rng n k).2 ≤ k + 100 ∧
    ((newPerm false rng n k).1 = List.range n → ∀ j, j < 100 → rng (k + j) n = List.range n) ∧
    (∀ j, j < 100 → (∀ i, i < j → rng (k + i) n = List.range n) → rng (k + j) n ≠ List.range n →
      newPerm false rng n k = (rng (k + j) n, k + j + 1)) := by
  unfold newPerm
  simp only [Bool.false_eq_true, if_false]
  refine ⟨(retryLoop_count rng n 100 k _).1, (retryLoop_count rng n 100 k _).2, ?_, ?_⟩
  · intro h; exact (retryLoop_identity rng n 100 k _ h).2
  · intro j hj hid hne; exact retryLoop_first rng n 100 k j hj hid hne

/-- **`make_decoys` for any RNG state, any enzyme, any previous content of the output file.**
Whenever the inputs parse (to sequences without `>`), the call succeeds, and re-reading what it
wrote yields the targets (concatenated mode) followed by one decoy per target — `prefix + name`
with the peptide-wise shuffled sequence under a permutation family `perms` (the reversal family
under `reverse`) — and the file-level checker behind `spec-C18` accepts it. -/
theorem C18_make_decoys_any_rng (reverse : Bool) {rng : Nat → Nat → List Nat} (hr : RngOK rng)
    (pre : List Char) (hpre : NameOK pre) {ends : List Char → List Nat} (he : EndsOK ends)
    (concat : Bool) (w : Nat) (hw : 1 ≤ w) (old : Option (List Char))
    (files : List (List Char)) (ts : List (List Char × List Char))
    (hparse : parseFasta files = some ts) (hgt : ∀ t ∈ ts, '>' ∉ t.2) :
    ∃ out k perms, makeDecoysS reverse rng pre ends concat w old files = some (out, k) ∧
      PermFamily perms ∧ (reverse = true → perms = revPerm ∧ k = 0) ∧
      parseFasta [out] = some ((if concat then ts else []) ++ ts.map (decoySpecE perms pre ends)) ∧
      fileOK pre (cleavageSitesOf ends) none reverse concat ts
        ((if concat then ts else []) ++ ts.map (decoySpecE perms pre ends)) = true := by
  have hv := stateAfterProteins_valid reverse hr ends ts drawState0 (dictValid_nil reverse)
  have hp := C18_draws_family reverse hr ends ts
  obtain ⟨hmk, hrr⟩ := makeDecoysE_reread hp pre hpre he concat w hw files ts hparse hgt
  refine ⟨_, (stateAfterProteins reverse rng ends ts drawState0).2,
    famOfDict reverse (stateAfterProteins reverse rng ends ts drawState0).1, ?_, hp, ?_, hrr, ?_⟩
  · rw [(C18_draws_refine reverse rng pre ends concat w old files).1 ts hparse, hmk]; rfl
  · intro hrev; subst hrev
    exact C18_draws_reverse rng ends ts
  · have := fileOK_spec hp reverse concat pre he ts
    rwa [famOfDict_permsOf hv] at this

/-- the same for a residue-class enzyme, where the checker also demands identical cleavage
sites in target and decoy -/
theorem C18_make_decoys_any_rng_class (reverse : Bool) {rng : Nat → Nat → List Nat} (hr : RngOK rng)
    (pre : List Char) (hpre : NameOK pre) (cut : Char → Bool)
    (concat : Bool) (w : Nat) (hw : 1 ≤ w) (old : Option (List Char))
    (files : List (List Char)) (ts : List (List Char × List Char))
    (hparse : parseFasta files = some ts) (hgt : ∀ t ∈ ts, '>' ∉ t.2) :
    ∃ out k os, makeDecoysS reverse rng pre (matchEnds cut noBlock 0) concat w old files = some (out, k) ∧
      parseFasta [out] = some os ∧
      fileOK pre (cleavageSites cut noBlock) (some cut) reverse concat ts os = true := by
  have hv := stateAfterProteins_valid reverse hr (matchEnds cut noBlock 0) ts drawState0 (dictValid_nil reverse)
  have hp := C18_draws_family reverse hr (matchEnds cut noBlock 0) ts
  obtain ⟨hmk, hrr⟩ := makeDecoysE_reread hp pre hpre (matchEnds_endsOK cut noBlock) concat w hw files ts hparse hgt
  refine ⟨_, (stateAfterProteins reverse rng (matchEnds cut noBlock 0) ts drawState0).2, _, ?_, hrr, ?_⟩
  · rw [(C18_draws_refine reverse rng pre _ concat w old files).1 ts hparse, hmk]; rfl
  · have := fileOK_spec_class hp reverse concat pre cut ts
    rwa [famOfDict_permsOf hv, ← decoySpecE_class] at this

/-- **the call with every option left at its default** (`make_decoys(fasta, out_file)`):
prefix `decoy_`, enzyme `[KR]`, shuffling, concatenated — targets first and unchanged, then the
decoys, all clauses including identical `[KR]` sites -/
theorem C18_default_call {rng : Nat → Nat → List Nat} (hr : RngOK rng) (old : Option (List Char))
    (files : List (List Char)) (ts : List (List Char × List Char))
    (hparse : parseFasta files = some ts) (hgt : ∀ t ∈ ts, '>' ∉ t.2) :
    ∃ out k os, makeDecoysDefault rng old files = some (out, k) ∧ parseFasta [out] = some os ∧
      os.take ts.length = ts ∧
      fileOK defaultPrefix (cleavageSites defaultCut noBlock) (some defaultCut) false true ts os = true := by
  have hpre : NameOK defaultPrefix := by unfold NameOK defaultPrefix; decide
  obtain ⟨out, k, os, h1, h2, h3⟩ := C18_make_decoys_any_rng_class false hr defaultPrefix hpre defaultCut
    true wrapWidth (by unfold wrapWidth; omega) old files ts hparse hgt
  refine ⟨out, k, os, h1, h2, ?_, h3⟩
  unfold fileOK at h3
  simp only [Bool.and_eq_true, beq_iff_eq, Bool.or_eq_true, Bool.not_eq_true'] at h3
  rcases h3.1.1.2 with h | h
  · cases h
  · exact h

/-- the content of the output file does not depend on what the file held before -/
theorem C18_output_replaces_existing_file (reverse : Bool) (rng : Nat → Nat → List Nat) (pre : List Char)
    (ends : List Char → List Nat) (concat : Bool) (w : Nat) (old old' : Option (List Char))
    (files : List (List Char)) :
    makeDecoysS reverse rng pre ends concat w old files
      = makeDecoysS reverse rng pre ends concat w old' files := rfl

/-! ## Non-vacuity -/


example : PermFamily rot := rot_family
example : PermFamily revPerm := revPerm_family
example : PermFamily (permsOf false rot) := permsOf_family false rot_family
example : NameOK ['d', 'e', 'c', 'o', 'y', '_'] := by unfold NameOK; decide
example : SitesOK 19 (cleavageSites kr noBlock "MKAAAAAAKBBBBRCCCCC".toList) := cleavageSites_ok _ _ _
example : ∀ e ∈ [(['s', 'p', '|', 'A'], ['M', 'K', 'A', 'C', 'D', 'E', 'K', 'L']), (['b'], [])],
    NameOK e.1 ∧ SeqOK e.2 := by unfold NameOK SeqOK; decide

-- evaluation tests (compiler-evaluated: *tests*, not theorems)
#guard cleavageSites kr noBlock "MKAAAAAAKBBBBRCCCCC".toList == [0, 2, 9, 14, 19]
#guard cleavageSites kr noBlock "AKK".toList == [0, 2, 3, 3]
#guard cleavageSites kr (· = 'P') "MKPAAK".toList == [0, 6, 6]
#guard (shuffleLoop revPerm (cleavageSites kr noBlock "ABCDEFGHKXX".toList) "ABCDEFGHKXX".toList)
    == some "AHGFEDCBKXX".toList
#guard (shuffleLoop rot (cleavageSites kr noBlock "ABCDEFGHKXYZW".toList) "ABCDEFGHKXYZW".toList)
    == some "ACDEFGHBKXZYW".toList
#guard (shuffleLoop rot [0, 5, 3] "ABCDE".toList).isSome   -- ill-formed sites are outside the theorems
#guard (shuffleLoop rot [0, 9] "ABCDE".toList) == none      -- IndexError
#guard seqOK kr true "ABCDEFGHKXX".toList "AHGFEDCBKXX".toList
#guard !seqOK kr true "ABCDEFGHKXX".toList "AHGFEDBCKXX".toList
#guard !seqOK kr false "ABCDEFGHKXX".toList "BACDEFGHKXX".toList
#guard !seqOK kr false "ABCDEKGHXX".toList "ABCDKEGHXX".toList
#guard (makeDecoys revPerm "decoy_".toList kr noBlock true 70
    [">a desc x\nMKAAAAAAKBBBBR\nCCCCC\n".toList, ">b\n\n>c\r\nKACDEFK\n".toList]).map String.ofList
  == some ">a\nMKAAAAAAKBBBBRCCCCC\n>b\n\n>c\nKACDEFK\n>decoy_a\nMKAAAAAAKBBBBRCCCCC\n>decoy_b\n\n>decoy_c\nKAFEDCK"
-- an empty file denotes no protein: an empty output file (before the repair f95d0dc: IndexError)
#guard makeDecoys revPerm "decoy_".toList kr noBlock true 70 [[]] == some []
-- a bare `>` at the end of the input is a record without header line: IndexError
#guard makeDecoys revPerm "decoy_".toList kr noBlock true 70 [">a\nAB\n>".toList] == none
-- an empty first file / a leading blank line (before the repair: `>>a`, `>decoy_>a`)
#guard (makeDecoys revPerm "decoy_".toList kr noBlock true 70 [[], "\n\n>a\nAB\n".toList]).map String.ofList
  == some ">a\nAB\n>decoy_a\nAB"
#guard parseFasta [renderFasta 3 [("x".toList, "ABCDEFGH".toList), ("y".toList, [])]]
    == some [("x".toList, "ABCDEFGH".toList), ("y".toList, [])]

-- new dimensions: generator oracle, arbitrary enzymes, defaults, existing output file
/-- a generator whose even-numbered calls return the identity (so the retry loop is exercised) -/
def rngAlt (k n : Nat) : List Nat := if k % 2 = 0 then List.range n else rot n
example : RngOK rngAlt := fun k n => by
  unfold rngAlt; split
  · exact List.Perm.refl _
  · exact rot_family n
example : RngOK (fun _ n => List.range n) := fun _ _ => List.Perm.refl _
example : EndsOK (matchEnds kr (· = 'P') 0) := matchEnds_endsOK _ _
/-- a non-class "enzyme": one cut in the middle of every sequence -/
example : EndsOK (fun s : List Char => [s.length / 2]) := by
  intro s; simp; omega
example : SitesOK 6 [0, 0, 3, 3, 4, 6, 6] := (sitesOKb_iff _ _).mp (by decide)
example : NameOK defaultPrefix := by unfold NameOK defaultPrefix; decide

#guard (makeDecoysS false rngAlt "decoy_".toList (matchEnds kr noBlock 0) false 70 none
    [">x\nABCDEFGHKXYZW\n".toList]).map (fun r => (String.ofList r.1, r.2))
  == some (">decoy_x\nACDEFGHBKXZYW", 4)          -- two lengths, each: identity drawn first, then kept draw
#guard (makeDecoysS false (fun _ n => List.range n) "d_".toList (matchEnds kr noBlock 0) false 70 none
    [">x\nABCDEFGHK\n>y\nABCDEFGHK".toList]).map (fun r => (String.ofList r.1, r.2))
  == some (">d_x\nABCDEFGHK\n>d_y\nABCDEFGHK", 100)  -- 100 identity draws, once per length, then given up
#guard (makeDecoysS true rngAlt "decoy_".toList (matchEnds kr noBlock 0) true 70 (some "stale".toList)
    [">x\nABCDEFGHKXYZW\n".toList]).map (fun r => (String.ofList r.1, r.2))
  == some (">x\nABCDEFGHKXYZW\n>decoy_x\nAHGFEDCBKXZYW", 0)
#guard (makeDecoysDefault rngAlt none [">x d\nABCDEFGHRXYZW\n".toList]).map (fun r => (String.ofList r.1, r.2))
  == some (">x\nABCDEFGHRXYZW\n>decoy_x\nACDEFGHBRXZYW", 4)
-- the two-letter enzyme `KR` on "AAKRBBBBKRCC": ends [4, 10]
#guard (makeDecoysS true rngAlt "r_".toList (fun _ => [4, 10]) false 70 none
    [">x\nAAKRBCDEKRCC\n".toList]).map (fun r => String.ofList r.1) == some ">r_x\nAKARBKEDCRCC"
#guard pepsOKAt [0, 4, 10, 12] true "AAKRBCDEKRCC".toList "AKARBKEDCRCC".toList
#guard !pepsOKAt [0, 4, 10, 12] true "AAKRBCDEKRCC".toList "AAKBRCDEKRCC".toList
#guard fileOK "d_".toList (cleavageSites kr noBlock) (some kr) true true
    [("x".toList, "ABCDEK".toList)] [("x".toList, "ABCDEK".toList), ("d_x".toList, "AEDCBK".toList)]
#guard !fileOK "d_".toList (cleavageSites kr noBlock) (some kr) true true
    [("x".toList, "ABCDEK".toList)] [("d_x".toList, "AEDCBK".toList), ("x".toList, "ABCDEK".toList)]

end Mk.Decoys
