import MokapotVerif.Lemmas.DecoysMain
/-!
# C18 — Generated decoys preserve length, composition and cleavage structure

Property theorems only.  `perms` is the family of permutations held by the
`perms` dict of `_shuffle_proteins` (one per interior length; any family of
permutations — "any RNG state"), `cut`/`block` describe the enzyme (residue
class with optional negative look-ahead; `noBlock` = plain residue class),
sequences and names are arbitrary lists, `w ≥ 1` is any wrap width (70 in the
code).  `shuffleLoop` is the model of the in-place Python loop and returns
`none` where Python would raise.

Modelling caveat (trusted): `chunks w` is `textwrap.wrap(seq, w)` only for
sequences without blanks and hyphens; the round-trip theorems themselves need
only what their hypotheses say (no line break and no `>` in a sequence).
-/
namespace Mk.Decoys

/-! helper definitions for the non-vacuity examples -/
def kr (c : Char) : Bool := c = 'K' || c = 'R'
/-- a drawn family: rotate by one (a genuine non-identity permutation for every n ≥ 2) -/
def rot (n : Nat) : List Nat := (List.range n).drop 1 ++ (List.range n).take 1

theorem rot_family : PermFamily rot := fun n => by
  unfold rot
  exact List.perm_append_comm.trans (by rw [List.take_append_drop])
variable {α : Type}

/-- The loop of `_shuffle_proteins` never raises and equals the peptide-wise
description, for *any* non-decreasing site list starting at 0 and bounded by the
sequence length. -/
theorem C18_decoy_model_eq_peptidewise {perms : Nat → List Nat} (hp : PermFamily perms)
    (sites : List Nat) (seq : List α) (hok : SitesOK seq.length (0 :: sites)) :
    shuffleLoop perms (0 :: sites) seq = some (specLoop perms (0 :: sites) seq) :=
  shuffleLoop_sites hp sites seq hok

/-- …in particular for the cleavage sites of the sequence under any enzyme of the class -/
theorem C18_decoy_defined {perms : Nat → List Nat} (hp : PermFamily perms) (cut block : α → Bool)
    (seq : List α) :
    shuffleLoop perms (cleavageSites cut block seq) seq
      = some (specLoop perms (cleavageSites cut block seq) seq) :=
  shuffleLoop_sites hp _ seq (cleavageSites_ok cut block seq)

/-- same length -/
theorem C18_decoy_length {perms : Nat → List Nat} (hp : PermFamily perms) (cut block : α → Bool)
    (seq out : List α) (h : shuffleLoop perms (cleavageSites cut block seq) seq = some out) :
    out.length = seq.length := by
  rw [C18_decoy_defined hp] at h; cases h
  exact specLoop_length hp _ _

/-- same residue composition: the decoy is a permutation of the target -/
theorem C18_decoy_perm {perms : Nat → List Nat} (hp : PermFamily perms) (cut block : α → Bool)
    (seq out : List α) (h : shuffleLoop perms (cleavageSites cut block seq) seq = some out) :
    out.Perm seq := by
  rw [C18_decoy_defined hp] at h; cases h
  exact specLoop_perm hp _ _

/-- …every residue occurs equally often -/
theorem C18_decoy_composition [BEq α] [LawfulBEq α] {perms : Nat → List Nat} (hp : PermFamily perms)
    (cut block : α → Bool) (seq out : List α)
    (h : shuffleLoop perms (cleavageSites cut block seq) seq = some out) (a : α) :
    out.count a = seq.count a :=
  (C18_decoy_perm hp cut block seq out h).count_eq a

/-- every enzymatic peptide (stretch between consecutive sites `sᵢ`, `sᵢ₊₁`) of the decoy is
the shuffled image of the same stretch of the target -/
theorem C18_decoy_peptidewise {perms : Nat → List Nat} (hp : PermFamily perms) (cut block : α → Bool)
    (seq out : List α) (h : shuffleLoop perms (cleavageSites cut block seq) seq = some out)
    (i : Nat) (hi : i + 1 < (cleavageSites cut block seq).length) :
    slice out (cleavageSites cut block seq)[i] (cleavageSites cut block seq)[i + 1]
      = shufflePeptide perms
          (slice seq (cleavageSites cut block seq)[i] (cleavageSites cut block seq)[i + 1]) := by
  rw [C18_decoy_defined hp] at h; cases h
  exact decoy_slice hp cut block seq i hi

/-- every enzymatic peptide keeps its own residues -/
theorem C18_decoy_peptide_perm {perms : Nat → List Nat} (hp : PermFamily perms) (cut block : α → Bool)
    (seq out : List α) (h : shuffleLoop perms (cleavageSites cut block seq) seq = some out)
    (i : Nat) (hi : i + 1 < (cleavageSites cut block seq).length) :
    (slice out (cleavageSites cut block seq)[i] (cleavageSites cut block seq)[i + 1]).Perm
      (slice seq (cleavageSites cut block seq)[i] (cleavageSites cut block seq)[i + 1]) := by
  rw [C18_decoy_peptidewise hp cut block seq out h i hi]
  exact shufflePeptide_perm hp _

/-- the first and the last residue of every (non-empty) enzymatic peptide stay in place -/
theorem C18_decoy_fixed_termini {perms : Nat → List Nat} (hp : PermFamily perms) (cut block : α → Bool)
    (seq out : List α) (h : shuffleLoop perms (cleavageSites cut block seq) seq = some out)
    (i : Nat) (hi : i + 1 < (cleavageSites cut block seq).length)
    (hne : (cleavageSites cut block seq)[i] < (cleavageSites cut block seq)[i + 1]) :
    out[(cleavageSites cut block seq)[i]]? = seq[(cleavageSites cut block seq)[i]]? ∧
    out[(cleavageSites cut block seq)[i + 1] - 1]? = seq[(cleavageSites cut block seq)[i + 1] - 1]? := by
  have hpw := C18_decoy_peptidewise hp cut block seq out h i hi
  have hlen := C18_decoy_length hp cut block seq out h
  have hb : (cleavageSites cut block seq)[i + 1] ≤ seq.length :=
    (cleavageSites_ok cut block seq).2 _ (List.getElem_mem _)
  constructor
  · rw [← slice_head? out _ _ hne, ← slice_head? seq _ _ hne, hpw, shufflePeptide_head?]
  · rw [← slice_getLast? out _ _ hne (hlen ▸ hb), ← slice_getLast? seq _ _ hne hb, hpw,
      shufflePeptide_getLast?]

/-- for a residue-class enzyme the cleavage sites of the decoy are those of the target -/
theorem C18_decoy_sites_eq {perms : Nat → List Nat} (hp : PermFamily perms) (cut : α → Bool)
    (seq out : List α) (h : shuffleLoop perms (cleavageSites cut noBlock seq) seq = some out) :
    cleavageSites cut noBlock out = cleavageSites cut noBlock seq := by
  rw [C18_decoy_defined hp] at h; cases h
  exact decoy_sites_eq hp cut seq

/-- with `reverse=True` the interior `(sᵢ+1 … sᵢ₊₁−1)` of every enzymatic peptide is exactly
reversed (whatever was drawn before: `permsOf true` ignores `drawn`) -/
theorem C18_decoy_reverse_interior (drawn : Nat → List Nat) (cut block : α → Bool)
    (seq out : List α)
    (h : shuffleLoop (permsOf true drawn) (cleavageSites cut block seq) seq = some out)
    (i : Nat) (hi : i + 1 < (cleavageSites cut block seq).length) :
    slice out ((cleavageSites cut block seq)[i] + 1) ((cleavageSites cut block seq)[i + 1] - 1)
      = (slice seq ((cleavageSites cut block seq)[i] + 1) ((cleavageSites cut block seq)[i + 1] - 1)).reverse := by
  have hp : PermFamily (permsOf true drawn) := revPerm_family
  have hpw := C18_decoy_peptidewise hp cut block seq out h i hi
  have hlen := C18_decoy_length hp cut block seq out h
  have hb : (cleavageSites cut block seq)[i + 1] ≤ seq.length :=
    (cleavageSites_ok cut block seq).2 _ (List.getElem_mem _)
  rw [← interior_slice out _ _ (hlen ▸ hb), ← interior_slice seq _ _ hb, hpw]
  exact shufflePeptide_interior_rev _

/-- one decoy per target, in the same order, named `prefix + name`, with the
peptide-wise shuffled sequence; `_shuffle_proteins` never raises -/
theorem C18_decoy_name {perms : Nat → List Nat} (hp : PermFamily perms) (pre : List Char)
    (cut block : Char → Bool) (ts : List (List Char × List Char)) :
    ∃ ds, shuffleProteins perms pre cut block ts = some ds ∧
      ds.map (·.1) = ts.map (fun t => pre ++ t.1) ∧
      ds.map (·.2) = ts.map (fun t => specLoop perms (cleavageSites cut block t.2) t.2) := by
  refine ⟨_, shuffleProteins_closed hp pre cut block ts, ?_, ?_⟩ <;>
    simp [List.map_map, Function.comp_def, decoySpec]

/-- concatenated mode: all targets unchanged ahead of the decoys; otherwise decoys only -/
theorem C18_concat_targets_first_unchanged {perms : Nat → List Nat} (hp : PermFamily perms)
    (pre : List Char) (cut block : Char → Bool) (ts : List (List Char × List Char)) :
    decoyEntries perms pre cut block true ts = some (ts ++ ts.map (decoySpec perms pre cut block)) ∧
    decoyEntries perms pre cut block false ts = some (ts.map (decoySpec perms pre cut block)) := by
  unfold decoyEntries
  rw [shuffleProteins_closed hp]
  exact ⟨rfl, rfl⟩

/-- re-reading a written file recovers every name and sequence, for every wrap width -/
theorem C18_fasta_roundtrip (w : Nat) (hw : 1 ≤ w) (es : List (List Char × List Char))
    (hne : es ≠ []) (h : ∀ e ∈ es, NameOK e.1 ∧ SeqOK e.2) :
    parseFasta [renderFasta w es] = some es :=
  parseFasta_renderFasta w hw es hne h

/-- whatever the parser returns has names without blank/line break and sequences without
line break (so the only hypothesis left for a round trip is "no `>` inside a sequence") -/
theorem C18_parse_clean (files : List (List Char)) (ts : List (List Char × List Char))
    (h : parseFasta files = some ts) : ts ≠ [] ∧ ∀ t ∈ ts, NameOK t.1 ∧ BreakFree t.2 :=
  parseFasta_clean h

/-- `make_decoys` end to end: whenever the inputs parse, the output is written, and
re-reading it yields the targets (concatenated mode) followed by the decoys, each decoy
being `prefix + name` with the peptide-wise shuffled sequence. -/
theorem C18_make_decoys_reread {perms : Nat → List Nat} (hp : PermFamily perms) (pre : List Char)
    (hpre : NameOK pre) (cut block : Char → Bool) (concat : Bool) (w : Nat) (hw : 1 ≤ w)
    (files : List (List Char)) (ts : List (List Char × List Char))
    (hparse : parseFasta files = some ts) (hgt : ∀ t ∈ ts, '>' ∉ t.2) :
    ∃ out, makeDecoys perms pre cut block concat w files = some out ∧
      parseFasta [out] = some ((if concat then ts else []) ++ ts.map (decoySpec perms pre cut block)) := by
  obtain ⟨hne, hclean⟩ := parseFasta_clean hparse
  have htOK : ∀ t ∈ ts, NameOK t.1 ∧ SeqOK t.2 := fun t ht =>
    ⟨(hclean t ht).1, fun c hc => ⟨(hclean t ht).2 c hc, fun h0 => hgt t ht (h0 ▸ hc)⟩⟩
  have hdOK : ∀ d ∈ ts.map (decoySpec perms pre cut block), NameOK d.1 ∧ SeqOK d.2 := by
    intro d hd
    obtain ⟨t, ht, rfl⟩ := List.mem_map.mp hd
    obtain ⟨hn, hs⟩ := htOK t ht
    constructor
    · intro c hc
      rcases List.mem_append.mp hc with hc | hc
      · exact hpre c hc
      · exact hn c hc
    · intro c hc
      exact hs c ((specLoop_perm hp _ _).mem_iff.mp hc)
  have hd := C18_concat_targets_first_unchanged hp pre cut block ts
  refine ⟨renderFasta w ((if concat then ts else []) ++ ts.map (decoySpec perms pre cut block)), ?_, ?_⟩
  · unfold makeDecoys
    rw [hparse]
    cases concat
    · simp [hd.2]
    · simp [hd.1]
  · apply parseFasta_renderFasta w hw
    · cases concat <;> simp [hne]
    · intro e he
      rcases List.mem_append.mp he with he | he
      · cases concat
        · simp at he
        · exact htOK e (by simpa using he)
      · exact hdOK e he

/-- the executable checker behind the driver op `spec-C18` (length, composition, fixed
termini, per-peptide composition, reversed interiors — for any enzyme of the class) accepts
every decoy the model can produce — so a `fail` on the implementation's output is a genuine
violation -/
theorem C18_spec_checker_sound [BEq α] [LawfulBEq α] {drawn : Nat → List Nat} (hp : PermFamily drawn)
    (reverse : Bool) (cut block : α → Bool) (seq out : List α)
    (h : shuffleLoop (permsOf reverse drawn) (cleavageSites cut block seq) seq = some out) :
    pepsOK cut block reverse seq out = true := by
  rw [C18_decoy_defined (permsOf_family reverse hp)] at h; cases h
  exact pepsOK_spec hp reverse cut block seq

/-- …and, for a residue-class enzyme, the checker that also demands identical cleavage sites -/
theorem C18_spec_checker_sound_sites [BEq α] [LawfulBEq α] {drawn : Nat → List Nat} (hp : PermFamily drawn)
    (reverse : Bool) (cut : α → Bool) (seq out : List α)
    (h : shuffleLoop (permsOf reverse drawn) (cleavageSites cut noBlock seq) seq = some out) :
    seqOK cut reverse seq out = true := by
  rw [C18_decoy_defined (permsOf_family reverse hp)] at h; cases h
  exact seqOK_spec hp reverse cut seq

/-! ## Non-vacuity -/


example : PermFamily rot := rot_family
example : PermFamily revPerm := revPerm_family
example : PermFamily (permsOf false rot) := permsOf_family false rot_family
example : NameOK ['d', 'e', 'c', 'o', 'y', '_'] := by unfold NameOK; decide
example : SitesOK 19 (cleavageSites kr noBlock "MKAAAAAAKBBBBRCCCCC".toList) := cleavageSites_ok _ _ _
example : ∀ e ∈ [(['s', 'p', '|', 'A'], ['M', 'K', 'A', 'C', 'D', 'E', 'K', 'L']), (['b'], [])],
    NameOK e.1 ∧ SeqOK e.2 := by unfold NameOK SeqOK; decide

-- evaluation tests (compiler-evaluated: *tests*, not theorems)
#guard cleavageSites kr noBlock "MKAAAAAAKBBBBRCCCCC".toList == [0, 2, 9, 14, 19]
#guard cleavageSites kr noBlock "AKK".toList == [0, 2, 3, 3]
#guard cleavageSites kr (· = 'P') "MKPAAK".toList == [0, 6, 6]
#guard (shuffleLoop revPerm (cleavageSites kr noBlock "ABCDEFGHKXX".toList) "ABCDEFGHKXX".toList)
    == some "AHGFEDCBKXX".toList
#guard (shuffleLoop rot (cleavageSites kr noBlock "ABCDEFGHKXYZW".toList) "ABCDEFGHKXYZW".toList)
    == some "ACDEFGHBKXZYW".toList
#guard (shuffleLoop rot [0, 5, 3] "ABCDE".toList).isSome   -- ill-formed sites are outside the theorems
#guard (shuffleLoop rot [0, 9] "ABCDE".toList) == none      -- IndexError
#guard seqOK kr true "ABCDEFGHKXX".toList "AHGFEDCBKXX".toList
#guard !seqOK kr true "ABCDEFGHKXX".toList "AHGFEDBCKXX".toList
#guard !seqOK kr false "ABCDEFGHKXX".toList "BACDEFGHKXX".toList
#guard !seqOK kr false "ABCDEKGHXX".toList "ABCDKEGHXX".toList
#guard (makeDecoys revPerm "decoy_".toList kr noBlock true 70
    [">a desc x\nMKAAAAAAKBBBBR\nCCCCC\n".toList, ">b\n\n>c\r\nKACDEFK\n".toList]).map String.ofList
  == some ">a\nMKAAAAAAKBBBBRCCCCC\n>b\n\n>c\nKACDEFK\n>decoy_a\nMKAAAAAAKBBBBRCCCCC\n>decoy_b\n\n>decoy_c\nKAFEDCK"
#guard makeDecoys revPerm "decoy_".toList kr noBlock true 70 [[]] == none
#guard parseFasta [renderFasta 3 [("x".toList, "ABCDEFGH".toList), ("y".toList, [])]]
    == some [("x".toList, "ABCDEFGH".toList), ("y".toList, [])]

end Mk.Decoys
