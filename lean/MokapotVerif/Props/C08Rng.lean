import MokapotVerif.Lemmas.Determ
/-!
# C08 — the seeded generator threaded through `brew`: worker schedules cannot reach any draw

Model: `Model/Determ.lean` §1 (brew.py:108-186, dataset.py:171-174, 686-687, model.py:179-182, 291).
The generator `G` (state type, step function), its start state, the fold sizes of every collection,
`subset_max_train` and the *schedule* — the order in which the worker threads reach their draws, of any
length, naming any task any number of times — are universally quantified.  "Worker counts" of the
property text are schedules here: a pool of `w` workers realises some interleaving of the fits.
-/
namespace Mk.Determ
variable {σ ν : Type}

/-- **task_isolated**: in a pool whose tasks own pairwise different generator cells, a task that gets to
make all its requests receives exactly the values of a run of its requests *alone* on its cell, and leaves
the cell in the corresponding state — whatever the other tasks draw, in whatever order. -/
theorem C08_task_isolated (G : Gen σ ν) (cell : Nat → Nat) (hinj : ∀ a b, a ≠ b → cell a ≠ cell b)
    (st : Pool σ ν) (sched : List Nat) (i : Nat) (hall : (st.pending i).length ≤ sched.count i) :
    (runPool G cell st sched).out i = st.out i ++ (runDraws G (st.heap (cell i)) (st.pending i)).1 ∧
    (runPool G cell st sched).heap (cell i) = (runDraws G (st.heap (cell i)) (st.pending i)).2 ∧
    (runPool G cell st sched).pending i = [] := by
  have h := runPool_task G cell hinj i sched st
  have hmin : min (sched.count i) (st.pending i).length = (st.pending i).length := by omega
  rw [hmin, List.take_length, List.drop_length] at h
  exact h

/-- **prefix_isolated**: the same for an unfinished task — after being scheduled `n` times it has received
the values of its first `n` requests run alone (so a crash or a time-out of other workers changes nothing
either). -/
theorem C08_task_prefix_isolated (G : Gen σ ν) (cell : Nat → Nat) (hinj : ∀ a b, a ≠ b → cell a ≠ cell b)
    (st : Pool σ ν) (sched : List Nat) (i : Nat) :
    (runPool G cell st sched).out i =
      st.out i ++ (runDraws G (st.heap (cell i)) ((st.pending i).take (sched.count i))).1 := by
  have h := (runPool_task G cell hinj i sched st).1
  rw [h]
  congr 3
  rw [List.take_eq_take_iff]
  omega

/-- **any_two_schedules_agree**: two schedules that let task `i` finish give it the same values and leave
its generator in the same state. -/
theorem C08_any_two_schedules_agree (G : Gen σ ν) (cell : Nat → Nat) (hinj : ∀ a b, a ≠ b → cell a ≠ cell b)
    (st : Pool σ ν) (sched sched' : List Nat) (i : Nat)
    (h1 : (st.pending i).length ≤ sched.count i) (h2 : (st.pending i).length ≤ sched'.count i) :
    (runPool G cell st sched).out i = (runPool G cell st sched').out i ∧
    (runPool G cell st sched).heap (cell i) = (runPool G cell st sched').heap (cell i) := by
  obtain ⟨a1, a2, _⟩ := C08_task_isolated G cell hinj st sched i h1
  obtain ⟨b1, b2, _⟩ := C08_task_isolated G cell hinj st sched' i h2
  exact ⟨a1.trans b1.symm, a2.trans b2.symm⟩

theorem copiedCell_injective : ∀ a b, a ≠ b → copiedCell a ≠ copiedCell b := by
  intro a b h; unfold copiedCell; omega

/-- the generator state at the moment `brew` submits the fits: after the fold shuffles of every collection
and the sub-sampling draws, all made one after the other on the caller's generator -/
def stateAtFits (G : Gen σ ν) (s0 : σ) (pretrained : Bool) (subsetMax : Option Nat) (foldSizes : List (List Nat)) : σ :=
  (runDraws G s0 (mainDraws pretrained subsetMax foldSizes)).2

/-- **brew_fold_draws** (the spec of the generator threading, end to end): for every generator, start
state, fold sizes, `subset_max_train` and every schedule that lets fold `j` reach its draw,
* the permutation fold `j` trains with is the FIRST draw from `stateAtFits` of a permutation of its
  training rows — a function of the seed and the table sizes only;
* the generator of the returned model of fold `j` is in the state after that single draw;
* the caller's generator (cell 0) is in `stateAtFits`: the fits never advance it. -/
theorem C08_brew_fold_draws (G : Gen σ ν) (s0 : σ) (subsetMax : Option Nat) (foldSizes : List (List Nat))
    (sched : List Nat) (j : Nat) (hj : j < nFolds foldSizes) (hsched : j ∈ sched) :
    (brewPool G s0 false subsetMax foldSizes sched).out j =
      [(G.step (stateAtFits G s0 false subsetMax foldSizes) (Draw.permutation (fitRows subsetMax foldSizes j))).1] ∧
    (brewPool G s0 false subsetMax foldSizes sched).heap (copiedCell j) =
      (G.step (stateAtFits G s0 false subsetMax foldSizes) (Draw.permutation (fitRows subsetMax foldSizes j))).2 ∧
    (brewPool G s0 false subsetMax foldSizes sched).heap 0 = stateAtFits G s0 false subsetMax foldSizes := by
  unfold brewPool
  have hcnt : 1 ≤ sched.count j := List.count_pos_iff.mpr hsched
  have hpend : (poolInit (ν := ν) (stateAtFits G s0 false subsetMax foldSizes) (nFolds foldSizes)
      (fitDraws subsetMax foldSizes)).pending j = fitDraws subsetMax foldSizes j := by
    simp [poolInit, hj]
  have h := C08_task_isolated G copiedCell copiedCell_injective
    (poolInit (stateAtFits G s0 false subsetMax foldSizes) (nFolds foldSizes) (fitDraws subsetMax foldSizes))
    sched j (by rw [hpend]; simpa [fitDraws] using hcnt)
  rw [hpend] at h
  refine ⟨?_, ?_, ?_⟩
  · simpa [stateAtFits, poolInit, fitDraws, runDraws] using h.1
  · simpa [stateAtFits, poolInit, fitDraws, runDraws] using h.2.1
  · have := runPool_heap_unowned G copiedCell 0 (by intro j; unfold copiedCell; omega) sched
      (poolInit (ν := ν) (stateAtFits G s0 false subsetMax foldSizes) (nFolds foldSizes) (fitDraws subsetMax foldSizes))
    simpa [stateAtFits, poolInit] using this

/-- **brew_worker_independent**: any two worker schedules in which fold `j` reaches its draw hand fold `j`
the same permutation and leave its generator, and the caller's, in the same states. -/
theorem C08_brew_worker_independent (G : Gen σ ν) (s0 : σ) (subsetMax : Option Nat) (foldSizes : List (List Nat))
    (sched sched' : List Nat) (j : Nat) (hj : j < nFolds foldSizes) (h1 : j ∈ sched) (h2 : j ∈ sched') :
    (brewPool G s0 false subsetMax foldSizes sched).out j = (brewPool G s0 false subsetMax foldSizes sched').out j ∧
    (brewPool G s0 false subsetMax foldSizes sched).heap (copiedCell j)
      = (brewPool G s0 false subsetMax foldSizes sched').heap (copiedCell j) ∧
    (brewPool G s0 false subsetMax foldSizes sched).heap 0 = (brewPool G s0 false subsetMax foldSizes sched').heap 0 := by
  obtain ⟨a1, a2, a3⟩ := C08_brew_fold_draws G s0 subsetMax foldSizes sched j hj h1
  obtain ⟨b1, b2, b3⟩ := C08_brew_fold_draws G s0 subsetMax foldSizes sched' j hj h2
  exact ⟨a1.trans b1.symm, a2.trans b2.symm, a3.trans b3.symm⟩

/-- **equal_folds_equal_permutation**: all fold models start from copies of ONE generator state, so two
folds with equally many training rows train in the same row permutation. -/
theorem C08_equal_folds_equal_permutation (G : Gen σ ν) (s0 : σ) (subsetMax : Option Nat)
    (foldSizes : List (List Nat)) (sched : List Nat) (i j : Nat) (hi : i < nFolds foldSizes)
    (hj : j < nFolds foldSizes) (h1 : i ∈ sched) (h2 : j ∈ sched)
    (hrows : fitRows subsetMax foldSizes i = fitRows subsetMax foldSizes j) :
    (brewPool G s0 false subsetMax foldSizes sched).out i = (brewPool G s0 false subsetMax foldSizes sched).out j := by
  rw [(C08_brew_fold_draws G s0 subsetMax foldSizes sched i hi h1).1,
    (C08_brew_fold_draws G s0 subsetMax foldSizes sched j hj h2).1, hrows]

/-- **pretrained_only_splits**: when trained models are fed back, `brew` draws the fold shuffles and nothing
else — no fit is scheduled, every schedule leaves every generator cell in the state after the shuffles. -/
theorem C08_pretrained_only_splits (G : Gen σ ν) (s0 : σ) (subsetMax : Option Nat) (foldSizes : List (List Nat))
    (sched : List Nat) (c : Nat) :
    mainDraws true subsetMax foldSizes = splitDraws foldSizes ∧
    (brewPool G s0 true subsetMax foldSizes sched).heap c = (runDraws G s0 (splitDraws foldSizes)).2 ∧
    (brewPool G s0 true subsetMax foldSizes sched).out c = [] := by
  have hmain : mainDraws true subsetMax foldSizes = splitDraws foldSizes := by simp [mainDraws]
  refine ⟨hmain, ?_, ?_⟩
  · unfold brewPool
    have : ∀ (st : Pool σ ν), (∀ i, st.pending i = []) → runPool G copiedCell st sched = st := by
      intro st hst
      induction sched with
      | nil => rfl
      | cons a rest ih => rw [runPool_cons, stepTask_nil G copiedCell st a (hst a)]; exact ih
    rw [this _ (by intro i; simp [poolInit])]
    simp [poolInit, hmain]
  · unfold brewPool
    have : ∀ (st : Pool σ ν), (∀ i, st.pending i = []) → runPool G copiedCell st sched = st := by
      intro st hst
      induction sched with
      | nil => rfl
      | cons a rest ih => rw [runPool_cons, stepTask_nil G copiedCell st a (hst a)]; exact ih
    rw [this _ (by intro i; simp [poolInit])]
    simp [poolInit]

theorem runDraws_append (G : Gen σ ν) (s : σ) (a b : List Draw) :
    runDraws G s (a ++ b) = ((runDraws G s a).1 ++ (runDraws G (runDraws G s a).2 b).1, (runDraws G (runDraws G s a).2 b).2) := by
  induction a generalizing s with
  | nil => simp [runDraws_nil]
  | cons d ds ih => simp [runDraws_cons, ih]

/-- **splits_before_subsampling**: the fold shuffles are drawn first, collection after collection; they do
not depend on `subset_max_train`, and the sub-sampling starts from the state they leave (so the fold
assignment of a run with sub-sampling equals that of a run without). -/
theorem C08_splits_before_subsampling (G : Gen σ ν) (s0 : σ) (subsetMax : Option Nat) (foldSizes : List (List Nat)) :
    (runDraws G s0 (mainDraws false subsetMax foldSizes)).1 =
      (runDraws G s0 (splitDraws foldSizes)).1 ++
        (runDraws G (runDraws G s0 (splitDraws foldSizes)).2 (subsetDraws subsetMax foldSizes)).1 ∧
    subsetDraws none foldSizes = [] := by
  constructor
  · simp [mainDraws, runDraws_append]
  · unfold subsetDraws perFileOf subsetDrawsFold
    simp

/-- **collections_in_order**: the shuffles of a second collection follow those of the first (appending a
collection leaves the folds of the earlier ones unchanged). -/
theorem C08_collections_in_order (G : Gen σ ν) (s0 : σ) (fs : List (List Nat)) (extra : List Nat) :
    (runDraws G s0 (splitDraws (fs ++ [extra]))).1 =
      (runDraws G s0 (splitDraws fs)).1 ++ (runDraws G (runDraws G s0 (splitDraws fs)).2 (extra.map Draw.shuffle)).1 := by
  simp [splitDraws, runDraws_append]

/-! ## non-vacuity and tests -/

/-- three folds of one collection, four workers' worth of interleaving: every fold finishes -/
example : completeFor 3 (fitDraws none [[4, 3, 3]]) [2, 0, 0, 1, 2] = true := by decide

example : nFolds [[4, 3, 3], [2, 2, 1]] = 3 ∧ fitRows none [[4, 3, 3], [2, 2, 1]] 0 = 9 := by decide

/-- with `subset_max_train = 5` and two collections every fold is sub-sampled file by file -/
example : subsetDraws (some 5) [[4, 3, 3], [2, 2, 2]] =
    [.choice 6 2, .choice 4 3, .choice 7 2, .choice 4 3, .choice 7 2, .choice 4 3] := by decide

example : mainDraws false none [[2, 1], [3]] = [.shuffle 2, .shuffle 1, .shuffle 3] := by decide

#guard (brewPool toyGen 7 false none [[4, 3, 3]] [2, 0, 1]).out 0 == (brewPool toyGen 7 false none [[4, 3, 3]] [0, 1, 2, 2]).out 0
#guard (brewPool toyGen 7 false none [[4, 3, 3]] [2, 0, 1]).heap 0 == (runDraws toyGen 7 [.shuffle 4, .shuffle 3, .shuffle 3]).2

end Mk.Determ
