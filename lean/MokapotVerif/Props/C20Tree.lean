import MokapotVerif.Lemmas.PepxmlTree
import MokapotVerif.Props.C20
/-!
# C20 (third pass) — from the element tree to the abstract document

Property theorems only.  `Props/C20.lean` speaks about the abstract document (runs → spectra → search
results → hits → children).  The code never sees that document: it walks an lxml element tree with
`iterparse(tag=…)` (end-tag order), `Element.iter(tags…)` (all descendants, any depth, document order) and
`Element.get` (`None` when absent).  `Model/PepxmlTree.lean` models exactly that walk (`treeRows`); here:

* on the tree of an abstract document the walk reads the document back and produces the flat model's
  records (`C20_tree_refines_flat`) — every theorem of `Props/C20*.lean` therefore holds for the real path;
* on an *arbitrary* tree (elements nested anywhere, foreign elements, repeated levels) every `search_hit`
  below a `search_result` below a `spectrum_query` below a `msms_run_summary` becomes exactly one PSM
  (`C20_tree_one_psm_per_hit`), the PSM of the hit read off the tree (`C20_tree_rows_are_hits`);
* foreign elements between a hit and its `modification_info` / `search_score` / `alternative_protein`
  elements change nothing (`C20_tree_wrapped_children_found`), nor between a spectrum and its results, a
  run and its spectra.
-/
namespace Mk
open Pepxml

/-- **reading the document back**: from the tree of an abstract document (`docElem`: a
`msms_pipeline_analysis` with one `msms_run_summary` per run, …, every number in its attribute) the nested
generators read exactly that document — nothing lost, nothing doubled, order kept; all sizes -/
theorem C20_tree_of_document (runs : List Run) : runsOfTree (docElem runs) = .ok runs :=
  runsOfTree_docElem runs

/-- **refinement**: the records that the tree walk (`iterparse` / `iter` / `get`) produces for the tree of
an abstract document are the records of the flat model; hence the PSMs of its hits, one per hit, in order -/
theorem C20_tree_refines_flat (pfx : Str) (runs : List Run) :
    treeRows pfx (docElem runs) = .ok (fileRows pfx runs) ∧
    treeRows pfx (docElem runs) = .ok ((hitContexts runs).map (psmOf pfx)) := by
  have h : treeRows pfx (docElem runs) = .ok (fileRows pfx runs) := by
    rw [treeRows, runsOfTree_docElem]; rfl
  exact ⟨h, by rw [h, C20_rows_are_hits_in_order]⟩

/-- **any tree**: whenever the walk succeeds, the records are the PSMs of the hits of the document read
off the tree, in order -/
theorem C20_tree_rows_are_hits (pfx : Str) (root : Elem) (rows : List Row)
    (h : treeRows pfx root = .ok rows) :
    ∃ runs, runsOfTree root = .ok runs ∧ rows = (hitContexts runs).map (psmOf pfx) := by
  rw [treeRows, map_eq_ok] at h
  obtain ⟨runs, hr, he⟩ := h
  exact ⟨runs, hr, by rw [← he, C20_rows_are_hits_in_order]⟩

/-- **every search hit of every spectrum query of every run becomes exactly one PSM — on any tree**: the
number of records is the number of `search_hit` elements counted on the tree itself (descendants at any
depth; an element reachable along two paths, e.g. through nested `search_result`s, counts once per path) -/
theorem C20_tree_one_psm_per_hit (pfx : Str) (root : Elem) (rows : List Row)
    (h : treeRows pfx root = .ok rows) : rows.length = treeHitCount root := by
  rw [treeRows, map_eq_ok] at h
  obtain ⟨runs, hr, he⟩ := h
  rw [← he, C20_one_psm_per_hit_count, hits_runsOfTree root runs hr]

/-- **children at any depth**: putting every child of a `search_hit` into a foreign element (any tag the
parser does not ask for, any attributes) leaves the hit that is read unchanged — modifications, scores
and alternative proteins are found wherever they are nested -/
theorem C20_tree_wrapped_children_found (w : String) (b : List (String × AVal)) (a : List (String × AVal))
    (ks : List Elem) (hw : hitQueries.contains w = false) :
    hitOfElem (.node "search_hit" a (ks.map (wrapElem w b))) = hitOfElem (.node "search_hit" a ks) := by
  simp only [hitOfElem, iter_wrapped_kids hitQueries w b "search_hit" a ks hw rfl]
  rfl

/-- the same one and two levels up: foreign elements around the `search_result`s of a spectrum and around
the `spectrum_query`s of a run change nothing -/
theorem C20_tree_wrapped_levels (w : String) (b : List (String × AVal)) (a : List (String × AVal))
    (ks : List Elem) (hw1 : w ≠ "search_result") (hw2 : w ≠ "spectrum_query") :
    spectrumOfElem (.node "spectrum_query" a (ks.map (wrapElem w b))) = spectrumOfElem (.node "spectrum_query" a ks) ∧
    runOfElem (.node "msms_run_summary" a (ks.map (wrapElem w b))) = runOfElem (.node "msms_run_summary" a ks) := by
  have h1 : ["search_result"].contains w = false := by simp [hw1]
  have h2 : ["spectrum_query"].contains w = false := by simp [hw2]
  constructor
  · simp only [spectrumOfElem, resultsOfElem, iter_wrapped_kids _ w b "spectrum_query" a ks h1 rfl]
    rfl
  · simp only [runOfElem, iter_wrapped_kids _ w b "msms_run_summary" a ks h2 rfl]
    rfl

/-- **a missing required attribute is an error, not a default**: a `search_hit` without
`calc_neutral_pep_mass` or without `protein` is not turned into a hit (the code raises) -/
theorem C20_tree_hit_needs_attributes (e : Elem)
    (h : e.get "calc_neutral_pep_mass" = none ∨
         (e.get "protein" = none ∧ ∃ p, e.get "peptide" = some (.text p) ∧
            ∃ q, e.get "calc_neutral_pep_mass" = some (.rat q))) :
    hitOfElem e = .error .raises := by
  rcases h with h | ⟨h, p, hp, q, hq⟩
  · simp [hitOfElem, h, need, Except.bind]
  · simp [hitOfElem, h, hp, hq, need, keep, avRat, avText, Except.bind]

/-! ## several files: the outer join of the per-file frames (the sixth-wave seeded change joined inner) -/

/-- **no column is lost when files are concatenated**: the columns of the concatenated frame are exactly
the columns that occur in *some* file (not: in every file), each once; its rows are all rows in file order -/
theorem C20_concat_keeps_every_column (frs : List Frame) :
    (∀ k, k ∈ (concatFrames frs).cols ↔ ∃ fr ∈ frs, k ∈ fr.cols) ∧ (concatFrames frs).cols.Nodup ∧
    (concatFrames frs).rows = frs.flatMap (·.rows) := by
  refine ⟨fun k => ?_, nodup_unionKeys _, rfl⟩
  simp [concatFrames, mem_unionKeys, List.mem_flatMap]

/-- **a Percolator file is rejected wherever it stands among the files**, whatever score sets the other
files have (the test looks at the union of the columns) -/
theorem C20_percolator_file_among_others (pfx : Str) (before after : List (List Run)) (perc : List Run)
    (h : ∀ runs ∈ before ++ perc :: after, hitsOfRuns runs ≠ 0) (hp : hasPercolatorScore [perc]) :
    readPepxml pfx ((before ++ perc :: after).map File.doc) = .error .percolator := by
  refine (C20_percolator_rejected pfx _ (by simp) h).mpr ?_
  obtain ⟨k, hk, runs, hruns, c, hc, hkc⟩ := hp
  have : runs = perc := by simpa using hruns
  subst this
  exact ⟨k, hk, runs, by simp, c, hc, hkc⟩

/-! ## non-vacuity and executable checks -/

def txHit : Hit :=
  { calcMass := 1001/2, peptide := "PEPK".toList, protein := "sp|P1 desc".toList, missed := some 1, ntt := none,
    nmatched := some 37,
    children := [.mods [⟨2, "15.99".toList⟩], .score "xcorr" ⟨3/2, none⟩, .alt "decoy_X".toList] }

def txRun : Run :=
  { baseName := "run".toList, rawData := ".mzML".toList,
    spectra := [{ scan := 7, charge := 2, retTime := 3/2, expMass := 501, results := [[txHit, txHit], []] }] }

/-- a tree that is *not* the tree of an abstract document: the hit's children sit inside an
`analysis_result`, a second `spectrum_query` stands outside every run, a `search_hit` outside every
`search_result` -/
def txOdd : Elem :=
  .node "msms_pipeline_analysis" []
    [.node "spectrum_query" [("end_scan", .int 1)] [],
     .node "msms_run_summary" [("base_name", .text "run".toList), ("raw_data", .text ".mzML".toList)]
       [.node "wrapper" []
         [.node "spectrum_query"
            [("end_scan", .int 7), ("assumed_charge", .int 2), ("retention_time_sec", .rat (3/2)),
             ("precursor_neutral_mass", .int 501)]
            [.node "search_hit" [] [],
             .node "search_result" []
               [.node "search_hit"
                  [("calc_neutral_pep_mass", .rat (1001/2)), ("peptide", .text "PEPK".toList),
                   ("protein", .text "sp|P1 desc".toList), ("num_missed_cleavages", .int 1),
                   ("num_matched_peptides", .int 37)]
                  [.node "analysis_result" []
                     [.node "modification_info" [] [.node "x" [] [modElem ⟨2, "15.99".toList⟩]],
                      .node "search_score" [("name", .text "xcorr".toList), ("value", .num ⟨3/2, none⟩)] [],
                      .node "alternative_protein" [("protein", .text "decoy_X".toList)] []]]]]]]]

def rowsText (r : Except TErr (List Row)) : List (String × String × Bool) :=
  match r with
  | .ok rows => rows.map (fun r => (String.ofList r.peptide, String.ofList r.proteins, r.label))
  | .error .raises => [("raises", "", false)]
  | .error .unmodelled => [("unmodelled", "", false)]

#guard rowsText (treeRows "decoy_".toList (docElem [txRun])) =
  [("PE[15.99]PK", "sp|P1\tdecoy_X", true), ("PE[15.99]PK", "sp|P1\tdecoy_X", true)]
#guard rowsText (treeRows "decoy_".toList txOdd) = [("PE[15.99]PK", "sp|P1\tdecoy_X", true)]
#guard treeHitCount txOdd = 1
#guard treeHitCount (docElem [txRun, txRun]) = 4
#guard rowsText (treeRows [] (.node "a" [] [.node "msms_run_summary" [("base_name", .text [])] []]))
  = [("raises", "", false)]

/-- the hypothesis of `C20_tree_rows_are_hits` / `C20_tree_one_psm_per_hit` holds on a tree that is not the
tree of an abstract document -/
example : ∃ rows, treeRows "decoy_".toList txOdd = .ok rows ∧ rows.length = 1 := by
  refine ⟨_, rfl, ?_⟩
  decide

example : hitQueries.contains "analysis_result" = false := by decide

/-- hypotheses of `C20_percolator_file_among_others`: an ordinary file before and after a Percolator file -/
example : (∀ runs ∈ [[pxRun]] ++ [exPercRun] :: [[pxRun]], hitsOfRuns runs ≠ 0) ∧ hasPercolatorScore [[exPercRun]] := by
  refine ⟨by decide, "Percolator PEP", by decide, [exPercRun], by simp, ?_⟩
  exact ⟨(exPercRun, { scan := 1, charge := 2, retTime := 1, expMass := 2, results := [[exHit, exPercHit]] }, exPercHit),
    by simp [hitContexts, exPercRun], by decide⟩

example : (Elem.node "search_hit" [("protein", .text [])] []).get "calc_neutral_pep_mass" = none := by decide

end Mk
