import MokapotVerif.Lemmas.GroupingExt
import MokapotVerif.Props.C16
/-!
# C16 (extension) — `_group_proteins` as an entry point, grouping from sequences, decoy names by prefix

Property theorems only; they close gaps of `Props/C16.lean` (see `GAPS-C16.md`):

* **A.** `_group_proteins(proteins, peptides)` called directly: `P` is the `proteins` dict in
  *any* insertion order, `pmW` *any* `peptides` dict that is the inverted incidence of `P`
  (`IsPepIndex`: any key order, any enumeration of each set), `srt` any arrangement by
  decreasing size, `enum` any enumeration of the match sets.  Both return values are
  specified: `grouped` is a maximal-subset grouping (`IsGrouping`) and the returned
  `peptides` dict is its group index (`IsGroupIndex`).
* **B.** `read_fasta` from the parsed `(name, sequence)` entries on: the peptide sets are
  `digest(seq, …)` for an arbitrary digest function `dig` (every option of the call), and
  for the modelled digest `Mk.digest` of C17.  The only hypothesis left is that the names
  of the entries that yield a peptide are distinct.
* **C.** the decoy test / decoy name of the code on character lists
  (`startswith(prefix)`, `prefix + name`) instead of abstract functions.
-/
namespace Mk.Grouping
variable {α β : Type} [DecidableEq α] [DecidableEq β]

/-! ## A. `_group_proteins` as an entry point -/

/-- both return values of `_group_proteins` meet their specification, for every `proteins`
dict, every `peptides` dict that is its inverted incidence, every tie order of the sort
and every set iteration order: `grouped` is a maximal-subset grouping of the proteins,
the returned `peptides` dict lists under every peptide — once each — exactly the groups
whose peptide set contains it, its keys are the keys passed in (same order), and no
`pop` / `remove` raises -/
theorem C16_group_proteins_meets_spec (enum : Nat → List (GKey α) → List (GKey α))
    (henum : ∀ n s, (enum n s).Perm s) (P srt : List (Prot α β)) (pmW : List (PepEntry α β))
    (hwf : WF P) (hidx : IsPepIndex P pmW) (hperm : srt.Perm P)
    (hsorted : srt.Pairwise (fun a b => b.2.length ≤ a.2.length)) :
    IsGrouping P (groupProteinsOf enum pmW srt).grouped ∧
    IsGroupIndex (groupProteinsOf enum pmW srt).grouped (groupProteinsOf enum pmW srt).pepmap ∧
    (groupProteinsOf enum pmW srt).pepmap.map (·.1) = pmW.map (·.1) ∧
    groupGoSafe enum ⟨[], pmW⟩ srt = true := by
  obtain ⟨hG, hP, hsafe⟩ := groupProteinsOf_inv enum henum P srt pmW hwf hidx hperm hsorted
  exact ⟨isGrouping_of_GI hG (fun e => hperm.mem_iff), isGroupIndex_of_PI hP,
    groupGo_keys enum srt ⟨[], pmW⟩, hsafe⟩

/-- the peptide set stored under a group name in `grouped` is the peptide set of the *first*
name of the group (the founder), which is a protein of the input -/
theorem C16_group_proteins_founder (enum : Nat → List (GKey α) → List (GKey α))
    (henum : ∀ n s, (enum n s).Perm s) (P srt : List (Prot α β)) (pmW : List (PepEntry α β))
    (hwf : WF P) (hidx : IsPepIndex P pmW) (hperm : srt.Perm P)
    (hsorted : srt.Pairwise (fun a b => b.2.length ≤ a.2.length))
    (k : GKey α) (S : List β) (hk : (k, S) ∈ (groupProteinsOf enum pmW srt).grouped) :
    ∃ q, k.head? = some q ∧ (q, S) ∈ P := by
  obtain ⟨hG, _, _⟩ := groupProteinsOf_inv enum henum P srt pmW hwf hidx hperm hsorted
  obtain ⟨q, h1, h2⟩ := hG.founder k S hk
  exact ⟨q, h1, hperm.mem_iff.mp h2⟩

/-- two direct calls on the same proteins — dicts in any insertion order, sets enumerated in
any order, any tie order, any match order — return the same groups as sets of (member
set, peptide set), and under every peptide the same groups -/
theorem C16_group_proteins_order_independent
    (enum enum' : Nat → List (GKey α) → List (GKey α))
    (henum : ∀ n s, (enum n s).Perm s) (henum' : ∀ n s, (enum' n s).Perm s)
    (P P' srt srt' : List (Prot α β)) (pmW pmW' : List (PepEntry α β))
    (hwf : WF P) (hwf' : WF P') (hsame : SameInput P P')
    (hidx : IsPepIndex P pmW) (hidx' : IsPepIndex P' pmW')
    (hperm : srt.Perm P) (hperm' : srt'.Perm P')
    (hsorted : srt.Pairwise (fun a b => b.2.length ≤ a.2.length))
    (hsorted' : srt'.Pairwise (fun a b => b.2.length ≤ a.2.length)) :
    SameGroups (groupProteinsOf enum pmW srt).grouped (groupProteinsOf enum' pmW' srt').grouped ∧
    ∀ p ks ks', (p, ks) ∈ (groupProteinsOf enum pmW srt).pepmap →
      (p, ks') ∈ (groupProteinsOf enum' pmW' srt').pepmap →
      ∀ k ∈ ks, ∃ k' ∈ ks', ∀ q, q ∈ k ↔ q ∈ k' := by
  obtain ⟨hg, hi, _, _⟩ := C16_group_proteins_meets_spec enum henum P srt pmW hwf hidx hperm hsorted
  obtain ⟨hg', hi', _, _⟩ :=
    C16_group_proteins_meets_spec enum' henum' P' srt' pmW' hwf' hidx' hperm' hsorted'
  have hsg := isGrouping_unique hwf hwf' hsame hg hg'
  refine ⟨hsg, ?_⟩
  intro p ks ks' h1 h2 k hk
  obtain ⟨S, hkS, hpS⟩ := ((hi.sets p ks h1).2 k).mp hk
  obtain ⟨k', S', hk', hkk', hSS'⟩ := hsg.1 k S hkS
  exact ⟨k', ((hi'.sets p ks' h2).2 k').mpr ⟨S', hk', (hSS' p).mp hpS⟩, hkk'⟩

/-- the executable model behind the driver op `gdirect` (the code's stable sort, match sets
in insertion order or reversed, the caller's `peptides` dict with bare names) is an
instance of the quantified runs -/
theorem C16_group_proteins_executable_is_instance (rev : Bool) (P : List (Prot α β))
    (pm : List (β × List α)) (hidx : IsRawIndex P pm) :
    groupProteins rev P pm =
        groupProteinsOf (fun _ s => if rev then s.reverse else s) (wrapIndex pm) (sortDesc P) ∧
      IsPepIndex P (wrapIndex pm) ∧ (sortDesc P).Perm P ∧
      (sortDesc P).Pairwise (fun a b => b.2.length ≤ a.2.length) ∧
      ∀ (n : Nat) (s : List (GKey α)),
        ((fun _ s => if rev then s.reverse else s : Nat → List (GKey α) → List (GKey α)) n s).Perm s := by
  refine ⟨rfl, isPepIndex_wrapIndex hidx, sortDesc_perm P, sortDesc_sorted P, ?_⟩
  intro n s
  cases rev
  · exact List.Perm.refl _
  · exact List.reverse_perm s

/-- `read_fasta` is this entry point applied to the dicts it has built: the `peptides` dict
of fasta.py:86-103 satisfies the precondition, and the groups / peptide maps of the result
are read off the state returned by `_group_proteins` -/
theorem C16_read_fasta_calls_group_proteins (isDecoy : α → Bool) (mkDecoy : α → α)
    (enum : Nat → List (GKey α) → List (GKey α)) (entries srt : List (Prot α β))
    (o : Out α β) (ho : readFastaOf isDecoy mkDecoy enum entries srt = some o) :
    IsPepIndex (protsOf entries) (pepmap0 entries) ∧
    o.groups = (groupProteinsOf enum (pepmap0 entries) srt).grouped ∧
    o.peptideMap = uniquePeps (groupProteinsOf enum (pepmap0 entries) srt).pepmap ∧
    o.shared = sharedPeps (groupProteinsOf enum (pepmap0 entries) srt).pepmap := by
  obtain ⟨h1, h2, _, _, h5⟩ := readFastaOf_eq_some _ _ _ _ _ _ ho
  exact ⟨isPepIndex_pepmap0 entries, h5, h1, h2⟩

/-- the directly evaluated group index (`groupIndexOf`, spec side of the driver) meets
`IsGroupIndex` when the keys are distinct and the group names are distinct -/
theorem C16_group_index_spec_function (gs : List (Group α β)) (keys : List β)
    (hk : keys.Nodup) (hg : (gs.map (·.1)).Nodup) : IsGroupIndex gs (groupIndexOf gs keys) := by
  constructor
  · have : (groupIndexOf gs keys).map (·.1) = keys := by
      simp [groupIndexOf, List.map_map, Function.comp_def]
    rw [this]; exact hk
  · intro p ks hp
    obtain ⟨_, rfl⟩ := (mem_groupIndexOf gs keys p ks).mp hp
    constructor
    · unfold groupsOf
      exact (hg.sublist (List.Sublist.map _ List.filter_sublist))
    · intro k
      simp only [groupsOf, List.mem_map, List.mem_filter, decide_eq_true_eq]
      constructor
      · rintro ⟨⟨k', S⟩, ⟨hm, hp⟩, rfl⟩; exact ⟨S, hm, hp⟩
      · rintro ⟨S, hm, hp⟩; exact ⟨(k, S), ⟨hm, hp⟩, rfl⟩

/-! ## B. from sequences -/

section
variable {σ : Type}

/-- the dicts built by the digest loop are well-formed as soon as the names of the entries
that yield a peptide are distinct: the peptide sets are Python sets (duplicate-free), and
exactly the entries with an empty digest are left out -/
theorem C16_sequences_wf (dig : σ → List β) (fasta : List (α × σ))
    (hnames : ((fasta.filter (fun e => !(dig e.2).isEmpty)).map (·.1)).Nodup) :
    WF (protsOf (digestEntries dig fasta)) ∧
    ∀ q S, (q, S) ∈ protsOf (digestEntries dig fasta) ↔
      ∃ seq, (q, seq) ∈ fasta ∧ dig seq ≠ [] ∧ S = toSet (dig seq) :=
  ⟨wf_digestEntries dig fasta hnames, mem_protsOf_digestEntries dig fasta⟩

/-- **grouping from sequences**: for every digest function, every list of parsed entries whose
peptide-yielding names are distinct, every tie order and set iteration order, the result
of `read_fasta` is a maximal-subset grouping of the proteins that yield a peptide with its
consistent peptide maps; every such protein is in a group; and a peptide is recorded (as
unique or as shared) iff the digest of some entry's sequence contains it -/
theorem C16_from_sequences_meets_spec (isDecoy : α → Bool) (mkDecoy : α → α)
    (enum : Nat → List (GKey α) → List (GKey α)) (henum : ∀ n s, (enum n s).Perm s)
    (dig : σ → List β) (fasta : List (α × σ)) (srt : List (Prot α β))
    (hnames : ((fasta.filter (fun e => !(dig e.2).isEmpty)).map (·.1)).Nodup)
    (hperm : srt.Perm (protsOf (digestEntries dig fasta)))
    (hsorted : srt.Pairwise (fun a b => b.2.length ≤ a.2.length))
    (o : Out α β) (ho : readFastaSeqOf isDecoy mkDecoy enum dig fasta srt = some o) :
    IsGrouping (protsOf (digestEntries dig fasta)) o.groups ∧
    IsPeptideMap (protsOf (digestEntries dig fasta)) o.groups o.peptideMap o.shared ∧
    (∀ q seq, (q, seq) ∈ fasta → dig seq ≠ [] → ∃ k S, (k, S) ∈ o.groups ∧ q ∈ k) ∧
    (∀ p, (p ∈ o.peptideMap.map (·.1) ∨ p ∈ o.shared.map (·.1)) ↔
      ∃ q seq, (q, seq) ∈ fasta ∧ p ∈ dig seq) := by
  have hwf := wf_digestEntries dig fasta hnames
  obtain ⟨hg, hm⟩ := C16_result_meets_spec isDecoy mkDecoy enum henum (digestEntries dig fasta) srt
    hwf hperm hsorted o ho
  refine ⟨hg, hm, ?_, ?_⟩
  · intro q seq hq hne
    exact hg.covered q (toSet (dig seq))
      ((mem_protsOf_digestEntries dig fasta q _).mpr ⟨seq, hq, hne, rfl⟩)
  · intro p
    rw [hm.recorded p]
    constructor
    · rintro ⟨q, S, hq, hp⟩
      obtain ⟨seq, hqs, _, rfl⟩ := (mem_protsOf_digestEntries dig fasta q S).mp hq
      exact ⟨q, seq, hqs, (mem_toSet _ _).mp hp⟩
    · rintro ⟨q, seq, hqs, hp⟩
      refine ⟨q, toSet (dig seq), (mem_protsOf_digestEntries dig fasta q _).mpr ⟨seq, hqs, ?_, rfl⟩,
        (mem_toSet _ _).mpr hp⟩
      intro h0; rw [h0] at hp; cases hp

/-- **order independence from sequences**: the same parsed entries in another order (and any
other tie / set iteration order) give the same groups as sets, the same unique-peptide map
up to the order of names in a group name, the same shared peptides and the same pairing -/
theorem C16_from_sequences_order_independent (isDecoy : α → Bool) (mkDecoy : α → α)
    (enum enum' : Nat → List (GKey α) → List (GKey α))
    (henum : ∀ n s, (enum n s).Perm s) (henum' : ∀ n s, (enum' n s).Perm s)
    (dig : σ → List β) (fasta fasta' : List (α × σ)) (srt srt' : List (Prot α β))
    (hnames : ((fasta.filter (fun e => !(dig e.2).isEmpty)).map (·.1)).Nodup)
    (hfasta : fasta.Perm fasta')
    (hperm : srt.Perm (protsOf (digestEntries dig fasta)))
    (hperm' : srt'.Perm (protsOf (digestEntries dig fasta')))
    (hsorted : srt.Pairwise (fun a b => b.2.length ≤ a.2.length))
    (hsorted' : srt'.Pairwise (fun a b => b.2.length ≤ a.2.length))
    (o o' : Out α β) (ho : readFastaSeqOf isDecoy mkDecoy enum dig fasta srt = some o)
    (ho' : readFastaSeqOf isDecoy mkDecoy enum' dig fasta' srt' = some o') :
    SameGroups o.groups o'.groups ∧
    (∀ p k, (p, k) ∈ o.peptideMap → ∃ k', (p, k') ∈ o'.peptideMap ∧ ∀ q, q ∈ k ↔ q ∈ k') ∧
    (∀ p, p ∈ o.shared.map (·.1) → p ∈ o'.shared.map (·.1)) ∧
    (∀ t d, (t, d) ∈ o.proteinMap → (t, d) ∈ o'.proteinMap) := by
  have hnames' : ((fasta'.filter (fun e => !(dig e.2).isEmpty)).map (·.1)).Nodup :=
    (((hfasta.filter _).map (·.1)).nodup_iff).mp hnames
  have h := C16_order_independent isDecoy mkDecoy enum enum' henum henum'
    (digestEntries dig fasta) (digestEntries dig fasta') srt srt'
    (wf_digestEntries dig fasta hnames) (wf_digestEntries dig fasta' hnames')
    (SameInput.of_perm (protsOf_digestEntries_perm dig hfasta)) hperm hperm' hsorted hsorted' o o' ho ho'
  exact ⟨h.1, h.2.1, h.2.2.1, h.2.2.2.2⟩

/-- the executable model behind the driver op `groupseq` is an instance of the quantified runs -/
theorem C16_from_sequences_executable_is_instance (isDecoy : α → Bool) (mkDecoy : α → α) (rev : Bool)
    (dig : σ → List β) (fasta : List (α × σ))
    (hnames : ((fasta.filter (fun e => !(dig e.2).isEmpty)).map (·.1)).Nodup) :
    readFastaSeq isDecoy mkDecoy rev dig fasta =
        readFastaSeqOf isDecoy mkDecoy (fun _ s => if rev then s.reverse else s) dig fasta
          (sortProteins (buildProteins (digestEntries dig fasta))) ∧
      (sortProteins (buildProteins (digestEntries dig fasta))).Perm (protsOf (digestEntries dig fasta)) ∧
      (sortProteins (buildProteins (digestEntries dig fasta))).Pairwise
        (fun a b => b.2.length ≤ a.2.length) := by
  refine ⟨rfl, ?_, sortProteins_sorted _⟩
  rw [buildProteins_eq _ (wf_digestEntries dig fasta hnames)]
  exact sortProteins_perm _

end

/-- **with the digest of C17**: for `Mk.digest` with any enzyme and options (`1 ≤ min_length`), a
peptide is recorded by `read_fasta` iff the enzyme rules (`DigestSpec`, the specification of
C17) allow it for the sequence of some entry; a protein is grouped iff its sequence has
such a peptide -/
theorem C16_from_sequences_digest_spec (isDecoy : α → Bool) (mkDecoy : α → α)
    (enum : Nat → List (GKey α) → List (GKey α)) (henum : ∀ n s, (enum n s).Perm s)
    (e : Enzyme) (mc lo hi : Nat) (clip semi : Bool) (hlo : 1 ≤ lo)
    (fasta : List (α × List Char)) (srt : List (Prot α Pep))
    (hnames : ((fasta.filter (fun x => !(digest e x.2 mc lo hi clip semi).isEmpty)).map (·.1)).Nodup)
    (hperm : srt.Perm (protsOf (digestEntries (fun s => digest e s mc lo hi clip semi) fasta)))
    (hsorted : srt.Pairwise (fun a b => b.2.length ≤ a.2.length))
    (o : Out α Pep)
    (ho : readFastaSeqOf isDecoy mkDecoy enum (fun s => digest e s mc lo hi clip semi) fasta srt = some o) :
    (∀ p, (p ∈ o.peptideMap.map (·.1) ∨ p ∈ o.shared.map (·.1)) ↔
      ∃ q seq, (q, seq) ∈ fasta ∧ DigestSpec e seq mc lo hi clip semi p) ∧
    (∀ q seq, (q, seq) ∈ fasta → (∃ p, DigestSpec e seq mc lo hi clip semi p) →
      ∃ k S, (k, S) ∈ o.groups ∧ q ∈ k ∧ ∀ p, DigestSpec e seq mc lo hi clip semi p → p ∈ S) := by
  obtain ⟨hg, _, hcov, hrec⟩ := C16_from_sequences_meets_spec isDecoy mkDecoy enum henum
    (fun s => digest e s mc lo hi clip semi) fasta srt hnames hperm hsorted o ho
  constructor
  · intro p
    rw [hrec p]
    constructor
    · rintro ⟨q, seq, hq, hp⟩
      exact ⟨q, seq, hq, (mem_digest_iff_spec e seq mc lo hi clip semi hlo p).mp hp⟩
    · rintro ⟨q, seq, hq, hp⟩
      exact ⟨q, seq, hq, (mem_digest_iff_spec e seq mc lo hi clip semi hlo p).mpr hp⟩
  · rintro q seq hq ⟨p0, hp0⟩
    have hp0' := (mem_digest_iff_spec e seq mc lo hi clip semi hlo p0).mpr hp0
    have hne : digest e seq mc lo hi clip semi ≠ [] := by
      intro h0; rw [h0] at hp0'; cases hp0'
    have hqP : (q, toSet (digest e seq mc lo hi clip semi)) ∈
        protsOf (digestEntries (fun s => digest e s mc lo hi clip semi) fasta) :=
      (mem_protsOf_digestEntries _ fasta q _).mpr ⟨seq, hq, hne, rfl⟩
    obtain ⟨k, S, hk, hqk⟩ := hg.covered q _ hqP
    obtain ⟨Sq, h1, h2⟩ := (hg.members k S hk q).mp hqk
    have hwf := wf_digestEntries (fun s => digest e s mc lo hi clip semi) fasta hnames
    have e1 : Sq = toSet (digest e seq mc lo hi clip semi) := val_unique _ hwf.names _ _ _ h1 hqP
    subst e1
    refine ⟨k, S, hk, hqk, ?_⟩
    intro p hp
    exact h2 ((mem_toSet _ _).mpr ((mem_digest_iff_spec e seq mc lo hi clip semi hlo p).mpr hp))

/-! ## C. decoy names by prefix -/

section
variable (pre : List Char) (enum : Nat → List (GKey (List Char)) → List (GKey (List Char)))
  (entries srt : List (Prot (List Char) β)) (hwf : WF (protsOf entries))
  (o : Out (List Char) β)
  (ho : readFastaOf (isDecoyPre pre) (mkDecoyPre pre) enum entries srt = some o)
include hwf ho

/-- with the code's own decoy test and decoy name: the target/decoy map holds exactly the
pairs `(t, prefix + t)` for the proteins `t` with peptides whose name does not start with
the prefix -/
theorem C16_prefix_decoy_pairing (t d : List Char) :
    (t, d) ∈ o.proteinMap ↔ (∃ S, (t, S) ∈ entries ∧ S ≠ []) ∧ ¬ pre <+: t ∧ d = pre ++ t := by
  obtain ⟨_, _, h3, _, _⟩ := readFastaOf_eq_some _ _ _ _ _ _ ho
  rw [h3, buildProteins_eq entries hwf, mem_decoyMap]
  have hd : isDecoyPre pre t = false ↔ ¬ pre <+: t := by
    rw [← isDecoyPre_iff]; simp
  constructor
  · rintro ⟨⟨S, hS⟩, h1, h2⟩; exact ⟨⟨S, (mem_protsOf _ _).mp hS⟩, hd.mp h1, h2⟩
  · rintro ⟨⟨S, hS⟩, h1, h2⟩; exact ⟨⟨S, (mem_protsOf _ _).mpr hS⟩, hd.mpr h1, h2⟩

/-- every name on the decoy side of the map is a decoy name and never a key of the map; two
targets never share a decoy; a target is listed once -/
theorem C16_prefix_decoys_are_not_targets :
    (∀ t d, (t, d) ∈ o.proteinMap → pre <+: d ∧ ∀ d', (d, d') ∉ o.proteinMap) ∧
    (∀ t t' d, (t, d) ∈ o.proteinMap → (t', d) ∈ o.proteinMap → t = t') ∧
    (o.proteinMap.map (·.1)).Nodup := by
  have hpair := C16_prefix_decoy_pairing pre enum entries srt hwf o ho
  refine ⟨?_, ?_, ?_⟩
  · intro t d htd
    obtain ⟨_, _, rfl⟩ := (hpair t d).mp htd
    refine ⟨List.prefix_append _ _, fun d' hd' => ?_⟩
    exact ((hpair _ d').mp hd').2.1 (List.prefix_append _ _)
  · intro t t' d h1 h2
    obtain ⟨_, _, e1⟩ := (hpair t d).mp h1
    obtain ⟨_, _, e2⟩ := (hpair t' d).mp h2
    exact List.append_cancel_left (e1.symm.trans e2)
  · obtain ⟨_, _, h3, _, _⟩ := readFastaOf_eq_some _ _ _ _ _ _ ho
    rw [h3, buildProteins_eq entries hwf]
    unfold decoyMap
    rw [List.map_map]
    exact (hwf.names.sublist (List.Sublist.map _ List.filter_sublist))

/-- `has_decoys` is set iff some target protein `t` with peptides has its prefixed namesake
`prefix + t` among the proteins with peptides -/
theorem C16_prefix_has_decoys_iff :
    o.hasDecoys = true ↔ ∃ t S S', (t, S) ∈ entries ∧ S ≠ [] ∧ ¬ pre <+: t ∧
      (pre ++ t, S') ∈ entries ∧ S' ≠ [] := by
  obtain ⟨_, _, _, h4, _⟩ := readFastaOf_eq_some _ _ _ _ _ _ ho
  rw [h4, buildProteins_eq entries hwf, hasDecoys_iff]
  have hd : ∀ t, isDecoyPre pre t = false ↔ ¬ pre <+: t := by
    intro t; rw [← isDecoyPre_iff]; simp
  constructor
  · rintro ⟨t, S, S', h1, h2, h3⟩
    obtain ⟨h1a, h1b⟩ := (mem_protsOf _ _).mp h1
    obtain ⟨h3a, h3b⟩ := (mem_protsOf _ _).mp h3
    exact ⟨t, S, S', h1a, h1b, (hd t).mp h2, h3a, h3b⟩
  · rintro ⟨t, S, S', h1a, h1b, h2, h3a, h3b⟩
    exact ⟨t, S, S', (mem_protsOf _ _).mpr ⟨h1a, h1b⟩, (hd t).mpr h2, (mem_protsOf _ _).mpr ⟨h3a, h3b⟩⟩

end

/-- with the empty prefix every name "starts with the prefix": `read_fasta` refuses every
FASTA (`ValueError: Only decoy proteins were found`) -/
theorem C16_empty_prefix_rejected (enum : Nat → List (GKey (List Char)) → List (GKey (List Char)))
    (entries srt : List (Prot (List Char) β)) :
    readFastaOf (isDecoyPre []) (mkDecoyPre []) enum entries srt = none := by
  rw [readFastaOf_eq_none_iff]
  intro q S _
  exact isDecoyPre_nil q

/-! ## Non-vacuity and evaluation tests -/

/-- a `proteins` dict in an order that is *not* sorted, and a `peptides` dict with its keys
and sets in another order -/
def exP : List (Prot Nat Nat) := [(2, [1]), (3, [3, 4]), (1, [1, 2, 3]), (4, [3])]
def exPm : List (Nat × List Nat) := [(3, [4, 1, 3]), (1, [1, 2]), (4, [3]), (2, [1])]

example : WF exP := by
  constructor
  · decide
  · intro q S h
    have : (q, S) ∈ [((2 : Nat), [(1 : Nat)]), (3, [3, 4]), (1, [1, 2, 3]), (4, [3])] := h
    simp at this
    rcases this with ⟨_, rfl⟩ | ⟨_, rfl⟩ | ⟨_, rfl⟩ | ⟨_, rfl⟩ <;> simp
example : IsRawIndex exP exPm := isRawIndex_of_B (by decide)
example : IsPepIndex exP (wrapIndex exPm) := isPepIndex_wrapIndex (isRawIndex_of_B (by decide))
/-- the processing order of `exP` (what the stable sort by decreasing size gives) -/
def exPsrt : List (Prot Nat Nat) := [(1, [1, 2, 3]), (3, [3, 4]), (2, [1]), (4, [3])]
example : exPsrt.Perm exP := by decide
example : exPsrt.Pairwise (fun a b => b.2.length ≤ a.2.length) := by decide
-- protein 4 (peptide 3 only) lies inside both maximal sets: it joins both groups
example : (groupProteinsOf (fun _ s => s) (wrapIndex exPm) exPsrt).grouped =
    [([3, 4], [3, 4]), ([1, 2, 4], [1, 2, 3])] := by decide
example : (groupProteinsOf (fun _ s => s.reverse) (wrapIndex exPm) exPsrt).pepmap =
    [(3, [[1, 2, 4], [3, 4]]), (1, [[1, 2, 4]]), (4, [[3, 4]]), (2, [[1, 2, 4]])] := by decide

/-- three parsed entries; the toy digest cuts after every `'K'` -/
def exDig (s : List Char) : List (List Char) := digest ⟨['K'], []⟩ s 0 1 50 false false
def exFasta : List (List Char × List Char) :=
  [("A".toList, "ACKDEK".toList), ("d_A".toList, "DEK".toList), ("B".toList, "ACKACK".toList),
   ("E".toList, [])]

example : ((exFasta.filter (fun e => !(exDig e.2).isEmpty)).map (·.1)).Nodup := by decide
example : (readFastaSeq (isDecoyPre "d_".toList) (mkDecoyPre "d_".toList) false exDig exFasta).isSome = true := by
  decide

-- evaluation tests (compiler-evaluated: *tests*, not theorems)
#guard (readFastaSeq (isDecoyPre "d_".toList) (mkDecoyPre "d_".toList) false exDig exFasta).map
    (fun o => o.groups.map (fun g => (g.1.map String.ofList, g.2.map String.ofList))) ==
  some [(["A", "d_A", "B"], ["ACK", "DEK"])]
#guard (readFastaSeq (isDecoyPre "d_".toList) (mkDecoyPre "d_".toList) false exDig exFasta).map
    (fun o => o.proteinMap.map (fun e => (String.ofList e.1, String.ofList e.2))) ==
  some [("A", "d_A"), ("B", "d_B")]
#guard (readFastaSeq (isDecoyPre "d_".toList) (mkDecoyPre "d_".toList) false exDig exFasta).map (·.hasDecoys)
  == some true
#guard (readFastaSeq (isDecoyPre []) (mkDecoyPre []) false exDig exFasta).isNone
#guard sortDesc exP == exPsrt
#guard (groupProteins false exP exPm).grouped == [([3, 4], [3, 4]), ([1, 2, 4], [1, 2, 3])]
#guard (groupProteins true exP exPm).grouped == [([1, 2, 4], [1, 2, 3]), ([3, 4], [3, 4])]
#guard groupIndexOf (groupProteins false exP exPm).grouped [3, 1, 4, 2] ==
  [(3, [[3, 4], [1, 2, 4]]), (1, [[1, 2, 4]]), (4, [[3, 4]]), (2, [[1, 2, 4]])]
#guard isRawIndexB exP [(3, [4, 1]), (1, [1, 2]), (4, [3]), (2, [1])] == false

end Mk.Grouping
