import MokapotVerif.Lemmas.FsRunExtRun
/-!
# C09 (extension) — protein level, several collections, the roll-up tool, the command line run

The statement is that of `Props/C09.lean`; the theorems here carry it to the parts of the
anchored mechanism the base model does not contain:

* `assign_confidence(proteins=…)`: one more level file `{root}proteins{ext}` (read from the
  *second* level file, written in one piece, read back, unlinked) and two more result files;
* several collections in one call (`psms=[…]`, `prefixes=[…]`), with the flag
  `append_to_output_file` that the loop sets after a collection without prefix;
* the stand-alone roll-up tool (`brew_rollup.main`): inputs discovered by pattern — its declared
  inputs —, temporary files, result files;
* `mokapot.mokapot.main`: verify step over every PIN file, `assign_confidence` over the
  collections (prefix = file stem, or none with `--aggregate` / one file), `--save_models`.

As in the base file the initial directory is universally quantified; for the roll-up tool and
the command line the two directories are only required to hold the same *declared inputs* (the
files matching the input pattern, the PIN files).

Three defects found with this extension were repaired in /repo (F1 `cec8082`, F2 `614108c`,
F3 `0e1e8f1`); the model follows the repaired code, and the old behaviours are kept as rejected
programs: `C09_old_flag_rejected` (one flag for prefixed and un-prefixed collections),
`C09_prot_without_peptide_level_rejected` (why `proteins` without roll-up has to be refused),
`Mutant.rollup_temp_left` (temporary files of the roll-up tool).
-/
namespace Mk.FsRun

/-! ## several collections, with or without the protein level -/

section run
variable (prot : Bool) (nl : Nat) (decoys : Bool) (colls : List Coll)

/-- The operation list of `assign_confidence` over any number of collections, each with any
number of chunks and any prefix (in any order), with or without the protein level, passes the
check — the protein level needs a peptide level of this run (which `assignOps` enforces). -/
theorem C09_run_wellInit (hp : prot = true → 2 ≤ nl) :
    wellInit [] (runOps prot nl decoys false false colls) = true :=
  wellInit_runOps prot nl decoys false [] false colls (fun h => absurd h (by simp))
    (fun h => absurd h (by simp)) hp

/-- for any two initial directories: the values read by the run are the same, and every result
file of every collection and level (the protein level included) has the same final content -/
theorem C09_run_results_fs_independent (hp : prot = true → 2 ≤ nl) (fs₁ fs₂ : FS) (outs : Outs) :
    let prog := runOps prot nl decoys false false colls
    (exec fs₁ outs prog).2 = (exec fs₂ outs prog).2 ∧
    (∀ c ∈ colls, ∀ l, l < nlp prot nl → FS.get (exec fs₁ outs prog).1 (targetOf c.pfx l)
        = FS.get (exec fs₂ outs prog).1 (targetOf c.pfx l)) ∧
    (decoys = true → ∀ c ∈ colls, ∀ l, l < nlp prot nl →
      FS.get (exec fs₁ outs prog).1 (decoyOf c.pfx l)
        = FS.get (exec fs₂ outs prog).1 (decoyOf c.pfx l)) := by
  intro prog
  obtain ⟨h1, h2⟩ := exec_agree [] prog (C09_run_wellInit prot nl decoys colls hp)
    fs₁ fs₂ outs (fun _ h => absurd h (by simp))
  refine ⟨h1, ?_, ?_⟩
  · intro c hc l hl
    exact h2 _ (target_known_runOps prot nl decoys false [] false colls
      (fun h => absurd h (by simp)) (fun h => absurd h (by simp)) hc hl)
  · intro hd c hc l hl
    exact h2 _ (decoy_known_runOps prot nl decoys false [] false colls
      (fun h => absurd h (by simp)) (fun h => absurd h (by simp)) hc hl hd)

/-- the whole call: whenever `assign_confidence` accepts its options (`assignOps … = some prog`),
values read and result files are the same from any two initial directories — no hypothesis on
prefixes, chunking, levels or the protein level is left -/
theorem C09_assign_results_fs_independent (prog : List Op)
    (h : assignOps prot nl decoys false colls = some prog) (fs₁ fs₂ : FS) (outs : Outs) :
    (exec fs₁ outs prog).2 = (exec fs₂ outs prog).2 ∧
    (∀ c ∈ colls, ∀ l, l < nlp prot nl → FS.get (exec fs₁ outs prog).1 (targetOf c.pfx l)
        = FS.get (exec fs₂ outs prog).1 (targetOf c.pfx l)) ∧
    (decoys = true → ∀ c ∈ colls, ∀ l, l < nlp prot nl →
      FS.get (exec fs₁ outs prog).1 (decoyOf c.pfx l)
        = FS.get (exec fs₂ outs prog).1 (decoyOf c.pfx l)) := by
  unfold assignOps at h
  split at h
  · exact absurd h (by simp)
  · rename_i hg
    simp only [Option.some.injEq] at h
    subst h
    apply C09_run_results_fs_independent
    intro hpt
    simp only [hpt, Bool.true_and, decide_eq_true_eq] at hg
    omega

/-- `proteins` without a peptide level is refused (nothing is written: there is no operation
list), every other combination is accepted -/
theorem C09_assign_accepts_iff (req : Bool) :
    (assignOps prot nl decoys req colls).isSome = true ↔ (prot = true → 2 ≤ nl) := by
  unfold assignOps
  cases prot
  · simp
  · by_cases h : nl < 2
    · simp [h]
    · simp [h]; omega

/-- the result files exist after the run (whatever the caller's flag and the prefixes) -/
theorem C09_run_results_exist (req seen : Bool) (fs : FS) (outs : Outs) :
    let prog := runOps prot nl decoys req seen colls
    (∀ c ∈ colls, ∀ l, l < nlp prot nl →
      (FS.get (exec fs outs prog).1 (targetOf c.pfx l)).isSome = true) ∧
    (decoys = true → ∀ c ∈ colls, ∀ l, l < nlp prot nl →
      (FS.get (exec fs outs prog).1 (decoyOf c.pfx l)).isSome = true) := by
  intro prog
  refine ⟨?_, ?_⟩
  · intro c hc l hl
    exact exec_present fs outs prog _ false (fun h => absurd h (by simp))
      (present_runOps_target prot nl decoys req seen colls false hc hl)
  · intro hd c hc l hl
    exact exec_present fs outs prog _ false (fun h => absurd h (by simp))
      (present_runOps_decoy prot nl decoys req seen colls false hc hl hd)

/-- after the run none of its intermediates exists, whatever the initial directory, the flag and
the prefixes: no chunk file of any collection, no level file — the protein level file
`.level nl` included -/
theorem C09_run_no_intermediates_remain (req seen : Bool) (fs : FS) (outs : Outs) :
    let fs' := (exec fs outs (runOps prot nl decoys req seen colls)).1
    (∀ c ∈ colls, ∀ i, i < c.k → FS.get fs' (chunkOf c.pfx i) = none) ∧
    (colls ≠ [] → ∀ l, l < nlp prot nl → FS.get fs' (.level l) = none) := by
  intro fs'
  refine ⟨?_, ?_⟩
  · intro c hc i hi
    exact exec_absent fs outs _ _ false (fun h => absurd h (by simp))
      (absent_runOps_chunk prot nl decoys req seen colls false hc hi)
  · intro hne l hl
    exact exec_absent fs outs _ _ false (fun h => absurd h (by simp))
      (absent_runOps_level prot nl decoys req seen colls false hne hl)

/-- frame: every file that is not a chunk, level or result file of one of the collections of
this run is left exactly as it was -/
theorem C09_run_frame (req seen : Bool) (fs : FS) (outs : Outs) (n : Name)
    (h : ¬ runNames prot nl decoys colls n) :
    FS.get (exec fs outs (runOps prot nl decoys req seen colls)).1 n = FS.get fs n :=
  exec_frame fs outs _ n (fun hw => h (writes_runOps prot nl decoys req seen colls hw))

/-- in particular the input files, `<input>.tsv`, saved models, the roll-up tool's temporary
files and unrelated files are not touched by `assign_confidence` -/
theorem C09_run_inputs_untouched (req seen : Bool) (fs : FS) (outs : Outs) (n : Name)
    (hn : n = .input ∨ n = .inputTsv ∨ (∃ j, n = .pin j) ∨ (∃ j, n = .pinTsv j) ∨
      (∃ i, n = .model i) ∨ (∃ r l, n = .temp r l) ∨ (∃ s, n = .other s)) :
    FS.get (exec fs outs (runOps prot nl decoys req seen colls)).1 n = FS.get fs n := by
  apply C09_run_frame
  intro h
  rcases h with ⟨c, _, i, _, h⟩ | ⟨l, _, h⟩ | ⟨c, _, l, _, h | ⟨_, h⟩⟩ <;>
    rcases hn with rfl | rfl | ⟨j, rfl⟩ | ⟨j, rfl⟩ | ⟨j, rfl⟩ | ⟨r, j, rfl⟩ | ⟨s, rfl⟩ <;>
    first
      | exact Name.noConfusion h
      | (cases hp : c.pfx <;> rw [hp] at h <;>
          simp only [chunkOf, targetOf, decoyOf] at h <;> exact Name.noConfusion h)

/-- a stale chunk file of an index no collection of this run uses (an earlier run with the same
prefix used more chunks): it is still there with the same content after the run, and whether it
is there changes neither the values read nor any result file -/
theorem C09_run_stale_chunk_untouched_and_unread (hp : prot = true → 2 ≤ nl) (fs : FS)
    (outs : Outs) (q : Option Nat) (j : Nat)
    (hj : ∀ c ∈ colls, c.pfx = q → c.k ≤ j) (stale : List Nat) :
    let prog := runOps prot nl decoys false false colls
    let dirty := FS.set fs (chunkOf q j) stale
    FS.get (exec dirty outs prog).1 (chunkOf q j) = some stale ∧
    (exec dirty outs prog).2 = (exec (FS.del fs (chunkOf q j)) outs prog).2 ∧
    (∀ c ∈ colls, ∀ l, l < nlp prot nl → FS.get (exec dirty outs prog).1 (targetOf c.pfx l)
        = FS.get (exec (FS.del fs (chunkOf q j)) outs prog).1 (targetOf c.pfx l)) := by
  intro prog dirty
  have hI := C09_run_results_fs_independent prot nl decoys colls hp dirty
    (FS.del fs (chunkOf q j)) outs
  refine ⟨?_, hI.1, hI.2.1⟩
  rw [C09_run_frame prot nl decoys colls false false dirty outs (chunkOf q j)]
  · exact get_set_same _ _ _
  · intro h
    rcases h with ⟨c, hc, i, hi, h⟩ | ⟨l, _, h⟩ | ⟨c, _, l, _, h | ⟨_, h⟩⟩
    · have hq : c.pfx = q := by
        cases hcp : c.pfx <;> cases q <;> rw [hcp] at h <;> simp_all [chunkOf]
      rw [hq] at h
      have := hj c hc hq
      have hij : j = i := (chunkOf_inj q j i).mp h
      omega
    · exact chunkOf_ne_level _ _ _ h
    · exact chunkOf_ne_targetOf _ _ _ _ h
    · exact chunkOf_ne_decoyOf _ _ _ _ h

/-- "any initial directory" spelled out for the general run: start from any directory, let any
sequence of earlier runs (arbitrary operation lists, each cut off after an arbitrary number of
operations) execute, then run `assign_confidence`: values read and result files are those of a
run in the empty directory -/
theorem C09_run_after_any_earlier_runs (hp : prot = true → 2 ≤ nl) (fs₀ : FS) (outs₀ outs : Outs)
    (earlier : List (List Op × Nat)) :
    let prog := runOps prot nl decoys false false colls
    let debris := (exec fs₀ outs₀ (earlier.flatMap (fun r => r.1.take r.2))).1
    (exec debris outs prog).2 = (exec [] outs prog).2 ∧
    (∀ c ∈ colls, ∀ l, l < nlp prot nl → FS.get (exec debris outs prog).1 (targetOf c.pfx l)
        = FS.get (exec [] outs prog).1 (targetOf c.pfx l)) ∧
    (decoys = true → ∀ c ∈ colls, ∀ l, l < nlp prot nl →
      FS.get (exec debris outs prog).1 (decoyOf c.pfx l)
        = FS.get (exec [] outs prog).1 (decoyOf c.pfx l)) := by
  intro prog debris
  exact C09_run_results_fs_independent prot nl decoys colls hp debris [] outs

/-- the caller asked for it (`append_to_output_file=True`): the existing result files of every
collection are *declared* inputs — two directories that agree on them give the same values read
and the same result files; nothing else in the directory matters -/
theorem C09_run_append_requested (hp : prot = true → 2 ≤ nl) (fs₁ fs₂ : FS) (outs : Outs)
    (ha : ∀ c ∈ colls, ∀ l, l < nlp prot nl →
      FS.get fs₁ (targetOf c.pfx l) = FS.get fs₂ (targetOf c.pfx l) ∧
      FS.get fs₁ (decoyOf c.pfx l) = FS.get fs₂ (decoyOf c.pfx l)) :
    let prog := runOps prot nl decoys true false colls
    (exec fs₁ outs prog).2 = (exec fs₂ outs prog).2 ∧
    (∀ c ∈ colls, ∀ l, l < nlp prot nl → FS.get (exec fs₁ outs prog).1 (targetOf c.pfx l)
        = FS.get (exec fs₂ outs prog).1 (targetOf c.pfx l)) := by
  intro prog
  let known : List Name := colls.flatMap (fun c =>
    (List.range (nlp prot nl)).flatMap (fun l => [targetOf c.pfx l, decoyOf c.pfx l]))
  have hk : ResultsKnown prot nl decoys colls known := by
    intro c hc l hl
    refine ⟨?_, fun _ => ?_⟩ <;>
      simp only [known, List.mem_flatMap, List.mem_range] <;> exact ⟨c, hc, l, hl, by simp⟩
  have hag : ∀ n ∈ known, FS.get fs₁ n = FS.get fs₂ n := by
    intro n hn
    simp only [known, List.mem_flatMap, List.mem_range, List.mem_cons, List.not_mem_nil,
      or_false] at hn
    obtain ⟨c, hc, l, hl, rfl | rfl⟩ := hn
    · exact (ha c hc l hl).1
    · exact (ha c hc l hl).2
  obtain ⟨h1, h2⟩ := exec_agree known prog
    (wellInit_runOps prot nl decoys true known false colls (fun _ => hk)
      (fun h => absurd h (by simp)) hp) fs₁ fs₂ outs hag
  refine ⟨h1, ?_⟩
  intro c hc l hl
  exact h2 _ (target_known_runOps prot nl decoys true known false colls (fun _ => hk)
    (fun h => absurd h (by simp)) hc hl)

/-- **the loop before the fix of F1**: after a collection without prefix the flag stayed set, so
a *prefixed* collection that followed appended to result files the run had never initialised.
The check rejects every such run (with at least one level), whatever else it contains. -/
theorem C09_old_flag_rejected (c₁ c₂ : Coll) (rest : List Coll) (p : Nat)
    (h1 : c₁.pfx = none) (h2 : c₂.pfx = some p) (hnl : 0 < nl) :
    wellInit [] (runOpsOldFlag prot nl decoys false (c₁ :: c₂ :: rest)) = false := by
  -- the first level of the last phase of `c₂`: read the level file, append to `ptarget p 0`
  obtain ⟨m, hm⟩ : ∃ m, nlp prot nl = m + 1 := ⟨nlp prot nl - 1, by have := le_nlp prot nl; omega⟩
  have hx6 : xphase6 c₂.pfx (nlp prot nl) decoys c₂.res c₂.resd
      = [Op.read (.level 0)] ++ Op.append (.ptarget p 0) (c₂.res 0) ::
        (((if decoys then [Op.append (decoyOf c₂.pfx 0) (c₂.resd 0)] else []) ++
          [Op.unlink (.level 0)]) ++
          ((List.range m).map Nat.succ).flatMap (xfinishLevelOps c₂.pfx decoys c₂.res c₂.resd)) := by
    rw [hm, xphase6, List.range_succ_eq_map, List.flatMap_cons, xfinishLevelOps, h2]
    simp [targetOf]
  have hshape : ∃ pre post, runOpsOldFlag prot nl decoys false (c₁ :: c₂ :: rest)
      = pre ++ Op.append (.ptarget p 0) (c₂.res 0) :: post ∧
      ∀ n ∈ writes pre, (∃ q i, n = chunkOf q i) ∨ (∃ l, n = .level l) ∨
        (∃ l, n = .target l) ∨ (∃ l, n = .decoy l) := by
    refine ⟨collOps prot nl decoys true c₁ ++ (xphase2 c₂.pfx c₂.k c₂.data ++ (xphase3 c₂.pfx c₂.k ++
      (phase4 nl c₂.lvhdr c₂.lvdata ++ (xphase5 c₂.pfx c₂.k ++ (protOps prot nl c₂.pdata ++
        [Op.read (.level 0)]))))),
      (((if decoys then [Op.append (decoyOf c₂.pfx 0) (c₂.resd 0)] else []) ++
          [Op.unlink (.level 0)]) ++
          ((List.range m).map Nat.succ).flatMap (xfinishLevelOps c₂.pfx decoys c₂.res c₂.resd)) ++
        runOpsOldFlag prot nl decoys true rest, ?_, ?_⟩
    · simp only [runOpsOldFlag, Bool.not_false, h1, Option.isNone_none, Bool.or_true,
        Bool.not_true, collOps, Bool.false_eq_true, if_false, List.nil_append, hx6,
        List.append_assoc, List.cons_append]
      rfl
    · intro n hn
      simp only [writes_append, List.mem_append, writes_xphase3, List.not_mem_nil,
        false_or] at hn
      rcases hn with hn | hn | hn | hn | hn | hn
      · rcases writes_collOps prot nl decoys true c₁ hn with ⟨i, _, h⟩ | ⟨l, _, h | ⟨_, h⟩ | h⟩
        · exact Or.inl ⟨_, _, h⟩
        · rw [h1] at h; exact Or.inr (Or.inr (Or.inl ⟨l, h⟩))
        · rw [h1] at h; exact Or.inr (Or.inr (Or.inr ⟨l, h⟩))
        · exact Or.inr (Or.inl ⟨l, h⟩)
      · obtain ⟨i, _, h⟩ := writes_xphase2 _ _ _ hn
        exact Or.inl ⟨_, _, h⟩
      · obtain ⟨l, _, h⟩ := writes_phase4 nl _ _ hn
        exact Or.inr (Or.inl ⟨l, h⟩)
      · obtain ⟨i, _, h⟩ := writes_xphase5 _ _ hn
        exact Or.inl ⟨_, _, h⟩
      · exact Or.inr (Or.inl ⟨nl, (writes_protOps nl _ hn).2⟩)
      · simp [writes, writesOp] at hn
  obtain ⟨pre, post, heq, hpre⟩ := hshape
  rw [heq]
  apply wellInit_false_of_split
  simp only [okStep, decide_eq_false_iff_not]
  intro hk
  rcases known_imp_writes _ _ _ hk with hk | hk
  · simp at hk
  · rcases hpre _ hk with ⟨q, i, h⟩ | ⟨l, h⟩ | ⟨l, h⟩ | ⟨l, h⟩
    · cases q <;> simp [chunkOf] at h
    · exact Name.noConfusion h
    · exact Name.noConfusion h
    · exact Name.noConfusion h

/-- the repaired loop on the same collections passes the check -/
theorem C09_new_flag_accepts (c₁ c₂ : Coll) (rest : List Coll) (hp : prot = true → 2 ≤ nl) :
    wellInit [] (runOps prot nl decoys false false (c₁ :: c₂ :: rest)) = true :=
  C09_run_wellInit prot nl decoys _ hp

end run

/-! ## `assign_confidence(proteins=…)`, one collection -/

section protein
variable (k nl : Nat) (decoys : Bool) (hdr data lvhdr lvdata res resd : Nat → Outs → List Nat)
  (pdata : Outs → List Nat)

/-- without the protein level, without prefix, result writers initialised: the extended model
*is* the base model of `Props/C09.lean` -/
theorem C09_noprot_is_base :
    runOps false nl decoys false false [⟨none, k, hdr, data, lvhdr, lvdata, res, resd, pdata⟩]
      = confidenceProg k nl decoys hdr data lvhdr lvdata res resd := by
  simp [runOps, collOps_base]

theorem C09_prot_is_run :
    confidenceProgProt k nl decoys hdr data lvhdr lvdata res resd pdata
      = runOps true nl decoys false false
          [⟨none, k, hdr, data, lvhdr, lvdata, res, resd, pdata⟩] := by
  simp [runOps, confidenceProgProt]

/-- with a peptide level (`do_rollup=True`: at least two levels) the operation list with the
protein level passes the check -/
theorem C09_prot_wellInit (h : 2 ≤ nl) :
    wellInit [] (confidenceProgProt k nl decoys hdr data lvhdr lvdata res resd pdata) = true := by
  rw [C09_prot_is_run]
  exact C09_run_wellInit true nl decoys _ (fun _ => h)

/-- for any two initial directories: the values read (chunk files, the peptide level read for
the protein table, every level file — the protein level file too) are the same, and every
result file `targets.<level>`, `decoys.<level>` for the `nl` levels *and* `targets.proteins`,
`decoys.proteins` (index `nl`) has the same final content -/
theorem C09_prot_results_fs_independent (h : 2 ≤ nl) (fs₁ fs₂ : FS) (outs : Outs) :
    let prog := confidenceProgProt k nl decoys hdr data lvhdr lvdata res resd pdata
    (exec fs₁ outs prog).2 = (exec fs₂ outs prog).2 ∧
    (∀ l, l ≤ nl → FS.get (exec fs₁ outs prog).1 (.target l)
        = FS.get (exec fs₂ outs prog).1 (.target l)) ∧
    (decoys = true → ∀ l, l ≤ nl → FS.get (exec fs₁ outs prog).1 (.decoy l)
        = FS.get (exec fs₂ outs prog).1 (.decoy l)) := by
  intro prog
  have hI := C09_run_results_fs_independent true nl decoys
    [⟨none, k, hdr, data, lvhdr, lvdata, res, resd, pdata⟩] (fun _ => h) fs₁ fs₂ outs
  simp only [← C09_prot_is_run] at hI
  refine ⟨hI.1, ?_, ?_⟩
  · intro l hl
    exact hI.2.1 _ (List.mem_singleton.mpr rfl) l (by simp [nlp]; omega)
  · intro hd l hl
    exact hI.2.2 hd _ (List.mem_singleton.mpr rfl) l (by simp [nlp]; omega)

/-- the result files — the two protein-level files included — exist after the run -/
theorem C09_prot_results_exist (fs : FS) (outs : Outs) :
    let prog := confidenceProgProt k nl decoys hdr data lvhdr lvdata res resd pdata
    (∀ l, l ≤ nl → (FS.get (exec fs outs prog).1 (.target l)).isSome = true) ∧
    (decoys = true → ∀ l, l ≤ nl → (FS.get (exec fs outs prog).1 (.decoy l)).isSome = true) := by
  intro prog
  have hE := C09_run_results_exist true nl decoys
    [⟨none, k, hdr, data, lvhdr, lvdata, res, resd, pdata⟩] false false fs outs
  simp only [← C09_prot_is_run] at hE
  refine ⟨?_, ?_⟩
  · intro l hl
    exact hE.1 _ (List.mem_singleton.mpr rfl) l (by simp [nlp]; omega)
  · intro hd l hl
    exact hE.2 hd _ (List.mem_singleton.mpr rfl) l (by simp [nlp]; omega)

/-- after the run none of its intermediates exists: no chunk file, no level file, and no
protein level file `{root}proteins{ext}` (index `nl`) -/
theorem C09_prot_no_intermediates_remain (fs : FS) (outs : Outs) :
    let fs' := (exec fs outs
      (confidenceProgProt k nl decoys hdr data lvhdr lvdata res resd pdata)).1
    (∀ i, i < k → FS.get fs' (.chunk i) = none) ∧ (∀ l, l ≤ nl → FS.get fs' (.level l) = none) := by
  intro fs'
  have hA := C09_run_no_intermediates_remain true nl decoys
    [⟨none, k, hdr, data, lvhdr, lvdata, res, resd, pdata⟩] false false fs outs
  simp only [← C09_prot_is_run] at hA
  refine ⟨?_, ?_⟩
  · intro i hi
    exact hA.1 _ (List.mem_singleton.mpr rfl) i hi
  · intro l hl
    exact hA.2 (by simp) l (by simp [nlp]; omega)

/-- frame with the protein level: everything that is not a chunk file `i < k`, a level file or
a result file of a level `l ≤ nl` is left as it was -/
theorem C09_prot_frame (fs : FS) (outs : Outs) (n : Name)
    (h1 : ∀ i, i < k → n ≠ .chunk i)
    (h2 : ∀ l, l ≤ nl → n ≠ .level l ∧ n ≠ .target l ∧ n ≠ .decoy l) :
    FS.get (exec fs outs
      (confidenceProgProt k nl decoys hdr data lvhdr lvdata res resd pdata)).1 n = FS.get fs n := by
  rw [C09_prot_is_run]
  apply C09_run_frame
  intro h
  rcases h with ⟨c, hc, i, hi, h⟩ | ⟨l, hl, h⟩ | ⟨c, hc, l, hl, h | ⟨_, h⟩⟩
  · simp only [List.mem_singleton] at hc; subst hc
    exact h1 i hi h
  · exact (h2 l (by simp [nlp] at hl; omega)).1 h
  · simp only [List.mem_singleton] at hc; subst hc
    exact (h2 l (by simp [nlp] at hl; omega)).2.1 h
  · simp only [List.mem_singleton] at hc; subst hc
    exact (h2 l (by simp [nlp] at hl; omega)).2.2 h

/-- **why `proteins` without roll-up is refused** (F2): `_assign_confidence` takes the peptide
table from `level_paths[1]`, by position.  With `do_rollup=False` (`nl = 1`) that entry is the
protein level file itself, which the run has not written: the check rejects the operation list —
such a run would read whatever an earlier run left under that name
(`Mutant.prot_no_rollup_reads_leftover`).  `assignOps` returns `none` for it
(`C09_assign_accepts_iff`). -/
theorem C09_prot_without_peptide_level_rejected (h : nl ≤ 1) :
    wellInit [] (confidenceProgProt k nl decoys hdr data lvhdr lvdata res resd pdata) = false :=
  wellInit_collOps_prot_noRollup nl decoys true _ [] h (by simp) rfl

/-- after any sequence of earlier runs, interrupted anywhere: as in a clean directory -/
theorem C09_prot_after_any_earlier_runs (h : 2 ≤ nl) (fs₀ : FS) (outs₀ outs : Outs)
    (earlier : List (List Op × Nat)) :
    let prog := confidenceProgProt k nl decoys hdr data lvhdr lvdata res resd pdata
    let debris := (exec fs₀ outs₀ (earlier.flatMap (fun r => r.1.take r.2))).1
    (exec debris outs prog).2 = (exec [] outs prog).2 ∧
    (∀ l, l ≤ nl → FS.get (exec debris outs prog).1 (.target l)
        = FS.get (exec [] outs prog).1 (.target l)) ∧
    (decoys = true → ∀ l, l ≤ nl → FS.get (exec debris outs prog).1 (.decoy l)
        = FS.get (exec [] outs prog).1 (.decoy l)) := by
  intro prog debris
  exact C09_prot_results_fs_independent k nl decoys hdr data lvhdr lvdata res resd pdata h
    debris [] outs

end protein

/-! ## the roll-up tool -/

section rollup
variable (r base : Nat) (levels : List Nat) (thdr tdata rt rd : Nat → Outs → List Nat)

/-- the tool globs nothing but its declared inputs, writes none of them, and reads back only
temporary files it has initialised itself -/
theorem C09_rollup_wellInitIn (known : List Name) :
    WellInitIn (isRollIn r base) known (rollupOps r base levels thdr tdata rt rd) :=
  wellInitIn_rollupOps r base levels thdr tdata rt rd known

/-- two directories that list the same declared inputs (every `<prefix>.targets.<base>s` /
`<prefix>.decoys.<base>s` whose prefix is not the tool's `file_root`) give the same values read
and the same result files for every level — whatever else they contain: temporary or result
files of an earlier roll-up (complete or interrupted), other levels, other tools' files -/
theorem C09_rollup_results_fs_independent (fs₁ fs₂ : FS) (outs : Outs)
    (hs : FS.inputs fs₁ (isRollIn r base) = FS.inputs fs₂ (isRollIn r base)) :
    let prog := rollupOps r base levels thdr tdata rt rd
    (exec fs₁ outs prog).2 = (exec fs₂ outs prog).2 ∧
    (∀ l ∈ levels, FS.get (exec fs₁ outs prog).1 (.ptarget r l)
        = FS.get (exec fs₂ outs prog).1 (.ptarget r l) ∧
      FS.get (exec fs₁ outs prog).1 (.pdecoy r l)
        = FS.get (exec fs₂ outs prog).1 (.pdecoy r l)) := by
  intro prog
  obtain ⟨h1, _, h3⟩ := exec_agree_in (isRollIn r base) [] prog
    (C09_rollup_wellInitIn r base levels thdr tdata rt rd []) fs₁ fs₂ outs hs
    (fun _ h => absurd h (by simp))
  refine ⟨h1, ?_⟩
  intro l hl
  exact ⟨h3 _ (rollup_target_known r base levels thdr tdata rt rd [] hl),
    h3 _ (rollup_decoy_known r base levels thdr tdata rt rd [] hl)⟩

/-- the tool's own earlier outputs and temporary files are not inputs: writing any content under
such a name does not change the list of declared inputs, hence (by the theorem above) neither
the values read nor the results -/
theorem C09_rollup_own_files_not_inputs (fs : FS) (l : Nat) (stale : List Nat) (n : Name)
    (hn : n = .ptarget r l ∨ n = .pdecoy r l ∨ n = .temp r l) :
    FS.inputs (FS.set fs n stale) (isRollIn r base) = FS.inputs fs (isRollIn r base) := by
  apply inputs_set
  rcases hn with rfl | rfl | rfl
  · exact isRollIn_own_target r base l
  · exact isRollIn_own_decoy r base l
  · rfl

/-- the declared inputs are listed unchanged after the run -/
theorem C09_rollup_inputs_untouched (fs : FS) (outs : Outs) :
    FS.inputs (exec fs outs (rollupOps r base levels thdr tdata rt rd)).1 (isRollIn r base)
      = FS.inputs fs (isRollIn r base) :=
  exec_inputs_unchanged _ [] _ (C09_rollup_wellInitIn r base levels thdr tdata rt rd []) fs outs

/-- frame: the tool changes nothing but its own temporary and result files -/
theorem C09_rollup_frame (fs : FS) (outs : Outs) (n : Name)
    (h : ∀ l ∈ levels, n ≠ .temp r l ∧ n ≠ .ptarget r l ∧ n ≠ .pdecoy r l) :
    FS.get (exec fs outs (rollupOps r base levels thdr tdata rt rd)).1 n = FS.get fs n := by
  apply exec_frame
  intro hw
  obtain ⟨l, hl, h' | h' | h'⟩ := writes_rollupOpsWith r levels thdr tdata rt rd _ hw
  · exact (h l hl).1 h'
  · exact (h l hl).2.1 h'
  · exact (h l hl).2.2 h'

/-- the result files exist after the run -/
theorem C09_rollup_results_exist (fs : FS) (outs : Outs) :
    let fs' := (exec fs outs (rollupOps r base levels thdr tdata rt rd)).1
    ∀ l ∈ levels, (FS.get fs' (.ptarget r l)).isSome = true ∧
      (FS.get fs' (.pdecoy r l)).isSome = true := by
  intro fs' l hl
  refine ⟨?_, ?_⟩
  · exact exec_present fs outs _ _ false (fun h => absurd h (by simp))
      (presentAfter_of_trunc _ (rt l) false _ (mem_rollupOpsWith_target r levels thdr tdata rt rd _ hl)
        (rollup_never_removes r levels thdr tdata rt rd _ _ (fun _ h => Name.noConfusion h)))
  · exact exec_present fs outs _ _ false (fun h => absurd h (by simp))
      (presentAfter_of_trunc _ (rd l) false _ (mem_rollupOpsWith_decoy r levels thdr tdata rt rd _ hl)
        (rollup_never_removes r levels thdr tdata rt rd _ _ (fun _ h => Name.noConfusion h)))

/-- after a successful roll-up none of its temporary files exists, whatever the initial
directory (a stale one of an interrupted earlier roll-up is truncated, used and removed) -/
theorem C09_rollup_no_intermediates_remain (fs : FS) (outs : Outs) :
    let fs' := (exec fs outs (rollupOps r base levels thdr tdata rt rd)).1
    ∀ l ∈ levels, FS.get fs' (.temp r l) = none := by
  intro fs' l hl
  exact exec_absent fs outs _ _ false (fun h => absurd h (by simp))
    (absent_rollupOpsWith_temp r levels thdr tdata rt rd _ false hl)

end rollup

/-! ## the command line run -/

section cli
variable (verify : Bool) (nf : Nat) (needs : Nat → Bool) (conv : Nat → Outs → List Nat)
  (prot : Bool) (nl : Nat) (decoys : Bool) (colls : List Coll)
  (nm : Nat) (mdl : Nat → Outs → List Nat)

/-- the whole command line run reads nothing but the user's PIN files before initialising it -/
theorem C09_climain_wellInit (hp : prot = true → 2 ≤ nl) :
    wellInit (pinNames nf)
      (cliMainOps verify nf needs conv prot nl decoys colls nm mdl) = true :=
  wellInit_cliMainOps needs conv verify nf prot nl decoys colls nm mdl hp

/-- two directories that hold the same PIN files give the same values read, the same (possibly
converted) PIN files, the same result files of every collection and level and the same saved
models — whatever else they hold: a stale `<pin>.tsv`, chunk, level, result or model files of
earlier runs -/
theorem C09_climain_independent (hp : prot = true → 2 ≤ nl) (fs₁ fs₂ : FS) (outs : Outs)
    (ha : ∀ j, j < nf → FS.get fs₁ (.pin j) = FS.get fs₂ (.pin j)) :
    let prog := cliMainOps verify nf needs conv prot nl decoys colls nm mdl
    (exec fs₁ outs prog).2 = (exec fs₂ outs prog).2 ∧
    (∀ j, j < nf → FS.get (exec fs₁ outs prog).1 (.pin j) = FS.get (exec fs₂ outs prog).1 (.pin j)) ∧
    (∀ c ∈ colls, ∀ l, l < nlp prot nl → FS.get (exec fs₁ outs prog).1 (targetOf c.pfx l)
        = FS.get (exec fs₂ outs prog).1 (targetOf c.pfx l)) ∧
    (decoys = true → ∀ c ∈ colls, ∀ l, l < nlp prot nl →
      FS.get (exec fs₁ outs prog).1 (decoyOf c.pfx l)
        = FS.get (exec fs₂ outs prog).1 (decoyOf c.pfx l)) ∧
    (∀ i, i < nm → FS.get (exec fs₁ outs prog).1 (.model i)
        = FS.get (exec fs₂ outs prog).1 (.model i)) := by
  intro prog
  obtain ⟨h1, h2⟩ := exec_agree (pinNames nf) prog
    (C09_climain_wellInit verify nf needs conv prot nl decoys colls nm mdl hp) fs₁ fs₂ outs
    (by intro n hn
        simp only [pinNames, List.mem_map, List.mem_range] at hn
        obtain ⟨j, hj, rfl⟩ := hn
        exact ha j hj)
  refine ⟨h1, ?_, ?_, ?_, ?_⟩
  · intro j hj
    exact h2 _ (mem_knownAfter_of_mem _ _ (mem_pinNames.mpr hj))
  · intro c hc l hl
    apply h2
    simp only [prog, cliMainOps]
    apply known_append_right; apply known_append_right; apply known_append_left
    exact target_known_runOps prot nl decoys false [] false colls (fun h => absurd h (by simp))
      (fun h => absurd h (by simp)) hc hl
  · intro hd c hc l hl
    apply h2
    simp only [prog, cliMainOps]
    apply known_append_right; apply known_append_right; apply known_append_left
    exact decoy_known_runOps prot nl decoys false [] false colls (fun h => absurd h (by simp))
      (fun h => absurd h (by simp)) hc hl hd
  · intro i hi
    apply h2
    simp only [prog, cliMainOps]
    apply known_append_right; apply known_append_right; apply known_append_right
    exact made_of_op (op := Op.trunc (.model i) (mdl i))
      (by simp only [saveModels, List.mem_map, List.mem_range]; exact ⟨i, hi, rfl⟩)
      (by simp [knownStep])

/-- the verify step of one PIN file: the file is left as it is when it is a valid table;
otherwise it is replaced by the conversion of what was read from *that file* (twice: once by
`is_valid_tsv`, once by the converter) and nothing else — whatever `<pin>.tsv` contained —, and
`<pin>.tsv` does not exist afterwards -/
theorem C09_verify_step_input_not_mixed (j : Nat) (fs : FS) (outs : Outs) :
    let fs' := (exec fs outs (verifyOps needs conv j)).1
    (needs j = false → fs' = fs) ∧
    (needs j = true →
      FS.get fs' (.pin j)
        = some (conv j (outs ++ [FS.content fs (.pin j)] ++ [FS.content fs (.pin j)])) ∧
      FS.get fs' (.pinTsv j) = none) := by
  intro fs'
  refine ⟨?_, ?_⟩
  · intro h
    simp [fs', verifyOps, h, exec, step]
  · intro h
    simp [fs', verifyOps, h, exec, step, get_moveFs, FS.content, get_set]

/-- names written by the command line run: PIN files that need conversion and their `.tsv`, the
chunk, level and result files of the collections, the model files -/
theorem C09_climain_frame (fs : FS) (outs : Outs) (n : Name)
    (h1 : ∀ j, j < nf → needs j = true → n ≠ .pin j ∧ n ≠ .pinTsv j)
    (h2 : ¬ runNames prot nl decoys colls n) (h3 : ∀ i, i < nm → n ≠ .model i) :
    FS.get (exec fs outs (cliMainOps verify nf needs conv prot nl decoys colls nm mdl)).1 n
      = FS.get fs n := by
  apply exec_frame
  intro hw
  simp only [cliMainOps, writes_append, List.mem_append, writes_readPins, List.not_mem_nil,
    false_or] at hw
  rcases hw with hw | hw | hw
  · obtain ⟨j, hj, hn, h | h⟩ := writes_verifyAll needs conv verify nf hw
    · exact (h1 j hj hn).1 h
    · exact (h1 j hj hn).2 h
  · exact h2 (writes_runOps prot nl decoys false false colls hw)
  · obtain ⟨i, hi, h⟩ := writes_saveModels nm mdl hw
    exact h3 i hi h


/-- after the command line run no `<pin>.tsv` of a file that was converted exists, whatever the
initial directory -/
theorem C09_climain_tsv_removed (fs : FS) (outs : Outs) (hv : verify = true) (j : Nat)
    (hj : j < nf) (hn : needs j = true) :
    FS.get (exec fs outs (cliMainOps verify nf needs conv prot nl decoys colls nm mdl)).1
      (.pinTsv j) = none :=
  exec_absent fs outs _ _ false (fun h => absurd h (by simp))
    (absent_cliMainOps_tsv needs conv verify nf prot nl decoys colls nm mdl false hv hj hn)

/-- and none of the intermediates of `assign_confidence` either (frame of the model saving) -/
theorem C09_climain_no_intermediates_remain (fs : FS) (outs : Outs) :
    let fs' := (exec fs outs (cliMainOps verify nf needs conv prot nl decoys colls nm mdl)).1
    (∀ c ∈ colls, ∀ i, i < c.k → FS.get fs' (chunkOf c.pfx i) = none) ∧
    (colls ≠ [] → ∀ l, l < nlp prot nl → FS.get fs' (.level l) = none) := by
  intro fs'
  have hsplit : ∀ n : Name, (∀ i, n ≠ .model i) →
      FS.get fs' n = FS.get (exec (exec fs outs (verifyAll verify nf needs conv ++ readPins nf)).1
        (exec fs outs (verifyAll verify nf needs conv ++ readPins nf)).2
        (runOps prot nl decoys false false colls)).1 n := by
    intro n hn
    simp only [fs', cliMainOps]
    rw [← List.append_assoc, ← List.append_assoc, exec_append, exec_frame, exec_append]
    intro hw
    obtain ⟨i, _, h⟩ := writes_saveModels nm mdl hw
    exact hn i h
  have hA := C09_run_no_intermediates_remain prot nl decoys colls false false
    (exec fs outs (verifyAll verify nf needs conv ++ readPins nf)).1
    (exec fs outs (verifyAll verify nf needs conv ++ readPins nf)).2
  refine ⟨?_, ?_⟩
  · intro c hc i hi
    rw [hsplit _ (by intro i' h; cases hp : c.pfx <;> rw [hp] at h <;> simp [chunkOf] at h)]
    exact hA.1 c hc i hi
  · intro hne l hl
    rw [hsplit _ (fun _ h => Name.noConfusion h)]
    exact hA.2 hne l hl

end cli

/-! ## non-vacuity: concrete runs (compiler-evaluated tests) -/

/-- debris of earlier runs: stale chunk files with and without prefix, half-written level files
(the protein level file at index 2 too), old result files, a stale protein result, shadowed
duplicates -/
def dirtyFsExt : FS :=
  [(.chunk 7, [666]), (.chunk 0, [667]), (.level 0, [668]), (.level 2, [672]), (.target 0, [669]),
   (.target 2, [673]), (.pchunk 0 0, [674]), (.ptarget 0 0, [675]), (.pdecoy 0 1, [676]),
   (.other "x", [5]), (.level 1, [677]), (.chunk 0, [671])]

-- protein level: 2 chunks, 2 levels + proteins, decoys
#guard wellInit [] (demoRun true 2 true false [(none, 2)]) = true
#guard (exec dirtyFsExt [] (demoRun true 2 true false [(none, 2)])).2
  = (exec [] [] (demoRun true 2 true false [(none, 2)])).2
-- outputs: chunk 0, chunk 1, peptide level (for the proteins), level 0, level 1, protein level
#guard (exec [] [] (demoRun true 2 true false [(none, 2)])).2
  = [[100], [101], [2, 100, 101], [2, 100, 101], [2, 100, 101], [5002, 5100, 5101]]
#guard FS.get (exec dirtyFsExt [] (demoRun true 2 true false [(none, 2)])).1 (.target 2)
  = some [1, 6002, 6100, 6101]
#guard FS.get (exec dirtyFsExt [] (demoRun true 2 true false [(none, 2)])).1 (.level 2) = none
#guard FS.get (exec dirtyFsExt [] (demoRun true 2 true false [(none, 2)])).1 (.chunk 7) = some [666]
-- protein level without a peptide level of this run (do_rollup=False): rejected, and the stale
-- level file is what the protein table is computed from
#guard wellInit [] (demoRun true 1 false false [(none, 1)]) = false
#guard (exec [(.level 1, [677])] [] (demoRun true 1 false false [(none, 1)])).2
  ≠ (exec [] [] (demoRun true 1 false false [(none, 1)])).2
-- several collections: prefixed ones first, then two without prefix (the second appends)
#guard wellInit [] (demoRun false 2 true false [(some 0, 1), (some 1, 2), (none, 1), (none, 3)]) = true
#guard (exec dirtyFsExt [] (demoRun false 2 true false [(some 0, 1), (none, 1), (none, 2)])).2
  = (exec [] [] (demoRun false 2 true false [(some 0, 1), (none, 1), (none, 2)])).2
#guard FS.get (exec dirtyFsExt [] (demoRun false 2 true false [(some 0, 1), (none, 1), (none, 2)])).1
    (.ptarget 0 0) = some [1, 1002, 1100]
-- the second un-prefixed collection appends to the first one's results
#guard FS.get (exec dirtyFsExt [] (demoRun false 1 false false [(none, 1), (none, 2)])).1 (.target 0)
  = some [1, 1002, 1100, 1002, 1100, 1002, 1100, 1100, 1101]
-- a prefixed collection after an un-prefixed one: initialised by the repaired loop; the loop before
-- the fix is rejected and lets the stale `a.targets.psms` survive
#guard wellInit [] (demoRun false 1 false false [(none, 1), (some 0, 1)]) = true
#guard FS.get (exec dirtyFsExt [] (demoRun false 1 false false [(none, 1), (some 0, 1)])).1 (.ptarget 0 0)
  = FS.get (exec [] [] (demoRun false 1 false false [(none, 1), (some 0, 1)])).1 (.ptarget 0 0)
#guard wellInit [] (demoRunOldFlag false 1 false [(none, 1), (some 0, 1)]) = false
#guard FS.get (exec dirtyFsExt [] (demoRunOldFlag false 1 false [(none, 1), (some 0, 1)])).1 (.ptarget 0 0)
  ≠ FS.get (exec [] [] (demoRunOldFlag false 1 false [(none, 1), (some 0, 1)])).1 (.ptarget 0 0)
-- `proteins` without roll-up is refused, everything else accepted
#guard (demoAssign true 1 false false [(none, 1)]).isNone
#guard (demoAssign true 2 false false [(none, 1)]).isSome
#guard (demoAssign false 1 false false [(none, 1), (some 0, 2)]).isSome
-- the caller's append_to_output_file=True: nothing is initialised, for any prefix
#guard wellInit [] (demoRun false 1 false true [(some 0, 1)]) = false
#guard wellInit [.ptarget 0 0] (demoRun false 1 false true [(some 0, 1)]) = true
-- roll-up tool (file_root 9, base level 0, levels 0 and 1): inputs of prefixes 0 and 1; its own
-- earlier outputs and temporary files are in the dirty directory
def rollIn : FS := [(.ptarget 0 0, [10]), (.pdecoy 0 0, [11]), (.ptarget 1 0, [12])]
def rollDirty : FS :=
  [(.ptarget 9 0, [900]), (.ptarget 0 0, [10]), (.temp 9 0, [901]), (.pdecoy 0 0, [11]),
   (.pdecoy 9 1, [902]), (.ptarget 1 0, [12]), (.ptarget 0 1, [13]), (.target 0, [14])]
#guard FS.inputs rollDirty (isRollIn 9 0) = FS.inputs rollIn (isRollIn 9 0)
#guard (exec rollDirty [] (demoRollup 9 0 [0, 1])).2 = (exec rollIn [] (demoRollup 9 0 [0, 1])).2
#guard (exec rollIn [] (demoRollup 9 0 [0, 1])).2 = [[10, 11, 12], [2, 10, 11, 12], [2, 10, 11, 12]]
#guard FS.get (exec rollDirty [] (demoRollup 9 0 [0, 1])).1 (.ptarget 9 0) = some [7002, 7010, 7011, 7012]
#guard FS.get (exec rollDirty [] (demoRollup 9 0 [0, 1])).1 (.temp 9 1) = none
#guard FS.get (exec rollDirty [] (demoRollup 9 0 [0, 1])).1 (.temp 9 0) = none
#guard FS.get (exec rollDirty [] (demoRollupKeepTemp 9 0 [0, 1])).1 (.temp 9 1) = some [2, 10, 11, 12]
-- without the file_root filter the earlier output is read as an input
#guard (exec rollDirty [] (demoRollupNoFilter 9 0 [0, 1])).2
  ≠ (exec rollIn [] (demoRollupNoFilter 9 0 [0, 1])).2
-- command line: two PIN files (the first ragged), prefixes = stems, two models saved
def cliDirty : FS :=
  [(.pin 0, [10, 20]), (.pinTsv 0, [99]), (.pin 1, [30]), (.pinTsv 1, [98]), (.model 0, [97]),
   (.pchunk 0 0, [96]), (.level 0, [95]), (.ptarget 1 0, [94])]
def cliClean : FS := [(.pin 0, [10, 20]), (.pin 1, [30])]
#guard wellInit (pinNames 2)
  (demoCliMain true [true, false] false 2 true [(some 0, 1), (some 1, 2)] 2) = true
#guard (exec cliDirty [] (demoCliMain true [true, false] false 2 true [(some 0, 1), (some 1, 2)] 2)).2
  = (exec cliClean [] (demoCliMain true [true, false] false 2 true [(some 0, 1), (some 1, 2)] 2)).2
#guard FS.get (exec cliDirty [] (demoCliMain true [true, false] false 2 true [(some 0, 1), (some 1, 2)] 2)).1
    (.pin 0) = some [11, 21]
#guard FS.get (exec cliDirty [] (demoCliMain true [true, false] false 2 true [(some 0, 1), (some 1, 2)] 2)).1
    (.pin 1) = some [30]
#guard FS.get (exec cliDirty [] (demoCliMain true [true, false] false 2 true [(some 0, 1), (some 1, 2)] 2)).1
    (.pinTsv 0) = none
-- a stale `<pin>.tsv` of a file that needs no conversion is not this run's intermediate
#guard FS.get (exec cliDirty [] (demoCliMain true [true, false] false 2 true [(some 0, 1), (some 1, 2)] 2)).1
    (.pinTsv 1) = some [98]
#guard FS.get (exec cliDirty [] (demoCliMain true [true, false] false 2 true [(some 0, 1), (some 1, 2)] 2)).1
    (.model 0)
  = FS.get (exec cliClean [] (demoCliMain true [true, false] false 2 true [(some 0, 1), (some 1, 2)] 2)).1
    (.model 0)

/-- kernel-checked instances of the hypotheses: an accepted call with the protein level, equal
declared inputs of two different directories, equal PIN files -/
example : (demoAssign true 2 true false [(none, 2), (some 0, 1)]).isSome = true ∧ (2 : Nat) ≤ 2 := by
  decide

example : FS.inputs rollDirty (isRollIn 9 0) = FS.inputs rollIn (isRollIn 9 0) := by decide

example : ∀ j, j < 2 → FS.get cliDirty (.pin j) = FS.get cliClean (.pin j) := by decide

end Mk.FsRun
