/-!
# Wire format of the line protocol (driver glue, not part of any proof)

One request per line, one response per line.  A value is an atom (a token
without blanks or brackets) or a bracketed list of values:

    v ::= atom | "[" v* "]"

Atoms carry integers (`-12`), rationals (`3/4`), booleans (`T`/`F`) and
strings (`s` followed by the hex of the UTF-8 bytes; `s` alone is the empty
string).  This file is import-free so that the driver links natively.
-/
namespace Mk

inductive V where
  | atom : String → V
  | list : List V → V
  deriving Repr, Inhabited, BEq

namespace V

partial def render : V → String
  | atom s => s
  | list xs => "[" ++ " ".intercalate (xs.map render) ++ "]"

/-- split a line into tokens; brackets are their own tokens -/
def tokenize (s : String) : List String :=
  let s := (s.replace "[" " [ ").replace "]" " ] "
  (s.splitOn " ").filter (fun t => !t.isEmpty)

/-- parse a sequence of values until a closing bracket or the end -/
partial def parseSeq : List String → List V → (List V × List String)
  | [], acc => (acc.reverse, [])
  | "]" :: rest, acc => (acc.reverse, rest)
  | "[" :: rest, acc =>
      let (inner, rest') := parseSeq rest []
      parseSeq rest' (V.list inner :: acc)
  | t :: rest, acc => parseSeq rest (V.atom t :: acc)

def parseLine (s : String) : List V := (parseSeq (tokenize s.trimAscii.toString) []).1

def hexDigit (n : Nat) : Char :=
  if n < 10 then Char.ofNat (48 + n) else Char.ofNat (87 + n)

def hexVal (c : Char) : Nat :=
  if c.toNat ≥ 97 then c.toNat - 87 else if c.toNat ≥ 65 then c.toNat - 55 else c.toNat - 48

def encStr (s : String) : String :=
  "s" ++ String.ofList (s.toUTF8.toList.flatMap (fun b => [hexDigit (b.toNat / 16), hexDigit (b.toNat % 16)]))

partial def hexBytes : List Char → List UInt8
  | a :: b :: rest => UInt8.ofNat (hexVal a * 16 + hexVal b) :: hexBytes rest
  | _ => []

def decStr (t : String) : Option String :=
  match t.toList with
  | 's' :: rest => String.fromUTF8? (ByteArray.mk (hexBytes rest).toArray)
  | _ => none

def ofInt (i : Int) : V := atom (toString i)
def ofNat (n : Nat) : V := atom (toString n)
def ofBool (b : Bool) : V := atom (if b then "T" else "F")
def ofStr (s : String) : V := atom (encStr s)
def ofRat (r : Rat) : V := atom (toString r.num ++ "/" ++ toString r.den)
def ofList {β : Type} (f : β → V) (xs : List β) : V := list (xs.map f)
def ofOpt {β : Type} (f : β → V) : Option β → V
  | none => atom "none"
  | some b => list [f b]

def toInt? : V → Option Int
  | atom s => s.toInt?
  | _ => none
def toNat? : V → Option Nat
  | atom s => s.toNat?
  | _ => none
def toBool? : V → Option Bool
  | atom "T" => some true
  | atom "F" => some false
  | _ => none
def toStr? : V → Option String
  | atom s => decStr s
  | _ => none
def toRat? : V → Option Rat
  | atom s =>
    match s.splitOn "/" with
    | [a] => a.toInt?.map (fun i => (i : Rat))
    | [a, b] => do
        let n ← a.toInt?
        let d ← b.toNat?
        if d = 0 then none else some ((n : Rat) / (d : Rat))
    | _ => none
  | _ => none
def toList? {β : Type} (f : V → Option β) : V → Option (List β)
  | list xs => xs.mapM f
  | _ => none
def toPair? {β γ : Type} (f : V → Option β) (g : V → Option γ) : V → Option (β × γ)
  | list [a, b] => do pure (← f a, ← g b)
  | _ => none

end V
end Mk
