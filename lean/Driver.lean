import MokapotVerif.Wire
import MokapotVerif.OpsAll
/-!
Line-protocol driver: `op arg…` per line in, one value per line out.
Imports only `Wire`, `Model/*`, `Spec/*`, `Ops/*` (all import-free), so it
links as a native executable.  Unknown ops and ill-formed arguments answer
`bad-op` / `bad-args`; nothing is defaulted.
-/
open Mk Mk.V Mk.Ops

def handle (line : String) : String :=
  match parseLine line with
  | atom op :: args =>
    match allOps.lookup op with
    | some f =>
      match f args with
      | some v => v.render
      | none => "bad-args"
    | none => "bad-op"
  | _ => "bad-op"

partial def loop (hin : IO.FS.Stream) (hout : IO.FS.Stream) : IO Unit := do
  let line ← hin.getLine
  if line.isEmpty then return ()
  hout.putStrLn (handle line)
  loop hin hout

def main : IO Unit := do
  let hin ← IO.getStdin
  let hout ← IO.getStdout
  loop hin hout
