#!/venv/bin/python
"""tools/mutcampaign.py — systematic single-token changes to the anchored source files.

Not part of any registered check: a development tool that measures which realistic small changes
the checks notice.  For every sampled change

  1. a scratch worktree of /repo gets the changed file,
  2. the pinned test-suite (the `stable_pass` list of /root/.vp/BASELINE.json) is run on it; a change
     that any pinned test notices is discarded (outcome `tests`),
  3. the quick checks of the properties anchored in that file are run against the worktree
     (evidence and replays redirected to the scratch directory); outcome `caught:<ids>` or `survived`.

Survivors are listed for manual triage (equivalent change / outside every property / gap of a check).

usage: tools/mutcampaign.py --out /tmp/mut --workers 6 [--files mokapot/qvalues.py …] [--max-per-file 40] [--seed 0]
"""
from __future__ import annotations

import warnings
warnings.filterwarnings("ignore")
import argparse
import ast
import json
import os
import random
import subprocess
import sys
import xml.etree.ElementTree as ET
from concurrent.futures import ThreadPoolExecutor
from pathlib import Path

VERIF = Path(__file__).resolve().parent.parent
REPO = Path("/repo")

CMP = {ast.Lt: ("<", "<="), ast.LtE: ("<=", "<"), ast.Gt: (">", ">="), ast.GtE: (">=", ">"),
       ast.Eq: ("==", "!="), ast.NotEq: ("!=", "=="), ast.Is: ("is", "is not"), ast.IsNot: ("is not", "is"),
       ast.In: ("in", "not in"), ast.NotIn: ("not in", "in")}
BIN = {ast.Add: ("+", "-"), ast.Sub: ("-", "+"), ast.Mult: ("*", "/"), ast.FloorDiv: ("//", "/"),
       ast.Mod: ("%", "//")}
BOOL = {ast.And: ("and", "or"), ast.Or: ("or", "and")}

SKIP_CALLS = {"debug", "info", "warning", "error", "warn", "critical", "exception"}


def file_props():
    m = {}
    for line in (VERIF / "properties.jsonl").read_text().splitlines():
        d = json.loads(line)
        for f in d["anchors"]["files"]:
            m.setdefault(f, []).append(d["id"])
    # properties that exercise a file without naming it among their anchors
    extra = {"mokapot/tabular_data.py": ["C03", "C10"], "mokapot/streaming.py": ["C03", "C05"],
             "mokapot/confidence_writer.py": ["C05", "C09"], "mokapot/qvalues.py": ["C03", "C07", "C11"],
             "mokapot/utils.py": ["C09"], "mokapot/parsers/pin.py": ["C08"], "mokapot/peps.py": ["C03"],
             "mokapot/picked_protein.py": ["C05"], "mokapot/model.py": ["C02", "C05"]}
    for f, ps in extra.items():
        for p_ in ps:
            if p_ not in m.setdefault(f, []):
                m[f].append(p_)
    return m


def offsets(src):
    """(lineno, col_offset in utf8 bytes) -> absolute char offset; sources are ASCII enough that we work on bytes"""
    lines = src.split(b"\n")
    starts = [0]
    for l in lines:
        starts.append(starts[-1] + len(l) + 1)
    return lambda ln, col: starts[ln - 1] + col


class Sites(ast.NodeVisitor):
    def __init__(self, src: bytes):
        self.src = src
        self.off = offsets(src)
        self.out = []  # (start, end, replacement, description, lineno)
        self.skip = 0

    def seg(self, a, b):
        return self.src[a:b]

    def between(self, left, right, tok, new, what, ln):
        a = self.off(left.end_lineno, left.end_col_offset)
        b = self.off(right.lineno, right.col_offset)
        mid = self.src[a:b]
        i = mid.find(tok.encode())
        if i < 0 or mid.count(tok.encode()) != 1 and tok not in ("<", ">", "is", "in"):
            return
        # "<" must not match "<=" etc.: search the exact token surrounded by non-operator chars
        import re
        m = re.search(rb"(?<![<>=!\w])" + re.escape(tok.encode()) + rb"(?![<>=\w])", mid)
        if not m:
            return
        self.out.append((a + m.start(), a + m.end(), new.encode(), f"{what}: {tok} -> {new}", ln))

    def visit_Expr(self, node):
        if isinstance(node.value, ast.Constant):  # docstring
            return
        if isinstance(node.value, ast.Call) and isinstance(node.value.func, ast.Attribute) \
                and node.value.func.attr in SKIP_CALLS:
            return
        self.generic_visit(node)

    def visit_Raise(self, node):
        return  # messages

    def visit_Assert(self, node):
        return

    def visit_AnnAssign(self, node):
        if node.value is not None:
            self.visit(node.value)

    def visit_FunctionDef(self, node):
        for d in node.args.defaults + [d for d in node.args.kw_defaults if d is not None]:
            self.visit(d)
        for st in node.body:
            self.visit(st)

    visit_AsyncFunctionDef = visit_FunctionDef

    def visit_Compare(self, node):
        if len(node.ops) == 1 and type(node.ops[0]) in CMP:
            tok, new = CMP[type(node.ops[0])]
            self.between(node.left, node.comparators[0], tok, new, "compare", node.lineno)
        self.generic_visit(node)

    def visit_BinOp(self, node):
        if type(node.op) in BIN and not (isinstance(node.left, ast.Constant) and isinstance(node.left.value, str)) \
                and not isinstance(node.left, ast.JoinedStr):
            tok, new = BIN[type(node.op)]
            self.between(node.left, node.right, tok, new, "arith", node.lineno)
        self.generic_visit(node)

    def visit_BoolOp(self, node):
        if len(node.values) == 2:
            tok, new = BOOL[type(node.op)]
            self.between(node.values[0], node.values[1], tok, new, "bool", node.lineno)
        self.generic_visit(node)

    def visit_UnaryOp(self, node):
        if isinstance(node.op, ast.Not):
            a = self.off(node.lineno, node.col_offset)
            b = self.off(node.operand.lineno, node.operand.col_offset)
            self.out.append((a, b, b"", "drop `not`", node.lineno))
        elif isinstance(node.op, ast.USub) and not isinstance(node.operand, ast.Constant):
            a = self.off(node.lineno, node.col_offset)
            self.out.append((a, a + 1, b"+", "unary - -> +", node.lineno))
        self.generic_visit(node)

    def visit_Constant(self, node):
        v = node.value
        a = self.off(node.lineno, node.col_offset)
        b = self.off(node.end_lineno, node.end_col_offset)
        if v is True or v is False:
            self.out.append((a, b, str(not v).encode(), f"const {v} -> {not v}", node.lineno))
        elif isinstance(v, int) and 0 <= v <= 100 and self.src[a:b].isdigit():
            self.out.append((a, b, str(v + 1).encode(), f"const {v} -> {v + 1}", node.lineno))
            if v > 0:
                self.out.append((a, b, str(v - 1).encode(), f"const {v} -> {v - 1}", node.lineno))

    def visit_If(self, node):
        a = self.off(node.test.lineno, node.test.col_offset)
        b = self.off(node.test.end_lineno, node.test.end_col_offset)
        cond = self.src[a:b]
        if b"\n" not in cond:
            self.out.append((a, b, b"(" + cond + b") and False", "if-branch never taken", node.lineno))
            self.out.append((a, b, b"(" + cond + b") or True", "if-branch always taken", node.lineno))
        self.generic_visit(node)

    def visit_Subscript(self, node):
        sl = node.slice
        if isinstance(sl, ast.Slice):
            for part, name in ((sl.lower, "lower"), (sl.upper, "upper")):
                if part is not None and not isinstance(part, ast.Constant):
                    a = self.off(part.lineno, part.col_offset)
                    b = self.off(part.end_lineno, part.end_col_offset)
                    e = self.src[a:b]
                    if b"\n" not in e:
                        self.out.append((a, b, b"(" + e + b") + 1", f"slice {name} + 1", node.lineno))
        self.generic_visit(node)

    def visit_Call(self, node):
        # swap the first two positional arguments of a call when they are plain names
        if len(node.args) >= 2 and all(isinstance(x, ast.Name) for x in node.args[:2]) \
                and node.args[0].id != node.args[1].id:
            x, y = node.args[:2]
            a = self.off(x.lineno, x.col_offset)
            b = self.off(y.end_lineno, y.end_col_offset)
            seg = self.src[a:b]
            if b"\n" not in seg:
                self.out.append((a, b, y.id.encode() + b", " + x.id.encode(), f"swap args {x.id},{y.id}", node.lineno))
        self.generic_visit(node)


def sites_of(path: Path):
    src = path.read_bytes()
    v = Sites(src)
    v.visit(ast.parse(src))
    good = []
    for (a, b, new, what, ln) in v.out:
        mutated = src[:a] + new + src[b:]
        try:
            t = ast.parse(mutated)
        except SyntaxError:
            continue
        if ast.dump(t) == ast.dump(ast.parse(src)):
            continue
        good.append(dict(start=a, end=b, new=new.decode(), what=what, line=ln,
                         text=src.split(b"\n")[ln - 1].decode().strip()[:120]))
    return good


def stable_pass():
    return set(json.load(open("/root/.vp/BASELINE.json"))["stable_pass"])


def run_tests(wt: Path, junit: Path, timeout=600):
    env = dict(os.environ, PYTHONPATH=str(wt), PYTHONHASHSEED="0")
    env.pop("MOKAPOT_VERIF", None)
    try:
        subprocess.run(["/venv/bin/python", "-m", "pytest", "-q", "-p", "no:cacheprovider", "--timeout=300",
                        "--continue-on-collection-errors", f"--junitxml={junit}", "tests"],
                       cwd=wt, env=env, capture_output=True, timeout=timeout)
    except subprocess.TimeoutExpired:
        return False, "timeout"
    try:
        root = ET.parse(junit).getroot()
    except Exception:  # noqa: BLE001
        return False, "no-junit"
    ok = set()
    seen = set()
    for tc in root.iter("testcase"):
        name = f"{tc.get('classname')}::{tc.get('name')}"
        seen.add(name)
        if not any(ch.tag in ("failure", "error", "skipped") for ch in tc):
            ok.add(name)
    missing = stable_pass() - ok
    return (not missing), sorted(missing)[:3]


def run_check(wt: Path, prop: str, scratch: Path, timeout=900):
    env = dict(os.environ, MOKAPOT_REPO=str(wt), VERIF_EVIDENCE_DIR=str(scratch / "evidence"),
               VERIF_REPLAY_DIR=str(scratch / "replays"))
    try:
        r = subprocess.run([str(VERIF / "check"), prop], cwd=VERIF, env=env, capture_output=True, text=True,
                           timeout=timeout)
    except subprocess.TimeoutExpired:
        return "timeout", ""
    tail = [l for l in r.stdout.splitlines() if l.startswith("VIOLATION")][:1]
    return r.returncode, (tail[0] if tail else "")


def worker(idx: int, jobs: list, out: Path, results: Path):
    wt = out / f"wt{idx}"
    subprocess.run(["git", "-C", str(REPO), "worktree", "add", "-q", "--detach", str(wt), "HEAD"], check=True)
    scratch = out / f"scratch{idx}"
    scratch.mkdir(exist_ok=True)
    fp = file_props()
    try:
        while True:
            try:
                job = jobs.pop()
            except IndexError:
                break
            f = wt / job["file"]
            orig = f.read_bytes()
            f.write_bytes(orig[:job["start"]] + job["new"].encode() + orig[job["end"]:])
            try:
                ok, why = run_tests(wt, scratch / "junit.xml")
                rec = dict(job)
                if not ok:
                    rec["outcome"] = "tests"
                    rec["detail"] = why
                else:
                    caught = []
                    other = []
                    for p in fp[job["file"]]:
                        rc, line = run_check(wt, p, scratch)
                        if rc == 1:
                            caught.append(p)
                        elif rc != 0:
                            other.append(f"{p}:exit{rc}")
                    rec["outcome"] = "caught" if caught else "survived"
                    rec["caught_by"] = caught
                    rec["other"] = other
                with open(results, "a") as fh:
                    fh.write(json.dumps(rec) + "\n")
            finally:
                f.write_bytes(orig)
    finally:
        subprocess.run(["git", "-C", str(REPO), "worktree", "remove", "--force", str(wt)])


def main():
    ap = argparse.ArgumentParser()
    ap.add_argument("--out", required=True)
    ap.add_argument("--workers", type=int, default=6)
    ap.add_argument("--files", nargs="*")
    ap.add_argument("--max-per-file", type=int, default=40)
    ap.add_argument("--seed", type=int, default=0)
    ap.add_argument("--list", action="store_true")
    a = ap.parse_args()
    out = Path(a.out)
    out.mkdir(parents=True, exist_ok=True)
    fp = file_props()
    files = a.files or sorted(fp)
    rng = random.Random(a.seed)
    results = out / "results.jsonl"
    done = set()
    if results.exists():
        for l in results.read_text().splitlines():
            d = json.loads(l)
            done.add((d["file"], d["start"], d["new"]))
    jobs = []
    for f in files:
        ss = sites_of(REPO / f)
        rng.shuffle(ss)
        n = 0
        for s in ss:
            if n >= a.max_per_file:
                break
            n += 1
            if (f, s["start"], s["new"]) in done:
                continue
            jobs.append(dict(file=f, **s))
        print(f"{f}: {len(ss)} sites, {min(len(ss), a.max_per_file)} sampled", file=sys.stderr)
    if a.list:
        for j in jobs:
            print(json.dumps(j))
        return
    rng.shuffle(jobs)
    print(f"{len(jobs)} jobs", file=sys.stderr)
    with ThreadPoolExecutor(a.workers) as ex:
        futs = [ex.submit(worker, i, jobs, out, results) for i in range(a.workers)]
        for fu in futs:
            fu.result()


if __name__ == "__main__":
    main()
