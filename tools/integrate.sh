#!/bin/sh
# tools/integrate.sh Cxx Area  — copy a builder's deliverables from /tmp/build/Cxx/verif into /verif
set -e
P=$1; A=$2; S=/tmp/build/$P/verif; L=lean/MokapotVerif
cd /verif
for f in $S/$L/Model/$A*.lean $S/$L/Ops/$A*.lean $S/$L/Lemmas/$A*.lean $S/$L/Props/$P*.lean $S/$L/Mutants/$A*.lean $S/$L/Spec/$A*.lean; do
  [ -f "$f" ] && cp "$f" "${f#$S/}" && echo "  + ${f#$S/}"
done
lc=$(echo $P | tr 'C' 'c')
cp $S/harness/$lc*.py harness/ && echo "  + harness/$lc*.py"
[ -f $S/harness/corpus/$P.json ] && mkdir -p harness/corpus && cp $S/harness/corpus/$P.json harness/corpus/ && echo "  + corpus"
python3 tools/gen_lean.py
