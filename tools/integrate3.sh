#!/bin/sh
# tools/integrate3.sh Cxx [suffix]  — integrate a third-pass builder's deliverables from its clone /tmp/build/Cxx<suffix>/verif
# (a `git clone` of /verif at some base commit): every file the builder changed or added, except evidence/replays and the
# shared files; DESIGN.md A.3 row and the manifest_src entry of this property are merged separately.
set -e
P=$1; SUF=${2:-g}; S=/tmp/build/${P}${SUF}/verif
cd $S
BASE=$(git rev-parse HEAD)
CH=$( (git diff --name-only HEAD; git ls-files --others --exclude-standard) | sort -u | grep -v '^evidence/\|^replays/\|^DESIGN.md$\|^MANIFEST.json$\|^tools/manifest_src.json$\|^lean/MokapotVerif/Generated/\|^lean/MokapotVerif/OpsAll.lean$\|^lean/MokapotVerif.lean$\|__pycache__\|^lean/lake-manifest' || true)
cd /verif
for f in $CH; do
  if [ -f "$S/$f" ]; then
    if git cat-file -e $BASE:"$f" 2>/dev/null && [ -f "$f" ] && ! git diff --quiet $BASE -- "$f"; then echo "  ! CONFLICT (changed in /verif since $BASE): $f"; fi
    mkdir -p "$(dirname "$f")"; cp "$S/$f" "$f"; echo "  + $f"
  else
    echo "  - (deleted by builder, kept here) $f"
  fi
done
/venv/bin/python - "$P" "$S" <<'PY'
import sys, json
P, S = sys.argv[1], sys.argv[2]
def row(text):
    for l in text.splitlines():
        if l.startswith(f"| {P} |"):
            return l
mine = open("/verif/DESIGN.md").read(); theirs = open(S + "/DESIGN.md").read()
a, b = row(mine), row(theirs)
if a and b and a != b:
    open("/verif/DESIGN.md", "w").write(mine.replace(a, b, 1)); print("  ~ DESIGN.md A.3 row")
m = json.load(open("/verif/tools/manifest_src.json")); t = json.load(open(S + "/tools/manifest_src.json"))
cm, ct = m["checks"].get(P), t["checks"].get(P)
if cm is not None and ct is not None and cm != ct:
    cm.clear(); cm.update(ct)
    json.dump(m, open("/verif/tools/manifest_src.json", "w"), indent=1); print("  ~ manifest_src.json entry")
PY
python3 tools/gen_lean.py
python3 tools/manifest.py >/dev/null && echo "  MANIFEST regenerated"
