#!/bin/sh
# tools/integrate_ext.sh Cxx Area — integrate an audit/extend builder's deliverables from /tmp/build/Cxxe/verif
set -e
P=$1; A=$2; S=/tmp/build/${P}${SUF:-e}/verif; L=lean/MokapotVerif
cd /verif
for f in $S/$L/Model/$A*.lean $S/$L/Ops/$A*.lean $S/$L/Lemmas/$A*.lean $S/$L/Props/$P*.lean $S/$L/Mutants/$A*.lean $S/$L/Spec/$A*.lean; do
  [ -f "$f" ] && cp "$f" "${f#$S/}" && echo "  + ${f#$S/}"
done
lc=$(echo $P | tr 'C' 'c')
cp $S/harness/$lc*.py harness/ && echo "  + harness/$lc*.py"
[ -f $S/harness/corpus/$P.json ] && mkdir -p harness/corpus && cp $S/harness/corpus/$P.json harness/corpus/ && echo "  + corpus"
[ -f $S/GAPS-$P.md ] && mkdir -p gaps && cp $S/GAPS-$P.md gaps/ && echo "  + gaps/GAPS-$P.md"
# DESIGN.md A.3 row and manifest_src entry of this property only
/venv/bin/python - "$P" "$S" <<'PY'
import sys, json, re
P, S = sys.argv[1], sys.argv[2]
def row(text):
    for l in text.splitlines():
        if l.startswith(f"| {P} |"):
            return l
mine = open("/verif/DESIGN.md").read(); theirs = open(S + "/DESIGN.md").read()
a, b = row(mine), row(theirs)
if a and b and a != b:
    open("/verif/DESIGN.md", "w").write(mine.replace(a, b, 1)); print("  ~ DESIGN.md A.3 row")
m = json.load(open("/verif/tools/manifest_src.json")); t = json.load(open(S + "/tools/manifest_src.json"))
def find(d):
    return d["checks"].get(P)
cm, ct = find(m), find(t)
if cm is not None and ct is not None and cm != ct:
    cm.clear(); cm.update(ct)
    json.dump(m, open("/verif/tools/manifest_src.json", "w"), indent=1); print("  ~ manifest_src.json entry")
PY
python3 tools/gen_lean.py
python3 tools/manifest.py >/dev/null && echo "  MANIFEST regenerated"
