#!/venv/bin/python
"""tools/review_sources.py — record the AST hashes of the anchored source files the models were last reviewed against
(harness/source_hashes.json).  Run by the builder after a reviewed change of /repo (e.g. a `fix:` commit); the checks
only use it to enlarge their generation budget when a file differs."""
import json
import sys
from pathlib import Path

sys.path.insert(0, str(Path(__file__).resolve().parent.parent / "harness"))
import common  # noqa: E402

files = set()
for line in (common.VERIF / "properties.jsonl").read_text().splitlines():
    files.update(json.loads(line)["anchors"]["files"])
ref = {f: common._ast_hash(common.REPO / f) for f in sorted(files)}
(common.VERIF / "harness" / "source_hashes.json").write_text(json.dumps(ref, indent=1) + "\n")
print(len(ref), "files recorded")
