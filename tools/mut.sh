#!/bin/sh
# tools/mut.sh Cxx 'sed-expression' file   — run ./check Cxx against a scratch worktree of /repo with one edit
P=$1; EXPR=$2; F=$3
WT=/tmp/wt-mut-$$
git -C /repo worktree add -q $WT HEAD || exit 2
sed -i "$EXPR" $WT/$F
if git -C $WT diff --quiet; then echo "MUTATION DID NOT APPLY"; git -C /repo worktree remove --force $WT; exit 2; fi
git -C $WT diff | grep '^[-+]' | grep -v '^+++\|^---' | head -6
MOKAPOT_REPO=$WT /verif/check $P 2>&1 | grep -v "^$" | tail -${4:-3}
git -C /repo worktree remove --force $WT
