#!/usr/bin/env python3
"""Regenerate MANIFEST.json from tools/manifest_src.json (claimed checks) — keeps the file valid."""
import json
from pathlib import Path

V = Path(__file__).resolve().parent.parent
src = json.loads((V / "tools" / "manifest_src.json").read_text())
props = [json.loads(l)["id"] for l in (V / "properties.jsonl").read_text().splitlines() if l.strip()]
checks = []
for pid in props:
    c = src["checks"].get(pid)
    if not c:
        continue
    checks.append(
        {
            "property_id": pid,
            "quick_cmd": f"./check {pid} --tier quick",
            "thorough_cmd": f"./check {pid} --tier thorough",
            "evidence_file": f"evidence/{pid}.json",
            "replay_cmd_template": f"./check {pid} --replay {{path}}",
            "engine": "lean-proof+correspondence",
            "level_claimed": {"category": "proof", "text": c["text"], "design_ref": c.get("design_ref", f"DESIGN.md §5 {pid}")},
            "level_note": c["note"],
            "technique": c["technique"],
        }
    )
na = [{"property_id": pid, "reason": src["not_applicable"].get(pid, "check not built yet in this round; see DESIGN.md §5")}
      for pid in props if pid not in src["checks"]]
m = {
    "version": 1,
    "setup_cmd": "python3 tools/gen_lean.py && cd lean && lake build 2>&1 | tail -5",
    "hooks": {
        "guard": "MOKAPOT_VERIF",
        "enable": "no instrumentation commits in /repo; checks import mokapot from /repo's working tree (editable install in /venv) with MOKAPOT_VERIF=1 set",
        "baseline_off_cmd": "cd /repo && /venv/bin/python -m pytest -ra -q -p no:cacheprovider --timeout=900 --continue-on-collection-errors",
        "source_commits": [],
        "add_only": True,
    },
    "engines": [
        {
            "name": "lean-proof+correspondence",
            "path": "check",
            "serves_properties": [c["property_id"] for c in checks],
            "kind_free_text": "Lean 4 theorems about hand-written executable models (lean/MokapotVerif), tied to /repo on every run by a differential correspondence harness (harness/*.py) that drives the compiled Lean model over a line protocol, plus obligations over tables regenerated from /repo's AST (tools/gen_lean.py)",
        }
    ],
    "checks": checks,
    "notes": src.get("notes", ""),
    "not_applicable": na,
}
(V / "MANIFEST.json").write_text(json.dumps(m, indent=1) + "\n")
print(f"{len(checks)} claimed, {len(na)} not claimed")
