#!/usr/bin/env python3
"""tools/add_finding.py <property> <Dnn> <commit> <what…>  — append a fixed: entry to known_findings.json (development tool)"""
import json, sys
p, d, c = sys.argv[1:4]; what = " ".join(sys.argv[4:])
k = json.load(open("/verif/known_findings.json"))
k["findings"].append(dict(property=p, id=d, status="fixed", commit=c, what=what, line=f"fixed: property={p} {c} {what}"))
json.dump(k, open("/verif/known_findings.json", "w"), indent=1, ensure_ascii=False)
print("added", d)
