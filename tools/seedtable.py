#!/usr/bin/env python3
"""tools/seedtable.py <wave letter>  — markdown rows of DESIGN §A.6 for the seeded changes seeded/Cxx<letter>-* (from their meta.json)"""
import glob, json, os, sys
w = sys.argv[1]
for d in sorted(glob.glob(f"/verif/seeded/C[0-9][0-9]{w}-*")):
    m = json.load(open(d + "/meta.json"))
    c = m.get("confirmed_by_builder", {})
    caught = ", ".join(c.get("checks_that_catch_it", [])) or "?"
    status = ("missed → strengthened" if c.get("initially_missed") else "caught as built") if c else "pending"
    if c.get("caught_by_neighbour"):
        status = "caught by a neighbouring check"
    needs = " ".join(str(m.get("manifests_when", "")).split())[:160]
    print(f"| `seeded/{os.path.basename(d)}` | {m['property']} | {needs} | {caught} | {status} |")
